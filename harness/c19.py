"""C19 - the development server transports requests and responses faithfully (partial).

Streams
  chunklen  DechunkedInput.read_chunk_len on size lines (hex case, sign, 0x, underscores, whitespace,
            extensions, garbage) vs Model.Chunked.chunkLenOf. Oracle: a plain hex size is returned, a
            negative / non-hex line is an OSError, nothing else escapes.
  dechunk   wire encodings of chunk lists (sizes 1..n, hex case, CRLF/LF) and malformed wires (truncated,
            negative, non-hex, unterminated) x read schedules, raw and through io.BufferedReader, vs
            Model.Chunked.readMany replaying the readinto() calls actually issued. Oracle: what is
            delivered is a prefix of the payload, equals it at EOF, and malformed framing never ends in a
            clean EOF - it raises OSError.
  encode    the harness' chunk encoder vs Model.Chunked.encode (the encoder the round-trip theorem is about)
  server    the real WSGIRequestHandler driven in-process over a socket pair: request lines, header sets,
            Content-Length and chunked bodies, application responses. Oracle: the application saw exactly
            method / decoded path / query / headers / body, the client received exactly status / headers /
            body; chunked framing only on HTTP/1.1 without Content-Length and never for HEAD, 1xx, 204, 304.
            Every byte the writer put on the wire is also predicted by Model.DevServer.runWsgi (status line,
            Server/Date values as opaque inputs, headers, Transfer-Encoding, Connection: close, framed body).
  makeenv   make_environ as a whole on the request line / headers as http.server parsed them (urlsplit incl.
            absolute-form, the '//' repair, percent-decoding + latin-1 dance, QUERY_STRING, HTTP_HOST fallback,
            wsgi.input_terminated) vs Model.DevServer.makeEnviron; oracle: PATH_INFO is the percent-decoded path
            sent, the query verbatim (known finding F19b for '//' prefixes).
  hspath    handler.path for a request target vs Model.DevServer.httpServerPath (the one documented stdlib step)
  environ   make_environ's header folding (underscore names dropped, repeats comma-joined, CONTENT_TYPE /
            CONTENT_LENGTH un-prefixed, line folds removed) on the headers as http.server parsed them vs
            Model.Chunked.foldHeaders.
"""
from __future__ import annotations

import importlib.util
import io
import os
import re
import sys

from harness.pyprelude import PreludeKernels
from vlib.core import VERIF, Check, Stream, b01, hs, hx, line, unhx

_GEN = None


def gen_mod():
    """tools/gen/c19.py (in-memory driver of the real handler), imported by path"""
    global _GEN
    if _GEN is None:
        tools = os.path.join(VERIF, "tools")
        if tools not in sys.path:
            sys.path.append(tools)
        spec = importlib.util.spec_from_file_location("wz_gen_c19", os.path.join(tools, "gen", "c19.py"))
        _GEN = importlib.util.module_from_spec(spec)
        spec.loader.exec_module(_GEN)
    return _GEN


# --------------------------------------------------------------------------


class ChunkLenStream(Stream):
    name = "chunklen"
    SAMPLES = [
        "0", "5", "a", "A", "ff", "FF", "1f", "0010", "64", "deadbeef", "5\r", " 5 ", "\t5", "5 ", "+5", "-5", "-0", "+0", "0x5", "0X1f", "-0x5",
        "0x", "x5", "5x", "1_0", "1__0", "_1", "1_", "0x_1", "0_x1", "", " ", "zz", "g", "5;ext=1", "5 ; x", "5\x00", "\xa05", "5\x85", "\x1f5",
        "\xb2", "٥", "5.0", "1e3", "0b1", "0o7", "- 5", "+-5", "--5", "0x-5", "5,", "ÿ", "0" * 40 + "1", "f" * 30,
    ]
    corpus = [{"line": hx((s + nl).encode("latin-1", "replace"))} for s in SAMPLES for nl in ("\r\n", "\n", "")]

    def cases(self, rng, tier):
        alpha = list("0123456789abcdefABCDEFxX_+- \t;gz\r\x00\xa0\x85\x1c")
        while True:
            n = rng.choice([1, 1, 2, 3, 4, 6])
            s = "".join(rng.choice(alpha) for _ in range(n))
            yield {"line": hx((s + rng.choice(["\r\n", "\n", ""])).encode("latin-1"))}

    def real(self, case):
        from werkzeug.serving import DechunkedInput

        return str(DechunkedInput(io.BytesIO(unhx(case["line"]))).read_chunk_len())

    def model_line(self, case):
        return line("chunk.len", case["line"])

    def oracle(self, case, real_out):
        ln = unhx(case["line"])
        text = ln.split(b"\n")[0]
        if text.endswith(b"\r"):
            text = text[:-1]
        if real_out.startswith("EXC") and real_out != "EXC:OSError":
            return f"read_chunk_len raised {real_out[4:]} instead of OSError"
        if re.fullmatch(rb"[0-9a-fA-F]+", text):
            if real_out != str(int(text, 16)):
                return f"plain hex size {text!r} gave {real_out}"
        elif text.startswith(b"-") and text not in (b"-0",) and re.fullmatch(rb"-[0-9a-fA-F]+", text) and int(text, 16) < 0:
            if real_out != "EXC:OSError":
                return f"negative size {text!r} gave {real_out}"
        elif not re.search(rb"[0-9a-fA-F]", text):
            if real_out != "EXC:OSError":
                return f"non-hex size line {text!r} gave {real_out}"
        return None

    def bucket(self, case, real_out):
        return "error" if real_out.startswith("EXC") else "value"


# --------------------------------------------------------------------------


def py_encode(chunks, final_term):
    """chunks: list of (data, term 'c'|'l', upper bool)"""
    out = b""
    for data, t, upper in chunks:
        nl = b"\r\n" if t == "c" else b"\n"
        size = (b"%X" if upper else b"%x") % len(data)
        out += size + nl + data + nl
    nl = b"\r\n" if final_term == "c" else b"\n"
    return out + b"0" + nl + nl


def make_spy(DechunkedInput):
    class Spy(DechunkedInput):
        def __init__(self, rfile):
            super().__init__(rfile)
            self.trace = []

        def readinto(self, buf):
            n = len(buf)
            ent = {"size": n}
            self.trace.append(ent)
            try:
                k = DechunkedInput.readinto(self, buf)
            except BaseException as e:
                ent["res"] = "EXC:" + type(e).__name__
                raise
            if len(buf) != n:
                ent["res"] = "RESIZED"
            else:
                ent["res"] = bytes(buf[:k])
            return k

    return Spy


def fmt(r):
    return "ok:" + hx(r) if isinstance(r, bytes) else r


class FragRaw(io.RawIOBase):
    """a socket-like raw stream: every read delivers at most `k` bytes of what 'has arrived'"""

    def __init__(self, data: bytes, k: int):
        self.data, self.k, self.pos = data, k, 0

    def readable(self):
        return True

    def readinto(self, b):
        n = min(len(b), self.k, len(self.data) - self.pos)
        b[:n] = self.data[self.pos : self.pos + n]
        self.pos += n
        return n

    def tell(self):
        return self.pos


def run_dechunk(case):
    from werkzeug.serving import DechunkedInput

    wire = unhx(case["wire"])
    frag = case.get("frag")
    if frag:
        # what the handler has: a BufferedReader over the socket. read(n) must block until n bytes
        # (or EOF) although each raw read brings at most frag[0] bytes and the buffer holds frag[1]
        rfile = io.BufferedReader(FragRaw(wire, frag[0]), frag[1])
    else:
        rfile = io.BytesIO(wire)
    spy = make_spy(DechunkedInput)(rfile)
    obj = spy if case["mode"] == "raw" else io.BufferedReader(spy, case["bufsize"])
    outs = []
    for tok in case["ops"]:
        k, arg = tok[0], tok[1:]
        try:
            if k == "r":
                outs.append(obj.read(int(arg)))
            elif k == "a":
                outs.append(obj.read())
            elif k == "l":
                outs.append(obj.readline())
            elif k == "i":
                b = bytearray(int(arg))
                cnt = obj.readinto(b)
                outs.append("RESIZED" if len(b) != int(arg) else bytes(b[:cnt]))
        except Exception as e:  # noqa: BLE001
            outs.append("EXC:" + type(e).__name__)
    rest = len(wire) - rfile.tell()
    if case["mode"] != "raw":
        try:
            obj.detach()
        except Exception:  # noqa: BLE001
            pass
    return spy, outs, rest


CHUNK_DATA = [b"a", b"ab", b"abc", b"0123456789", b"\r\n", b"\n", b"0\r\n\r\n", b"5\r\nhello\r\n", b"x" * 16, b"y" * 17, b"z" * 255, b"w" * 256, b"\x00\xff\x80", b"q" * 1000]


def gen_chunks(rng):
    n = rng.choice([0, 1, 1, 2, 3, 5, 8])
    style = rng.choice(["c", "l", "mix"])
    up = rng.choice([True, False, None])
    out = []
    for _ in range(n):
        d = rng.choice(CHUNK_DATA) if rng.random() < 0.7 else bytes(rng.randrange(256) for _ in range(rng.randrange(1, 40)))
        out.append((d, style if style != "mix" else rng.choice("cl"), up if up is not None else rng.random() < 0.5))
    return out, (style if style != "mix" else rng.choice("cl"))


def gen_ops(rng, raw):
    r = rng.random()
    if r < 0.25:
        return ["a"]
    k = rng.choice([1, 1, 2, 3, 7, 16, 17, 100, 8192])
    if r < 0.5:
        return [f"r{k}"] * rng.choice([1, 3, 10, 40])
    ops = []
    for _ in range(rng.choice([2, 4, 8, 20])):
        q = rng.random()
        size = rng.choice([1, 2, 3, 5, 10, 16, 17, 255, 256, 1000, 5000])
        ops.append(f"r{size}" if q < 0.6 else ("l" if q < 0.75 else (f"i{size}" if q < 0.92 else "a")))
    return ops


def malform(rng, chunks, final_term):
    """returns (wire, good payload prefix, kind)"""
    wire = py_encode(chunks, final_term)
    payload = b"".join(d for d, _, _ in chunks)
    r = rng.random()
    if r < 0.3 and len(wire) > 1:
        # truncated anywhere: what may be delivered is the payload of the complete chunks plus the
        # received part of the chunk that was cut
        cut = rng.randrange(0, len(wire))
        good, off = b"", 0
        for d, t, up in chunks:
            nl = 2 if t == "c" else 1
            data_start = off + len("%x" % len(d)) + nl
            if cut <= data_start:
                break
            good += d[: min(len(d), cut - data_start)]
            off = data_start + len(d) + nl
        # a lone CR at the very end is one of the three terminators the code accepts
        kind = "lenient" if (final_term == "c" and cut == len(wire) - 1) else "malformed"
        return wire[:cut], good, kind
    i = rng.randrange(0, len(chunks) + 1)
    head = py_encode(chunks[:i], "c")[:-5]
    good = b"".join(d for d, _, _ in chunks[:i])
    tail = py_encode(chunks[i:], final_term)
    if r < 0.45:
        return head + b"-5\r\nhello\r\n" + tail, good, "malformed"
    if r < 0.6:
        return head + rng.choice([b"zz", b"", b"g1", b"5;ext=1", b"five"]) + b"\r\n" + b"hello\r\n" + tail, good, "malformed"
    if r < 0.75:
        # chunk data not followed by a line terminator
        return head + b"5\r\nhello" + rng.choice([b"X", b"XX\r\n", b"5\r\n"]) + tail, good + b"hello", "malformed"
    # spellings int(s, 16) accepts: neither demanded nor forbidden by the property
    size = rng.choice([b"+5", b"0x5", b"0X5", b" 5 ", b"0_5", b"00005", b"\t5"])
    return head + size + b"\r\nhello" + rng.choice([b"\r\n", b"\n"]) + tail, None, "lenient"


class DechunkStream(Stream):
    name = "dechunk"
    corpus = [
        # F19 (fixed by 68c4de0): a body that ended inside a chunk was returned padded with stale buffer memory
        {"wire": hx(b"64\r\n0123456789"), "good": hx(b"0123456789"), "kind": "malformed", "mode": "raw", "bufsize": 0, "ops": ["r20"]},
        {"wire": hx(b"64\r\n0123456789"), "good": hx(b"0123456789"), "kind": "malformed", "mode": "raw", "bufsize": 0, "ops": ["a"]},
        {"wire": hx(b"64\r\n0123456789"), "good": hx(b"0123456789"), "kind": "malformed", "mode": "buffered", "bufsize": 4, "ops": ["r20", "r20"]},
        {"wire": hx(b"3\r\nabc\r\n64\r\n0123"), "good": hx(b"abc0123"), "kind": "malformed", "mode": "raw", "bufsize": 0, "ops": ["r2", "r2", "r2", "r2", "r2"]},
        {"wire": hx(b"3\r\nabc\r\n2\nde\n0\r\n\r\n"), "good": hx(b"abcde"), "kind": "ok", "mode": "raw", "bufsize": 0, "ops": ["r2", "r2", "r5", "r1"]},
        {"wire": hx(b"3\r\nabc\r\n2\nde\n0\r\n\r\n"), "good": hx(b"abcde"), "kind": "ok", "mode": "raw", "bufsize": 0, "ops": ["r3", "r2", "r1"]},
        {"wire": hx(b"A\r\n0123456789\r\n0\r\n\r\n"), "good": hx(b"0123456789"), "kind": "ok", "mode": "buffered", "bufsize": 3, "ops": ["a"]},
        {"wire": hx(b"0\r\n\r\n"), "good": hx(b""), "kind": "ok", "mode": "raw", "bufsize": 0, "ops": ["r5", "a"]},
        {"wire": hx(b"0\r\n"), "good": hx(b""), "kind": "malformed", "mode": "raw", "bufsize": 0, "ops": ["r5"]},
        {"wire": hx(b""), "good": hx(b""), "kind": "malformed", "mode": "raw", "bufsize": 0, "ops": ["r5"]},
        {"wire": hx(b"-5\r\nhello\r\n0\r\n\r\n"), "good": hx(b""), "kind": "malformed", "mode": "raw", "bufsize": 0, "ops": ["a"]},
        {"wire": hx(b"5\r\nhelloXX0\r\n\r\n"), "good": hx(b"hello"), "kind": "malformed", "mode": "raw", "bufsize": 0, "ops": ["r5", "r5"]},
        {"wire": hx(b"5;x=1\r\nhello\r\n0\r\n\r\n"), "good": hx(b""), "kind": "malformed", "mode": "raw", "bufsize": 0, "ops": ["a"]},
        {"wire": hx(b"3\r\nabc\r\n0\r\nX-T: 1\r\n\r\n"), "good": "~", "kind": "lenient", "mode": "raw", "bufsize": 0, "ops": ["a"]},
        # the chunk data is not completely buffered when it is asked for: read(n) must wait for it (a read1 /
        # recv style "what has arrived" read would report a body that ended inside a chunk)
        {"wire": hx(b"c\r\nhello, world\r\n0\r\n\r\n"), "good": hx(b"hello, world"), "kind": "ok", "mode": "raw", "bufsize": 0, "frag": [4, 16], "ops": ["a"]},
        {"wire": hx(b"c\r\nhello, world\r\n0\r\n\r\n"), "good": hx(b"hello, world"), "kind": "ok", "mode": "raw", "bufsize": 0, "frag": [1, 1], "ops": ["r5", "r100"]},
        {"wire": hx(b"64\r\n" + b"x" * 100 + b"\r\n0\r\n\r\n"), "good": hx(b"x" * 100), "kind": "ok", "mode": "raw", "bufsize": 0, "frag": [7, 16], "ops": ["r100", "r1"]},
        {"wire": hx(b"5000\r\n" + b"y" * 0x5000 + b"\r\n0\r\n\r\n"), "good": hx(b"y" * 0x5000), "kind": "ok", "mode": "buffered", "bufsize": 8192, "frag": [1460, 8192], "ops": ["a"]},
        {"wire": hx(b"64\r\n0123456789"), "good": hx(b"0123456789"), "kind": "malformed", "mode": "raw", "bufsize": 0, "frag": [3, 16], "ops": ["r20"]},
    ]

    def cases(self, rng, tier):
        while True:
            chunks, ft = gen_chunks(rng)
            mode = rng.choice(["raw", "raw", "buffered"])
            case = {"mode": mode, "bufsize": rng.choice([1, 2, 3, 8, 64, 8192]) if mode != "raw" else 0, "ops": gen_ops(rng, mode == "raw")}
            if rng.random() < 0.5:
                case["frag"] = [rng.choice([1, 2, 3, 7, 16, 100]), rng.choice([1, 16, 64])]
            if rng.random() < 0.6:
                case.update(wire=hx(py_encode(chunks, ft)), good=hx(b"".join(d for d, _, _ in chunks)), kind="ok")
            else:
                wire, good, kind = malform(rng, chunks, ft)
                case.update(wire=hx(wire), good="~" if good is None else hx(good), kind=kind)
            yield case

    def real(self, case):
        spy, outs, rest = run_dechunk(case)
        return ";".join(fmt(e["res"]) for e in spy.trace) + f"|{spy._len}|{b01(spy._done)}|{rest}"

    def model_line(self, case):
        spy, outs, rest = run_dechunk(case)
        return line("dechunk.run", case["wire"], ",".join(str(e["size"]) for e in spy.trace) or "[]")

    def oracle(self, case, real_out):
        spy, outs, rest = run_dechunk(case)
        kind = case["kind"]
        good = None if case["good"] == "~" else unhx(case["good"])
        got = b""
        clean_eof = False
        for tok, o in zip(case["ops"], outs):
            if isinstance(o, str):
                if o == "RESIZED":
                    return "readinto changed the size of the caller's buffer"
                if o != "EXC:OSError":
                    return f"{o[4:]} raised instead of OSError"
                if kind == "ok":
                    return "well-formed chunked body raised OSError"
                break
            got += o
            if tok == "a" or (tok[0] in "ri" and int(tok[1:]) > 0 and o == b"") or (tok == "l" and o == b""):
                clean_eof = True
        for e in spy.trace:
            if e["res"] == "RESIZED":
                return "readinto changed the size of the caller's buffer"
        if good is not None and good[: len(got)] != got:
            return "delivered bytes are not a prefix of the chunked payload (framing or stale bytes delivered as body data)"
        if kind == "ok" and clean_eof and got != good:
            return "end of body reported before the whole payload was delivered"
        if kind == "malformed" and clean_eof:
            return "malformed chunk framing ended in a clean end of body instead of OSError"
        return None

    def nontrivial(self, case, real_out):
        return len(unhx(case["wire"])) > 5

    def bucket(self, case, real_out):
        return f"{case['kind']}/{case['mode']}/" + ("frag/" if case.get("frag") else "") + ("err" if "EXC" in real_out else "ok")

    def mutate(self, case, rng):
        for i in range(len(case["ops"])):
            c = dict(case)
            c["ops"] = case["ops"][:i] + case["ops"][i + 1 :]
            if c["ops"]:
                yield c
        c = dict(case)
        c["mode"], c["bufsize"] = "raw", 0
        yield c


class EncodeStream(Stream):
    name = "encode"
    corpus = [{"chunks": [], "ft": "c"}, {"chunks": [[hx(b"abc"), "c", False], [hx(b"x" * 255), "l", True]], "ft": "l"}]

    def cases(self, rng, tier):
        n = 0
        while tier != "quick" or n < 300:
            n += 1
            chunks, ft = gen_chunks(rng)
            yield {"chunks": [[hx(d), t, up] for d, t, up in chunks], "ft": ft}

    def real(self, case):
        return hx(py_encode([(unhx(d), t, up) for d, t, up in case["chunks"]], case["ft"]))

    def model_line(self, case):
        return line("chunk.encode", ",".join(f"{d}:{t}:{'u' if up else 'd'}" for d, t, up in case["chunks"]) or "[]", case["ft"])

    def bucket(self, case, real_out):
        return f"chunks={min(len(case['chunks']), 5)}"


# --------------------------------------------------------------------------

SEGMENTS = ["a", "b%20c", "%C3%A9", "%E6%97%A5%E6%9C%AC", "x;y=1", "a,b", "~t", "a+b", "%41", "%7e", "%2F", "idx.html", "a%25b", "%F0%9F%98%80", "-._", "@:"]
QUERIES = ["", "", "x=1", "a=%20&b=%C3%A9", "q=a+b&q=c", "k", "a=b?c=d", "%26=%3D", "x=/y//z"]
REQ_HEADERS = [("Content-Encoding", "gzip"), ("Content-Encoding", "br"), ("Content-Disposition", "inline"), ("Content-Language", "en"), ("content-md5", "Q2hlY2s="),
               ("Content-Typex", "t"), ("X-Content-Type", "u"), ("Content_Length", "9"), ("Server-Name", "sn"), ("X-Author", "Anders Ångström".encode().decode("latin-1")), ("X-Ctl", "a\x0bb\x0cc\x1cd\x1de\x1ef\x85g"), ("X-Care-Of", "℅ x".encode().decode("latin-1")), ("X-Custom", "v1"), ("X-Repeat", "1"), ("X-Repeat", "2"), ("x-repeat", "3"), ("Accept", "*/*"), ("X_Under", "u"), ("X-Under", "dash"), ("Content-Type", "text/plain; charset=utf-8"), ("Cookie", "a=b; c=d"), ("x-lower", "lv"), ("X-MiXed-Case", "Mv"), ("Accept-Language", "en, de;q=0.5"), ("X-Empty", ""), ("X-Comma", "a, b"), ("User_Agent", "evil")]
STATUSES = ["200 OK", "200 OK", "201 Created", "204 No Content", "304 Not Modified", "404 Not Found", "500 Internal Server Error", "100 Continue", "101 Switching Protocols", "302 Found", "299 Custom Reason Phrase", "205 Reset Content", "199 Odd"]
RESP_HEADERS = [("Content-Type", "text/plain"), ("X-Dup", "1"), ("X-Dup", "2"), ("Set-Cookie", "a=b"), ("Set-Cookie", "c=d; Path=/"), ("Location", "/next?x=1"), ("X-Empty", ""), ("ETag", '"abc"')]
PIECES = [b"", b"hello", b"x" * 1000, b"\r\n", b"0\r\n\r\n", b"5\r\nhello\r\n", b"\x00\xff", b"tail"]


F19B_MARK = " [F19b: the leading slashes of an origin-form '//...' target arrive collapsed to one, nothing else differs]"


def is_f19b(target: str, got_path, raw_path: str) -> bool:
    """exactly the shape of known finding F19b: an origin-form target that starts with '//' whose
    PATH_INFO is what the target gives once its run of leading slashes (as sent, before percent-decoding)
    is reduced to a single one - and is otherwise the percent-decoded path. Any other difference on such a
    target is a violation of its own."""
    return (isinstance(got_path, str) and target.startswith("//") and raw_path.startswith("//")
            and got_path == pct_decode("/" + raw_path.lstrip("/")).decode("latin-1"))


# the keys make_environ fills from the request line / connection; every other str-valued key of the environ
# comes from a request header (observing "HTTP_* or CONTENT_TYPE/LENGTH" would not see a header that was
# filed under another name)
BASE_ENV_KEYS = {"SERVER_SOFTWARE", "REQUEST_METHOD", "SCRIPT_NAME", "PATH_INFO", "QUERY_STRING", "REQUEST_URI", "RAW_URI", "REMOTE_ADDR", "REMOTE_PORT",
                 "SERVER_NAME", "SERVER_PORT", "SERVER_PROTOCOL", "SSL_CLIENT_CERT"}


def is_header_key(k: str) -> bool:
    return k not in BASE_ENV_KEYS and not k.startswith(("wsgi.", "werkzeug."))


def pct_decode(s: str) -> bytes:
    out = bytearray()
    i = 0
    while i < len(s):
        if s[i] == "%" and re.fullmatch(r"[0-9a-fA-F]{2}", s[i + 1 : i + 3]):
            out.append(int(s[i + 1 : i + 3], 16))
            i += 3
        else:
            out += s[i].encode("latin-1")
            i += 1
    return bytes(out)


def build_request(case) -> bytes:
    body = unhx(case["body"])
    lines = [f"{case['method']} {case['target']} {case['version']}", "Host: client.example"]
    for k, v in case["headers"]:
        lines.append(f"{k}: {v}")
    payload = b""
    if case["framing"] == "cl":
        lines.append(f"Content-Length: {len(body)}")
        payload = body
    elif case["framing"] == "chunked":
        if case.get("cl_extra") is not None:
            lines.append(f"Content-Length: {case['cl_extra']}")  # a (bogus) Content-Length next to chunked: chunked wins
        lines.append("Transfer-Encoding: " + case.get("te", "chunked"))  # transfer-coding names are case-insensitive
        chunks, off = [], 0
        for n, t, up in case["chunks"]:
            chunks.append((body[off : off + n], t, up))
            off += n
        assert off == len(body)
        payload = py_encode(chunks, case["final_term"])
    # `trail`: what the client sends after this request on the same connection (a pipelined next request)
    return ("\r\n".join(lines) + "\r\n\r\n").encode("latin-1") + payload + unhx(case.get("trail", "-"))


def run_server_case(case):
    g = gen_mod()
    seen = {}

    def app(environ, start_response):
        from werkzeug.wsgi import get_input_stream

        seen["environ"] = {k: v for k, v in environ.items() if isinstance(v, str)}
        seen["terminated"] = "wsgi.input_terminated" in environ
        got = []
        try:
            stream = get_input_stream(environ)
            for n in case["reads"]:
                got.append(stream.read(n))
            if not case.get("partial"):  # `partial`: the application stops reading there
                got.append(stream.read())
        except Exception as e:  # noqa: BLE001
            seen["body_exc"] = type(e).__name__
        seen["body"] = b"".join(got)
        r = case["resp"]
        pieces = [unhx(p) for p in r["pieces"]]
        headers = [(k, v) for k, v in r["headers"]]
        if r["cl"]:
            headers.append(("Content-Length", str(sum(len(p) for p in pieces))))
        write = start_response(r["status"], headers)
        for p in pieces[: r["nwrite"]]:
            write(p)
        return iter(pieces[r["nwrite"] :])

    req = build_request(case)
    split_at = None
    if case.get("split") is not None:
        # cut inside the body: `split` counts from the end of the request head
        split_at = req.index(b"\r\n\r\n") + 4 + case["split"]
        if not 0 < split_at < len(req):
            split_at = None
    raw = g.run_socketpair(req, app, case["protocol"], split_at=split_at)
    status_line, headers, body, ok = g.split_response(raw)
    return seen, status_line, headers, body, ok, raw


def gen_server_case(rng):
    segs = [rng.choice(SEGMENTS) for _ in range(rng.randrange(0, 4))]
    path = "/" + "/".join(segs)
    r = rng.random()
    if r < 0.08:
        path = "/" + path  # '//' prefix
    elif r < 0.2:
        path = rng.choice(["http://abs.example", "http://abs.example:8080", "https://abs.example"]) + path
    q = rng.choice(QUERIES)
    target = path + ("?" + q if q else "")
    method = rng.choice(["GET", "GET", "POST", "POST", "PUT", "HEAD", "DELETE", "PATCH", "OPTIONS"])
    headers = rng.sample(REQ_HEADERS, rng.randrange(0, 7))
    framing = rng.choice(["none", "cl", "chunked", "chunked"]) if method in ("POST", "PUT", "PATCH", "DELETE") else rng.choice(["none", "none", "cl", "chunked"])
    body = b""
    chunks = []
    if framing != "none":
        n = rng.choice([0, 1, 5, 16, 17, 100, 1000, 5000])
        body = bytes(rng.choice(b"abcdefghij\r\n0123456789 \x00\xff") for _ in range(n))
        if framing == "chunked":
            off = 0
            style = rng.choice(["c", "l", "mix"])
            if rng.random() < 0.04:
                n = rng.choice([8192, 9000, 20000])
                body = bytes(rng.choice(b"abcdefghij\r\n0123456789 \x00\xff") for _ in range(n))
            while off < n:
                k = min(n - off, rng.choice([1, 2, 3, 7, 16, 17, 100, 999] if n < 8000 else [n, 8192, 8193, 5000]))
                chunks.append([k, style if style != "mix" else rng.choice("cl"), rng.random() < 0.5])
                off += k
    pieces = [rng.choice(PIECES) for _ in range(rng.choice([0, 1, 1, 2, 3, 4]))]
    return {
        "method": method,
        "target": target,
        "version": rng.choice(["HTTP/1.1", "HTTP/1.1", "HTTP/1.0"]),
        "headers": [list(h) for h in headers],
        "framing": framing,
        "body": hx(body),
        "chunks": chunks,
        "final_term": rng.choice("cl"),
        "te": rng.choice(["chunked", "chunked", "chunked", "Chunked", "CHUNKED", "chunked "]),
        "split": rng.choice([1, 3, 7, 20]) if (framing != "none" and rng.random() < 0.03) else None,
        "cl_extra": rng.choice([0, 3, len(body), 99999]) if (framing == "chunked" and rng.random() < 0.15) else None,
        "trail": hx(rng.choice([b"GET /next HTTP/1.1\r\nHost: x\r\n\r\n", b"POST /p HTTP/1.1\r\nContent-Length: 3\r\n\r\nabc", b"garbage"])) if rng.random() < 0.12 else "-",
        "partial": rng.random() < 0.08,
        "reads": [rng.choice([1, 2, 3, 16, 17, 100, 4096]) for _ in range(rng.choice([0, 0, 1, 3, 8]))],
        "protocol": rng.choice(["HTTP/1.1", "HTTP/1.1", "HTTP/1.0"]),
        "resp": {
            "status": rng.choice(STATUSES),
            "headers": [list(h) for h in rng.sample(RESP_HEADERS, rng.randrange(0, 5))],
            "pieces": [hx(p) for p in pieces],
            "cl": rng.random() < 0.4,
            "nwrite": rng.randrange(0, len(pieces) + 1) if rng.random() < 0.3 else 0,
        },
    }


def base_case(**kw):
    c = {
        "method": "GET", "target": "/", "version": "HTTP/1.1", "headers": [], "framing": "none", "body": "-", "chunks": [], "final_term": "c",
        "reads": [], "protocol": "HTTP/1.1", "resp": {"status": "200 OK", "headers": [["Content-Type", "text/plain"]], "pieces": [hx(b"hello")], "cl": False, "nwrite": 0},
    }
    c.update(kw)
    return c


class ServerStream(Stream):
    name = "server"
    corpus = [
        base_case(),
        base_case(method="HEAD"),
        base_case(protocol="HTTP/1.0"),
        base_case(resp={"status": "204 No Content", "headers": [], "pieces": [], "cl": False, "nwrite": 0}),
        base_case(resp={"status": "304 Not Modified", "headers": [["ETag", '"abc"']], "pieces": [hx(b"x")], "cl": False, "nwrite": 0}),
        base_case(resp={"status": "100 Continue", "headers": [], "pieces": [hx(b"x")], "cl": False, "nwrite": 0}),
        base_case(resp={"status": "200 OK", "headers": [["X-Dup", "1"], ["X-Dup", "2"]], "pieces": [hx(b""), hx(b"a"), hx(b""), hx(b"bc")], "cl": False, "nwrite": 2}),
        base_case(resp={"status": "200 OK", "headers": [], "pieces": [hx(b"abc")], "cl": True, "nwrite": 0}),
        base_case(method="POST", framing="chunked", body=hx(b"0123456789abcdefg"), chunks=[[16, "c", False], [1, "l", True]], reads=[16, 1]),
        base_case(method="POST", framing="chunked", body=hx(b"0123456789abcdefg"), chunks=[[1, "l", True]] * 17, final_term="l", reads=[3, 3, 3]),
        base_case(method="POST", framing="cl", body=hx(b"a=1&b=2"), headers=[["Content-Type", "application/x-www-form-urlencoded"]]),
        base_case(target="/a%20b/%C3%A9?q=%20&r=%C3%A9", headers=[["X-Repeat", "1"], ["X_Under", "u"], ["X-Repeat", "2"]]),
        base_case(target="http://abs.example:8080/p/%2F?x=1"),
        base_case(target="//double/slash?x=1"),  # known finding F19b
        # chunk data that is not completely in the handler's 8 KiB buffer when it is asked for
        base_case(method="POST", framing="chunked", body=hx(b"z" * 0x5000), chunks=[[0x5000, "c", False]], reads=[]),
        base_case(method="POST", framing="chunked", body=hx(b"z" * 0x5000), chunks=[[0x5000, "c", False]], reads=[100, 9000, 3]),
        base_case(method="POST", framing="chunked", body=hx(bytes(range(256)) * 40), chunks=[[10240, "l", True]], reads=[4096]),
        # ... or arrives in two TCP writes: `c\r\nhell` | `o, world\r\n0\r\n\r\n`
        base_case(method="POST", framing="chunked", body=hx(b"hello, world"), chunks=[[12, "c", False]], reads=[], split=7),
        base_case(method="POST", framing="chunked", body=hx(b"hello, world"), chunks=[[5, "c", False], [7, "c", False]], reads=[3], split=1),
        base_case(method="POST", framing="cl", body=hx(b"hello, world"), reads=[], split=4),
        base_case(headers=[["X-Author", "Anders Ångström".encode().decode("latin-1")], ["X-Ctl", "a\x0bb\x0cc\x1cd\x1de\x1ef\x85g"]]),
        # a pipelined second request follows on the connection: it must neither leak into the body nor be answered
        base_case(method="POST", framing="cl", body=hx(b"a=1&b=2"), trail=hx(b"GET /next HTTP/1.1\r\nHost: x\r\n\r\n")),
        base_case(method="POST", framing="chunked", body=hx(b"hello, world"), chunks=[[5, "c", False], [7, "l", True]], trail=hx(b"GET /next HTTP/1.1\r\nHost: x\r\n\r\n")),
        base_case(method="POST", framing="cl", body=hx(b"0123456789"), reads=[3], partial=True, trail=hx(b"GET /next HTTP/1.1\r\nHost: x\r\n\r\n")),
        base_case(method="POST", framing="chunked", body=hx(b"0123456789"), chunks=[[4, "c", False], [6, "c", False]], reads=[5], partial=True),
        base_case(method="POST", framing="cl", body=hx(b"0123456789"), reads=[], partial=True),
        # Content-Length next to Transfer-Encoding: chunked (any letter case): the chunked framing decides
        base_case(method="POST", framing="chunked", body=hx(b"hello, world"), chunks=[[12, "c", False]], cl_extra=3),
        base_case(method="POST", framing="chunked", body=hx(b"hello, world"), chunks=[[12, "c", False]], cl_extra=99999, te="Chunked"),
        base_case(method="POST", framing="chunked", body=hx(b"hello, world"), chunks=[[12, "c", False]], cl_extra=0, te="CHUNKED "),
    ]

    def cases(self, rng, tier):
        n = 0
        while tier != "quick" or n < 1500:
            n += 1
            yield gen_server_case(rng)

    def _observe(self, case):
        import json

        key = json.dumps(case, sort_keys=True)
        memo = self.__dict__.setdefault("_memo", {})
        if key not in memo:
            if len(memo) > 5000:
                memo.clear()
            memo[key] = self._run_guarded(case)
        return memo[key]

    @staticmethod
    def _run_guarded(case, limit=8.0):
        """one socket-pair run under its own time limit; a run that stalls (a loaded machine can park the
        in-process server for many seconds) is repeated once before the per-case watchdog of the runner
        reports it - a hang of the implementation itself stalls both attempts and is still reported"""
        import signal
        import threading

        from vlib.core import HangTimeout

        if threading.current_thread() is not threading.main_thread():
            return run_server_case(case)

        class Stalled(BaseException):
            pass

        def fire(signum, frame):
            raise Stalled()

        left = signal.getitimer(signal.ITIMER_REAL)[0]
        old = signal.signal(signal.SIGALRM, fire)
        try:
            for attempt in (0, 1):
                signal.setitimer(signal.ITIMER_REAL, limit)
                try:
                    return run_server_case(case)
                except Stalled:
                    if attempt == 1:
                        raise HangTimeout() from None
                finally:
                    signal.setitimer(signal.ITIMER_REAL, 0)
        finally:
            signal.signal(signal.SIGALRM, old)
            if left > 0:
                signal.setitimer(signal.ITIMER_REAL, max(0.5, left))  # hand the runner's watchdog back

    def real(self, case):
        seen, status_line, headers, body, ok, raw = self._observe(case)
        return hx(self._no_clock(raw))

    @staticmethod
    def _no_clock(raw):
        """the Date header's value is the only time-dependent part of the answer: fixed placeholder"""
        head, sep, body = raw.partition(b"\r\n\r\n")
        return re.sub(rb"\r\nDate: [^\r]*", b"\r\nDate: DATE", head, count=1) + sep + body

    def model_line(self, case):
        # everything the writer put on the wire; the values of the Server / Date headers that
        # http.server's send_response adds are opaque inputs taken from the real answer
        seen, status_line, headers, body, ok, raw = self._observe(case)
        if not ok:
            return None
        r = case["resp"]
        pieces = [unhx(p) for p in r["pieces"]]
        app_headers = [tuple(h) for h in r["headers"]]
        if r["cl"]:
            app_headers.append(("Content-Length", str(sum(len(p) for p in pieces))))
        server_headers = [(k, "DATE" if k == "Date" else v) for k, v in headers[:2] if k in ("Server", "Date")]
        pl = lambda hl: ",".join(hs(k) + ":" + hs(v) for k, v in hl) or "[]"  # noqa: E731
        return line("resp.wire", hs(case["protocol"]), hs(r["status"]), pl(server_headers), pl(app_headers), b01(case["method"] == "HEAD"),
                    ",".join(r["pieces"][: r["nwrite"]]) or "[]", ",".join(r["pieces"][r["nwrite"] :]) or "[]")

    def oracle(self, case, real_out):
        if real_out.startswith("EXC"):
            return f"driving the handler raised {real_out[4:]}"
        seen, status_line, headers, wire_body, ok, raw = self._observe(case)
        if not ok or "environ" not in seen:
            return f"no complete response / the application was not called: {raw[:60]!r}"
        env = seen["environ"]
        # ---- what the application saw
        if env.get("REQUEST_METHOD") != case["method"]:
            return f"REQUEST_METHOD {env.get('REQUEST_METHOD')!r} != {case['method']!r}"
        target = case["target"]
        m = re.match(r"[a-z]+://([^/?]*)", target)
        netloc = None
        if m:
            netloc = m.group(1)
            target = target[m.end() :] or "/"
        path, _, query = target.partition("?")
        want_path = pct_decode(path).decode("latin-1")
        known_shape = None  # F19b is reported only when nothing else is wrong with the case (see finding_key)
        if env.get("PATH_INFO") != want_path:
            what = f"PATH_INFO {env.get('PATH_INFO')!r} != percent-decoded path {want_path!r}"
            if is_f19b(case["target"], env.get("PATH_INFO"), path):
                known_shape = what + F19B_MARK
            else:
                return what
        if env.get("QUERY_STRING") != query:
            return f"QUERY_STRING {env.get('QUERY_STRING')!r} != {query!r}"
        expect = {}
        sent = [("Host", "client.example")] + [tuple(h) for h in case["headers"]]
        body = unhx(case["body"])
        if case["framing"] == "cl":
            sent.append(("Content-Length", str(len(body))))
        elif case["framing"] == "chunked":
            if case.get("cl_extra") is not None:
                sent.append(("Content-Length", str(case["cl_extra"])))
            sent.append(("Transfer-Encoding", case.get("te", "chunked")))
        for k, v in sent:
            if "_" in k:
                continue
            key = k.upper().replace("-", "_")
            if key not in ("CONTENT_TYPE", "CONTENT_LENGTH"):
                key = "HTTP_" + key
            expect[key] = v if key not in expect else expect[key] + "," + v
        if netloc is not None:
            expect["HTTP_HOST"] = netloc
        got = {k: v for k, v in env.items() if is_header_key(k)}
        if got != expect:
            return f"headers seen by the application {got!r} != sent {expect!r}"
        if "body_exc" in seen:
            return f"reading the request body raised {seen['body_exc']}"
        if case.get("partial"):
            # the application stopped early: what it read is the front of the body, nothing of what follows it
            want = body[: sum(case["reads"])]
            if seen["body"] != want:
                return f"request body read by the application ({len(seen['body'])} bytes) is not the first {len(want)} bytes sent"
        elif seen["body"] != body:
            return f"request body seen by the application ({len(seen['body'])} bytes) != sent ({len(body)} bytes)"
        if raw.count(b"HTTP/1.") != 1 + sum(p.count(b"HTTP/1.") for p in map(unhx, case["resp"]["pieces"])):
            return "more than one response was written for one request (the connection must be closed after the first)"
        # ---- what the client received
        r = case["resp"]
        code, _, reason = r["status"].partition(" ")
        parts = status_line.split(b" ", 2)
        if len(parts) < 2 or parts[1] != code.encode() or (parts[2] if len(parts) > 2 else b"") != reason.encode():
            return f"status line {status_line!r} does not carry {r['status']!r}"
        pieces = [unhx(p) for p in r["pieces"]]
        app_headers = [tuple(h) for h in r["headers"]]
        if r["cl"]:
            app_headers.append(("Content-Length", str(sum(len(p) for p in pieces))))
        added = {"server", "date", "transfer-encoding", "connection"}
        got_h = [(k, v) for k, v in headers if k.lower() not in added]
        if got_h != app_headers:
            return f"response headers {got_h!r} != produced {app_headers!r}"
        te = [v.lower() for k, v in headers if k.lower() == "transfer-encoding"]
        chunked = "chunked" in te
        payload = b"".join(pieces)
        if chunked:
            code_i = int(code)
            if not (case["protocol"] >= "HTTP/1.1") or r["cl"] or case["method"] == "HEAD" or 100 <= code_i < 200 or code_i in (204, 304):
                return "chunked framing used although Content-Length was given / not HTTP/1.1 / HEAD / 1xx / 204 / 304"
            # strict de-framing by an independent decoder
            dec, rest = b"", wire_body
            while True:
                mm = re.match(rb"([0-9a-fA-F]+)\r\n", rest)
                if not mm:
                    return "chunked response body is not well-formed"
                n = int(mm.group(1), 16)
                rest = rest[mm.end() :]
                if n == 0:
                    if rest != b"\r\n":
                        return "chunked response body does not end with the zero chunk"
                    break
                dec, rest = dec + rest[:n], rest[n:]
                if not rest.startswith(b"\r\n"):
                    return "chunk data not followed by CRLF"
                rest = rest[2:]
            if dec != payload:
                return "de-chunked response body != what the application produced"
        elif wire_body != payload:
            return "response body != what the application produced"
        return known_shape

    def finding_key(self, case, what):
        return "F19b" if what.endswith(F19B_MARK) else None

    def nontrivial(self, case, real_out):
        return case["framing"] != "none" or len(case["resp"]["pieces"]) > 0

    def bucket(self, case, real_out):
        return f"req={case['framing']}/{'HEAD' if case['method'] == 'HEAD' else 'other'}/resp={'chunked' if real_out.startswith('1') else 'plain'}"

    def mutate(self, case, rng):
        for k, v in (("protocol", "HTTP/1.0"), ("protocol", "HTTP/1.1"), ("method", "HEAD"), ("method", "GET")):
            if case[k] != v:
                c = dict(case)
                c[k] = v
                yield c
        for st in STATUSES:
            c = dict(case)
            c["resp"] = dict(case["resp"], status=st)
            yield c


HDR_NAMES = ["X-A", "x-a", "X-a", "X_A", "X-B", "Accept", "accept", "Content-Type", "content-type", "Content-Length", "CONTENT-LENGTH", "Content_Type", "X-A-B", "X-A_B", "Cookie", "Host", "User-Agent", "User_Agent", "X.Dot", "X1",
             # every branch of the key mapping: the two un-prefixed names exactly, other Content-* names, and names that
             # differ from the two by case / prefix / suffix / underscore
             "Content-Encoding", "content-encoding", "Content-Disposition", "Content-Range", "Content-MD5", "Content-Language", "Content-Location", "Content-Typex",
             "Content-Type-", "Content-Lengths", "X-Content-Type", "X-Content-Length", "Content", "Content-", "Content_Length", "Content-Type_", "Http-Content-Type",
             "Http-Host", "HTTP-X-A", "Server-Name", "Remote-Addr", "Path-Info", "Wsgi.Input"]
# ordinary latin-1 header data that str.splitlines() would treat as line breaks, and UTF-8 text whose bytes contain 0x85
ODD_VALUES = ["a\x0bb", "a\x0cb", "a\x1cb", "a\x1db", "a\x1eb", "a\x85b", "tail\x85", "Anders Ångström".encode().decode("latin-1"),
              "Ņ".encode().decode("latin-1"), "℅ 5".encode().decode("latin-1"), "x\x0b\x0c\x1c\x1d\x1e\x85y"]
HDR_VALUES = ["1", "2", "v", "a, b", "", "text/plain", "12", "x=y; z", "a\r\n b", "q\r\n\tr", "  padded  ", "é", "0"] + ODD_VALUES


class EnvironStream(Stream):
    """header folding of make_environ vs Model.Chunked.foldHeaders (input = http.server's parsed headers)"""

    name = "environ"
    corpus = [
        {"headers": [["X-A", "1"], ["X_A", "2"], ["x-a", "3"]]},
        {"headers": [["Content-Type", "a/b"], ["content-type", "c/d"], ["Content_Type", "e/f"]]},
        {"headers": [["X-Fold", "a\r\n b"], ["X-Fold", "c"]]},
        {"headers": [["User_Agent", "evil"], ["User-Agent", "good"]]},
        {"headers": []},
        {"headers": [["Content-Encoding", "gzip"], ["Content-Encoding", "br"], ["Content-Type", "a/b"]]},
        {"headers": [["Content-Disposition", "inline"], ["Content-Typex", "t"], ["X-Content-Type", "u"], ["Content-Length", "0"], ["content-length", "00"]]},
        {"headers": [["Content-Language", "en"], ["content-language", "de"], ["Content-Range", "bytes 0-1/2"], ["Content-MD5", "x"], ["Content-Location", "/l"]]},
    ] + [{"headers": [["X-Author", v], ["X-Author", "second"]]} for v in ODD_VALUES]

    def cases(self, rng, tier):
        n = 0
        while tier != "quick" or n < 800:
            n += 1
            yield {"headers": [[rng.choice(HDR_NAMES), rng.choice(HDR_VALUES)] for _ in range(rng.randrange(0, 7))]}

    def _observe(self, case):
        g = gen_mod()
        seen = {}

        def app(environ, start_response):
            seen["env"] = [(k, v) for k, v in environ.items() if isinstance(v, str) and is_header_key(k)]
            start_response("200 OK", [("Content-Length", "0")])
            return []

        raw = "GET / HTTP/1.1\r\n" + "".join(f"{k}: {v}\r\n" for k, v in case["headers"]) + "\r\n"
        out, h = g.run_in_memory(raw.encode("latin-1"), app, want_handler=True)
        return seen.get("env"), list(h.headers.items()) if getattr(h, "headers", None) is not None else None

    def real(self, case):
        env, parsed = self._observe(case)
        if env is None:
            return "NOT-CALLED"
        return ",".join(hs(k) + ":" + hs(v) for k, v in env) or "[]"

    def model_line(self, case):
        env, parsed = self._observe(case)
        if env is None or parsed is None:
            return None
        return line("env.fold", ",".join(hs(k) + ":" + hs(v) for k, v in parsed) or "[]")

    def oracle(self, case, real_out):
        env, parsed = self._observe(case)
        if env is None:
            return None  # http.server refused the request itself (outside the model)
        expect = {}
        for k, v in parsed:
            if "_" in k:
                continue
            key = k.upper().replace("-", "_")
            v = v.replace("\r\n", "")
            if key in ("CONTENT_TYPE", "CONTENT_LENGTH"):
                expect[key] = v
            else:
                key = "HTTP_" + key
                expect[key] = v if key not in expect else expect[key] + "," + v
        if dict(env) != expect:
            return f"environ headers {dict(env)!r} != headers sent (underscore names dropped, repeats comma-joined) {expect!r}"
        # the bytes the client put into each value (CRLF of folded lines aside) arrive unchanged
        sent = {}
        for k, v in case["headers"]:
            if "_" in k:
                continue
            key = k.upper().replace("-", "_")
            sent.setdefault(key, []).append(v)
        for key, vals in sent.items():
            ek = key if key in ("CONTENT_TYPE", "CONTENT_LENGTH") else "HTTP_" + key
            got = dict(env).get(ek)
            if got is None:
                return f"header {key} not delivered"
            want = [v.replace("\r\n", "").strip(" \t") for v in vals]
            if key in ("CONTENT_TYPE", "CONTENT_LENGTH"):
                ok = got.strip(" \t") == want[-1]
            else:
                ok = [x.strip(" \t") for x in got.split(",")] == [y for w in want for y in (x.strip(" \t") for x in w.split(","))]
            if not ok:
                return f"bytes of header {key} changed in transit: sent {vals!r}, environ has {got!r}"
        return None

    def nontrivial(self, case, real_out):
        return len(case["headers"]) > 1

    def bucket(self, case, real_out):
        return f"n={min(len(case['headers']), 4)}" + ("/underscore" if any("_" in k for k, _ in case["headers"]) else "")


TARGET_SEGS = SEGMENTS + ["%zz", "%4", "%", "%C3", "%FF%FE", "a:b", "x%3Fy", "%23", "..", "."]


def gen_target(rng):
    segs = [rng.choice(TARGET_SEGS) for _ in range(rng.randrange(0, 4))]
    path = "/" + "/".join(segs)
    r = rng.random()
    if r < 0.1:
        path = "/" + path
    elif r < 0.16:
        path = "///" + path
    elif r < 0.3:
        path = rng.choice(["http://abs.example", "http://abs.example:8080", "https://abs.example", "HTTP://Abs.Example", "x+y.z://n", "//netloc.example", "http://u:p@h"]) + path
    elif r < 0.33:
        return rng.choice(["*", "abs.example:443", "a:b", "/", "/?", "/??", "/a?b#c", "/#frag", "http:/one-slash", "http:no-slash", ":x", "1a://n/p"])
    q = rng.choice(QUERIES + ["a#b", "?x", "%zz"])
    return path + ("?" + q if q else "")


class MakeEnvironStream(Stream):
    """make_environ as a whole (method, PATH_INFO, QUERY_STRING, SERVER_PROTOCOL, REQUEST_URI, headers,
    HTTP_HOST fallback, wsgi.input_terminated) vs Model.DevServer.makeEnviron; the model's input is what
    http.server parsed (handler.command / path / request_version / headers.items())"""

    name = "makeenv"
    corpus = [
        {"method": "GET", "target": t, "version": "HTTP/1.1", "headers": hdrs}
        for t in ["/", "/a%20b/%C3%A9?q=%20", "//double/slash?x=1", "http://abs.example:8080//p/%2F?x=1", "/a?b?c", "/a#frag", "*", "/%zz%4", "/%FF", "///x", "abs.example:443", "/a;p=1?x=y#z"]
        for hdrs in ([], [["Transfer-Encoding", "chunked"]], [["Transfer-Encoding", " Chunked "], ["Host", "h.example"]], [["Transfer-Encoding", "gzip, chunked"]])
    ]

    def cases(self, rng, tier):
        n = 0
        while tier != "quick" or n < 1200:
            n += 1
            hdrs = [[rng.choice(HDR_NAMES + ["Transfer-Encoding", "transfer-encoding", "Transfer_Encoding"]), rng.choice(HDR_VALUES + ["chunked", "Chunked", " chunked ", "gzip"])] for _ in range(rng.randrange(0, 5))]
            yield {"method": rng.choice(["GET", "POST", "HEAD", "PUT", "X-CUSTOM"]), "target": gen_target(rng), "version": rng.choice(["HTTP/1.1", "HTTP/1.0"]), "headers": hdrs}

    def _observe(self, case):
        import json

        key = json.dumps(case, sort_keys=True)
        memo = self.__dict__.setdefault("_memo", {})
        if key in memo:
            return memo[key]
        g = gen_mod()
        seen = {}

        def app(environ, start_response):
            seen["env"] = dict(environ)
            start_response("200 OK", [("Content-Length", "0")])
            return []

        raw = f"{case['method']} {case['target']} {case['version']}\r\n" + "".join(f"{k}: {v}\r\n" for k, v in case["headers"]) + "\r\n"
        out, h = g.run_in_memory(raw.encode("latin-1"), app, want_handler=True)
        if len(memo) > 5000:
            memo.clear()
        memo[key] = (seen.get("env"), h)
        return memo[key]

    def real(self, case):
        from werkzeug.serving import DechunkedInput

        env, h = self._observe(case)
        if env is None:
            return "NOT-CALLED"
        hdrs = [(k, v) for k, v in env.items() if isinstance(v, str) and is_header_key(k)]
        term = "wsgi.input_terminated" in env
        if term != isinstance(env["wsgi.input"], DechunkedInput):
            return "INCONSISTENT-INPUT"
        if env["REQUEST_URI"] != env["RAW_URI"]:
            return "INCONSISTENT-URI"
        return "|".join([hs(env["REQUEST_METHOD"]), hs(env["PATH_INFO"]), hs(env["QUERY_STRING"]), hs(env["SERVER_PROTOCOL"]), hs(env["REQUEST_URI"]), b01(term),
                         ",".join(hs(k) + ":" + hs(v) for k, v in hdrs) or "[]"])

    def model_line(self, case):
        env, h = self._observe(case)
        if env is None or getattr(h, "headers", None) is None:
            return None
        return line("env.make", hs(h.command), hs(h.path), hs(h.request_version), ",".join(hs(k) + ":" + hs(v) for k, v in h.headers.items()) or "[]")

    def oracle(self, case, real_out):
        env, h = self._observe(case)
        if env is None:
            return None  # http.server refused the request line itself (outside the model)
        if real_out.startswith("INCONSISTENT"):
            return "wsgi.input_terminated and the DechunkedInput wrapper / REQUEST_URI and RAW_URI disagree"
        target = case["target"]
        if not target.startswith("/") and "://" not in target:
            return None  # asterisk- and authority-form: no path semantics claimed
        m = re.match(r"[A-Za-z][A-Za-z0-9+.-]*://([^/?#]*)", target)
        rest = target[m.end() :] if m else target
        rest = rest.split("#", 1)[0]
        path, _, query = rest.partition("?")
        want = pct_decode(path)
        known_shape = None  # F19b is reported only when nothing else is wrong with the case (see finding_key)
        try:
            want.decode("utf-8")
            got = env["PATH_INFO"].encode("latin-1")
            if got != want:
                what = f"PATH_INFO {got!r} != percent-decoded path {want!r}"
                if is_f19b(target, got.decode("latin-1"), path):
                    known_shape = what + F19B_MARK
                else:
                    return what
        except UnicodeDecodeError:
            pass  # not percent-encoded UTF-8: outside the property's quantifier
        if env["QUERY_STRING"] != query:
            return f"QUERY_STRING {env['QUERY_STRING']!r} != {query!r}"
        if env["REQUEST_METHOD"] != case["method"] or env["SERVER_PROTOCOL"] != case["version"]:
            return "method / protocol not delivered"
        te = [v for k, v in case["headers"] if k.lower() == "transfer-encoding"]
        if len(te) == 1 and te[0].strip().lower() == "chunked" and "wsgi.input_terminated" not in env:
            return "a chunked request was not given a terminated, de-chunking input stream"
        return known_shape

    def finding_key(self, case, what):
        return "F19b" if what.endswith(F19B_MARK) else None

    def nontrivial(self, case, real_out):
        return "%" in case["target"] or "?" in case["target"]

    def bucket(self, case, real_out):
        t = case["target"]
        form = "abs" if "://" in t else ("dslash" if t.startswith("//") else ("origin" if t.startswith("/") else "other"))
        return form + ("/chunked" if real_out.split("|")[-2:-1] == ["1"] else "")


class HttpServerPathStream(Stream):
    """the one step of http.server that the model documents: handler.path for a request target"""

    name = "hspath"
    corpus = [{"target": t} for t in ["/", "//a", "///a//b", "/a//b", "//", "http://h//p", "*", "/a?//b", "//?x"]]

    def cases(self, rng, tier):
        n = 0
        while tier != "quick" or n < 400:
            n += 1
            yield {"target": gen_target(rng)}

    def real(self, case):
        g = gen_mod()

        def app(environ, start_response):
            start_response("200 OK", [("Content-Length", "0")])
            return []

        out, h = g.run_in_memory(f"GET {case['target']} HTTP/1.1\r\n\r\n".encode("latin-1"), app, want_handler=True)
        return hs(h.path)

    def model_line(self, case):
        return line("env.hspath", hs(case["target"]))

    def bucket(self, case, real_out):
        return "dslash" if case["target"].startswith("//") else "other"



# --------------------------------------------------------------------------
# run_wsgi as a state machine: scripted applications


RW_STATUSES = ["200 OK", "201 Created", "204 No Content", "304 Not Modified", "404 Not Found", "500 Oops", "100 Continue", "299 Custom Reason Phrase", "200"]
RW_HEADERS = [[], [], [["Content-Type", "text/plain"]], [["X-A", "1"], ["X-A", "2"]], [["Content-Length", "5"]], [["content-length", "0"]], [["X-Empty", ""]]]
RW_PIECES = [b"", b"hello", b"a", b"x" * 300, b"\r\n", b"0\r\n\r\n", b"\x00\xff"]
RW_EXPECT = [None, None, None, "100-continue", "100-Continue", " 100-continue ", "100-continue, x", "nope"]


class ScriptedIter:
    def __init__(self, script, start_response, box):
        self.script, self.sr, self.box, self.i, self.closed = script, start_response, box, 0, 0

    def __iter__(self):
        return self

    def __next__(self):
        evs = self.script["iter"]
        while self.i < len(evs):
            ev = evs[self.i]
            self.i += 1
            if ev[0] == "S":
                call_start(self.sr, ev, self.box)
            elif ev[0] == "W" and self.box.get("write") is not None:
                self.box["write"](unhx(ev[1]))
                self.box["emitted"].append(unhx(ev[1]))
            else:
                self.box["emitted"].append(unhx(ev[1]))
                return unhx(ev[1])
        self.box["iter_done"] = True
        if self.script["iter_raises"]:
            raise RuntimeError("scripted failure while iterating")
        raise StopIteration


def call_start(start_response, ev, box):
    box["starts"].append(ev)
    if ev[3]:
        try:
            raise ValueError("the application's own error")
        except ValueError:
            box["write"] = start_response(ev[1], [tuple(h) for h in ev[2]], sys.exc_info())
    else:
        box["write"] = start_response(ev[1], [tuple(h) for h in ev[2]])


def make_scripted_app(script, box):
    def app(environ, start_response):
        for ev in script["call"]:
            if ev[0] == "S":
                call_start(start_response, ev, box)
            else:
                box["write"](unhx(ev[1]))
                box["emitted"].append(unhx(ev[1]))
        if script["call_raises"]:
            raise RuntimeError("scripted failure in the application call")
        it = ScriptedIter(script, start_response, box)
        if script["closable"]:
            box["iter"] = it
            it.close = lambda: box.__setitem__("closed", box.get("closed", 0) + 1)
        box["call_done"] = True
        return it

    return app


def fallback_run(method):
    """what InternalServerError() does as a WSGI application for this request method"""
    from werkzeug.exceptions import InternalServerError
    from werkzeug.test import create_environ

    got = {}

    def sr(status, headers, exc_info=None):
        got["status"], got["headers"] = status, list(headers)
        return lambda d: None

    it = InternalServerError()(create_environ("/", method=method), sr)
    body = list(it)
    if hasattr(it, "close"):
        it.close()
    return got["status"], got["headers"], body


def ev_tok(ev):
    if ev[0] == "S":
        return f"S{b01(ev[3])}:{hs(ev[1])}:" + ("&".join(hs(k) + "=" + hs(v) for k, v in ev[2]) or "-")
    return "E" + hx(unhx(ev[1]))


class RunWsgiStream(Stream):
    """WSGIRequestHandler.run_wsgi driven with scripted applications (start_response any number of times, with and
    without exc_info, write() and yielded pieces, exceptions in the call / while iterating, closable iterables,
    Expect: 100-continue) vs Model.DevServerRun.runHandler"""

    name = "runwsgi"

    @staticmethod
    def mk(call, iter_=(), call_raises=False, iter_raises=False, closable=True, method="GET", version="HTTP/1.1", protocol="HTTP/1.1", expect=None):
        return {"method": method, "version": version, "protocol": protocol, "expect": expect, "call": [list(e) for e in call], "call_raises": call_raises,
                "iter": [list(e) for e in iter_], "iter_raises": iter_raises, "closable": closable}

    def __init__(self):
        mk = self.mk
        S = lambda st, h=(), x=False: ["S", st, [list(p) for p in h], x]  # noqa: E731
        E = lambda d: ["E", hx(d)]  # noqa: E731
        W = lambda d: ["W", hx(d)]  # noqa: E731
        H = [("X-A", "1")]
        self.corpus = [
            mk([S("200 OK", H)], [E(b"hello")]),
            mk([S("200 OK", H), E(b"early")], [E(b""), E(b"late"), W(b"direct")]),
            mk([S("200 OK", H)], []),
            mk([S("200 OK", [])], []),
            mk([S("200 OK", []), S("201 Created", H)], [E(b"x")]),                  # F19c family: before bc55b83 a second start_response was let through after an empty list
            mk([S("200 OK", H), S("201 Created", H)], [E(b"x")]),                   # "Headers already set"
            mk([S("200 OK", H), S("500 Oops", [("B", "2")], True)], [E(b"x")]),      # exc_info before anything was sent: replaces
            mk([S("200 OK", H), E(b"early"), S("500 Oops", [("B", "2")], True)], [E(b"x")]),  # ... after: re-raised
            mk([], [E(b"x")]),                                                       # write() before start_response
            mk([], []),                                                              # never calls start_response
            mk([], [S("200 OK", H), E(b"x")]),                                       # start_response from inside the iterator
            mk([S("200 OK", H)], [E(b"part")], iter_raises=True),
            mk([S("200 OK", H + [("Content-Length", "9")])], [E(b"part")], iter_raises=True),
            mk([S("200 OK", [])], [E(b"part")], iter_raises=True),                   # F19c (fixed by bc55b83): the 500 page was appended and the body terminated
            mk([S("200 OK", [])], [E(b"part")], iter_raises=True, protocol="HTTP/1.0"),
            mk([S("200 OK", H)], [], iter_raises=True),
            mk([S("200 OK", H)], [E(b"x")], call_raises=True),
            mk([S("200 OK", H), E(b"w")], [E(b"x")], call_raises=True),
            mk([S("200 OK", H)], [E(b"hello")], expect="100-continue", method="POST"),
            mk([S("200 OK", H)], [E(b"hello")], expect="100-Continue ", method="POST", version="HTTP/1.0"),
            mk([S("200 OK", H)], [E(b"hello")], expect="100-continue", protocol="HTTP/1.0"),
            mk([S("200 OK", H)], [E(b"hello")], method="HEAD"),
            mk([S("204 No Content", H)], [E(b"")], closable=False),
        ]

    def cases(self, rng, tier):
        n = 0
        while tier != "quick" or n < 1500:
            n += 1

            def start():
                return ["S", rng.choice(RW_STATUSES), [list(h) for h in rng.choice(RW_HEADERS)], rng.random() < 0.2]

            def emit(kind="E"):
                return [kind, hx(rng.choice(RW_PIECES))]

            call = []
            r = rng.random()
            if r > 0.08:
                call.append(start())
                while rng.random() < 0.15:
                    call.append(start())
                while rng.random() < 0.25:
                    call.append(emit())
                    if rng.random() < 0.2:
                        call.append(start())
            it = []
            for _ in range(rng.choice([0, 1, 1, 2, 3, 5])):
                q = rng.random()
                it.append(start() if q < 0.1 else emit("W" if q < 0.2 else "E"))
            yield self.mk(call, it, call_raises=rng.random() < 0.1, iter_raises=rng.random() < 0.25, closable=rng.random() < 0.7,
                          method=rng.choice(["GET", "GET", "POST", "HEAD"]), version=rng.choice(["HTTP/1.1", "HTTP/1.1", "HTTP/1.0"]),
                          protocol=rng.choice(["HTTP/1.1", "HTTP/1.1", "HTTP/1.0"]), expect=rng.choice(RW_EXPECT))

    def _observe(self, case):
        import io as _io
        import json
        from unittest import mock

        key = json.dumps(case, sort_keys=True)
        memo = self.__dict__.setdefault("_memo", {})
        if key in memo:
            return memo[key]
        from werkzeug import serving

        g = gen_mod()
        box = {"starts": [], "emitted": [], "write": None, "closed": 0, "logged": 0}
        app = make_scripted_app(case, box)
        lines = [f"{case['method']} / {case['version']}", "Host: client.example"]
        if case["expect"] is not None:
            lines.append(f"Expect: {case['expect']}")
        raw_req = ("\r\n".join(lines) + "\r\n\r\n").encode("latin-1")
        H = type("H", (serving.WSGIRequestHandler,), {"protocol_version": case["protocol"]})
        h = H.__new__(H)
        h.request = h.connection = g.FakeConn()
        h.client_address = ("127.0.0.1", 40000)
        h.server = g.make_server(app)
        h.server.log = lambda type_, msg, *a: box.__setitem__("logged", box["logged"] + (1 if type_ == "error" else 0))
        h.rfile = _io.BytesIO(raw_req)
        h.wfile = _io.BytesIO()
        with mock.patch.object(serving.selectors, "DefaultSelector", g.FakeSelector), mock.patch.object(serving, "_log", lambda *a, **k: None):
            h.handle()
        if len(memo) > 4000:
            memo.clear()
        memo[key] = (h.wfile.getvalue(), box)
        return memo[key]

    CONT = b"HTTP/1.1 100 Continue\r\n\r\n"

    def _split(self, raw):
        k = 0
        while raw.startswith(self.CONT):
            raw = raw[len(self.CONT) :]
            k += 1
        return k, raw

    def real(self, case):
        raw, box = self._observe(case)
        k, rest = self._split(raw)
        return hx(self.CONT * k + ServerStream._no_clock(rest)) + f"|{box['closed']}|{b01(box['logged'] > 0)}"

    def model_line(self, case):
        raw, box = self._observe(case)
        k, rest = self._split(raw)
        _, headers, _, ok = gen_mod().split_response(rest)
        if not ok:
            return None
        server_headers = [(k_, "DATE" if k_ == "Date" else v) for k_, v in headers[:2] if k_ in ("Server", "Date")]
        # what http.server itself has put on the wire before run_wsgi: its own interim response (stdlib, documented rule)
        own = case["expect"] is not None and case["expect"].lower() == "100-continue" and case["protocol"] >= "HTTP/1.1" and case["version"] >= "HTTP/1.1"
        st, hd, body = fallback_run(case["method"])
        pl = lambda hl: ",".join(hs(a) + ":" + hs(b) for a, b in hl) or "[]"  # noqa: E731
        evs = lambda l: ";".join(ev_tok(e) for e in l) or "[]"  # noqa: E731
        req_hs = [("Host", "client.example")] + ([("Expect", case["expect"].strip(" \t"))] if case["expect"] is not None else [])
        return line("run.wsgi", hs(case["protocol"]), pl(server_headers), b01(case["method"] == "HEAD"), hx(self.CONT if own else b""), pl(req_hs),
                    evs(case["call"]), b01(case["call_raises"]), evs(case["iter"]), b01(case["iter_raises"]), b01(case["closable"]),
                    ev_tok(["S", st, hd, False]), ";".join("E" + hx(b) for b in body) or "[]")

    def oracle(self, case, real_out):
        if real_out.startswith("EXC"):
            return f"driving the handler raised {real_out[4:]}"
        raw, box = self._observe(case)
        k, rest = self._split(raw)
        if case["expect"] is None and k:
            return "an interim 100 Continue was sent although the request did not ask for it"
        status_line, headers, wire_body, ok = gen_mod().split_response(rest)
        if not ok:
            return f"no complete response head on the wire: {rest[:60]!r}"
        # close() of the application's iterable: exactly once when the call returned it
        want_closed = 1 if (box.get("call_done") and case["closable"]) else 0
        if box["closed"] != want_closed:
            return f"close() of the application's iterable was called {box['closed']} times, expected {want_closed}"
        te = [v.lower() for k_, v in headers if k_.lower() == "transfer-encoding"]
        chunked = "chunked" in te
        parts = status_line.split(b" ", 2)
        code = int(parts[1]) if len(parts) > 1 and parts[1].isdigit() else -1
        has_cl = any(k_.lower() == "content-length" for k_, v in headers)
        if chunked and (not (case["protocol"] >= "HTTP/1.1") or has_cl or case["method"] == "HEAD" or 100 <= code < 200 or code in (204, 304)):
            return "chunked framing used although Content-Length was given / not HTTP/1.1 / HEAD / 1xx / 204 / 304"
        # de-frame strictly; `complete` = the zero chunk ends the body
        if chunked:
            dec, r, complete = b"", wire_body, False
            while r:
                mm = re.match(rb"([0-9a-f]+)\r\n", r)
                if not mm:
                    return "chunked response body is not well-formed"
                n = int(mm.group(1), 16)
                r = r[mm.end() :]
                if n == 0:
                    if r != b"\r\n":
                        return "bytes follow the terminating chunk"
                    complete = True
                    r = b""
                    break
                if len(r) < n + 2 or r[n : n + 2] != b"\r\n":
                    return "chunk data not followed by CRLF"
                dec, r = dec + r[:n], r[n + 2 :]
            body = dec
        else:
            body, complete = wire_body, None
        if b"\r\nHTTP/1." in rest.partition(b"\r\n\r\n")[0]:
            return "a second status line inside the response head"
        failed = not box.get("iter_done") or case["iter_raises"] or box["logged"] > 0
        emitted = b"".join(box["emitted"])
        if not failed:
            # a completed run: exactly what the application produced
            if not box["starts"]:
                return "the response completed although start_response was never called"
            if body != emitted:
                return "response body != what the application wrote and yielded"
            if chunked and not complete:
                return "chunked response without the terminating chunk"
            return None
        # the application (or the writer) failed
        fb_status, fb_headers, fb_body = fallback_run(case["method"])
        if status_line.endswith(b" " + fb_status.encode()):
            # nothing of the application's response had been sent: the whole answer is the server's 500 page
            if body != b"".join(fb_body) or (chunked and not complete):
                return "the 500 answer for a failed application is not the InternalServerError response"
            return None
        # the application's own head went out before the failure: what follows must be its output up to the
        # failure and must not look complete
        if not emitted.startswith(body):
            return "after the application failed mid-response the body on the wire is not its output up to the failure (F19c, repaired by bc55b83, had the InternalServerError page appended for an empty header list)"
        if chunked and complete:
            return "the application failed mid-response but the chunked body was terminated as if complete"
        return None

    def nontrivial(self, case, real_out):
        return len(case["call"]) + len(case["iter"]) > 1

    def bucket(self, case, real_out):
        parts = real_out.split("|")
        failed = parts[-1] == "1" if len(parts) == 3 else False
        return ("failed" if failed else "ok") + ("/expect" if case["expect"] else "") + ("/HEAD" if case["method"] == "HEAD" else "")

    def mutate(self, case, rng):
        for k in ("call", "iter"):
            for i in range(len(case[k])):
                c = dict(case)
                c[k] = case[k][:i] + case[k][i + 1 :]
                yield c
        for k, v in (("iter_raises", False), ("call_raises", False), ("expect", None), ("protocol", "HTTP/1.1")):
            if case[k] != v:
                c = dict(case)
                c[k] = v
                yield c





CHECK = Check(
    prop="C19",
    gen=["Framing", "RunWsgiFacts", "EnvKeys", "PyFns_Chunked", "PyFns_Url", "UrlTables", "PyFns_MakeEnviron"],
    modules=["WzVerif.Props.C19", "WzVerif.Props.C19T", "WzVerif.Props.C19T2"],
    streams=[ChunkLenStream(), DechunkStream(), EncodeStream(), ServerStream(), RunWsgiStream(), EnvironStream(), MakeEnvironStream(), HttpServerPathStream(), PreludeKernels()],
    assumptions=[
        "C19T2 (WSGIRequestHandler.make_environ as regenerated from the source, up to the TLS client-certificate lookup): urlsplit / unquote (urllib), the TLS flag, the peer and server addresses and server_version are parameters (instantiated with Model/DevServer.lean's urlsplit and pctDecode in the theorems); self.headers.items() is handed over as the list of (name, value) pairs; only the text-valued entries of the environ are kept (wsgi.version, wsgi.input, wsgi.errors, wsgi.multithread, wsgi.multiprocess, wsgi.run_once, werkzeug.socket, REMOTE_PORT are left out), environ['wsgi.input_terminated'] = True is recorded as a flag; client_address is a non-empty (host, port) tuple",
        "DechunkedInput.read_chunk_len and readinto are regenerated from the source by tools/py2lean.py (Gen/PyFns_Chunked.lean) on every run and proved to agree with the hand model for all inputs (Props/C19T): _done / _len and the bytes _rfile still holds are threaded through as explicit state, _rfile.readline / read are the model's primitives, the buffer is a byte list with slice assignment (Util/PyPrelude.lean, stream prelude-kernels), the while loop runs on explicit fuel (len(wire) + 1 suffices: each continuing iteration consumes a byte); a negative _len (never stored by the code) is outside the statement",
        "partial: http.server's request-line / header parsing, sockets, selectors and timing are outside the model; they are only exercised by stream server",
        "rfile is a blocking buffered reader: readline() returns up to and including LF (or everything), read(n) returns n bytes unless the stream ends (modelled as a byte list); that DechunkedInput uses exactly these two calls (not read1 / recv) is the AST obligation serving_io_structure, and the dechunk / server streams feed it through io.BufferedReader over a raw stream that delivers at most k bytes per read, with chunks larger than the buffer and request bodies written to the socket in two pieces",
        "Python int(s, 16) on the stripped latin-1 size line is hand-modelled (sign, 0x prefix, single underscores, surrounding whitespace) and validated by stream chunklen",
        "io.BufferedReader / RawIOBase.readall are treated as arbitrary callers of DechunkedInput.readinto (the theorems hold for every sequence of positive read sizes); the stream replays the calls they issue",
        "chunk extensions and trailers are outside the property's quantifier (the code rejects both with OSError)",
        "make_environ is modelled from http.server's parse result (command, path, request_version, headers.items()); urllib.parse.urlsplit / unquote are hand-modelled for targets of printable ASCII without brackets in the authority (outside that domain the model answers nothing); bytes.decode(errors='replace') is the shared Util.Py model; the splitting of the request line and of header lines by http.server stays outside, except for the documented collapse of a leading '//' (httpServerPath, validated by stream hspath)",
        "the response writer is modelled as a state machine over write() calls; the values of the Server and Date headers added by http.server's send_response are opaque inputs; response_wire_exact assumes status and header lines without CR and header names without ':' (neither werkzeug's writer nor http.server validates them)",
        "run_wsgi as a whole (Model/DevServerRun.lean): the closure variables status_set / headers_set / status_sent / headers_sent / chunk_response, write / start_response (with exc_info) / execute, the Expect: 100-continue interim response and the error path execute(InternalServerError()) are modelled for an application given as the sequence of its start_response / write / yield events, with the points where it raises and whether its iterable has close(); exceptions raised by start_response / write are assumed to propagate out of the application; the interim response http.server itself sends (handle_expect_100: Expect == '100-continue' on HTTP/1.1 handler and request) and what InternalServerError() does as a WSGI application are inputs (taken from the stdlib rule / the real exception class); connection_dropped errors, passthrough_errors, the post-response drain and logging are outside; AST facts about the source the machine transcribes are the obligation run_wsgi_source_structure",
        "F19c (repaired in /repo by bc55b83): run_wsgi tested the truthiness of headers_set / headers_sent, so after start_response(status, []) a failing application got the InternalServerError page appended to its partial body and a chunked response terminated as complete; the model follows the repaired code (identity tests), run_wsgi_error_after_head is full strength, run_wsgi_empty_header_list_regression pins the former failing input, which also stays in the corpus of stream runwsgi",
        "observation (outside the property's quantifier, not a finding): with Expect: 100-continue on HTTP/1.1 the client receives two interim 100 Continue responses (http.server's own and run_wsgi's), and run_wsgi sends its 'HTTP/1.1 100 Continue' also to an HTTP/1.0 request; a request with 'Transfer-Encoding: gzip, chunked' is not de-chunked (only the exact token 'chunked', any case, is recognised) - without Content-Length the application then gets the empty stream",
        "known finding F19b: an origin-form target starting with '//' reaches the application with one leading slash because CPython >= 3.12 http.server collapses it before werkzeug runs; no Lean witness (request-line parsing is outside the model)",
        "the handler's protocol_version (set by the server) decides chunked responses; the request line's HTTP version is not consulted (table column, see framing_table_matches_model) - a chunked response can be sent to an HTTP/1.0 client of an HTTP/1.1 server",
    ],
    trusted_extra=["CPython http.server, socket, selectors, io (exercised by stream server, not verified)"],
    quick_budget=2500,
    thorough_budget=18000,
)

MANIFEST = {
    "level_text": "Machine-checked Lean 4 theorems about an executable model of DechunkedInput (read_chunk_len with Python's int(s,16), readinto as a state machine), a chunk encoder and the response framing decision: decoding any encoded chunk list under every sequence of positive read sizes yields exactly the payload then EOF; malformed framing raises OSError and delivers nothing but received payload bytes; the chunked-response decision decided over a table obtained on every run by exhaustive evaluation of the real handler (status 100-599 x method x Content-Length x protocol); the response writer's chunked body read back through the de-chunker is the application's output; make_environ from http.server's parse result: PATH_INFO is the percent-decoded path for every percent-encoding of every UTF-8 text (origin- and absolute-form), the query verbatim, HTTP_HOST fallback, header folding, chunked => terminated de-chunking input; the response writer as a state machine: head exactly once before the first body byte for every sequence of write() calls / pieces, and parsing the wire returns the status line, headers and body produced; run_wsgi as a whole (start_response / write / execute closures, exc_info, Expect: 100-continue, the InternalServerError fallback, close()) for every application behaviour: one head before the first body byte, every written byte in exactly one frame in order, the terminating chunk last and - for a non-empty header list - only after a run without error. Partial: request parsing by http.server, sockets and timing are only exercised by an in-process socket-pair stream.",
    "level_note": "partial - Trusted: Lean kernel; extract.py; the harness; CPython http.server / socket / io. rfile modelled as a byte list.",
    "technique": "Lean 4 proof (induction over chunk lists and read schedules; decide +kernel over a regenerated decision table) + model/code correspondence",
    "design_ref": "DESIGN.md section 4, C19",
}
