"""C14 - untrusted paths and filenames cannot escape the trusted directory.

Streams
  normpath-kernel     posixpath.normpath / posixpath.join  vs  Model.Paths.normpath / join (kernel validation)
  safe-join           werkzeug.security.safe_join(base, *1..3 components) vs Model.Paths.safeJoin;
                      oracle: None, or the normalised result is still inside the normalised base
  static-files        send_from_directory (plain, with an absolute / relative `_root_path`, with PathLike
                      arguments) and SharedDataMiddleware (one or several exports: directories given as
                      absolute / relative / slash-terminated / dotted paths, single-file exports, package
                      exports, mixed; dict or list of pairs; mount points "/static", "/", "", "/static/",
                      nested keys; `disallow` patterns; the export key itself, incl. the directory loader's
                      exact-key branch with a value that became a regular file after the middleware was built
                      (export kind "late:", two file-system states in the model)) over a real temporary tree in
                      which every file has a unique content, with sentinel files outside the roots; request
                      paths percent-decoded as the dev server does; model prediction = Model.StaticFiles
                      (sendFromDirectory[Root] / mkExports / sharedData) with the existing files as the opaque
                      isfile predicate and the disallowed names as the opaque is_allowed predicate;
                      oracle: 200 only with the content of a file that lies inside (one of) the root(s)
  secure-filename     werkzeug.utils.secure_filename vs Model.Paths.secureAscii (NFKD/ascii fold computed here
                      with unicodedata exactly as the code does); oracle: charset, no leading dot, idempotent
  secure-filename-nt  the same with os.name/os.sep/os.path.altsep as on Windows patched into werkzeug.utils
                      for the duration of each call, vs Model.Paths.secureAsciiWith ['\\', '/'] true
"""
from __future__ import annotations

import atexit
import itertools
import os
import posixpath
import random
import shutil
import unicodedata
from urllib.parse import quote, unquote

from harness.pyprelude import PreludeKernels
from vlib.core import Check, Stream, hs, line, opt, unhs

# ---------------------------------------------------------------------------
# atoms of the property text

ATOMS = ["..", ".", "", "/", "//", "\\", "C:", "C:\\", "~", "%2e%2e", "%2e", "\x00", "a", "b.txt", "a.b", "..a", "a..", "...", " ", "\\..\\", "é", "secret.txt", "outside"]
GLUE = ["", "/", "/", "/"]
BASES = ["/srv/root", "/", "//", "///", "///x", "//net/share", "rel", "rel/sub", "", ".", "..", "../x", "/a/../b", "./", "a/", "/tmp/", "a//b/./c", "../..", "/..", "x/.."]


def rand_component(rng: random.Random):
    n = rng.choice([1, 1, 1, 2, 2, 3, 4, 6])
    out = [rng.choice(ATOMS)]
    for _ in range(n - 1):
        out.append(rng.choice(GLUE))
        out.append(rng.choice(ATOMS))
    return "".join(out)


def norm_parts(p: str):
    """independent (string level) reading of a normalised POSIX path: (leading slashes, segments)"""
    n = posixpath.normpath(p)
    lead = len(n) - len(n.lstrip("/"))
    segs = [s for s in n.split("/") if s not in ("", ".")]
    return lead, segs


def contained(base: str, result: str):
    """is normpath(result) inside normpath(base)?  None when it is, else a description"""
    bl, bs = norm_parts(base if base else ".")
    rl, rs = norm_parts(result)
    if bl != rl:
        return f"result {result!r} changes the root of base {base!r}"
    if rs[: len(bs)] != bs:
        return f"normalised result {posixpath.normpath(result)!r} is not under {posixpath.normpath(base or '.')!r}"
    if ".." in rs[len(bs) :]:
        return f"normalised result {posixpath.normpath(result)!r} climbs out of {posixpath.normpath(base or '.')!r}"
    return None


class NormpathKernel(Stream):
    name = "normpath-kernel"
    corpus = [{"op": "normpath", "p": hs(p)} for p in ["", ".", "..", "/", "//", "///", "////a", "//a/../..", "/..", "a/./b//c/", "..//../a/..", "a/../..", "\\..\\a", "a/..", "a\x00/../b", "\x00", "./", "../", "a/b/../../..", "/a/b/../../..", "//..", "...", "a/.../b", ".a", "a.", "é/../ü"]] + [
        {"op": "join", "a": hs(a), "ps": [hs(x) for x in ps]}
        for a, ps in [("", ["a"]), ("a", [""]), ("a/", ["b"]), ("a", ["/b"]), ("a", ["b", "", "c"]), ("/", ["a"]), ("", [""]), (".", ["", ""]), ("a", ["b", "/c", "d"]), ("a", [])]
    ]

    def cases(self, rng, tier):
        for p in ["", "/", "a", "a/", "a/b", "/a", "//", "a//b", "a/b/", ".", "..", "a/..", "a\\b", "é/ü"]:
            yield {"op": "basename", "p": hs(p)}
        while True:
            r = rng.random()
            if r < 0.65:
                yield {"op": "normpath", "p": hs(rand_component(rng))}
            elif r < 0.75:
                yield {"op": "basename", "p": hs(rng.choice(["", "/", "x/"]) + rand_component(rng))}
            else:
                yield {"op": "join", "a": hs(rng.choice(BASES + ATOMS)), "ps": [hs(rand_component(rng)) for _ in range(rng.randrange(0, 4))]}

    def real(self, case):
        if case["op"] == "normpath":
            return hs(posixpath.normpath(unhs(case["p"])))
        if case["op"] == "basename":
            return hs(posixpath.basename(unhs(case["p"])))
        return hs(posixpath.join(unhs(case["a"]), *[unhs(x) for x in case["ps"]]))

    def model_line(self, case):
        if case["op"] in ("normpath", "basename"):
            return line(case["op"], case["p"])
        return line("join", case["a"], *case["ps"])

    def oracle(self, case, real_out):
        return None  # CPython's own functions: validated against the model, no werkzeug claim here

    def bucket(self, case, real_out):
        if case["op"] in ("join", "basename"):
            return case["op"]
        r = unhs(real_out)
        return "norm:" + ("abs" if r.startswith("/") else "dotdot" if r.startswith("..") else "dot" if r == "." else "rel")


class SafeJoin(Stream):
    name = "safe-join"
    corpus = [
        {"d": hs(d), "ps": [hs(x) for x in ps]}
        for d, ps in [
            ("/srv/root", ["a"]),
            ("/srv/root", [".."]),
            ("/srv/root", ["a/../.."]),
            ("/srv/root", ["a", "../b"]),
            ("/srv/root", ["a", ".."]),
            ("/srv/root", ["/etc/passwd"]),
            ("/srv/root", ["//etc"]),
            ("/srv/root", [""]),
            ("/srv/root", ["", ".."]),
            ("/srv/root", ["", "a"]),
            ("/srv/root", ["."]),
            ("/srv/root", ["./"]),
            ("/srv/root", ["..a"]),
            ("/srv/root", ["..\\..\\x"]),
            ("/srv/root", ["a\x00/../../x"]),
            ("/srv/root", ["%2e%2e/x"]),
            ("/srv/root", ["~"]),
            ("/srv/root", ["C:\\x"]),
            ("", ["a"]),
            ("", ["..", "a"]),
            ("", [""]),
            ("", ["/a"]),
            ("/", ["a"]),
            ("/", [".."]),
            ("/", [""]),
            ("//", ["a"]),
            ("..", ["a"]),
            ("..", [".."]),
            ("rel", ["a/b/../../.."]),
            ("rel", ["a/b/../.."]),
            ("rel/", ["x", "", "y"]),
            ("/srv/root", []),
            ("", []),
        ]
    ]

    def exhaustive(self, tier):
        return tier == "thorough"

    def cases(self, rng, tier):
        if tier == "thorough":
            # every tuple of 1..2 atoms x every base, every triple over a reduced atom set
            for d in BASES:
                for n in (1, 2):
                    for ps in itertools.product(ATOMS, repeat=n):
                        yield {"d": hs(d), "ps": [hs(x) for x in ps]}
            small = ["..", ".", "", "/", "\\", "\x00", "a", "a/..", "../a", "a/../..", "..a"]
            for d in BASES:
                for ps in itertools.product(small, repeat=3):
                    yield {"d": hs(d), "ps": [hs(x) for x in ps]}
        while True:
            d = rng.choice(BASES)
            n = rng.choice([1, 1, 2, 2, 3, 3, 0, 4])
            yield {"d": hs(d), "ps": [hs(rand_component(rng)) for _ in range(n)]}

    def real(self, case):
        from werkzeug.security import safe_join

        return opt(hs, safe_join(unhs(case["d"]), *[unhs(x) for x in case["ps"]]))

    def model_line(self, case):
        return line("safejoin", case["d"], *case["ps"])

    def oracle(self, case, real_out):
        if real_out == "~":
            return None
        if real_out.startswith("EXC"):
            return f"safe_join raised {real_out}"
        return contained(unhs(case["d"]), unhs(real_out))

    def nontrivial(self, case, real_out):
        return real_out != "~"

    def bucket(self, case, real_out):
        return "refused" if real_out == "~" else real_out if real_out.startswith("EXC") else f"joined/{len(case['ps'])}"

    def mutate(self, case, rng):
        ps = case["ps"]
        for i in range(len(ps)):
            yield {"d": case["d"], "ps": ps[:i] + ps[i + 1 :]}
            yield {"d": case["d"], "ps": [ps[i]]}
        for d in BASES:
            yield {"d": hs(d), "ps": ps}
        for a in ATOMS:
            yield {"d": case["d"], "ps": ps + [hs(a)]}
            yield {"d": case["d"], "ps": [hs(a)] + ps}
            yield {"d": case["d"], "ps": [hs(a + "/..")] + ps}
            yield {"d": case["d"], "ps": [hs("../" + a)] + ps}


# ---------------------------------------------------------------------------
# real temporary tree: every file has a unique content naming it, so a response body identifies the
# file that was opened

SENTINEL = b"TOP-SECRET-SENTINEL-7f3a9c"
INSIDE_NAMES = ["index.html", "a/b.txt", ".hidden", "a.b/c..d", "sp ace.txt", "..a", "a/...", "\\", "é.txt", "a/secret.txt", "x.css", "a/index.html"]
INSIDE = {rel: b"inside:" + rel.encode() for rel in INSIDE_NAMES}
ALT_NAMES = ["index.html", "x.css", "b.txt", "only-alt.txt"]
OUTSIDE_NAMES = ["outside/secret.txt", "root-evil/secret.txt", "rootsecret.txt", "secret.txt", "outside/a/b.txt", "outside/index.html"]
LATE_NAMES = ["index.html", "x.css", "secret.txt", "\\"]
PKG_FILES = ["__init__.py", "static/x.css", "static/a/b.txt", "static/\\", "static/index.html", "secret.txt", "static-evil/secret.txt"]
_TREE = {}


def tree():
    """create top/c14[/t...]/{root,alt,outside,root-evil,pkgroot}/... once per process, removed at exit"""
    if _TREE:
        return _TREE
    top = f"/var/tmp/wzverif.{os.getpid()}"
    # the tree sits as many levels below `top` as the working directory sits below its common ancestor
    # with `top`: then <base>/<relative path of base>, where a relative `_root_path` joined twice
    # (F14b) lands, is inside `top` whatever directory the check runs from
    ups = [c for c in os.path.relpath(top, os.getcwd()).split("/") if c == ".."]
    base = os.path.join(top, "c14", *["t"] * max(0, len(ups) - 1))
    shutil.rmtree(os.path.join(top, "c14"), ignore_errors=True)
    root = os.path.join(base, "root")
    content = {}

    def put(path, data):
        os.makedirs(os.path.dirname(path), exist_ok=True)
        with open(path, "wb") as f:
            f.write(data)
        content[data] = path

    for rel, data in INSIDE.items():
        put(os.path.join(root, rel), data)
    for rel in ALT_NAMES:
        put(os.path.join(base, "alt", rel), b"alt:" + rel.encode())
    for rel in OUTSIDE_NAMES:
        put(os.path.join(base, rel), SENTINEL + b":" + rel.encode())
    os.makedirs(os.path.join(root, "emptydir"), exist_ok=True)
    # a throw-away importable package with a static/ directory and sentinels beside / above it
    pkgname = f"wzverif_pkg_{os.getpid()}"
    pkgdir = os.path.join(base, "pkgroot", pkgname)
    for rel in PKG_FILES:
        inside = rel.startswith("static/")
        put(os.path.join(pkgdir, rel), b"# pkg:__init__.py" if rel == "__init__.py" else (b"pkg:" if inside else SENTINEL + b":pkg/") + rel.encode())
    put(os.path.join(base, "pkgroot", "secret.txt"), SENTINEL + b":pkgroot/secret.txt")
    # F14b: a relative `_root_path` is joined twice by send_from_directory + send_file; the file that
    # is then opened lives here (a mirror of the root below base/<relative path of base>)
    relbase = os.path.relpath(base, os.getcwd())
    mirror = os.path.normpath(os.path.join(base, relbase, "root"))
    if not (mirror + "/").startswith(top + "/") or (mirror + "/").startswith(root + "/") or os.path.lexists(mirror):
        # (not expected with the layout above) outside the scratch area, or on top of the tree itself:
        # nothing is created; the model is given the working directory and predicts the outcome
        mirror = None
    else:
        # every file of the root has a counterpart there (with a sentinel content of its own), so the
        # outcome the model predicts for the double join is a specific 200 for every served name
        for rel in INSIDE_NAMES:
            put(os.path.join(mirror, rel), SENTINEL + b":mirror/" + rel.encode())
    # files that come into being only after a SharedDataMiddleware was built (export spec "late:<name>"):
    # registered by content, created / removed around each request by StaticFiles.real
    for name in LATE_NAMES:
        content[b"late:" + name.encode()] = os.path.join(base, "late", name)
    os.makedirs(os.path.join(base, "late"), exist_ok=True)
    import sys

    sys.path.insert(0, os.path.join(base, "pkgroot"))
    _TREE.update(top=top, base=base, root=root, rel=os.path.relpath(root, os.getcwd()), relbase=relbase, pkgname=pkgname, pkgdir=pkgdir, content=content, mirror=mirror)
    atexit.register(shutil.rmtree, top, True)
    return _TREE


ROOT_KINDS = ["abs", "rel", "slash", "dotted"]


def root_of(rk):
    t = tree()
    return {"abs": t["root"], "rel": t["rel"], "slash": t["root"] + "/", "dotted": t["base"] + "/outside/../root"}[rk]


# export values of SharedDataMiddleware, named symbolically (the tree path depends on the pid)
def export_value(spec):
    """-> (value handed to the constructor, ('v', value, '') | ('p', pkgdir, package_path), root directory or file)"""
    t = tree()
    kind, _, arg = spec.partition(":")
    if kind == "dir":
        if arg in ROOT_KINDS:
            v = root_of(arg)
            return v, ("v", v, ""), t["root"]
        sub = {"sub": "root/a", "alt": "alt", "empty": "root/emptydir", "missing": "root/nonexistent", "subdot": "root/a.b"}[arg]
        v = os.path.join(t["base"], sub)
        return v, ("v", v, ""), v
    if kind == "file":
        v = os.path.join(t["root"], arg)
        return v, ("v", v, ""), v
    if kind == "late":
        # a str value that names nothing when the middleware is built (-> directory loader) and is a
        # regular file by the time of the request: served by the loader's exact-key branch only
        v = os.path.join(t["base"], "late", arg)
        return v, ("v", v, ""), v
    if kind == "pkg":
        return (t["pkgname"], arg), ("p", t["pkgdir"], arg), os.path.join(t["pkgdir"], arg or ".")
    raise ValueError(spec)


def late_files(case):
    """the files of a (normalised) sdm case that are created between construction and request"""
    t = tree()
    out = []
    for _key, spec in case.get("exports", []):
        kind, _, arg = spec.partition(":")
        if kind == "late":
            p = os.path.join(t["base"], "late", arg)
            if p not in out:
                out.append(p)
    return out


MOUNTS = ["/static", "/static", "/static", "/", "", "/static/", "/s/t", "/static/a", "/a"]
CONFIGS = [
    # (exports as [mount-relative key transformer, spec], ...): "@" = the mount itself
    [("@", "dir:abs")],
    [("@", "dir:rel")],
    [("@", "dir:slash")],
    [("@", "dir:dotted")],
    [("@", "pkg:static")],
    [("@", "dir:empty"), ("@", "dir:abs")],  # the first export matches but has no such file
    [("@", "dir:alt"), ("@", "dir:abs")],  # both may have the file: the first wins
    [("@", "dir:abs"), ("@/a", "dir:alt")],  # list order, not prefix length
    [("@/a", "dir:alt"), ("@", "dir:abs")],
    [("@", "file:index.html")],  # single-file export: answers for the key and everything below
    [("@/index.html", "file:a/b.txt"), ("@", "dir:abs")],
    [("@", "dir:missing"), ("@", "pkg:static"), ("@", "dir:sub")],
    [("@", "pkg:"), ("@", "dir:abs")],  # package_path "" = the package directory itself
    [("@", "dir:subdot")],
    [("@", "pkg:static/a"), ("@", "pkg:static/")],
    # the directory loader's exact-key branch (`loader(None)`: the export value itself is tested and
    # opened): a value that became a regular file after the middleware was built
    [("@", "late:index.html")],
    [("@", "late:x.css"), ("@", "dir:abs")],
    [("@/x.css", "late:secret.txt"), ("@", "dir:alt")],
    [("@", "dir:empty"), ("@", "late:\\"), ("@/a", "late:index.html")],
]
EXACT_KEY_CONFIGS = [c for c in CONFIGS if any(spec.startswith("late:") for _k, spec in c)]
DISALLOW = [None, None, None, "*.txt", "secret*", "index.html", "[ab]*", "*"]

# request targets (raw, as sent on the wire, below the mount point)
RAW_ATOMS = ["%252e%252e", "..%252f", "%252f", "%255c", "..%5C", "..%5c..%5c", "x.css", "..", ".", "", "%2e%2e", "%2E%2E", "%2e", "..%2f", "%2f", "%5c", "\\", "%00", "a", "b.txt", "index.html", "secret.txt", "outside", "root-evil", "root", "rootsecret.txt", "..a", "...", "%c3%a9.txt", "%ff", "a.b", "c..d", "sp%20ace.txt", ".hidden", "~", "C:", "%252e%252e", "emptydir", "%2e%2e%2f%2e%2e", "..;", "a/secret.txt", "alt", "only-alt.txt"]
OUTSIDE_TARGETS = ["outside/secret.txt", "root-evil/secret.txt", "rootsecret.txt", "secret.txt", "root/index.html", "root/../outside/secret.txt", "outside/index.html", "alt/index.html", "pkgroot/secret.txt"]
ABS_PREFIXES = ["/", "/", "//", "///", "%2f", "%2F", "./", "a/../", "/./", "/../", ".//", "a/..//", "%2f%2f", ""]


def rand_raw(rng):
    r = rng.random()
    if r < 0.5:
        n = rng.choice([1, 1, 2, 2, 3, 3, 4, 5])
        return "/".join(rng.choice(RAW_ATOMS) for _ in range(n))
    if r < 0.62:
        # an absolute path (to a file outside, or inside, the root) where a relative one is expected:
        # what is left after the mount point is stripped starts with "/" (or "//", "/./", an encoded "/")
        return rng.choice(ABS_PREFIXES) + "@BASE@/" + rng.choice(OUTSIDE_TARGETS)
    # a path to a real file (inside, or a sentinel outside), decorated the way scanners do
    if r < 0.84:
        segs = rng.choice(INSIDE_NAMES + ALT_NAMES).split("/")
    else:
        segs = [".."] * rng.randrange(0, 3) + rng.choice(OUTSIDE_TARGETS).split("/")
    out = []
    for sg in segs:
        d = rng.random()
        if d < 0.15:
            out.append(".")
        elif d < 0.3:
            out += [rng.choice(["a", "emptydir", "zzz", "index.html"]), ".."]
        elif d < 0.35:
            out.append("")
        enc = rng.random()
        if enc < 0.6:
            out.append(quote(sg, safe=""))
        elif enc < 0.8:
            out.append("".join("%%%02x" % b for b in sg.encode()))
        else:
            out.append(sg)
    return rng.choice(["/", "/", "/", "%2f", "%2F"]).join(out) if rng.random() < 0.2 else "/".join(out)


def hostile_raws():
    return [
        "../outside/secret.txt",
        "%2e%2e/outside/secret.txt",
        # components that are still percent-encoded when the helper sees them (doubly encoded on the wire)
        "%252e%252e/outside/secret.txt",
        "..%252foutside%252fsecret.txt",
        "a/%252e%252e/%252e%252e/outside/secret.txt",
        "%252e%252e%252foutside%252fsecret.txt",
        "%252e%252e/secret.txt",
        "%252e%252e/root-evil/secret.txt",
        # backslash remainders (ordinary characters on POSIX; must reach the opener unchanged)
        "..%5Csecret.txt",
        "..%5C..%5Csecret.txt",
        "..%5c..%5c..%5coutside%5csecret.txt",
        "a%5C..%5C..%5Csecret.txt",
        "x.css",
        "a/b.txt",
        "..%2foutside%2fsecret.txt",
        "a/../../outside/secret.txt",
        "a/%2e%2e/%2e%2e/outside/secret.txt",
        "../root-evil/secret.txt",
        "../rootsecret.txt",
        "../secret.txt",
        # absolute remainders: the rest of the path behind the mount point starts with a slash
        "/@BASE@/outside/secret.txt",
        "%2f@BASE@/outside/secret.txt",
        "//@BASE@/outside/secret.txt",
        "@BASE@/outside/secret.txt",
        "/./@BASE@/outside/secret.txt",
        "./@BASE@/outside/secret.txt",
        "/@BASE@/root/index.html",
        "..\\outside\\secret.txt",
        "..%5coutside%5csecret.txt",
        "%00/../../outside/secret.txt",
        "a/b.txt%00/../../../outside/secret.txt",
        "./../outside/secret.txt",
        ".//../outside/secret.txt",
        "a/b.txt/../../../outside/secret.txt",
        "emptydir/../../outside/secret.txt",
        "index.html",
        "a/b.txt",
        "a//b.txt",
        "./a/./b.txt",
        "a/../index.html",
        ".hidden",
        "a.b/c..d",
        "sp%20ace.txt",
        "..a",
        "a/...",
        "%5c",
        "%c3%a9.txt",
        "",
        "emptydir",
        "a",
        "nonexistent",
        "a/secret.txt",
        "a/../a/secret.txt",
    ]


def fallback_app(environ, start_response):
    start_response("404 NOT FOUND", [("Content-Type", "text/plain")])
    return [b"fallback"]


def make_environ(path_decoded: str):
    return {
        "REQUEST_METHOD": "GET",
        "SCRIPT_NAME": "",
        "PATH_INFO": path_decoded.encode().decode("latin1"),
        "QUERY_STRING": "",
        "SERVER_NAME": "localhost",
        "SERVER_PORT": "80",
        "SERVER_PROTOCOL": "HTTP/1.1",
        "wsgi.url_scheme": "http",
        "wsgi.version": (1, 0),
        "wsgi.multithread": False,
        "wsgi.multiprocess": False,
        "wsgi.run_once": False,
    }


def with_slash(mount):
    return mount if mount.endswith("/") else mount + "/"


def inside_dir(path, root):
    """is the existing file `path` the file `root` or below the directory `root`? (no symlinks in the tree)"""
    try:
        path, root = os.path.realpath(path), os.path.realpath(root)
    except (ValueError, OSError):  # NUL, over-long names, ...: names no file, hence not inside
        return False
    return path == root or path.startswith(root.rstrip("/") + "/")


class StaticFiles(Stream):
    """cases:
    {"kind": "sfd", "root": <root kind>, "raw": <request target below /static/>, "rootpath": None|"abs"|"rel", "pathlike": bool}
        a routed view `/static/<path:filename>` handing the rest of the path to send_from_directory
    {"kind": "sdm", "exports": [[key, spec], ...], "raw": <whole request target>, "disallow": None|pattern, "as_list": bool}
        SharedDataMiddleware(app, exports, disallow=...) called with that request
    (the older forms {"kind": "sdm"|"sdm-exact"|"sdm-pkg", "root", "raw"} are still read)"""

    name = "static-files"
    corpus: list = []  # filled lazily (needs the tree path): see cases()

    # -- case plumbing ------------------------------------------------------------------------
    @staticmethod
    def norm(case):
        k = case["kind"]
        if k == "sfd":
            return {"rootpath": None, "pathlike": False, **case}
        if "exports" in case:
            return {"disallow": None, "as_list": False, **case}
        raw = case["raw"]
        if k == "sdm-pkg":
            return {"kind": "sdm", "exports": [["/static", "pkg:static"]], "raw": "/static/" + raw, "disallow": None, "as_list": False}
        if k == "sdm-exact":
            return {"kind": "sdm", "exports": [["=", "dir:" + case["root"]]], "raw": "/static/" + raw, "disallow": None, "as_list": False}
        return {"kind": "sdm", "exports": [["/static", "dir:" + case["root"]]], "raw": "/static/" + raw, "disallow": None, "as_list": False}

    @staticmethod
    def sdm_case(mount, config, raw, disallow=None, as_list=False):
        exports = [[key.replace("@", mount), spec] for key, spec in config]
        return {"kind": "sdm", "exports": exports, "raw": with_slash(mount) + raw, "disallow": disallow, "as_list": as_list}

    def cases(self, rng, tier):
        for raw in hostile_raws():
            for rk in ROOT_KINDS:
                yield {"kind": "sfd", "root": rk, "raw": raw, "rootpath": None, "pathlike": False}
                yield self.sdm_case("/static", [("@", "dir:" + rk)], raw)
            yield self.sdm_case("/static", [("@", "pkg:static")], raw)
            yield {"kind": "sfd", "root": "abs", "raw": raw, "rootpath": "abs", "pathlike": False}
            # other mount points: at "/" (and "") the rest of "//x" is the absolute "/x"
            for mount in ("/", "", "/static/", "/s/t"):
                yield self.sdm_case(mount, [("@", "dir:abs")], raw)
            yield self.sdm_case("/", [("@", "pkg:static")], raw)
        # regression F14a (fixed): a NUL under a package export must fall through to 404
        for raw in ("%00", "..a/%00", "x.css%00", "a/%00/b.txt"):
            yield self.sdm_case("/static", [("@", "pkg:static")], raw)
        # every configuration x the key itself / a file / an escape
        for config in CONFIGS:
            for mount in ("/static", "/"):
                for raw in ("index.html", "a/index.html", "a/b.txt", "x.css", "../outside/secret.txt", "/@BASE@/outside/secret.txt", "index.html/../../x", "only-alt.txt", "secret.txt", "../secret.txt"):
                    yield self.sdm_case(mount, config, raw, as_list=(len(raw) % 2 == 0))
                c = self.sdm_case(mount, config, "")
                yield {**c, "raw": mount}  # the export key itself (`loader(None)`)
        # the exact-key branch of the directory loader: request path == export key. A directory value
        # (nothing to serve: falls through to the prefix branch / the next export), and a value that
        # became a file after the middleware was built (served: it is the export root itself)
        for config in EXACT_KEY_CONFIGS:
            for mount in ("/static", "/", "", "/static/", "/s/t"):
                c = self.sdm_case(mount, config, "")
                for key, _spec in c["exports"]:
                    for raw in (key, key + "/", key + "/x", key.rstrip("/"), key + "/../index.html", key + "%00"):
                        yield {**c, "raw": raw, "as_list": len(raw) % 2 == 1}
                    yield {**c, "raw": key, "disallow": "secret*"}
                    yield {**c, "raw": key, "disallow": "*"}
        for rk in ROOT_KINDS + ["sub", "empty", "missing"]:
            for mount in ("/static", "/", "", "/static/"):
                yield {"kind": "sdm", "exports": [[mount, "dir:" + rk]], "raw": mount, "disallow": None, "as_list": False}
        for pat in DISALLOW[3:]:
            for raw in ("index.html", "a/b.txt", "a/secret.txt", "x.css"):
                yield self.sdm_case("/static", [("@", "dir:abs")], raw, disallow=pat)
                yield self.sdm_case("/static", [("@", "dir:alt"), ("@", "dir:abs")], raw, disallow=pat)
        if tier == "thorough":
            # every configuration x every mount point x every hostile target, dict and list form
            for config in CONFIGS:
                for mount in sorted(set(MOUNTS)):
                    for raw in hostile_raws():
                        yield self.sdm_case(mount, config, raw, as_list=True)
            for rk in ROOT_KINDS:
                for rootpath in ("abs", "rel"):
                    for raw in hostile_raws():
                        yield {"kind": "sfd", "root": rk, "raw": raw, "rootpath": rootpath, "pathlike": False}
                        yield {"kind": "sfd", "root": rk, "raw": raw, "rootpath": None, "pathlike": True}
        n = 0
        limit = 1400 if tier == "quick" else 20000
        while n < limit:
            n += 1
            if rng.random() < 0.35:
                yield {"kind": "sfd", "root": rng.choice(ROOT_KINDS), "raw": rand_raw(rng), "rootpath": rng.choice([None, None, None, "abs", "abs", "rel"]), "pathlike": rng.random() < 0.15}
            else:
                config = rng.choice(EXACT_KEY_CONFIGS) if rng.random() < 0.08 else rng.choice(CONFIGS)
                c = self.sdm_case(rng.choice(MOUNTS), config, rand_raw(rng), rng.choice(DISALLOW), rng.random() < 0.3)
                if rng.random() < (0.5 if config in EXACT_KEY_CONFIGS else 0.06):
                    c["raw"] = rng.choice(c["exports"])[0] + rng.choice(["", "", "", "/", "/.", "/x.css"])  # an export key itself
                yield c

    @staticmethod
    def unbase(raw):
        return raw.replace("@BASE@", quote(tree()["base"]).lstrip("/"))

    @classmethod
    def decoded(cls, case):
        # what the development server does with the request target (serving.WSGIRequestHandler.make_environ)
        case = cls.norm(case)
        if case["kind"] == "sfd":
            return unquote("/static/" + cls.unbase(case["raw"]))
        return unquote(cls.unbase(case["raw"]))

    @classmethod
    def sfd_args(cls, case):
        """(directory, filename, _root_path or None, directory the file must stay in)"""
        t = tree()
        filename = cls.decoded(case)[len("/static/") :]
        if case["rootpath"] is None:
            return root_of(case["root"]), filename, None, t["root"]
        directory = {"abs": "root", "rel": "root", "slash": "root/", "dotted": "outside/../root"}[case["root"]]
        return directory, filename, (t["base"] if case["rootpath"] == "abs" else t["relbase"]), t["root"]

    @classmethod
    def sdm_args(cls, case):
        """(path, exports for the constructor, driver export groups, roots)"""
        path = cls.decoded(case)
        real_exports, groups, roots = [], [], []
        for key, spec in case["exports"]:
            if key == "=":
                key = path
            value, grp, root = export_value(spec)
            real_exports.append((key, value))
            groups.append((key,) + grp)
            roots.append(root)
        if not case["as_list"]:
            # a dict keeps the first position and the last value of a repeated key
            keep = {}
            for i, (key, _v) in enumerate(real_exports):
                keep[key] = i
            idx = list(keep.values())
            real_exports, groups, roots = [real_exports[i] for i in idx], [groups[i] for i in idx], [roots[i] for i in idx]
        return path, real_exports, groups, roots

    def real(self, case):
        import pathlib

        from werkzeug.exceptions import HTTPException
        from werkzeug.middleware.shared_data import SharedDataMiddleware
        from werkzeug.utils import send_from_directory
        from werkzeug.wsgi import get_path_info

        case = self.norm(case)
        if case["kind"] == "sfd":
            directory, _filename, rootpath, _ = self.sfd_args(case)
            environ = make_environ(self.decoded(case))
            filename = get_path_info(environ)[len("/static/") :]
            if case["pathlike"]:
                directory, filename = pathlib.PurePosixPath(directory), pathlib.PurePosixPath(filename)
            kwargs = {} if rootpath is None else {"_root_path": rootpath}
            try:
                resp = send_from_directory(directory, filename, environ, **kwargs)
            except HTTPException as e:
                return f"{e.code}|-"
            resp.direct_passthrough = False
            body = resp.get_data()
            resp.close()
            return f"{resp.status_code}|{body.hex() or '-'}"
        path, exports, _, _ = self.sdm_args(case)
        environ = make_environ(path)
        late = late_files(case)
        for p in late:  # (left over from an interrupted case)
            if os.path.lexists(p):
                os.unlink(p)
        mw = SharedDataMiddleware(fallback_app, exports if case["as_list"] else dict(exports), disallow=case["disallow"], cache=False)
        status = []
        it = None
        try:
            for p in late:
                with open(p, "wb") as f:
                    f.write(b"late:" + os.path.basename(p).encode())
            it = mw(environ, lambda s, h, exc_info=None: status.append(s))
            body = b"".join(it)
        finally:
            if hasattr(it, "close"):
                it.close()
            for p in late:
                if os.path.lexists(p):
                    os.unlink(p)
        code = status[0].split()[0]
        if code == "404" and body == b"fallback":
            return "404|-"
        return f"{code}|{body.hex() or '-'}"

    @staticmethod
    def existing_files():
        t = tree()
        if "files" not in t:
            out = []
            for dirpath, _dirs, files in os.walk(t["top"]):
                out += [os.path.join(dirpath, f) for f in files]
            t["files"] = sorted(out)
        return t["files"]

    def model_line(self, case):
        # the model computes the whole decision (safe_join, export matching, loaders, is_allowed gate,
        # the _root_path joins, 404); the file system enters as the list of existing regular files
        # (os.path.isfile as an opaque predicate), fnmatch as the list of disallowed file names
        import pathlib
        from fnmatch import fnmatch

        case = self.norm(case)
        files = self.existing_files()
        hfiles = [hs(f) for f in files]
        if case["kind"] == "sfd":
            directory, filename, rootpath, _ = self.sfd_args(case)
            if case["pathlike"]:
                directory, filename = os.fspath(pathlib.PurePosixPath(directory)), os.fspath(pathlib.PurePosixPath(filename))
            if rootpath is None and not case["pathlike"]:
                return line("sfd", hs(os.getcwd()), hs(directory), hs(filename), *hfiles)
            return line("sfdroot", hs(os.getcwd()), opt(hs, rootpath), hs(directory), hs(filename), *hfiles)
        path, exports, groups, _ = self.sdm_args(case)
        flat = []
        for key, kind, a, b in groups:
            flat += [hs(key), kind, hs(a), hs(b)]
        late = late_files(case)
        dis = []
        if case["disallow"] is not None:
            dis = sorted({hs(os.path.basename(f)) for f in files + late if fnmatch(os.path.basename(f), case["disallow"])})
        if late:
            # two file-system states: `late` exist at request time only (os.path.isfile in __init__ is false)
            return line("sdmlate", hs(os.getcwd()), hs(path), str(len(groups)), *flat, str(len(dis)), *dis, str(len(late)), *[hs(f) for f in late], *hfiles)
        return line("sdm", hs(os.getcwd()), hs(path), str(len(groups)), *flat, str(len(dis)), *dis, *hfiles)

    def canon_model(self, case, out):
        # the file system is outside the model: complete the model's opened path with the file's content
        if out == "~":
            return "404|-"
        if out.startswith("EXC") or out.startswith("BAD") or out.startswith("UNKNOWN"):
            return out
        p = unhs(out.split(" ")[-1])  # sfdroot answers "<tested> <opened>"
        t = tree()
        if os.path.dirname(p) == os.path.join(t["base"], "late") and os.path.basename(p) in LATE_NAMES:
            return "200|" + (b"late:" + os.path.basename(p).encode()).hex()  # exists during the request only
        try:
            with open(p, "rb") as f:
                return "200|" + (f.read().hex() or "-")
        except (OSError, ValueError) as e:  # FileNotFoundError, or a name the OS refuses (NUL, too long)
            return "EXC:" + type(e).__name__

    def served_file(self, real_out):
        code, _, body = real_out.partition("|")
        data = b"" if body == "-" else bytes.fromhex(body)
        return code, data, tree()["content"].get(data)

    def oracle(self, case, real_out):
        case = self.norm(case)
        if real_out.startswith("EXC"):
            return f"static file helper raised {real_out} for {self.decoded(case)!r}"
        code, data, served = self.served_file(real_out)
        if code != "200":
            if SENTINEL in data:
                return f"sentinel outside the root was served for {self.decoded(case)!r}"
            return None
        if served is None:
            return f"200 with a body that is no file of the tree for {self.decoded(case)!r}"
        roots = [self.sfd_args(case)[3]] if case["kind"] == "sfd" else self.sdm_args(case)[3]
        if not any(inside_dir(served, r) for r in roots):
            what = "sentinel" if SENTINEL in data else "file"
            return f"{what} {served!r} outside the root(s) {roots!r} was served for {self.decoded(case)!r}"
        return None

    def finding_key(self, case, what):
        try:
            return self._finding_key(case, what)
        except Exception:  # noqa: BLE001 - a violation that cannot be classified is not a known finding
            return None

    def _finding_key(self, case, what):
        """F14b = exactly: send_from_directory called with a *relative* `_root_path`, and the observed
        outcome is the one the Lean model (Model/StaticFiles.lean `sendFromDirectoryRoot`, negation witness
        `send_from_directory_root_full_false`) predicts for this very case: the file tested is
        join(r, safe_join(directory, path)), a regular file inside the root, and the file opened is
        join(r, <tested>) - a different file: its content is served when it exists, FileNotFoundError
        otherwise. Any other wrong outcome on such a case (a third join, another file, another exception)
        is not F14b."""
        from vlib.core import Driver, real_out

        case = self.norm(case)
        if case["kind"] != "sfd" or case["rootpath"] != "rel":
            return None
        ml = self.model_line(case)
        out = Driver("C14").batch([ml])[0]
        fields = out.split(" ")
        if len(fields) != 2 or out.startswith(("EXC", "BAD", "UNKNOWN")):
            return None  # the model predicts a 404 (or nothing): no double join to blame
        tested, opened = unhs(fields[0]), unhs(fields[1])
        _d, _filename, rootpath, root = self.sfd_args(case)
        if opened != os.path.join(rootpath, tested) or os.path.isabs(rootpath):
            return None
        if not (inside_dir(tested, root) and os.path.isfile(tested)) or inside_dir(opened, root):
            return None  # the family: a legitimate request whose opened file left the root
        predicted = self.canon_model(case, out)
        observed = real_out(self, case)
        if observed != predicted:
            return None
        if observed == "EXC:FileNotFoundError" and "EXC:FileNotFoundError" in what:
            return "F14b"
        code, _data, served = self.served_file(observed)
        if code == "200" and served is not None and os.path.realpath(served) == os.path.realpath(opened) and repr(served) in what:
            return "F14b"
        return None

    def nontrivial(self, case, real_out):
        return real_out.startswith("200")

    def bucket(self, case, real_out):
        case = self.norm(case)
        k = case["kind"]
        if k == "sfd":
            k += {None: "", "abs": "+absroot", "rel": "+relroot"}[case["rootpath"]] + ("+pathlike" if case["pathlike"] else "")
        else:
            kinds = sorted({spec.partition(":")[0] for _k, spec in case["exports"]})
            k += f"[{len(case['exports'])}:{'+'.join(kinds)}]" + ("+disallow" if case["disallow"] else "")
        return k + ":" + real_out.partition("|")[0]

    def mutate(self, case, rng):
        case = self.norm(case)
        raws = hostile_raws()
        if case["kind"] == "sfd":
            for raw in raws:
                yield {**case, "raw": raw}
            for a in RAW_ATOMS:
                yield {**case, "raw": a + "/" + case["raw"]}
                yield {**case, "raw": case["raw"] + "/" + a}
            return
        # fewer exports, no disallow, then other request targets below the first key
        if len(case["exports"]) > 1:
            for i in range(len(case["exports"])):
                yield {**case, "exports": case["exports"][:i] + case["exports"][i + 1 :]}
        if case["disallow"] is not None:
            yield {**case, "disallow": None}
        if case["as_list"]:
            yield {**case, "as_list": False}
        key = case["exports"][0][0]
        if key != "=":
            for raw in raws:
                yield {**case, "raw": with_slash(key) + raw}
            for mount in ("/", "/static", ""):
                for raw in raws:
                    yield self.sdm_case(mount, [("@", case["exports"][0][1])], raw)


# ---------------------------------------------------------------------------

ALLOWED = set("ABCDEFGHIJKLMNOPQRSTUVWXYZabcdefghijklmnopqrstuvwxyz0123456789_.-")
FN_ATOMS = ["a", "b", "Z", "0", ".", "..", "_", "-", " ", "/", "\\", "\t", "\n", "\x1c", "\x1f", "\x0b", "\x85", "\xa0", "\u3000", "\u2028", "．", "／", "＼", "ａ", "Ａ", "．．", "é", "ü", "ß", "ﬁ", "℀", "…", "‥", "․", "⁄", "∕", "\x00", "~", "$", "%2e", ":", "C:", "COM1", "NUL", "con", "CON", "Com1", "LPT9", "LPT10", "COM0", "aux", "PRN", "nul.", "COM\u00b9", "_CON", "CON.", ".txt", ".tar.gz", "..txt", "__", "._", "_.", "\U0001f600", "①", "㎏", "ｱ", "\u0301", "\u202e", "\u200b", "\ufeff", "\u00ad", "＿", "－", "︒", "﹒"]


LENGTHS = [31, 32, 63, 64, 127, 128, 143, 254, 255, 256, 259, 260, 511, 512, 1023, 1024, 4095, 4096]
TAILS = [".tar.gz", ".", "_", " ", "._", " .", "/", "\\", ".a", "_a", " a", "..", "__", "-", "é", ".é.", "$.", "$ $"]


def long_filename(rng):
    """names whose cleaned length is at / around the limits file systems and code like to cut at, with a
    character that the final strip removes (or that becomes one) right at the cut"""
    if rng.random() < 0.4:
        # periodic names: a strippable character at every second / third position, any length
        unit = rng.choice(["x.", "a_", "ab.", "x. ", "x/", "._x", "a-.", "x\\y_", "x..", ".x", "a_._", "x_."])
        return "abc"[: rng.randrange(0, 4)] + unit * rng.choice([1, 2, 3, 5, 8, 16, 30, 33, 50, 64, 100, 128, 130, 200, 300, 520, 1100, 2100])
    L = rng.choice(LENGTHS) if rng.random() < 0.6 else rng.randrange(1, 300)
    tail = "".join(rng.choice(TAILS) for _ in range(rng.choice([1, 1, 2, 3])))
    n = max(0, L - rng.randrange(0, len(tail) + 4))
    return rng.choice(["x", "x", "ab", "X1"]) * n + tail + rng.choice(["", "", "y", "yy", "y" * 7, ".txt"])


def rand_filename(rng):
    if rng.random() < 0.1:
        return long_filename(rng)
    n = rng.choice([1, 2, 3, 4, 5, 6, 9, 12])
    out = []
    for _ in range(n):
        r = rng.random()
        if r < 0.7:
            out.append(rng.choice(FN_ATOMS))
        elif r < 0.8:
            out.append(chr(rng.randrange(0x80)))
        elif r < 0.9:
            out.append(chr(rng.choice([rng.randrange(0x80, 0x3100), rng.randrange(0xFE00, 0xFFF0), rng.randrange(0x2000, 0x2100)])))
        else:
            c = rng.randrange(0x80, 0x110000)
            if 0xD800 <= c < 0xE000:
                c = 0xFF0E
            out.append(chr(c))
    return "".join(out)


def fold(s: str) -> str:
    # exactly the first two statements of secure_filename (opaque to the model)
    return unicodedata.normalize("NFKD", s).encode("ascii", "ignore").decode("ascii")


class SecureFilename(Stream):
    name = "secure-filename"
    corpus = [
        {"s": hs(s)}
        for s in ["", "My cool movie.mov", "../../../etc/passwd", "i contain cool \xfcml\xe4uts.txt", ".", "..", "...", "._", "_.", ". .", "/", "\\", "a/b", "a\\b", "．．／ｅｔｃ／ｐａｓｓｗｄ", "．hidden", "․hidden", "‥/x", "…", " .a", "\x1c.a", "a\x1fb", ".\x00.", "a \t\n b", "_a_", "-a-", ".-.", "$.$a", "~/.ssh", "a b", "a  b", " a ", "\x85a", "\xa0.a", "\u3000.a", "é", "⁄etc⁄passwd", "℀", "COM1", "a\u0301", ". $ .x", "x.$", "$ .x", "x $. ", "CON", "con.txt", "_CON", "COM\u00b9.txt", "LPT10", "nul.tar.gz", "a $ b"]
    ] + [
        # cleaned names around the usual length limits with a strippable character at the cut
        {"s": hs("x" * (L - k) + tail)}
        for L in (64, 128, 255, 256, 260, 1024, 4096)
        for k, tail in ((5, ".tar.gz"), (1, "._y"), (1, " a"), (0, ".y"), (2, "_.__y"))
    ]

    def cases(self, rng, tier):
        while True:
            yield {"s": hs(rand_filename(rng))}

    def real(self, case):
        from werkzeug.utils import secure_filename

        return hs(secure_filename(unhs(case["s"])))

    def model_line(self, case):
        return line("secure", hs(fold(unhs(case["s"]))))

    def again(self, r):
        from werkzeug.utils import secure_filename

        return secure_filename(r)

    def oracle(self, case, real_out):
        if real_out.startswith("EXC"):
            return f"secure_filename raised {real_out}"
        r = unhs(real_out)
        bad = sorted(set(r) - ALLOWED)
        if bad:
            return f"output contains {bad!r} (not ASCII [A-Za-z0-9_.-])"
        if any(c.isspace() or c in "/\\" for c in r):
            return "output contains whitespace or a path separator"
        if r.startswith("."):
            return f"output {r!r} starts with a dot"
        try:
            again = self.again(r)
        except Exception as e:  # noqa: BLE001
            return f"secure_filename raised {type(e).__name__} on its own output {r!r}"
        if again != r:
            return f"not idempotent: {r!r} -> {again!r}"
        return None

    def nontrivial(self, case, real_out):
        return real_out not in ("-", case["s"])

    def bucket(self, case, real_out):
        if real_out.startswith("EXC"):
            return real_out
        return "empty" if real_out == "-" else "unchanged" if real_out == case["s"] else "changed"

    def mutate(self, case, rng):
        s = unhs(case["s"])
        for i in range(len(s)):
            yield {"s": hs(s[:i] + s[i + 1 :])}
        for a in FN_ATOMS:
            yield {"s": hs(a + s)}
            yield {"s": hs(s + a)}


class _NtOs:
    """stands in for the `os` module inside werkzeug.utils while a case runs: Windows' values for the
    three attributes secure_filename reads (`os.name`, `os.sep`, `os.path.altsep`), everything else
    forwarded to the real module"""

    name = "nt"
    sep = "\\"

    class path:  # noqa: N801
        altsep = "/"

    def __getattr__(self, attr):
        return getattr(os, attr)


class SecureFilenameNt(SecureFilename):
    """secure_filename with the Windows branch switched on (`os.name == "nt"`, `os.sep == "\\"`,
    `os.path.altsep == "/"` patched into werkzeug.utils for the duration of the call) vs
    Model.Paths.secureAsciiWith ['\\', '/'] true; same oracle (the property's clauses hold on every
    platform; nothing is demanded about device names)"""

    name = "secure-filename-nt"

    @staticmethod
    def call(s):
        import werkzeug.utils as wu

        saved = wu.os
        wu.os = _NtOs()
        try:
            return wu.secure_filename(s)
        finally:
            wu.os = saved

    def real(self, case):
        return hs(self.call(unhs(case["s"])))

    def model_line(self, case):
        return line("securewith", hs("\\/"), "1", hs(fold(unhs(case["s"]))))

    def again(self, r):
        return self.call(r)

    def bucket(self, case, real_out):
        b = super().bucket(case, real_out)
        if b == "changed" and unhs(real_out).startswith("_"):
            return "device-prefixed"
        return b


CHECK = Check(
    prop="C14",
    gen=["Paths", "PyFns_Paths", "StaticGlue", "UrlTables"],
    modules=["WzVerif.Props.C14", "WzVerif.Props.C14T"],
    streams=[NormpathKernel(), SafeJoin(), StaticFiles(), SecureFilename(), SecureFilenameNt(), PreludeKernels()],
    assumptions=[
        "round 3: the export loop and the is_allowed gate of SharedDataMiddleware.__call__ (up to the statement that starts assembling the response: the translation stops there) are regenerated from the source by tools/py2lean.py (Gen/PyFns_Paths.lean shared_data_select; loaders and file-loader objects abstract; real_filename starts unbound) and proved equal to the hand model findExport / sharedData for all exports and request paths (Props/C14T): no UnboundLocalError is reachable for any loader, a TypeError only for a loader answering (None, file_loader)",
        "POSIX path semantics (posixpath; os.sep == '/', os.path.altsep is None): _os_alt_seps is regenerated and the containment theorem is proved for an arbitrary alternative-separator list, but ntpath joining is not modelled",
        "posixpath.normpath / join are hand-modelled from CPython 3.12 and validated by stream normpath-kernel, not verified",
        "unicodedata.normalize('NFKD', .) is an opaque parameter of the secure_filename model; the only law used (idempotence theorem) is that it is the identity on ASCII text; the harness computes the fold with unicodedata exactly as the code does",
        "the file system is outside the model: os.path.isfile enters Model/StaticFiles.lean as an arbitrary predicate (theorem served_path_inside_root holds for every such predicate); stream static-files passes the list of existing regular files; symbolic links inside the root, case-insensitive or name-normalising file systems and races between the isfile test and open() are out of scope (safe_join is purely lexical)",
        "SharedDataMiddleware: is_allowed (fnmatch against `disallow`, or a subclass override) is an arbitrary predicate on real_filename; a package export enters as the directory importlib's resource reader resolves resources against (FileReader semantics: open(<package dir>/<resource>)); os.path.isfile(value) at construction time is a separate predicate; get_path_info (latin-1 -> UTF-8 re-decoding of PATH_INFO) is not modelled, the request path is the decoded text; mimetype / cache / etag headers are not modelled (AST facts glue_export_loop_shape: nothing but is_allowed gates the file after the loop); export values other than str / tuple raise TypeError in this version (no callable loaders)",
        "send_from_directory: os.fspath of PathLike arguments is pathlib's (the stream passes PurePosixPath objects, the model receives os.fspath of them); without _root_path send_file opens os.path.abspath(path_str), modelled as the same path relative to the working directory; known finding F14b (relative _root_path joined twice) is excluded by the hypothesis of send_from_directory_root_partial; a violation is labelled F14b only for a send_from_directory case with a relative _root_path whose observed outcome (content of the file opened, or FileNotFoundError) is exactly what the Lean model sendFromDirectoryRoot predicts for that case (tested file inside the root, opened = join(r, tested) outside it); the temporary tree mirrors every file of the root at the doubly joined location, with sentinel contents, so any other wrong outcome differs from the prediction",
        "secure_filename on Windows: the device-file branch and the separators are parameters of the model (secureAsciiWith seps nt); stream secure-filename-nt switches the branch on by patching the three os attributes the function reads inside werkzeug.utils (name, sep, path.altsep); ntpath itself is never used",
        "FileStorage.save(dst) writes to dst as given (no sanitising): outside the property's claim, which only speaks about secure_filename; nothing of FileStorage is modelled",
        "containment is lexical: 'inside' means the segments of normpath(result) extend the segments of normpath(base) without '..' and with the same root ('', '/', '//')",
        "safe_join and secure_filename (whole function; NFKD opaque, the Windows branch decided at generation time) are regenerated from the source by tools/py2lean.py (Gen/PyFns_Paths.lean) on every run and proved equal to the hand models safeJoinWith / secureFilename for all inputs (Props/C14T, containment and charset restated on the translated definitions); posixpath.normpath/join/isabs stay the hand models, the other CPython primitives the translated code calls are modelled in Util/PyPrelude.lean and validated by stream prelude-kernels",
    ],
    trusted_extra=["CPython posixpath / str.split / str.strip / re semantics for the modelled primitives (validated by the streams, not verified)"],
    quick_budget=4000,
    thorough_budget=260000,
)

MANIFEST = {
    "level_text": "Machine-checked Lean 4 theorems about an executable model of posixpath.normpath/join, werkzeug.security.safe_join, the path computation of send_from_directory (incl. _root_path) and SharedDataMiddleware (export loop, directory / file / package loaders, is_allowed gate) and the ASCII stage of secure_filename (platform separators and the Windows device branch as parameters): normal-form shape of normpath, lexical containment of every accepted safe_join result for every base and any number of components, exact characterisation of what safe_join refuses and returns, every served file lies inside the root of the first export that yields a file (for every file-system predicate), charset / no-leading-dot / idempotence of secure_filename on every platform; constants (_os_alt_seps, the strip regex class on every code point, strip/join literals) are regenerated from the source on every run; the hand model is tied to the code by differential streams, incl. send_from_directory and SharedDataMiddleware over a real temporary tree with sentinels outside the root.",
    "level_note": "Trusted: Lean kernel; extract.py; the correspondence harness; CPython posixpath/str/re for the modelled primitives (validated, not verified). NFKD is an opaque parameter (law: identity on ASCII). POSIX only; file system and symlinks outside the model.",
    "technique": "Lean 4 proof (induction over component lists with a stack invariant; decide over regenerated tables) + model/code correspondence + end-to-end oracle on a real file tree",
    "design_ref": "DESIGN.md section 4, C14",
}
