"""C14 - untrusted paths and filenames cannot escape the trusted directory.

Streams
  normpath-kernel  posixpath.normpath / posixpath.join  vs  Model.Paths.normpath / join (kernel validation)
  safe-join        werkzeug.security.safe_join(base, *1..3 components) vs Model.Paths.safeJoin;
                   oracle: None, or the normalised result is still inside the normalised base
  static-files     send_from_directory and SharedDataMiddleware over a real temporary tree with sentinel
                   files outside the root; request paths percent-decoded as the dev server does;
                   model prediction = Model.StaticFiles (sendFromDirectory / sharedData: safe_join, export
                   matching, 404) with the existing files as the opaque isfile predicate; oracle: sentinel
                   never served, 200 only with the content of a file inside the root
  secure-filename  werkzeug.utils.secure_filename vs Model.Paths.secureAscii (NFKD/ascii fold computed here
                   with unicodedata exactly as the code does); oracle: charset, no leading dot, idempotent
"""
from __future__ import annotations

import atexit
import itertools
import os
import posixpath
import random
import shutil
import unicodedata
from urllib.parse import quote, unquote

from harness.pyprelude import PreludeKernels
from vlib.core import Check, Stream, hs, line, opt, unhs

# ---------------------------------------------------------------------------
# atoms of the property text

ATOMS = ["..", ".", "", "/", "//", "\\", "C:", "C:\\", "~", "%2e%2e", "%2e", "\x00", "a", "b.txt", "a.b", "..a", "a..", "...", " ", "\\..\\", "é", "secret.txt", "outside"]
GLUE = ["", "/", "/", "/"]
BASES = ["/srv/root", "/", "//", "///", "///x", "//net/share", "rel", "rel/sub", "", ".", "..", "../x", "/a/../b", "./", "a/", "/tmp/", "a//b/./c", "../..", "/..", "x/.."]


def rand_component(rng: random.Random):
    n = rng.choice([1, 1, 1, 2, 2, 3, 4, 6])
    out = [rng.choice(ATOMS)]
    for _ in range(n - 1):
        out.append(rng.choice(GLUE))
        out.append(rng.choice(ATOMS))
    return "".join(out)


def norm_parts(p: str):
    """independent (string level) reading of a normalised POSIX path: (leading slashes, segments)"""
    n = posixpath.normpath(p)
    lead = len(n) - len(n.lstrip("/"))
    segs = [s for s in n.split("/") if s not in ("", ".")]
    return lead, segs


def contained(base: str, result: str):
    """is normpath(result) inside normpath(base)?  None when it is, else a description"""
    bl, bs = norm_parts(base if base else ".")
    rl, rs = norm_parts(result)
    if bl != rl:
        return f"result {result!r} changes the root of base {base!r}"
    if rs[: len(bs)] != bs:
        return f"normalised result {posixpath.normpath(result)!r} is not under {posixpath.normpath(base or '.')!r}"
    if ".." in rs[len(bs) :]:
        return f"normalised result {posixpath.normpath(result)!r} climbs out of {posixpath.normpath(base or '.')!r}"
    return None


class NormpathKernel(Stream):
    name = "normpath-kernel"
    corpus = [{"op": "normpath", "p": hs(p)} for p in ["", ".", "..", "/", "//", "///", "////a", "//a/../..", "/..", "a/./b//c/", "..//../a/..", "a/../..", "\\..\\a", "a/..", "a\x00/../b", "\x00", "./", "../", "a/b/../../..", "/a/b/../../..", "//..", "...", "a/.../b", ".a", "a.", "é/../ü"]] + [
        {"op": "join", "a": hs(a), "ps": [hs(x) for x in ps]}
        for a, ps in [("", ["a"]), ("a", [""]), ("a/", ["b"]), ("a", ["/b"]), ("a", ["b", "", "c"]), ("/", ["a"]), ("", [""]), (".", ["", ""]), ("a", ["b", "/c", "d"]), ("a", [])]
    ]

    def cases(self, rng, tier):
        while True:
            if rng.random() < 0.75:
                yield {"op": "normpath", "p": hs(rand_component(rng))}
            else:
                yield {"op": "join", "a": hs(rng.choice(BASES + ATOMS)), "ps": [hs(rand_component(rng)) for _ in range(rng.randrange(0, 4))]}

    def real(self, case):
        if case["op"] == "normpath":
            return hs(posixpath.normpath(unhs(case["p"])))
        return hs(posixpath.join(unhs(case["a"]), *[unhs(x) for x in case["ps"]]))

    def model_line(self, case):
        if case["op"] == "normpath":
            return line("normpath", case["p"])
        return line("join", case["a"], *case["ps"])

    def oracle(self, case, real_out):
        return None  # CPython's own functions: validated against the model, no werkzeug claim here

    def bucket(self, case, real_out):
        if case["op"] == "join":
            return "join"
        r = unhs(real_out)
        return "norm:" + ("abs" if r.startswith("/") else "dotdot" if r.startswith("..") else "dot" if r == "." else "rel")


class SafeJoin(Stream):
    name = "safe-join"
    corpus = [
        {"d": hs(d), "ps": [hs(x) for x in ps]}
        for d, ps in [
            ("/srv/root", ["a"]),
            ("/srv/root", [".."]),
            ("/srv/root", ["a/../.."]),
            ("/srv/root", ["a", "../b"]),
            ("/srv/root", ["a", ".."]),
            ("/srv/root", ["/etc/passwd"]),
            ("/srv/root", ["//etc"]),
            ("/srv/root", [""]),
            ("/srv/root", ["", ".."]),
            ("/srv/root", ["", "a"]),
            ("/srv/root", ["."]),
            ("/srv/root", ["./"]),
            ("/srv/root", ["..a"]),
            ("/srv/root", ["..\\..\\x"]),
            ("/srv/root", ["a\x00/../../x"]),
            ("/srv/root", ["%2e%2e/x"]),
            ("/srv/root", ["~"]),
            ("/srv/root", ["C:\\x"]),
            ("", ["a"]),
            ("", ["..", "a"]),
            ("", [""]),
            ("", ["/a"]),
            ("/", ["a"]),
            ("/", [".."]),
            ("/", [""]),
            ("//", ["a"]),
            ("..", ["a"]),
            ("..", [".."]),
            ("rel", ["a/b/../../.."]),
            ("rel", ["a/b/../.."]),
            ("rel/", ["x", "", "y"]),
            ("/srv/root", []),
            ("", []),
        ]
    ]

    def exhaustive(self, tier):
        return tier == "thorough"

    def cases(self, rng, tier):
        if tier == "thorough":
            # every tuple of 1..2 atoms x every base, every triple over a reduced atom set
            for d in BASES:
                for n in (1, 2):
                    for ps in itertools.product(ATOMS, repeat=n):
                        yield {"d": hs(d), "ps": [hs(x) for x in ps]}
            small = ["..", ".", "", "/", "\\", "\x00", "a", "a/..", "../a", "a/../..", "..a"]
            for d in BASES:
                for ps in itertools.product(small, repeat=3):
                    yield {"d": hs(d), "ps": [hs(x) for x in ps]}
        while True:
            d = rng.choice(BASES)
            n = rng.choice([1, 1, 2, 2, 3, 3, 0, 4])
            yield {"d": hs(d), "ps": [hs(rand_component(rng)) for _ in range(n)]}

    def real(self, case):
        from werkzeug.security import safe_join

        return opt(hs, safe_join(unhs(case["d"]), *[unhs(x) for x in case["ps"]]))

    def model_line(self, case):
        return line("safejoin", case["d"], *case["ps"])

    def oracle(self, case, real_out):
        if real_out == "~":
            return None
        if real_out.startswith("EXC"):
            return f"safe_join raised {real_out}"
        return contained(unhs(case["d"]), unhs(real_out))

    def nontrivial(self, case, real_out):
        return real_out != "~"

    def bucket(self, case, real_out):
        return "refused" if real_out == "~" else real_out if real_out.startswith("EXC") else f"joined/{len(case['ps'])}"

    def mutate(self, case, rng):
        ps = case["ps"]
        for i in range(len(ps)):
            yield {"d": case["d"], "ps": ps[:i] + ps[i + 1 :]}
            yield {"d": case["d"], "ps": [ps[i]]}
        for d in BASES:
            yield {"d": hs(d), "ps": ps}
        for a in ATOMS:
            yield {"d": case["d"], "ps": ps + [hs(a)]}
            yield {"d": case["d"], "ps": [hs(a)] + ps}
            yield {"d": case["d"], "ps": [hs(a + "/..")] + ps}
            yield {"d": case["d"], "ps": [hs("../" + a)] + ps}


# ---------------------------------------------------------------------------
# real temporary tree

SENTINEL = b"TOP-SECRET-SENTINEL-7f3a9c"
INSIDE = {
    "index.html": b"inside:index",
    "a/b.txt": b"inside:a/b",
    ".hidden": b"inside:hidden",
    "a.b/c..d": b"inside:c..d",
    "sp ace.txt": b"inside:space",
    "..a": b"inside:dotdot-a",
    "a/...": b"inside:three-dots",
    "\\": b"inside:backslash",
    "é.txt": b"inside:eacute",
    "a/secret.txt": b"inside:a/secret",
}
_TREE = {}


def tree():
    """create base/{root,outside,root-evil}/... once per process, removed at exit"""
    if _TREE:
        return _TREE
    top = f"/var/tmp/wzverif.{os.getpid()}"
    base = os.path.join(top, "c14")
    shutil.rmtree(base, ignore_errors=True)
    root = os.path.join(base, "root")
    for rel, content in INSIDE.items():
        p = os.path.join(root, rel)
        os.makedirs(os.path.dirname(p), exist_ok=True)
        with open(p, "wb") as f:
            f.write(content)
    for rel in ["outside/secret.txt", "root-evil/secret.txt", "rootsecret.txt", "secret.txt", "outside/a/b.txt"]:
        p = os.path.join(base, rel)
        os.makedirs(os.path.dirname(p), exist_ok=True)
        with open(p, "wb") as f:
            f.write(SENTINEL + b":" + rel.encode())
    os.makedirs(os.path.join(root, "emptydir"), exist_ok=True)
    # a throw-away importable package with a static/ directory and sentinels beside / above it
    pkgname = f"wzverif_pkg_{os.getpid()}"
    pkgdir = os.path.join(base, "pkgroot", pkgname)
    for rel, content in {"__init__.py": b"", "static/x.css": b"inside:index", "static/a/b.txt": b"inside:a/b", "static/\\": b"inside:backslash", "secret.txt": SENTINEL + b":pkg/secret.txt", "static-evil/secret.txt": SENTINEL + b":pkg/static-evil"}.items():
        p = os.path.join(pkgdir, rel)
        os.makedirs(os.path.dirname(p), exist_ok=True)
        with open(p, "wb") as f:
            f.write(content)
    with open(os.path.join(base, "pkgroot", "secret.txt"), "wb") as f:
        f.write(SENTINEL + b":pkgroot/secret.txt")
    import sys

    sys.path.insert(0, os.path.join(base, "pkgroot"))
    _TREE.update(top=top, base=base, root=root, rel=os.path.relpath(root, os.getcwd()), pkgname=pkgname, pkgdir=pkgdir)
    atexit.register(shutil.rmtree, top, True)
    return _TREE


def root_of(case):
    t = tree()
    return {"abs": t["root"], "rel": t["rel"], "slash": t["root"] + "/", "dotted": t["base"] + "/outside/../root"}[case["root"]]


ROOT_KINDS = ["abs", "rel", "slash", "dotted"]

# request targets (raw, as sent on the wire, below the mount point /static/)
RAW_ATOMS = ["%252e%252e", "..%252f", "%252f", "%255c", "..%5C", "..%5c..%5c", "x.css", "..", ".", "", "%2e%2e", "%2E%2E", "%2e", "..%2f", "%2f", "%5c", "\\", "%00", "a", "b.txt", "index.html", "secret.txt", "outside", "root-evil", "root", "rootsecret.txt", "..a", "...", "%c3%a9.txt", "%ff", "a.b", "c..d", "sp%20ace.txt", ".hidden", "~", "C:", "%252e%252e", "emptydir", "%2e%2e%2f%2e%2e", "..;", "a/secret.txt"]


def rand_raw(rng):
    r = rng.random()
    if r < 0.6:
        n = rng.choice([1, 1, 2, 2, 3, 3, 4, 5])
        return "/".join(rng.choice(RAW_ATOMS) for _ in range(n))
    # a path to a real file (inside, or a sentinel outside), decorated the way scanners do
    if r < 0.8:
        segs = rng.choice(list(INSIDE)).split("/")
    else:
        segs = [".."] * rng.randrange(0, 3) + rng.choice(["outside/secret.txt", "root-evil/secret.txt", "rootsecret.txt", "secret.txt", "root/index.html", "root/../outside/secret.txt"]).split("/")
    out = []
    for sg in segs:
        d = rng.random()
        if d < 0.15:
            out.append(".")
        elif d < 0.3:
            out += [rng.choice(["a", "emptydir", "zzz", "index.html"]), ".."]
        elif d < 0.35:
            out.append("")
        enc = rng.random()
        if enc < 0.6:
            out.append(quote(sg, safe=""))
        elif enc < 0.8:
            out.append("".join("%%%02x" % b for b in sg.encode()))
        else:
            out.append(sg)
    return rng.choice(["/", "/", "/", "%2f", "%2F"]).join(out) if rng.random() < 0.2 else "/".join(out)


def hostile_raws():
    absq = "/@BASE@"
    return [
        "../outside/secret.txt",
        "%2e%2e/outside/secret.txt",
        # components that are still percent-encoded when the helper sees them (doubly encoded on the wire)
        "%252e%252e/outside/secret.txt",
        "..%252foutside%252fsecret.txt",
        "a/%252e%252e/%252e%252e/outside/secret.txt",
        "%252e%252e%252foutside%252fsecret.txt",
        "%252e%252e/secret.txt",
        "%252e%252e/root-evil/secret.txt",
        # backslash remainders (ordinary characters on POSIX; must reach the opener unchanged)
        "..%5Csecret.txt",
        "..%5C..%5Csecret.txt",
        "..%5c..%5c..%5coutside%5csecret.txt",
        "a%5C..%5C..%5Csecret.txt",
        "x.css",
        "a/b.txt",
        "..%2foutside%2fsecret.txt",
        "a/../../outside/secret.txt",
        "a/%2e%2e/%2e%2e/outside/secret.txt",
        "../root-evil/secret.txt",
        "../rootsecret.txt",
        "../secret.txt",
        "/" + absq.lstrip("/") + "/outside/secret.txt",
        "%2f" + absq.lstrip("/") + "/outside/secret.txt",
        "//" + absq.lstrip("/") + "/outside/secret.txt",
        "..\\outside\\secret.txt",
        "..%5coutside%5csecret.txt",
        "%00/../../outside/secret.txt",
        "a/b.txt%00/../../../outside/secret.txt",
        "./../outside/secret.txt",
        ".//../outside/secret.txt",
        "a/b.txt/../../../outside/secret.txt",
        "emptydir/../../outside/secret.txt",
        "index.html",
        "a/b.txt",
        "a//b.txt",
        "./a/./b.txt",
        "a/../index.html",
        ".hidden",
        "a.b/c..d",
        "sp%20ace.txt",
        "..a",
        "a/...",
        "%5c",
        "%c3%a9.txt",
        "",
        "emptydir",
        "a",
        "nonexistent",
        "a/secret.txt",
        "a/../a/secret.txt",
    ]


def fallback_app(environ, start_response):
    start_response("404 NOT FOUND", [("Content-Type", "text/plain")])
    return [b"fallback"]


def make_environ(path_decoded: str):
    return {
        "REQUEST_METHOD": "GET",
        "SCRIPT_NAME": "",
        "PATH_INFO": path_decoded.encode().decode("latin1"),
        "QUERY_STRING": "",
        "SERVER_NAME": "localhost",
        "SERVER_PORT": "80",
        "SERVER_PROTOCOL": "HTTP/1.1",
        "wsgi.url_scheme": "http",
        "wsgi.version": (1, 0),
        "wsgi.multithread": False,
        "wsgi.multiprocess": False,
        "wsgi.run_once": False,
    }


class StaticFiles(Stream):
    name = "static-files"
    corpus: list = []  # filled lazily (needs the tree path): see cases()

    def cases(self, rng, tier):
        for raw in hostile_raws():
            for kind in ("sfd", "sdm"):
                for rk in ROOT_KINDS:
                    yield {"kind": kind, "root": rk, "raw": raw}
            yield {"kind": "sdm-pkg", "root": "abs", "raw": raw}
        # regression F14a (fixed): a NUL under a package export must fall through to 404
        for raw in ("%00", "..a/%00", "x.css%00", "a/%00/b.txt"):
            yield {"kind": "sdm-pkg", "root": "abs", "raw": raw}
        n = 0
        limit = 1200 if tier == "quick" else 20000
        while n < limit:
            n += 1
            yield {"kind": rng.choice(["sfd", "sfd", "sdm", "sdm-exact", "sdm-pkg"]), "root": rng.choice(ROOT_KINDS), "raw": rand_raw(rng)}

    @staticmethod
    def decoded(case):
        # what the development server does with the request target (serving.WSGIRequestHandler.make_environ)
        raw = case["raw"].replace("@BASE@", quote(tree()["base"]).lstrip("/"))
        return unquote("/static/" + raw)

    def real(self, case):
        from werkzeug.exceptions import HTTPException
        from werkzeug.middleware.shared_data import SharedDataMiddleware
        from werkzeug.utils import send_from_directory
        from werkzeug.wsgi import get_path_info

        root = root_of(case)
        path = self.decoded(case)
        environ = make_environ(path)
        if case["kind"] == "sfd":
            # a routed view `/static/<path:filename>` handing the rest of the path to send_from_directory
            filename = get_path_info(environ)[len("/static/") :]
            try:
                resp = send_from_directory(root, filename, environ)
            except HTTPException as e:
                return f"{e.code}|-"
            resp.direct_passthrough = False
            body = resp.get_data()
            resp.close()
            return f"{resp.status_code}|{body.hex() or '-'}"
        if case["kind"] == "sdm-pkg":
            # a package export: served through get_package_loader / reader.open_resource
            mw = SharedDataMiddleware(fallback_app, {"/static": (tree()["pkgname"], "static")}, cache=False)
        elif case["kind"] == "sdm-exact":
            # the export key is the whole path (loader(None) branch first)
            mw = SharedDataMiddleware(fallback_app, {path: root})
        else:
            mw = SharedDataMiddleware(fallback_app, {"/static": root}, cache=False)
        status = []
        it = mw(environ, lambda s, h, exc_info=None: status.append(s))
        try:
            body = b"".join(it)
        finally:
            if hasattr(it, "close"):
                it.close()
        code = status[0].split()[0]
        if code == "404" and body == b"fallback":
            return "404|-"
        return f"{code}|{body.hex() or '-'}"

    @staticmethod
    def existing_files():
        t = tree()
        out = []
        for dirpath, _dirs, files in os.walk(t["base"]):
            out += [os.path.join(dirpath, f) for f in files]
        return sorted(out)

    def model_line(self, case):
        # the model computes the whole decision (safe_join, export matching, 404); the file system
        # enters as the list of existing regular files (os.path.isfile as an opaque predicate)
        root = root_of(case)
        path = self.decoded(case)
        files = [hs(f) for f in self.existing_files()]
        if case["kind"] == "sfd":
            return line("sfd", hs(os.getcwd()), hs(root), hs(path[len("/static/") :]), *files)
        if case["kind"] == "sdm-pkg":
            return line("sdmpkg", hs(tree()["pkgdir"]), hs(path), hs("/static"), hs("static"), *files)
        search = path if case["kind"] == "sdm-exact" else "/static"
        return line("sdm", hs(os.getcwd()), hs(path), hs(search), hs(root), *files)

    def canon_model(self, case, out):
        # the file system is outside the model: complete the model's joined path with os.path.isfile
        if out == "~":
            return "404|-"
        if out.startswith("EXC") or out.startswith("BAD") or out.startswith("UNKNOWN"):
            return out
        p = unhs(out)
        if case["kind"] == "sdm-pkg":
            p = os.path.join(tree()["pkgdir"], p)
        with open(p, "rb") as f:
            return "200|" + f.read().hex()

    def oracle(self, case, real_out):
        if real_out.startswith("EXC"):
            return f"static file helper raised {real_out}"
        code, _, body = real_out.partition("|")
        data = b"" if body == "-" else bytes.fromhex(body)
        if SENTINEL in data:
            return f"sentinel outside the root was served for {self.decoded(case)!r}"
        if code == "200" and data not in INSIDE.values():
            return f"200 with a body that is not a file inside the root for {self.decoded(case)!r}"
        return None

    def nontrivial(self, case, real_out):
        return real_out.startswith("200")

    def bucket(self, case, real_out):
        return case["kind"] + ":" + real_out.partition("|")[0]

    def mutate(self, case, rng):
        for raw in hostile_raws():
            yield {"kind": case["kind"], "root": case["root"], "raw": raw}
        for a in RAW_ATOMS:
            yield {"kind": case["kind"], "root": case["root"], "raw": a + "/" + case["raw"]}
            yield {"kind": case["kind"], "root": case["root"], "raw": case["raw"] + "/" + a}


# ---------------------------------------------------------------------------

ALLOWED = set("ABCDEFGHIJKLMNOPQRSTUVWXYZabcdefghijklmnopqrstuvwxyz0123456789_.-")
FN_ATOMS = ["a", "b", "Z", "0", ".", "..", "_", "-", " ", "/", "\\", "\t", "\n", "\x1c", "\x1f", "\x0b", "\x85", "\xa0", "\u3000", "\u2028", "．", "／", "＼", "ａ", "Ａ", "．．", "é", "ü", "ß", "ﬁ", "℀", "…", "‥", "․", "⁄", "∕", "\x00", "~", "$", "%2e", ":", "C:", "COM1", "NUL", "con", ".txt", "..txt", "__", "._", "_.", "\U0001f600", "①", "㎏", "ｱ", "\u0301", "\u202e", "\u200b", "\ufeff", "\u00ad", "＿", "－", "︒", "﹒"]


def rand_filename(rng):
    n = rng.choice([1, 2, 3, 4, 5, 6, 9, 12])
    out = []
    for _ in range(n):
        r = rng.random()
        if r < 0.7:
            out.append(rng.choice(FN_ATOMS))
        elif r < 0.8:
            out.append(chr(rng.randrange(0x80)))
        elif r < 0.9:
            out.append(chr(rng.choice([rng.randrange(0x80, 0x3100), rng.randrange(0xFE00, 0xFFF0), rng.randrange(0x2000, 0x2100)])))
        else:
            c = rng.randrange(0x80, 0x110000)
            if 0xD800 <= c < 0xE000:
                c = 0xFF0E
            out.append(chr(c))
    return "".join(out)


def fold(s: str) -> str:
    # exactly the first two statements of secure_filename (opaque to the model)
    return unicodedata.normalize("NFKD", s).encode("ascii", "ignore").decode("ascii")


class SecureFilename(Stream):
    name = "secure-filename"
    corpus = [
        {"s": hs(s)}
        for s in ["", "My cool movie.mov", "../../../etc/passwd", "i contain cool \xfcml\xe4uts.txt", ".", "..", "...", "._", "_.", ". .", "/", "\\", "a/b", "a\\b", "．．／ｅｔｃ／ｐａｓｓｗｄ", "．hidden", "․hidden", "‥/x", "…", " .a", "\x1c.a", "a\x1fb", ".\x00.", "a \t\n b", "_a_", "-a-", ".-.", "$.$a", "~/.ssh", "a b", "a  b", " a ", "\x85a", "\xa0.a", "\u3000.a", "é", "⁄etc⁄passwd", "℀", "COM1", "a\u0301", ". $ .x", "x.$", "$ .x", "x $. "]
    ]

    def cases(self, rng, tier):
        while True:
            yield {"s": hs(rand_filename(rng))}

    def real(self, case):
        from werkzeug.utils import secure_filename

        return hs(secure_filename(unhs(case["s"])))

    def model_line(self, case):
        return line("secure", hs(fold(unhs(case["s"]))))

    def oracle(self, case, real_out):
        from werkzeug.utils import secure_filename

        if real_out.startswith("EXC"):
            return f"secure_filename raised {real_out}"
        r = unhs(real_out)
        bad = sorted(set(r) - ALLOWED)
        if bad:
            return f"output contains {bad!r} (not ASCII [A-Za-z0-9_.-])"
        if any(c.isspace() or c in "/\\" for c in r):
            return "output contains whitespace or a path separator"
        if r.startswith("."):
            return f"output {r!r} starts with a dot"
        try:
            again = secure_filename(r)
        except Exception as e:  # noqa: BLE001
            return f"secure_filename raised {type(e).__name__} on its own output {r!r}"
        if again != r:
            return f"not idempotent: {r!r} -> {again!r}"
        return None

    def nontrivial(self, case, real_out):
        return real_out not in ("-", case["s"])

    def bucket(self, case, real_out):
        if real_out.startswith("EXC"):
            return real_out
        return "empty" if real_out == "-" else "unchanged" if real_out == case["s"] else "changed"

    def mutate(self, case, rng):
        s = unhs(case["s"])
        for i in range(len(s)):
            yield {"s": hs(s[:i] + s[i + 1 :])}
        for a in FN_ATOMS:
            yield {"s": hs(a + s)}
            yield {"s": hs(s + a)}


CHECK = Check(
    prop="C14",
    gen=["Paths", "PyFns_Paths", "StaticGlue"],
    modules=["WzVerif.Props.C14", "WzVerif.Props.C14T"],
    streams=[NormpathKernel(), SafeJoin(), StaticFiles(), SecureFilename(), PreludeKernels()],
    assumptions=[
        "POSIX path semantics (posixpath; os.sep == '/', os.path.altsep is None): _os_alt_seps is regenerated and the containment theorem is proved for an arbitrary alternative-separator list, but ntpath joining is not modelled",
        "posixpath.normpath / join are hand-modelled from CPython 3.12 and validated by stream normpath-kernel, not verified",
        "unicodedata.normalize('NFKD', .) is an opaque parameter of the secure_filename model; the only law used (idempotence theorem) is that it is the identity on ASCII text; the harness computes the fold with unicodedata exactly as the code does",
        "the file system is outside the model: os.path.isfile enters Model/StaticFiles.lean as an arbitrary predicate (theorem served_path_inside_root holds for every such predicate); stream static-files passes the list of existing regular files; symbolic links inside the root are out of scope (safe_join is purely lexical)",
        "containment is lexical: 'inside' means the segments of normpath(result) extend the segments of normpath(base) without '..' and with the same root ('', '/', '//')",
        "safe_join and secure_filename (whole function; NFKD opaque, the Windows branch decided at generation time) are regenerated from the source by tools/py2lean.py (Gen/PyFns_Paths.lean) on every run and proved equal to the hand models safeJoinWith / secureFilename for all inputs (Props/C14T, containment and charset restated on the translated definitions); posixpath.normpath/join/isabs stay the hand models, the other CPython primitives the translated code calls are modelled in Util/PyPrelude.lean and validated by stream prelude-kernels",
    ],
    trusted_extra=["CPython posixpath / str.split / str.strip / re semantics for the modelled primitives (validated by the streams, not verified)"],
    quick_budget=4000,
    thorough_budget=260000,
)

MANIFEST = {
    "level_text": "Machine-checked Lean 4 theorems about an executable model of posixpath.normpath/join, werkzeug.security.safe_join and the ASCII stage of secure_filename: normal-form shape of normpath, lexical containment of every accepted safe_join result for every base and any number of components, charset / no-leading-dot / idempotence of secure_filename; constants (_os_alt_seps, the strip regex class on every code point, strip/join literals) are regenerated from the source on every run; the hand model is tied to the code by differential streams, incl. send_from_directory and SharedDataMiddleware over a real temporary tree with sentinels outside the root.",
    "level_note": "Trusted: Lean kernel; extract.py; the correspondence harness; CPython posixpath/str/re for the modelled primitives (validated, not verified). NFKD is an opaque parameter (law: identity on ASCII). POSIX only; file system and symlinks outside the model.",
    "technique": "Lean 4 proof (induction over component lists with a stack invariant; decide over regenerated tables) + model/code correspondence + end-to-end oracle on a real file tree",
    "design_ref": "DESIGN.md section 4, C14",
}
