"""C08 - multi-value containers behave like their documented model.

Streams (each case = constructor input + a history of public operations; the canonical output holds
the return value / exception class of every operation and a dump of *all* public reads after the
last step - or after every step for the random long histories; since every prefix of an exhaustive
history is itself a case, every intermediate state is compared):

  ops-multidict   MultiDict / FileMultiDict            vs Model.Containers.MD
  ops-headers     Headers                              vs Model.Headers
  ops-headerset   HeaderSet                            vs Model.Containers.HS
  ops-combined    CombinedMultiDict over live dicts    vs Model.Containers.CMD
  ops-immutable   ImmutableMultiDict                   vs MD with every mutator = TypeError
  ops-environ     EnvironHeaders over a live environ   vs Model.Containers.EH
  immutable-plain ImmutableDict / ImmutableTypeConversionDict / ImmutableList   (oracle only)
  probes          copy / deepcopy / pickle / eq / hash consistency             (oracle only)

The oracle is independent of the Lean model: small Python reference implementations of the
*documented abstract models* (insertion-ordered multimap, ordered pair list with case-insensitive
keys, case-insensitive ordered set) are run on the same history and every read is compared.
"""
from __future__ import annotations

import itertools
import operator
import random
import re

from harness.pyprelude import PreludeKernels
from vlib.core import Check, Stream, hs

# --------------------------------------------------------------------------
# wire encoding (mirror of lean/WzVerif/Model/Wire.lean)


def e_atoms(l):
    return "+".join(hs(x) for x in l) if l else "[]"


def e_pairs(l):
    return "+".join(hs(k) + "=" + hs(sv(v)) for k, v in l) if l else "[]"


def sv(v):
    """what `str(value)` gives for the non-text values the streams use; {"o": text} stands for an
    object whose `__str__` returns `text` (a header datastructure, any object)"""
    if isinstance(v, dict) and "o" in v:
        return v["o"]
    return v if isinstance(v, str) else str(v)


class StrObj:
    """a non-str header value: only `str(value)` says what it is"""

    def __init__(self, text):
        self.text = text

    def __str__(self):
        return self.text


def pv(v):
    """the Python value of a case value"""
    if isinstance(v, dict) and "o" in v:
        return StrObj(v["o"])
    if isinstance(v, list):
        return [pv(x) for x in v]
    return v


def mv_list(v):
    """list-like mapping value in a case: list | {"t": [...]} tuple | {"s": [x]} one-element set"""
    if isinstance(v, dict):
        return list(v.get("t", v.get("s")))
    return list(v)


def e_map(entries):
    out = []
    for k, v in entries:
        if isinstance(v, (list, dict)):
            out.append(hs(k) + ":" + "/".join(hs(sv(x)) for x in mv_list(v)))
        else:
            out.append(hs(k) + "=" + hs(sv(v)))
    return "+".join(out) if out else "[]"


def e_arg(arg):
    tag = arg[0]
    if tag == "N":
        return "N", "[]"
    if tag in ("P", "H"):
        return tag, e_pairs(arg[1])
    return tag, e_map(arg[1])


def e_opt(v):
    return "~" if v is None else hs(sv(v))


def e_int(i):
    return "~" if i is None else str(i)


def o_s(s):
    if not isinstance(s, str):
        # FileStorage values of a FileMultiDict are identified by their filename; anything else that
        # is not text is shown by type and repr (it will not match a text model value)
        s = s.filename if hasattr(s, "filename") else f"<{type(s).__name__}:{s!r}>"
    return hs(s)


def o_list(f, l):
    return "[" + ",".join(f(x) for x in l) + "]"


def o_pair(p):
    return "(" + o_s(p[0]) + "," + o_s(p[1]) + ")"


def o_pairs(l):
    return o_list(o_pair, l)


def o_strs(l):
    return o_list(o_s, l)


def o_ints(l):
    return o_list(str, l)


def o_bool(b):
    return "t" if b else "f"


def o_klist(l):
    return o_list(lambda e: "(" + o_s(e[0]) + "," + o_strs(list(e[1])) + ")", l)


class SpecErr(Exception):
    """exception raised by a reference model; `name` is the Python class the real code documents"""

    def __init__(self, name):
        super().__init__(name)
        self.name = name


def exc_name(e):
    return e.name if isinstance(e, SpecErr) else type(e).__name__


def o_try(f, fmt):
    try:
        v = f()
    except Exception as e:  # noqa: BLE001 - the class is the observation
        return "!" + exc_name(e)
    return fmt(v)


def o_opt(f, v):
    return "~" if v is None else f(v)


# --------------------------------------------------------------------------
# building real arguments


def py_mval(v):
    if isinstance(v, dict):
        if "t" in v:
            return tuple(v["t"])
        return set(v["s"])
    if isinstance(v, list):
        return list(v)
    return v


def py_arg(arg, MultiDict=None, Headers=None):
    tag = arg[0]
    if tag == "N":
        return None
    if tag == "P":
        return [(k, v) for k, v in arg[1]]
    if tag == "D":
        return {k: py_mval(v) for k, v in arg[1]}
    if tag == "M":
        return MultiDict([(k, x) for k, v in arg[1] for x in mv_list(v)])
    if tag == "H":
        return Headers([(k, v) for k, v in arg[1]])
    raise ValueError(tag)


def py_kw(entries):
    return {k: py_mval(v) for k, v in entries}


# --------------------------------------------------------------------------
# reference models (the documented abstract behaviour), used by the oracles only


def conv_list(vals, type):
    out = []
    for v in vals:
        try:
            out.append(type(v))
        except (ValueError, TypeError):
            pass
    return out


class SpecMultiMap:
    """Insertion-ordered multimap: keys in first-insertion order, every key has >= 1 value.
    `taint` collects the keys of known findings whose precondition a history breached."""

    def __init__(self, arg=None, taint=None, quirk=False):
        self.m = []  # list of [key, [values]]
        self.taint = taint if taint is not None else []
        # quirk = the behaviour known finding F08d describes, and nothing else: `setlist(k, [])` /
        # `setlistdefault(k)` leave the key in place with zero values; such a key is `in` the dict,
        # counts for len / keys / lists, has no first value (KeyError on d[k], pop, popitem,
        # setdefault; IndexError from values() / items() / to_dict()) and takes later values
        self.quirk = quirk
        if arg is None:
            return
        tag = arg[0]
        if tag == "P":
            for k, v in arg[1]:
                self.add(k, v)
        elif tag == "D":
            for k, v in arg[1]:
                if isinstance(v, (list, dict)):
                    if mv_list(v):
                        self._put(k, mv_list(v))
                else:
                    self._put(k, [v])
        elif tag == "M":
            for k, v in arg[1]:
                for x in mv_list(v):
                    self.add(k, x)

    # -- helpers
    def _entry(self, k):
        for e in self.m:
            if e[0] == k:
                return e
        return None

    def _put(self, k, vs):
        e = self._entry(k)
        if e is None:
            self.m.append([k, list(vs)])
        else:
            e[1] = list(vs)

    def _remove(self, k):
        self.m = [e for e in self.m if e[0] != k]

    # -- reads
    def __len__(self):
        return len(self.m)

    def __contains__(self, k):
        return self._entry(k) is not None

    def keys(self):
        return [e[0] for e in self.m]

    def values(self):
        return [e[1][0] for e in self.m]  # IndexError on a key without values (quirk states only)

    def items(self, multi=False):
        if multi:
            return [(e[0], v) for e in self.m for v in e[1]]
        return [(e[0], e[1][0]) for e in self.m]

    def lists(self):
        return [(e[0], list(e[1])) for e in self.m]

    def listvalues(self):
        return [list(e[1]) for e in self.m]

    def to_dict(self, flat=True):
        return dict(self.items()) if flat else dict(self.lists())

    def __getitem__(self, k):
        e = self._entry(k)
        if e is None or not e[1]:
            raise SpecErr("BadRequestKeyError")
        return e[1][0]

    def get(self, k, default=None, type=None):
        e = self._entry(k)
        if e is None or not e[1]:
            return default
        if type is None:
            return e[1][0]
        try:
            return type(e[1][0])
        except (ValueError, TypeError):
            return default

    def getlist(self, k, type=None):
        e = self._entry(k)
        vals = list(e[1]) if e else []
        return vals if type is None else conv_list(vals, type)

    # -- mutators
    def add(self, k, v):
        e = self._entry(k)
        if e is None:
            self.m.append([k, [v]])
        else:
            e[1].append(v)

    def apply(self, op):
        n = op[0]
        if n == "setitem":
            self._put(op[1], [op[2]])
        elif n == "delitem":
            if op[1] not in self:
                raise SpecErr("KeyError")
            self._remove(op[1])
        elif n == "add":
            self.add(op[1], op[2])
        elif n == "setlist":
            if op[2]:
                self._put(op[1], op[2])
            elif self.quirk:
                self._put(op[1], [])
            else:
                # a key without values is not a state of a multimap: the key disappears
                self.taint.append("F08d")
                self._remove(op[1])
        elif n == "setdefault":
            if op[1] not in self:
                self._put(op[1], [op[2]])
            return self[op[1]]
        elif n == "setlistdefault":
            if op[1] not in self:
                if op[2] or self.quirk:
                    self._put(op[1], op[2])
                else:
                    self.taint.append("F08d")
            return self.getlist(op[1])
        elif n in ("update", "ior"):
            for k, v in spec_multi_items(op[1]):
                self.add(k, v)
        elif n == "or":
            if op[1][0] not in ("D", "M"):
                raise SpecErr("TypeError")
            c = SpecMultiMap(quirk=self.quirk)
            c.m = [[k, list(v)] for k, v in self.m]
            for k, v in spec_multi_items(op[1]):
                c.add(k, v)
            return c
        elif n == "pop":
            e = self._entry(op[1])
            if e is not None and not e[1]:  # quirk state: the entry goes, there is no value to return
                self._remove(op[1])
                e = None
            if e is None:
                if op[2] is None:
                    raise SpecErr("BadRequestKeyError")
                return op[2]
            v = self[op[1]]
            self._remove(op[1])
            return v
        elif n == "popitem":
            if not self.m:
                raise SpecErr("BadRequestKeyError")
            k, vs = self.m.pop()
            if not vs:  # quirk state
                raise SpecErr("BadRequestKeyError")
            return (k, vs[0])
        elif n == "poplist":
            vs = self.getlist(op[1])
            self._remove(op[1])
            return vs
        elif n == "popitemlist":
            if not self.m:
                raise SpecErr("BadRequestKeyError")
            k, vs = self.m.pop()
            return (k, vs)
        elif n == "clear":
            self.m = []
        else:
            raise AssertionError(op)
        return None


def spec_multi_items(arg):
    tag = arg[0]
    if tag in ("P", "H"):
        return [(k, v) for k, v in arg[1]]
    out = []
    for k, v in arg[1]:
        if isinstance(v, (list, dict)):
            out += [(k, x) for x in mv_list(v)]
        else:
            out.append((k, v))
    return out


def spec_clean(v):
    s = sv(v)
    if "\r" in s or "\n" in s:
        raise SpecErr("ValueError")
    return s


class SpecHeaders:
    """Ordered list of (key, value) text pairs; keys compare case-insensitively; a value with CR/LF
    is refused with ValueError."""

    def __init__(self, arg=None, taint=None):
        self.l = []
        self.taint = taint if taint is not None else []
        if arg is not None and arg[0] != "N":
            for k, v in spec_multi_items(arg):
                self.l.append((k, spec_clean(v)))

    def _match(self, k):
        return [i for i, p in enumerate(self.l) if p[0].lower() == k.lower()]

    def __len__(self):
        return len(self.l)

    def __iter__(self):
        return iter(list(self.l))

    def items(self, lower=False):
        return [((k.lower() if lower else k), v) for k, v in self.l]

    def keys(self, lower=False):
        return [k for k, _ in self.items(lower)]

    def values(self):
        return [v for _, v in self.l]

    def __str__(self):
        return "".join(f"{k}: {v}\r\n" for k, v in self.l) + "\r\n"

    def __contains__(self, k):
        return bool(self._match(k))

    def __getitem__(self, k):
        if isinstance(k, str):
            m = self._match(k)
            if not m:
                raise SpecErr("BadRequestKeyError")
            return self.l[m[0]][1]
        if isinstance(k, int):
            try:
                return self.l[k]
            except IndexError:
                raise SpecErr("IndexError") from None
        c = SpecHeaders()
        c.l = self.l[k]
        return c

    def get(self, k, default=None, type=None):
        m = self._match(k)
        if not m:
            return default
        v = self.l[m[0]][1]
        if type is None:
            return v
        try:
            return type(v)
        except ValueError:
            return default

    def getlist(self, k, type=None):
        vals = [self.l[i][1] for i in self._match(k)]
        return vals if type is None else conv_list(vals, type)

    # mutators
    def set(self, k, v):
        s = spec_clean(v)
        m = self._match(k)
        if not m:
            self.l.append((k, s))
        else:
            self.l = [((k, s) if i == m[0] else p) for i, p in enumerate(self.l) if i == m[0] or i not in m]

    def remove(self, k):
        m = self._match(k)
        self.l = [p for i, p in enumerate(self.l) if i not in m]

    def setlist(self, k, vs):
        if vs:
            self.set(k, vs[0])
            for v in vs[1:]:
                self.l.append((k, spec_clean(v)))
        else:
            self.remove(k)

    def update_map(self, entries):
        for k, v in entries:
            if isinstance(v, (list, dict)):
                self.setlist(k, mv_list(v))
            else:
                self.set(k, v)

    def update(self, arg, kw):
        tag = arg[0]
        if tag == "H":
            src = SpecHeaders(arg)
            for k in src.keys():
                self.setlist(k, src.getlist(k))
        elif tag == "M":
            for k, v in arg[1]:
                self.setlist(k, mv_list(v))
        elif tag == "D":
            self.update_map(arg[1])
        elif tag == "P":
            for k, v in arg[1]:
                self.set(k, v)
        self.update_map(kw)

    def apply(self, op):
        n = op[0]
        if n == "add":
            self.l.append((op[1], spec_clean(op[2])))
        elif n in ("set", "setitem"):
            self.set(op[1], op[2])
        elif n == "setlist":
            self.setlist(op[1], op[2])
        elif n == "setdefault":
            if op[1] not in self:
                self.set(op[1], op[2])
            return self[op[1]]
        elif n == "setlistdefault":
            if op[1] not in self:
                self.setlist(op[1], op[2])
            return self.getlist(op[1])
        elif n == "extend":
            if op[1][0] != "N":
                for k, v in spec_multi_items(op[1]):
                    self.l.append((k, spec_clean(v)))
            for k, v in spec_multi_items(["D", op[2]]):
                self.l.append((k, spec_clean(v)))
        elif n == "update":
            self.update(op[1], op[2])
        elif n == "ior":
            self.update(op[1], [])
        elif n == "or":
            if op[1][0] != "D":
                raise SpecErr("TypeError")
            c = SpecHeaders()
            c.l = list(self.l)
            c.update(op[1], [])
            return c
        elif n == "setidx":
            s = spec_clean(op[3])
            try:
                self.l[op[1]] = (op[2], s)
            except IndexError:
                raise SpecErr("IndexError") from None
        elif n == "setslice":
            new = [(k, spec_clean(v)) for k, v in op[3]]
            self.l[op[1] : op[2]] = new
        elif n in ("delitem", "remove"):
            self.remove(op[1])
        elif n == "delidx":
            try:
                del self.l[op[1]]
            except IndexError:
                raise SpecErr("IndexError") from None
        elif n == "delslice":
            del self.l[op[1] : op[2]]
        elif n in ("pop", "popitem"):
            if not self.l:
                raise SpecErr("IndexError")
            return self.l.pop()
        elif n == "popidx":
            try:
                return self.l.pop(op[1])
            except IndexError:
                raise SpecErr("IndexError") from None
        elif n == "popkey":
            if op[1] not in self:
                if op[2] is None:
                    raise SpecErr("BadRequestKeyError")
                return op[2]
            v = self[op[1]]
            self.remove(op[1])
            return v
        elif n == "clear":
            self.l = []
        else:
            raise AssertionError(op)
        return None


def token_ok(s):
    import string

    return all(c in "!#$%&'*+-.^_`|~" + string.ascii_letters + string.digits for c in s)


class SpecCISet:
    """Case-insensitive ordered set: members in insertion order, no two equal ignoring case."""

    def __init__(self, members=(), taint=None, quirk=False):
        self.s = []
        self.taint = taint if taint is not None else []
        # quirk = the behaviour known finding F08b describes, and nothing else: the item list and
        # the case-folded lookup set are kept side by side and item assignment does not look for
        # the new value elsewhere in the list (F08b); membership / len / bool follow the lookup set, iteration / indexing /
        # to_header the list, removal takes the first list item that matches
        self.quirk = quirk
        self.keys = set()
        for h in members:
            # (as repaired by 1a2e0e6 the constructor keeps the first spelling of a member)
            if not self._has(h):
                self.s.append(h)
                self.keys.add(h.lower())

    def _has(self, h):
        if self.quirk:
            return h.lower() in self.keys
        return any(x.lower() == h.lower() for x in self.s)

    def __len__(self):
        return len(self.keys) if self.quirk else len(self.s)

    def __iter__(self):
        return iter(list(self.s))

    def __bool__(self):
        return bool(self.keys) if self.quirk else bool(self.s)

    def __contains__(self, h):
        return self._has(h)

    def as_set(self, preserve_casing=False):
        if self.quirk and not preserve_casing:
            return set(self.keys)
        return set(self.s) if preserve_casing else {x.lower() for x in self.s}

    def to_header(self):
        def q(v):
            if not v:
                return '""'
            if token_ok(v):
                return v
            return '"' + v.replace("\\", "\\\\").replace('"', '\\"') + '"'

        return ", ".join(q(x) for x in self.s)

    def find(self, h):
        for i, x in enumerate(self.s):
            if x.lower() == h.lower():
                return i
        return -1

    def index(self, h):
        r = self.find(h)
        if r < 0:
            raise SpecErr("IndexError")
        return r

    def __getitem__(self, i):
        try:
            return self.s[i]
        except IndexError:
            raise SpecErr("IndexError") from None

    def _drop_first(self, key):
        for i, x in enumerate(self.s):
            if x.lower() == key:
                del self.s[i]
                return

    def apply_quirk(self, op):
        n = op[0]
        if n in ("add", "update"):
            for h in [op[1]] if n == "add" else op[1]:
                if h.lower() not in self.keys:
                    self.s.append(h)
                    self.keys.add(h.lower())
        elif n in ("remove", "discard"):
            key = op[1].lower()
            if key not in self.keys:
                if n == "remove":
                    raise SpecErr("KeyError")
                return None
            self.keys.discard(key)
            self._drop_first(key)
        elif n == "clear":
            self.s, self.keys = [], set()
        elif n == "delitem":
            try:
                rv = self.s.pop(op[1])
            except IndexError:
                raise SpecErr("IndexError") from None
            if rv.lower() not in self.keys:
                raise SpecErr("KeyError")
            self.keys.discard(rv.lower())
        elif n == "setitem":
            try:
                old = self.s[op[1]]
            except IndexError:
                raise SpecErr("IndexError") from None
            if old.lower() not in self.keys:
                raise SpecErr("KeyError")
            self.keys.discard(old.lower())
            self.s[op[1]] = op[2]
            self.keys.add(op[2].lower())
        else:
            raise AssertionError(op)
        return None

    def apply(self, op):
        if self.quirk:
            return self.apply_quirk(op)
        n = op[0]
        if n == "add":
            if not self._has(op[1]):
                self.s.append(op[1])
        elif n == "update":
            for h in op[1]:
                if not self._has(h):
                    self.s.append(h)
        elif n == "remove":
            if not self._has(op[1]):
                raise SpecErr("KeyError")
            self.s = [x for x in self.s if x.lower() != op[1].lower()]
        elif n == "discard":
            self.s = [x for x in self.s if x.lower() != op[1].lower()]
        elif n == "clear":
            self.s = []
        elif n == "delitem":
            try:
                del self.s[op[1]]
            except IndexError:
                raise SpecErr("IndexError") from None
        elif n == "setitem":
            try:
                old = self.s[op[1]]
            except IndexError:
                raise SpecErr("IndexError") from None
            others = [x for i, x in enumerate(self.s) if x is not old and x.lower() == op[2].lower()]
            if others:
                # assigning a member that is already present elsewhere: no set can hold it twice
                self.taint.append("F08b")
            idx = self.s.index(old)
            self.s = [op[2] if i == idx else x for i, x in enumerate(self.s) if i == idx or x.lower() != op[2].lower()]
        else:
            raise AssertionError(op)
        return None


# --------------------------------------------------------------------------
# applying a case op to the real object / dumps (shared by real objects and reference models:
# a dump only *calls public reads*)

INT = int


def hdr_dump(h, probes):
    parts = [
        f"len={len(h)}",
        "list=" + o_pairs(list(h)),
        "lower=" + o_pairs(list(h.items(lower=True))),
        "keys=" + o_strs(list(h.keys())),
        "values=" + o_strs(list(h.values())),
        "str=" + o_s(str(h)),
    ]
    for k in probes:
        parts.append(
            "k" + o_s(k) + "=" + o_try(lambda: h[k], o_s) + "/" + o_opt(str, h.get(k, type=INT)) + "/" + o_strs(h.getlist(k)) + "/" + o_ints(h.getlist(k, type=INT)) + "/" + o_bool(k in h)
        )
    for i in (0, 1, -1):
        parts.append(f"i{i}=" + o_try(lambda: h[i], o_pair))
    for a, b in ((1, None), (None, 1), (-1, None), (0, -1)):
        parts.append("s=" + o_pairs(list(h[a:b])))
    return "|".join(parts)


def hdr_consistency(h, probes):
    """reads that must agree with the ones in the dump (not modelled separately)"""
    bad = []
    if h.to_wsgi_list() != list(h):
        bad.append("to_wsgi_list")
    if list(h.items()) != list(h):
        bad.append("items")
    if list(h.keys(lower=True)) != [k for k, _ in h.items(lower=True)]:
        bad.append("keys(lower)")
    for k in probes:
        if h.get_all(k) != h.getlist(k):
            bad.append("get_all")
        g = h.get(k)
        if (g is None) != (k not in h) or (g is not None and g != h[k]):
            bad.append("get")
        if h.get(k, "dflt") != (h[k] if k in h else "dflt"):
            bad.append("get-default")
    if any(not isinstance(v, str) or not isinstance(k, str) for k, v in h):
        bad.append("non-str")
    return bad


def hdr_apply(h, op, ds):
    n = op[0]
    if n == "add":
        return h.add(op[1], pv(op[2]))
    if n == "set":
        return h.set(op[1], pv(op[2]))
    if n == "setlist":
        return h.setlist(op[1], pv(list(op[2])))
    if n == "setdefault":
        return h.setdefault(op[1], pv(op[2]))
    if n == "setlistdefault":
        return h.setlistdefault(op[1], pv(list(op[2])))
    if n in ("extend", "update"):
        f = getattr(h, n)
        a = py_arg(op[1], ds.MultiDict, ds.Headers)
        kw = py_kw(op[2])
        return f(a, **kw) if a is not None else f(**kw)
    if n == "setitem":
        h[op[1]] = pv(op[2])
        return None
    if n == "setidx":
        h[op[1]] = (op[2], pv(op[3]))
        return None
    if n == "setslice":
        h[op[1] : op[2]] = [(k, v) for k, v in op[3]]
        return None
    if n == "delitem":
        del h[op[1]]
        return None
    if n == "delidx":
        del h[op[1]]
        return None
    if n == "delslice":
        del h[op[1] : op[2]]
        return None
    if n == "remove":
        return h.remove(op[1])
    if n == "pop":
        return h.pop()
    if n == "popkey":
        return h.pop(op[1]) if op[2] is None else h.pop(op[1], op[2])
    if n == "popidx":
        return h.pop(op[1])
    if n == "popitem":
        return h.popitem()
    if n == "clear":
        return h.clear()
    if n == "ior":
        r = operator.ior(h, py_arg(op[1], ds.MultiDict, ds.Headers))
        assert r is h
        return None
    if n == "or":
        return operator.or_(h, py_arg(op[1], ds.MultiDict, ds.Headers))
    raise AssertionError(op)


def hdr_ret(r):
    if r is None:
        return "~"
    if isinstance(r, str):
        return o_s(r)
    if isinstance(r, tuple):
        return o_pair(r)
    if isinstance(r, list):
        return o_strs(r)
    return o_pairs(list(r))  # a Headers / SpecHeaders from `|`


def hdr_line_op(op):
    n = op[0]
    if n in ("add", "set", "setitem", "setdefault"):
        return f"{n},{hs(op[1])},{hs(sv(op[2]))}"
    if n in ("setlist", "setlistdefault"):
        return f"{n},{hs(op[1])},{e_atoms([sv(x) for x in op[2]])}"
    if n in ("extend", "update"):
        t, b = e_arg(op[1])
        return f"{n},{t},{b},{e_map(op[2])}"
    if n == "setidx":
        return f"setidx,{op[1]},{hs(op[2])},{hs(sv(op[3]))}"
    if n == "setslice":
        return f"setslice,{e_int(op[1])},{e_int(op[2])},{e_pairs(op[3])}"
    if n in ("delitem", "remove"):
        return f"{n},{hs(op[1])}"
    if n in ("delidx", "popidx"):
        return f"{n},{op[1]}"
    if n == "delslice":
        return f"delslice,{e_int(op[1])},{e_int(op[2])}"
    if n in ("pop", "popitem", "clear"):
        return n
    if n == "popkey":
        return f"popkey,{hs(op[1])},{e_opt(op[2])}"
    if n in ("ior", "or"):
        t, b = e_arg(op[1])
        return f"{n},{t},{b}"
    raise AssertionError(op)


def md_dump(d, probes):
    parts = [
        f"len={len(d)}",
        "keys=" + o_strs(list(d.keys())),
        "values=" + o_try(lambda: list(d.values()), o_strs),
        "items=" + o_try(lambda: list(d.items()), o_pairs),
        "itemsm=" + o_pairs(list(d.items(multi=True))),
        "lists=" + o_klist(list(d.lists())),
        "listvalues=" + o_list(o_strs, [list(x) for x in d.listvalues()]),
        "todict=" + o_try(lambda: list(d.to_dict().items()), o_pairs),
        "todictl=" + o_klist(list(d.to_dict(flat=False).items())),
    ]
    for k in probes:
        parts.append(
            "k" + o_s(k) + "=" + o_try(lambda: d[k], o_s) + "/" + o_opt(str, d.get(k, type=INT)) + "/" + o_strs(d.getlist(k)) + "/" + o_ints(d.getlist(k, type=INT)) + "/" + o_bool(k in d)
        )
    return "|".join(parts)


def md_consistency(d, probes):
    bad = []
    if list(d) != list(d.keys()):
        bad.append("iter")
    for k in probes:
        g = d.get(k)
        try:
            want = d[k]
        except KeyError:
            want = None
        if g != want:
            bad.append("get")
        if d.get(k, "dflt") != (want if want is not None else "dflt"):
            bad.append("get-default")
    return bad


def md_apply(d, op, ds):
    n = op[0]
    if n == "setitem":
        d[op[1]] = op[2]
        return None
    if n == "delitem":
        del d[op[1]]
        return None
    if n == "add":
        return d.add(op[1], op[2])
    if n == "setlist":
        return d.setlist(op[1], list(op[2]))
    if n == "setdefault":
        return d.setdefault(op[1], op[2])
    if n == "setlistdefault":
        return list(d.setlistdefault(op[1], list(op[2])) if op[2] else d.setlistdefault(op[1]))
    if n == "update":
        return d.update(py_arg(op[1], ds.MultiDict, ds.Headers))
    if n == "ior":
        r = operator.ior(d, py_arg(op[1], ds.MultiDict, ds.Headers))
        assert r is d
        return None
    if n == "or":
        return operator.or_(d, py_arg(op[1], ds.MultiDict, ds.Headers))
    if n == "pop":
        return d.pop(op[1]) if op[2] is None else d.pop(op[1], op[2])
    if n == "popitem":
        return d.popitem()
    if n == "poplist":
        return d.poplist(op[1])
    if n == "popitemlist":
        return d.popitemlist()
    if n == "clear":
        return d.clear()
    raise AssertionError(op)


def md_ret(r):
    if r is None:
        return "~"
    if isinstance(r, str) or hasattr(r, "filename"):
        return o_s(r)
    if isinstance(r, list):
        return o_strs(r)
    if isinstance(r, tuple):
        if isinstance(r[1], list):
            return "(" + o_s(r[0]) + "," + o_strs(r[1]) + ")"
        return o_pair(r)
    return o_klist(list(r.lists()))  # MultiDict / SpecMultiMap from `|`


def md_line_op(op):
    n = op[0]
    if n in ("setitem", "add", "setdefault"):
        return f"{n},{hs(op[1])},{hs(op[2])}"
    if n in ("delitem", "poplist"):
        return f"{n},{hs(op[1])}"
    if n in ("setlist", "setlistdefault"):
        return f"{n},{hs(op[1])},{e_atoms(op[2])}"
    if n in ("update", "ior", "or"):
        t, b = e_arg(op[1])
        if t == "H":
            t = "P"  # a Headers argument is an iterable of pairs for MultiDict
        return f"{n},{t},{b}"
    if n == "pop":
        return f"pop,{hs(op[1])},{e_opt(op[2])}"
    if n in ("popitem", "popitemlist", "clear"):
        return n
    raise AssertionError(op)


def hs_dump(s, probes):
    parts = [
        f"len={len(s)}",
        "list=" + o_strs(list(s)),
        "bool=" + o_bool(bool(s)),
        "asset=[" + ",".join(sorted(o_s(x) for x in s.as_set())) + "]",
        "assetp=[" + ",".join(sorted(o_s(x) for x in s.as_set(preserve_casing=True))) + "]",
        "header=" + o_s(s.to_header()),
    ]
    for k in probes:
        parts.append("k" + o_s(k) + "=" + o_bool(k in s) + "/" + str(s.find(k)) + "/" + o_try(lambda: s.index(k), str))
    for i in (0, 1, -1):
        parts.append(f"i{i}=" + o_try(lambda: s[i], o_s))
    return "|".join(parts)


def hs_apply(s, op):
    n = op[0]
    if n == "add":
        return s.add(op[1])
    if n == "remove":
        return s.remove(op[1])
    if n == "discard":
        return s.discard(op[1])
    if n == "update":
        return s.update(list(op[1]))
    if n == "clear":
        return s.clear()
    if n == "delitem":
        del s[op[1]]
        return None
    if n == "setitem":
        s[op[1]] = op[2]
        return None
    raise AssertionError(op)


def hs_line_op(op):
    n = op[0]
    if n in ("add", "remove", "discard"):
        return f"{n},{hs(op[1])}"
    if n == "update":
        return f"update,{e_atoms(op[1])}"
    if n == "clear":
        return "clear"
    if n == "delitem":
        return f"delitem,{op[1]}"
    if n == "setitem":
        return f"setitem,{op[1]},{hs(op[2])}"
    raise AssertionError(op)


def run_history(obj, ops, apply, ret, dump, all_):
    outs = ["#" + (dump(obj) if all_ or not ops else "")]
    for i, op in enumerate(ops):
        try:
            s = ret(apply(obj, op))
        except Exception as e:  # noqa: BLE001
            s = "!" + exc_name(e)
        if all_ or i == len(ops) - 1:
            s += "#" + dump(obj)
        outs.append(s)
    return ";".join(outs)


def first_diff(a, b):
    sa, sb = a.split(";"), b.split(";")
    for i, (x, y) in enumerate(zip(sa, sb)):
        if x != y:
            px, py = x.split("|"), y.split("|")
            for u, v in zip(px, py):
                if u != v:
                    return f"step {i}: real {u[:80]} != model {v[:80]}"
            return f"step {i}: differs"
    return "different number of steps"


# --------------------------------------------------------------------------
# enumeration helpers


def histories(alphabet, n):
    for k in range(n + 1):
        yield from itertools.product(alphabet, repeat=k)


class OpsStream(Stream):
    """common machinery: exhaustive histories over graded alphabets, then random long ones"""

    kind = ""
    probes: list = []
    inits: list = []
    FULL: list = []  # every op form: exhaustive to length 2 (3 in thorough), random histories
    CORE: list = []  # exhaustive to length 3 (quick)
    SMALL: list = []  # exhaustive to length 4 (thorough)
    TINY: list = []  # exhaustive to length 5 (thorough)
    quick_random = 400
    thorough_random = 3000

    def mk(self, init, ops, all_=0):
        return {"init": init, "ops": [list(o) for o in ops], "all": all_}

    def cases(self, rng, tier):
        seen = set()

        def emit(init, ops, all_=0):
            key = (repr(init), repr(ops), all_)
            if key in seen:
                return None
            seen.add(key)
            return self.mk(init, ops, all_)

        if tier == "quick":
            plan = [(self.FULL, 1, self.inits), (self.FULL, 2, self.inits[:2]), (self.CORE, 3, self.inits[:2])]
        else:
            # sized so that the base pass of the whole check stays near 2-3 min (the thorough tier
            # then keeps exploring with derived seeds for VERIF_THOROUGH_SECONDS)
            plan = [(self.FULL, 2, self.inits), (self.CORE, 3, self.inits[:3]), (self.SMALL, 4, self.inits[:1]), (self.TINY, 5, self.inits[:1])]
            if len(self.FULL) ** 3 <= 40000:
                plan.append((self.FULL, 3, self.inits[:1]))
        for alphabet, n, inits in plan:
            for init in inits:
                for ops in histories(alphabet, n):
                    c = emit(init, list(ops))
                    if c is not None:
                        yield c
        for _ in range(self.quick_random if tier == "quick" else self.thorough_random):
            init = rng.choice(self.inits)
            n = rng.randrange(4, 13)
            yield self.mk(init, [self.random_op(rng) for _ in range(n)], 1)

    def random_op(self, rng):
        return rng.choice(self.FULL)

    def exhaustive(self, tier):
        return True

    def nontrivial(self, case, real_out):
        return len(case["ops"]) > 0

    def bucket(self, case, real_out):
        n = len(case["ops"])
        return f"len={n if n < 6 else '6+'} exc={'y' if '!' in real_out else 'n'}"

    def mutate(self, case, rng):
        ops = case["ops"]
        for i in range(len(ops)):
            yield self.mk(case["init"], ops[:i] + ops[i + 1 :], case.get("all", 0))
        for i in range(1, len(ops)):
            yield self.mk(case["init"], ops[:i], case.get("all", 0))

    # oracle: the reference model of the documented behaviour, evaluated on the same history
    def spec(self, case):
        raise NotImplementedError

    def strip(self, out):
        return out

    def spec_quirk(self, case):
        """the outcome a known finding of this container describes (None: no such finding here)"""
        return None

    def oracle(self, case, real_out):
        taint = []
        want = self.spec(case, taint)
        got = self.strip(real_out)
        if "INCONSISTENT" in real_out:
            return "public reads disagree with each other: " + real_out[real_out.index("INCONSISTENT") :][:120]
        if got != want:
            # A known-finding key is attached only when (a) the history contains the call the finding
            # names (taint) and (b) the whole observed outcome - every return value, exception and
            # read after every step - is exactly the outcome that finding describes (spec_quirk);
            # any other deviation from the documented model on the same history stays unclassified.
            pre = ""
            if taint:
                try:
                    quirk = self.spec_quirk(case)
                except Exception:  # noqa: BLE001 - a reference-model problem must not hide a violation
                    quirk = None
                if quirk is not None and got == quirk:
                    pre = sorted(set(taint))[0] + ": "
            return pre + "reads disagree with the documented model; " + first_diff(got, want)
        return None

    def finding_key(self, case, what):
        m = re.match(r"(F08[a-z]): ", what)
        return m.group(1) if m else None


K = ["a", "b", "A"]


class MultiDictStream(OpsStream):
    name = "ops-multidict"
    probes = ["a", "b", "A", "zz"]
    inits = [
        ["N"],
        ["P", [["a", "1"], ["b", "x"], ["a", "2"]]],
        ["D", [["a", ["1", "x"]], ["b", "2"]]],
        ["M", [["b", ["x"]], ["a", ["1", "1"]]]],
        ["D", [["a", {"t": ["7", "8"]}], ["b", []], ["A", {"s": ["5"]}]]],
        ["P", [["A", "3"], ["a", "x"], ["A", "4"]]],
    ]
    FULL = (
        [["setitem", k, v] for k in ("a", "b") for v in ("1", "x")]
        + [["delitem", k] for k in ("a", "b")]
        + [["add", k, v] for k in ("a", "b", "A") for v in ("1", "x")]
        + [["setlist", k, vs] for k in ("a", "b") for vs in ([], ["x"], ["1", "x"])]
        + [["setdefault", k, v] for k in ("a", "b") for v in ("1", "x")]
        + [["setlistdefault", k, vs] for k in ("a", "b") for vs in ([], ["x", "1"])]
        + [
            ["update", ["P", [["a", "1"], ["b", "x"]]]],
            ["update", ["D", [["b", ["x", "1"]], ["a", []], ["A", "2"]]]],
            ["update", ["M", [["a", ["9", "8"]]]]],
            ["update", ["H", [["a", "1"], ["A", "2"]]]],
            ["ior", ["P", [["b", "7"]]]],
            ["ior", ["D", [["a", {"t": ["5", "6"]}]]]],
            ["or", ["D", [["a", "5"], ["c", ["1", "2"]]]]],
            ["or", ["P", [["a", "5"]]]],
            ["or", ["M", [["b", ["4"]]]]],
        ]
        + [["pop", k, d] for k in ("a", "b") for d in (None, "dd")]
        + [["popitem"], ["popitemlist"], ["clear"]]
        + [["poplist", k] for k in ("a", "b")]
    )
    CORE = [
        ["setitem", "a", "1"],
        ["setitem", "b", "x"],
        ["delitem", "a"],
        ["add", "a", "x"],
        ["add", "b", "1"],
        ["setlist", "a", ["1", "x"]],
        ["setlist", "b", []],
        ["setdefault", "a", "x"],
        ["setdefault", "b", "1"],
        ["setlistdefault", "a", []],
        ["setlistdefault", "b", ["x", "1"]],
        ["update", ["P", [["a", "1"], ["b", "x"]]]],
        ["update", ["D", [["b", ["x", "1"]], ["a", []]]]],
        ["pop", "a", None],
        ["pop", "b", "dd"],
        ["popitem"],
        ["poplist", "a"],
        ["popitemlist"],
        ["clear"],
    ]
    SMALL = [
        ["setitem", "a", "1"],
        ["add", "a", "x"],
        ["add", "b", "1"],
        ["setlist", "b", []],
        ["setlist", "a", ["1", "x"]],
        ["setdefault", "b", "1"],
        ["setlistdefault", "a", []],
        ["pop", "a", None],
        ["popitem"],
        ["poplist", "b"],
        ["delitem", "a"],
        ["update", ["D", [["b", ["x", "1"]], ["a", []]]]],
    ]
    TINY = [["add", "a", "x"], ["add", "b", "1"], ["setitem", "a", "1"], ["setlist", "b", []], ["pop", "a", None], ["popitem"], ["setlistdefault", "a", []], ["delitem", "b"]]
    cls = "MultiDict"

    def real(self, case):
        import werkzeug.datastructures as ds

        cls = getattr(ds, case.get("cls", "MultiDict"))
        d = cls(py_arg(case["init"], ds.MultiDict, ds.Headers))
        if cls is ds.FileMultiDict:
            import io

            def fapply(o, op):
                if op[0] == "add":
                    return o.add_file(op[1], io.BytesIO(b"data"), filename=op[2])
                if op[0] == "setitem":
                    o[op[1]] = ds.FileStorage(io.BytesIO(b"data"), filename=op[2])
                    return None
                return md_apply(o, op, ds)

            return run_history(d, case["ops"], fapply, md_ret, lambda x: md_dump(x, self.probes), case.get("all", 0))

        def dump(x):
            bad = md_consistency(x, self.probes)
            return md_dump(x, self.probes) + ("|INCONSISTENT:" + ",".join(bad) if bad else "")

        return run_history(d, case["ops"], lambda o, op: md_apply(o, op, ds), md_ret, dump, case.get("all", 0))

    def model_line(self, case):
        t, b = e_arg(case["init"])
        return "\t".join(["md", str(case.get("all", 0)), e_atoms(self.probes), t, b] + [md_line_op(o) for o in case["ops"]])

    def spec(self, case, taint):
        d = SpecMultiMap(case["init"], taint)
        return run_history(d, case["ops"], lambda o, op: o.apply(op), md_ret, lambda x: md_dump(x, self.probes), case.get("all", 0))

    def spec_quirk(self, case):
        d = SpecMultiMap(case["init"], None, quirk=True)
        return run_history(d, case["ops"], lambda o, op: o.apply(op), md_ret, lambda x: md_dump(x, self.probes), case.get("all", 0))

    def cases(self, rng, tier):
        for c in super().cases(rng, tier):
            yield c
        # the file variant: same container, `add_file` is `add` of a FileStorage
        fmd = [["add", "a", "f.txt"], ["add", "b", "g.bin"], ["add", "a", "h"], ["setitem", "a", "i.png"], ["pop", "a", None], ["popitem"], ["poplist", "b"], ["popitemlist"], ["delitem", "a"], ["clear"]]
        for ops in histories(fmd, 3):
            c = self.mk(["N"], list(ops))
            c["cls"] = "FileMultiDict"
            yield c


HK = ["a", "A", "b"]


class HeadersStream(OpsStream):
    name = "ops-headers"
    probes = ["a", "A", "b", "zz"]
    inits = [
        ["N"],
        ["P", [["a", "1"], ["b", "x"], ["A", "2"]]],
        ["D", [["a", ["1", "x"]], ["B", "2"]]],
        ["H", [["b", "x"], ["a", "1"], ["A", "1"], ["b", "y"]]],
        ["M", [["b", ["x"]], ["a", ["1", "3"]]]],
        ["D", [["a", {"t": ["7", "8"]}], ["b", []], ["A", {"s": ["5"]}]]],
    ]
    FULL = (
        [["add", k, v] for k in HK for v in ("1", "x")]
        + [["set", k, v] for k in HK for v in ("1", "y")]
        + [["setitem", "A", "z"], ["setitem", "b", 5]]
        + [["setlist", k, vs] for k in ("a", "B") for vs in ([], ["x"], ["1", "x"])]
        + [["setdefault", k, "d"] for k in ("A", "b")]
        + [["setlistdefault", k, vs] for k in ("A", "b") for vs in ([], ["d", "e"])]
        + [
            ["extend", ["P", [["a", "1"], ["B", "x"]]], []],
            ["extend", ["D", [["b", ["x", "1"]], ["a", []], ["A", "2"]]], []],
            ["extend", ["N"], [["a", "k"], ["b", ["l", "m"]]]],
            ["extend", ["H", [["a", "1"], ["A", "2"]]], []],
            ["extend", ["M", [["a", ["9", "8"]]]], [["A", "kw"]]],
            ["update", ["P", [["a", "1"], ["B", "x"], ["A", "2"]]], []],
            ["update", ["D", [["b", ["x", "1"]], ["a", []], ["A", "2"]]], []],
            ["update", ["N"], [["a", "k"], ["b", {"t": ["l", "m"]}]]],
            ["update", ["H", [["a", "1"], ["A", "2"], ["b", "3"]]], []],
            ["update", ["M", [["a", ["9", "8"]], ["b", ["7"]]]], [["A", "kw"]]],
            ["ior", ["P", [["b", "7"]]]],
            ["ior", ["D", [["A", {"t": ["5", "6"]}]]]],
            ["or", ["D", [["a", "5"], ["c", ["1", "2"]]]]],
            ["or", ["P", [["a", "5"]]]],
            ["setidx", 0, "n", "0"],
            ["setidx", -1, "a", "9"],
            ["setidx", 5, "a", "9"],
            ["setslice", 1, None, [["s", "1"], ["a", "2"]]],
            ["setslice", None, 1, []],
            ["setslice", -1, 1, [["s", "3"]]],
            ["delitem", "a"],
            ["delitem", "B"],
            ["remove", "A"],
            ["delidx", 0],
            ["delidx", -1],
            ["delidx", 3],
            ["delslice", 1, None],
            ["delslice", None, -1],
            ["pop"],
            ["popitem"],
            ["popkey", "a", None],
            ["popkey", "B", "dd"],
            ["popidx", 0],
            ["popidx", -2],
            ["clear"],
        ]
        + [["add", "a", {"o": "obj\r\nX: 1"}], ["set", "b", {"o": "fine"}], ["setitem", "a", {"o": "\n"}], ["setlist", "a", ["1", {"o": "2\r"}]], ["setdefault", "zz", {"o": "v\n"}], ["setidx", 0, "a", {"o": "q\rq"}]]
        + [["add", "a", "x\ny"], ["set", "b", "x\r"], ["setlist", "a", ["1", "2\n"]], ["extend", ["P", [["a", "1"], ["b", "\r"]]], []], ["setidx", 0, "a", "\n"], ["setslice", 0, 1, [["a", "ok"], ["b", "\n"]]], ["update", ["D", [["a", ["1", "\n"]]]], []], ["setdefault", "zz", "\n"], ["setdefault", "a", "\n"], ["setlistdefault", "zz", ["1", "\r\n"]]]
    )
    CORE = [
        ["add", "a", "1"],
        ["add", "A", "x"],
        ["add", "b", "1"],
        ["set", "a", "y"],
        ["set", "A", "1"],
        ["set", "b", "y"],
        ["setlist", "a", ["1", "x"]],
        ["setlist", "B", []],
        ["setdefault", "A", "d"],
        ["setlistdefault", "b", ["d", "e"]],
        ["extend", ["D", [["b", ["x", "1"]], ["A", "2"]]], []],
        ["update", ["H", [["a", "1"], ["A", "2"], ["b", "3"]]], []],
        ["update", ["D", [["b", ["x", "1"]], ["a", []]]], []],
        ["setidx", 0, "n", "0"],
        ["setslice", 1, None, [["s", "1"], ["a", "2"]]],
        ["delitem", "a"],
        ["delidx", -1],
        ["pop"],
        ["popkey", "a", None],
        ["popidx", 0],
        ["add", "a", "x\ny"],
        ["setlist", "a", ["1", "2\n"]],
    ]
    SMALL = [
        ["add", "a", "1"],
        ["add", "A", "x"],
        ["add", "b", "1"],
        ["set", "a", "y"],
        ["set", "B", "y"],
        ["setlist", "a", ["1", "x"]],
        ["setlist", "A", []],
        ["update", ["H", [["a", "1"], ["A", "2"]]], []],
        ["delidx", 0],
        ["popkey", "a", None],
        ["setslice", 1, None, [["a", "2"]]],
        ["setdefault", "b", "d"],
    ]
    TINY = [["add", "a", "1"], ["add", "A", "x"], ["add", "b", "1"], ["set", "A", "y"], ["setlist", "a", ["1", "x"]], ["delidx", 0], ["remove", "a"], ["popkey", "b", None]]

    def real(self, case):
        import werkzeug.datastructures as ds

        h = ds.Headers(py_arg(case["init"], ds.MultiDict, ds.Headers))

        def dump(x):
            bad = hdr_consistency(x, self.probes)
            return hdr_dump(x, self.probes) + ("|INCONSISTENT:" + ",".join(bad) if bad else "")

        return run_history(h, case["ops"], lambda o, op: hdr_apply(o, op, ds), hdr_ret, dump, case.get("all", 0))

    def model_line(self, case):
        t, b = e_arg(case["init"])
        return "\t".join(["hdr", str(case.get("all", 0)), e_atoms(self.probes), t, b] + [hdr_line_op(o) for o in case["ops"]])

    def spec(self, case, taint):
        try:
            h = SpecHeaders(case["init"], taint)
        except SpecErr as e:
            return "!" + e.name
        return run_history(h, case["ops"], lambda o, op: o.apply(op), hdr_ret, lambda x: hdr_dump(x, self.probes), case.get("all", 0))


class HeaderSetStream(OpsStream):
    name = "ops-headerset"
    probes = ["a", "A", "b", "zz"]
    inits = [[], ["a", "b"], ["foo", "bar"], ["Ab", "c d", 'q"x'], ["a", "A"], ["b", "a", "B", "c"]]
    FULL = (
        [["add", h] for h in ("a", "A", "b", "c d")]
        + [["remove", h] for h in ("a", "A", "b", "Foo", "zz")]
        + [["discard", h] for h in ("a", "A", "B", "zz")]
        + [["update", hs_] for hs_ in ([], ["a"], ["A", "b"], ["c", "C", "a"])]
        + [["clear"]]
        + [["delitem", i] for i in (0, -1, 1, 5)]
        + [["setitem", i, v] for i in (0, -1, 3) for v in ("a", "B", "n")]
    )
    CORE = [["add", "a"], ["add", "A"], ["add", "b"], ["remove", "A"], ["remove", "b"], ["remove", "zz"], ["discard", "a"], ["discard", "B"], ["update", ["A", "b"]], ["update", ["c", "C", "a"]], ["clear"], ["delitem", 0], ["delitem", -1], ["delitem", 5], ["setitem", 0, "B"], ["setitem", -1, "a"], ["setitem", 0, "n"], ["setitem", 3, "n"]]
    SMALL = [["add", "a"], ["add", "A"], ["add", "b"], ["remove", "A"], ["remove", "b"], ["discard", "a"], ["update", ["A", "b"]], ["clear"], ["delitem", 0], ["delitem", -1], ["setitem", 0, "B"], ["setitem", -1, "a"], ["setitem", 0, "n"]]
    TINY = [["add", "a"], ["add", "B"], ["remove", "A"], ["discard", "b"], ["update", ["A", "b"]], ["delitem", 0], ["setitem", 0, "B"], ["setitem", -1, "n"], ["clear"]]
    corpus = [
        # F08c (repaired by 1a2e0e6): the constructor keeps one spelling of a member
        {"init": ["a", "A"], "ops": [], "all": 1},
        {"init": ["a", "A"], "ops": [["remove", "a"]], "all": 1},
        {"init": ["b", "a", "B", "c"], "ops": [["delitem", 0], ["add", "B"]], "all": 1},
        # F08a (repaired by bc9f56a): remove() with a different letter case
        {"init": ["foo", "bar"], "ops": [["remove", "Foo"]], "all": 1},
        {"init": ["Cookie"], "ops": [["remove", "Cookie"]], "all": 1},
        {"init": ["a", "b"], "ops": [["remove", "A"], ["add", "a"], ["discard", "B"]], "all": 1},
    ]

    def real(self, case):
        import werkzeug.datastructures as ds

        calls = [0]

        def cb(_):
            calls[0] += 1

        s = ds.HeaderSet(list(case["init"]), on_update=cb)

        def apply(o, op):
            before = calls[0]
            try:
                hs_apply(o, op)
            except Exception as e:
                e.notified = calls[0] != before
                raise
            return calls[0] != before

        outs = ["#" + (hs_dump(s, self.probes) if case.get("all", 0) or not case["ops"] else "")]
        for i, op in enumerate(case["ops"]):
            try:
                n = apply(s, op)
                r = "~/" + o_bool(n)
            except Exception as e:  # noqa: BLE001
                r = "!" + type(e).__name__ + "/" + o_bool(getattr(e, "notified", False))
            if case.get("all", 0) or i == len(case["ops"]) - 1:
                r += "#" + hs_dump(s, self.probes)
            outs.append(r)
        return ";".join(outs)

    def model_line(self, case):
        return "\t".join(["hs", str(case.get("all", 0)), e_atoms(self.probes), e_atoms(case["init"])] + [hs_line_op(o) for o in case["ops"]])

    def strip(self, out):
        # whether on_update fired is compared with the Lean model only (it matters for C16)
        return re.sub(r"/[tf](?=#|;|$)", "", out)

    def spec(self, case, taint):
        s = SpecCISet(case["init"], taint)
        return run_history(s, case["ops"], lambda o, op: o.apply(op), lambda r: "~", lambda x: hs_dump(x, self.probes), case.get("all", 0))

    def spec_quirk(self, case):
        s = SpecCISet(case["init"], None, quirk=True)
        return run_history(s, case["ops"], lambda o, op: o.apply(op), lambda r: "~", lambda x: hs_dump(x, self.probes), case.get("all", 0))


CMD_DOPS = [
    ["setitem", "a", "1"],
    ["add", "a", "x"],
    ["add", "b", "1"],
    ["add", "zz", "9"],
    ["setlist", "a", ["x", "2"]],
    ["setlist", "b", []],
    ["delitem", "a"],
    ["pop", "a", None],
    ["popitem"],
    ["clear"],
    ["setlistdefault", "a", []],
    ["update", ["P", [["b", "7"], ["a", "8"]]]],
]
CMD_CMUT = ["setitem", "delitem", "add", "setlist", "setdefault", "setlistdefault", "update", "ior", "pop", "popitem", "poplist", "popitemlist", "clear"]


class CombinedStream(OpsStream):
    name = "ops-combined"
    probes = ["a", "b", "A", "zz"]
    inits = [
        [["P", [["a", "1"], ["b", "x"]]], ["P", [["a", "2"], ["c", "3"]]]],
        [["N"], ["D", [["a", ["x", "1"]]]]],
        [],
        [["P", [["a", "x"], ["a", "1"]]], ["P", [["a", "2"]]], ["D", [["b", ["5", "y"]]]]],
    ]
    FULL = [["d", i] + op for i in (0, 1) for op in CMD_DOPS] + [["c", n] for n in CMD_CMUT]
    CORE = [["d", i] + op for i in (0, 1) for op in CMD_DOPS[:9]] + [["c", "add"], ["c", "clear"]]
    SMALL = [["d", i] + op for i in (0, 1) for op in CMD_DOPS[:6]] + [["c", "setitem"]]
    TINY = [["d", i] + op for i in (0, 1) for op in CMD_DOPS[1:5]]

    def cases(self, rng, tier):
        for c in super().cases(rng, tier):
            n = len(c["init"])
            if all(op[0] == "c" or op[1] < n for op in c["ops"]):
                yield c

    @staticmethod
    def cmut(c, name):
        calls = {
            "setitem": lambda: operator.setitem(c, "a", "1"),
            "delitem": lambda: operator.delitem(c, "a"),
            "add": lambda: c.add("a", "1"),
            "setlist": lambda: c.setlist("a", ["1"]),
            "setdefault": lambda: c.setdefault("a", "1"),
            "setlistdefault": lambda: c.setlistdefault("a", ["1"]),
            "update": lambda: c.update({"a": "1"}),
            "ior": lambda: operator.ior(c, {"a": "1"}),
            "pop": lambda: c.pop("a"),
            "popitem": lambda: c.popitem(),
            "poplist": lambda: c.poplist("a"),
            "popitemlist": lambda: c.popitemlist(),
            "clear": lambda: c.clear(),
        }
        return calls[name]()

    def dump_real(self, c):
        parts = [
            f"len={len(c)}",
            "keys=[" + ",".join(sorted(o_s(k) for k in c.keys())) + "]",
            "values=" + o_try(lambda: list(c.values()), o_strs),
            "items=" + o_try(lambda: list(c.items()), o_pairs),
            "itemsm=" + o_pairs(list(c.items(multi=True))),
            "lists=" + o_klist(list(c.lists())),
            "listvalues=" + o_list(o_strs, [list(x) for x in c.listvalues()]),
            "todict=" + o_try(lambda: list(c.to_dict().items()), o_pairs),
            "todictl=" + o_klist(list(c.to_dict(flat=False).items())),
        ]
        for k in self.probes:
            parts.append(
                "k" + o_s(k) + "=" + o_try(lambda: c[k], o_s) + "/" + o_try(lambda: c.get(k), lambda v: o_opt(o_s, v)) + "/" + o_try(lambda: c.get(k, type=INT), lambda v: o_opt(str, v)) + "/" + o_strs(c.getlist(k)) + "/" + o_ints(c.getlist(k, type=INT)) + "/" + o_bool(k in c)
            )
        bad = []
        if sorted(c) != sorted(c.keys()):
            bad.append("iter")
        try:
            cp = c.copy()
            if type(cp).__name__ != "MultiDict" or list(cp.lists()) != list(c.lists()):
                bad.append("copy")
        except Exception:  # noqa: BLE001
            bad.append("copy-raises")
        if bad:
            parts.append("INCONSISTENT:" + ",".join(bad))
        return "|".join(parts)

    def real(self, case):
        import werkzeug.datastructures as ds

        dicts = [ds.MultiDict(py_arg(a, ds.MultiDict, ds.Headers)) for a in case["init"]]
        c = ds.CombinedMultiDict(dicts)

        def apply(_, op):
            if op[0] == "c":
                return self.cmut(c, op[1])
            return md_apply(dicts[op[1]], op[2:], ds)

        return run_history(c, case["ops"], apply, md_ret, self.dump_real, case.get("all", 0))

    def model_line(self, case):
        parts = ["cmd", str(case.get("all", 0)), e_atoms(self.probes), str(len(case["init"]))]
        for a in case["init"]:
            parts += list(e_arg(a))
        for op in case["ops"]:
            if op[0] == "c":
                parts.append("c," + op[1])
            else:
                parts.append(f"d,{op[1]}," + md_line_op(op[2:]))
        return "\t".join(parts)

    def spec(self, case, taint):
        return self._spec(case, taint, False)

    def spec_quirk(self, case):
        # F08d inside a wrapped dict, seen through the view (the view adds nothing of its own)
        return self._spec(case, None, True)

    def _spec(self, case, taint, quirk):
        # documented: a read-only view combining the wrapped dicts: lookups go to the first dict
        # holding the key, list reads concatenate, mutators raise TypeError
        dicts = [SpecMultiMap(a, taint, quirk=quirk) for a in case["init"]]

        class View:
            def __len__(s):
                return len(s.keys())

            def keys(s):
                return {k for d in dicts for k in d.keys()}

            def __iter__(s):
                return iter(s.keys())

            def __contains__(s, k):
                return any(k in d for d in dicts)

            def __getitem__(s, k):
                for d in dicts:
                    if k in d:
                        return d[k]
                raise SpecErr("BadRequestKeyError")

            def get(s, k, default=None, type=None):
                for d in dicts:
                    if k in d:
                        if type is None:
                            return d[k]
                        try:
                            return type(d[k])
                        except (ValueError, TypeError):
                            continue
                return default

            def getlist(s, k, type=None):
                return [v for d in dicts for v in d.getlist(k, type)]

            def items(s, multi=False):
                if multi:
                    return [p for d in dicts for p in d.items(multi=True)]
                out, seen = [], set()
                for d in dicts:
                    for k, v in d.items():
                        if k not in seen:
                            seen.add(k)
                            out.append((k, v))
                return out

            def values(s):
                return [v for _, v in s.items()]

            def lists(s):
                order = []
                for d in dicts:
                    for k in d.keys():
                        if k not in order:
                            order.append(k)
                return [(k, s.getlist(k)) for k in order]

            def listvalues(s):
                return [v for _, v in s.lists()]

            def to_dict(s, flat=True):
                return dict(s.items()) if flat else dict(s.lists())

            def copy(s):
                return s

        view = View()

        def apply(_, op):
            if op[0] == "c":
                raise SpecErr("TypeError")
            return dicts[op[1]].apply(op[2:])

        def vdump(c):
            parts = [
                f"len={len(c)}",
                "keys=[" + ",".join(sorted(o_s(k) for k in c.keys())) + "]",
                "values=" + o_try(lambda: c.values(), o_strs),
                "items=" + o_try(lambda: c.items(), o_pairs),
                "itemsm=" + o_pairs(c.items(multi=True)),
                "lists=" + o_klist(c.lists()),
                "listvalues=" + o_list(o_strs, c.listvalues()),
                "todict=" + o_try(lambda: list(c.to_dict().items()), o_pairs),
                "todictl=" + o_klist(list(c.to_dict(flat=False).items())),
            ]
            for k in self.probes:
                parts.append("k" + o_s(k) + "=" + o_try(lambda: c[k], o_s) + "/" + o_try(lambda: c.get(k), lambda v: o_opt(o_s, v)) + "/" + o_try(lambda: c.get(k, type=INT), lambda v: o_opt(str, v)) + "/" + o_strs(c.getlist(k)) + "/" + o_ints(c.getlist(k, type=INT)) + "/" + o_bool(k in c))
            return "|".join(parts)

        return run_history(view, case["ops"], apply, md_ret, vdump, case.get("all", 0))


class ImmutableStream(OpsStream):
    name = "ops-immutable"
    probes = MultiDictStream.probes
    inits = MultiDictStream.inits[:5]
    FULL = MultiDictStream.CORE + [["ior", ["P", [["b", "7"]]]], ["or", ["D", [["a", "5"]]]]]
    CORE = MultiDictStream.SMALL[:8]
    SMALL = MultiDictStream.TINY[:5]
    TINY = MultiDictStream.TINY[:3]

    def real(self, case):
        import werkzeug.datastructures as ds

        d = ds.ImmutableMultiDict(py_arg(case["init"], ds.MultiDict, ds.Headers))
        h0 = hash(d)

        def dump(x):
            bad = md_consistency(x, self.probes)
            if hash(x) != h0:
                bad.append("hash-changed")
            return md_dump(x, self.probes) + ("|INCONSISTENT:" + ",".join(bad) if bad else "")

        return run_history(d, case["ops"], lambda o, op: md_apply(o, op, ds), md_ret, dump, case.get("all", 0))

    def model_line(self, case):
        t, b = e_arg(case["init"])
        return "\t".join(["imd", str(case.get("all", 0)), e_atoms(self.probes), t, b] + [md_line_op(o) for o in case["ops"]])

    def spec(self, case, taint):
        d = SpecMultiMap(case["init"], taint)

        def apply(o, op):
            if op[0] == "or":
                return o.apply(op)
            raise SpecErr("TypeError")

        return run_history(d, case["ops"], apply, md_ret, lambda x: md_dump(x, self.probes), case.get("all", 0))


EH_MUT = ["set", "add", "add_header", "setlist", "remove", "extend", "update", "pop", "popitem", "setdefault", "setlistdefault", "setitem", "delitem", "ior", "clear"]


def eh_mut(h, name):
    calls = {
        "set": lambda: h.set("X-A", "1"),
        "add": lambda: h.add("X-A", "1"),
        "add_header": lambda: h.add_header("X-A", "1"),
        "setlist": lambda: h.setlist("X-A", ["1"]),
        "remove": lambda: h.remove("X-A"),
        "extend": lambda: h.extend([("X-A", "1")]),
        "update": lambda: h.update([("X-A", "1")]),
        "pop": lambda: h.pop(),
        "popitem": lambda: h.popitem(),
        "setdefault": lambda: h.setdefault("X-A", "1"),
        "setlistdefault": lambda: h.setlistdefault("X-A", ["1"]),
        "setitem": lambda: operator.setitem(h, "X-A", "1"),
        "delitem": lambda: operator.delitem(h, "X-A"),
        "ior": lambda: operator.ior(h, {"X-A": "1"}),
        "clear": lambda: h.clear(),
    }
    return calls[name]()


class EnvironStream(OpsStream):
    name = "ops-environ"
    probes = ["X-A", "x-a", "x_a", "Content-Type", "content-length", "B", "zz"]
    # F08f (repaired by 1433786): EnvironHeaders.clear() must raise like every other mutator
    corpus = [{"init": [], "ops": [["m", "clear"]], "all": 1}, {"init": [["HTTP_X_A", "1"]], "ops": [["m", "clear"], ["m", "set"]], "all": 1}]
    inits = [
        [],
        [["HTTP_X_A", "1"], ["CONTENT_TYPE", "text/x"], ["HTTP_B", "2"], ["wsgi.version", "1"]],
        [["CONTENT_LENGTH", ""], ["HTTP_CONTENT_TYPE", "evil"], ["HTTP_X_A", "v"], ["REQUEST_METHOD", "GET"]],
    ]
    FULL = (
        [["envset", k, v] for k in ("HTTP_X_A", "HTTP_B", "CONTENT_TYPE", "CONTENT_LENGTH", "HTTP_CONTENT_LENGTH", "HTTP_X_1Y", "PATH_INFO") for v in ("1", "", "t/x")]
        + [["envdel", k] for k in ("HTTP_X_A", "HTTP_B", "CONTENT_TYPE")]
        + [["m", n] for n in EH_MUT]
    )
    CORE = [["envset", "HTTP_X_A", "1"], ["envset", "HTTP_B", ""], ["envset", "CONTENT_TYPE", "t/x"], ["envset", "CONTENT_LENGTH", ""], ["envset", "HTTP_CONTENT_LENGTH", "1"], ["envdel", "HTTP_X_A"], ["envdel", "CONTENT_TYPE"], ["m", "set"], ["m", "clear"], ["m", "pop"]]
    SMALL = CORE[:7]
    TINY = CORE[:5]

    @staticmethod
    def dump_real(h, probes):
        parts = [f"len={len(h)}", "list=" + o_pairs(list(h)), "keys=" + o_strs(list(h.keys())), "values=" + o_strs(list(h.values())), "str=" + o_s(str(h))]
        for k in probes:
            parts.append("k" + o_s(k) + "=" + o_try(lambda: h[k], o_s) + "/" + o_strs(h.getlist(k)) + "/" + o_bool(k in h))
        return "|".join(parts)

    def real(self, case):
        import werkzeug.datastructures as ds

        env = {k: v for k, v in case["init"]}
        h = ds.EnvironHeaders(env)

        def apply(_, op):
            if op[0] == "envset":
                env[op[1]] = op[2]
            elif op[0] == "envdel":
                env.pop(op[1], None)
            else:
                before = dict(env)
                try:
                    eh_mut(h, op[1])
                finally:
                    assert env == before and not h._list
            return None

        def dump(x):
            bad = []
            for k in self.probes:
                if (x.get(k) is None) != (k not in x):
                    bad.append("get")
            return self.dump_real(x, self.probes) + ("|INCONSISTENT:" + ",".join(bad) if bad else "")

        return run_history(h, case["ops"], apply, lambda r: "~", dump, case.get("all", 0))

    def model_line(self, case):
        ops = []
        for op in case["ops"]:
            if op[0] == "envset":
                ops.append(f"envset,{hs(op[1])},{hs(op[2])}")
            elif op[0] == "envdel":
                ops.append(f"envdel,{hs(op[1])}")
            else:
                ops.append("m," + op[1])
        return "\t".join(["eh", str(case.get("all", 0)), e_atoms(self.probes), e_pairs(case["init"])] + ops)

    def spec(self, case, taint):
        # documented: the headers of the WSGI environ - HTTP_* variables (name de-mangled) plus
        # CONTENT_TYPE / CONTENT_LENGTH; read only (TypeError on every mutator)
        env = {k: v for k, v in case["init"]}

        class View:
            def pairs(s):
                out = []
                for k, v in env.items():
                    if k in ("CONTENT_TYPE", "CONTENT_LENGTH"):
                        if v:
                            out.append((k.replace("_", "-").title(), v))
                    elif k.startswith("HTTP_") and k not in ("HTTP_CONTENT_TYPE", "HTTP_CONTENT_LENGTH"):
                        out.append((k[5:].replace("_", "-").title(), v))
                return out

            def __len__(s):
                return len(s.pairs())

            def __iter__(s):
                return iter(s.pairs())

            def keys(s):
                return [k for k, _ in s.pairs()]

            def values(s):
                return [v for _, v in s.pairs()]

            def __str__(s):
                return "".join(f"{k}: {v}\r\n" for k, v in s.pairs()) + "\r\n"

            def _var(s, k):
                k = k.upper().replace("-", "_")
                return k if k in ("CONTENT_TYPE", "CONTENT_LENGTH") else "HTTP_" + k

            def __getitem__(s, k):
                if s._var(k) not in env:
                    raise SpecErr("KeyError")
                return env[s._var(k)]

            def __contains__(s, k):
                return s._var(k) in env

            def getlist(s, k):
                return [v for kk, v in s.pairs() if kk.lower() == k.lower()]

        def apply(_, op):
            if op[0] == "envset":
                env[op[1]] = op[2]
            elif op[0] == "envdel":
                env.pop(op[1], None)
            else:
                raise SpecErr("TypeError")

        return run_history(View(), case["ops"], apply, lambda r: "~", lambda x: self.dump_real(x, self.probes), case.get("all", 0))


class TypeConvStream(OpsStream):
    """TypeConversionDict / ImmutableTypeConversionDict: dict mutators and `get(key, default, type)`
    vs Model.Containers.PyDict / TCD / Imm.dictStep (blocked names from the generated table)."""

    name = "ops-typeconv"
    probes = ["a", "b", "zz"]
    inits = [[], [["a", "1"], ["b", "x"]], [["b", "-7"], ["a", "+3"], ["c", ""]]]
    FULL = (
        [["setitem", k, v] for k in ("a", "b") for v in ("5", "x")]
        + [["delitem", k] for k in ("a", "zz")]
        + [["clear"], ["popitem"], ["update", [["a", "9"], ["q", "1"]]], ["update", []]]
        + [["setdefault", k, "12"] for k in ("a", "zz")]
        + [["pop", "a", None], ["pop", "zz", "d"], ["pop", "zz", None]]
    )
    CORE = FULL[:6] + FULL[8:12]
    SMALL = FULL[:4] + [["popitem"], ["pop", "a", None]]
    TINY = FULL[:3] + [["popitem"]]
    quick_random = 150
    thorough_random = 3000

    def cases(self, rng, tier):
        for cls in ("TypeConversionDict", "ImmutableTypeConversionDict"):
            for c in super().cases(rng, tier):
                c["cls"] = cls
                yield c

    @staticmethod
    def apply(d, op):
        n = op[0]
        if n == "setitem":
            d[op[1]] = op[2]
            return None
        if n == "delitem":
            del d[op[1]]
            return None
        if n == "clear":
            return d.clear()
        if n == "popitem":
            return d.popitem()[1]
        if n == "update":
            return d.update([(k, v) for k, v in op[1]])
        if n == "setdefault":
            return d.setdefault(op[1], op[2])
        if n == "pop":
            return d.pop(op[1]) if op[2] is None else d.pop(op[1], op[2])
        raise AssertionError(op)

    def dump(self, d):
        parts = [f"len={len(d)}", "items=" + o_pairs(list(d.items()))]
        for k in self.probes:
            parts.append("k" + o_s(k) + "=" + o_opt(o_s, d.get(k)) + "/" + o_opt(str, d.get(k, type=INT)) + "/" + o_opt(str, d.get(k, -1, type=INT)) + "/" + o_bool(k in d))
        return "|".join(parts)

    def real(self, case):
        import werkzeug.datastructures as ds

        d = getattr(ds, case["cls"])([(k, v) for k, v in case["init"]])
        return run_history(d, case["ops"], self.apply, lambda r: o_opt(o_s, r), self.dump, case.get("all", 0))

    def model_line(self, case):
        def line(op):
            n = op[0]
            if n in ("setitem", "setdefault"):
                return f"{n},{hs(op[1])},{hs(op[2])}"
            if n == "delitem":
                return f"delitem,{hs(op[1])}"
            if n == "update":
                return "update," + e_pairs(op[1])
            if n == "pop":
                return f"pop,{hs(op[1])},{e_opt(op[2])}"
            return n

        return "\t".join(["tcd", "I" if case["cls"].startswith("Immutable") else "T", str(case.get("all", 0)), e_atoms(self.probes), e_pairs(case["init"])] + [line(o) for o in case["ops"]])

    def spec(self, case, taint):
        # documented: a regular dict whose get() can convert; the immutable variant refuses mutators
        class Ref(dict):
            def get(s, k, default=None, type=None):
                if k not in s:
                    return default
                if type is None:
                    return s[k]
                try:
                    return type(s[k])
                except (ValueError, TypeError):
                    return default

        d = Ref([(k, v) for k, v in case["init"]])
        imm = case["cls"].startswith("Immutable")

        def apply(o, op):
            if imm:
                raise SpecErr("TypeError")
            return self.apply(o, op)

        return run_history(d, case["ops"], apply, lambda r: o_opt(o_s, r), self.dump, case.get("all", 0))

    def bucket(self, case, real_out):
        return case["cls"][:3] + " " + super().bucket(case, real_out)


class ImmutablePlainStream(Stream):
    """ImmutableDict / ImmutableTypeConversionDict / ImmutableList: every mutator of the mutable
    base raises TypeError and leaves the object (and its hash) unchanged. Oracle only."""

    name = "immutable-plain"
    LIST_M = {
        "__delitem__": (0,),
        "__iadd__": (["9"],),
        "__imul__": (2,),
        "__setitem__": (0, "9"),
        "append": ("9",),
        "clear": (),
        "extend": (["9"],),
        "insert": (0, "9"),
        "pop": (),
        "remove": ("1",),
        "reverse": (),
        "sort": (),
    }
    DICT_M = {
        "__delitem__": ("a",),
        "__ior__": ({"z": "9"},),
        "__setitem__": ("a", "9"),
        "clear": (),
        "pop": ("a",),
        "popitem": (),
        "setdefault": ("z", "9"),
        "update": ({"z": "9"},),
    }

    def cases(self, rng, tier):
        for cls, table in (("ImmutableList", self.LIST_M), ("ImmutableDict", self.DICT_M), ("ImmutableTypeConversionDict", self.DICT_M)):
            names = sorted(table)
            for n in names:
                yield {"cls": cls, "ops": [n]}
            for a in names:
                for b in names:
                    yield {"cls": cls, "ops": [a, b]}

    def real(self, case):
        import werkzeug.datastructures as ds

        cls = getattr(ds, case["cls"])
        islist = case["cls"] == "ImmutableList"
        x = cls(["2", "1", "3"]) if islist else cls({"a": "1", "b": "2"})
        table = self.LIST_M if islist else self.DICT_M
        snap = (lambda: list(x)) if islist else (lambda: list(dict.items(x)))
        h0 = hash(x)
        outs = []
        for n in case["ops"]:
            before = snap()
            try:
                getattr(x, n)(*table[n])
                r = "returned"
            except Exception as e:  # noqa: BLE001
                r = "!" + type(e).__name__
            outs.append(f"{n}:{r}:{'same' if snap() == before and hash(x) == h0 else 'CHANGED'}")
        return ";".join(outs)

    def oracle(self, case, real_out):
        for seg in real_out.split(";"):
            n, r, same = seg.split(":")
            if r != "!TypeError" or same != "same":
                return f"{case['cls']}.{n} -> {r}, object {same} (every mutator must raise TypeError and leave it unchanged)"
        return None

    # F08e (repaired by 1433786) stays covered: `clear` is in LIST_M and every name is enumerated
    corpus = [{"cls": "ImmutableList", "ops": ["clear"]}, {"cls": "ImmutableList", "ops": ["clear", "append"]}]

    def bucket(self, case, real_out):
        return case["cls"]

    def exhaustive(self, tier):
        return True


class CopyHeapStream(Stream):
    """An original MultiDict and a copy of it (copy() / copy.copy / deepcopy / pickle / MultiDict(d)),
    then histories that mutate either object - through the public mutators and through live lists
    handed out by `setlistdefault` - with all reads of BOTH objects after every step, vs the heap
    model Model.ContainersHeap (list objects with identity; `copyObj` allocates new ones).
    Oracle (independent of the model): the copy reads equal to the original, and a step on one object
    never changes any read of the other."""

    name = "copy-heap"
    probes = ["a", "b", "zz"]
    HOWS = ["copy()", "copy.copy", "deepcopy", "pickle", "ctor"]
    INITS = [["P", [["a", "1"], ["b", "x"], ["a", "2"]]], ["D", [["a", ["1", "x"]], ["b", "2"]]], ["N"]]
    OPS = [["add", "a", "x"], ["add", "b", "1"], ["setitem", "a", "1"], ["setlist", "a", ["x", "2"]], ["pop", "a", None], ["popitem"], ["update", ["P", [["a", "8"], ["c", "9"]]]], ["setlistdefault", "b", []], ["clear"], ["delitem", "a"]]
    VIAS = [["via", "a", ["t"]], ["via", "zz", ["u", "w"]]]

    def alphabet(self):
        out = []
        for i in (0, 1):
            out += [["o", i] + op for op in self.OPS]
            out += [[v[0], i] + v[1:] for v in self.VIAS]
        return out

    def cases(self, rng, tier):
        alpha = self.alphabet()
        for how in self.HOWS:
            for init in self.INITS:
                for n in (0, 1, 2):
                    if n == 2 and tier == "quick" and init is not self.INITS[0]:
                        continue
                    for ops in itertools.product(alpha, repeat=n):
                        yield {"how": how, "init": init, "ops": [list(o) for o in ops]}
        for _ in range(400 if tier == "quick" else 4000):
            yield {"how": rng.choice(self.HOWS), "init": rng.choice(self.INITS), "ops": [list(rng.choice(alpha)) for _ in range(rng.randrange(3, 9))]}

    def run(self, case):
        import copy
        import pickle

        import werkzeug.datastructures as ds

        d = ds.MultiDict(py_arg(case["init"], ds.MultiDict, ds.Headers))
        how = case["how"]
        c = d.copy() if how == "copy()" else copy.copy(d) if how == "copy.copy" else copy.deepcopy(d) if how == "deepcopy" else pickle.loads(pickle.dumps(d)) if how == "pickle" else ds.MultiDict(d)
        objs = [d, c]
        problems = []
        dumps = [md_dump(d, self.probes), md_dump(c, self.probes)]
        if type(c) is not ds.MultiDict or c is d:
            problems.append("the copy is not a new MultiDict")
        if dumps[0] != dumps[1]:
            problems.append("the copy reads differently from the original")
        outs = ["#" + dumps[0] + "@" + dumps[1]]
        for step, op in enumerate(case["ops"], 1):
            i = op[1]
            try:
                if op[0] == "via":
                    objs[i].setlistdefault(op[2]).extend(op[3])
                    ret = "~"
                else:
                    ret = md_ret(md_apply(objs[i], op[2:], ds))
            except Exception as e:  # noqa: BLE001
                ret = "!" + exc_name(e)
            new = [md_dump(d, self.probes), md_dump(c, self.probes)]
            if new[1 - i] != dumps[1 - i]:
                problems.append(f"step {step}: a mutation of the {'original' if i == 0 else 'copy'} changed the reads of the {'copy' if i == 0 else 'original'}")
            dumps = new
            outs.append(ret + "#" + dumps[0] + "@" + dumps[1])
        return ";".join(outs), problems

    def real(self, case):
        return self.run(case)[0]

    def model_line(self, case):
        t, b = e_arg(case["init"])
        ops = []
        for op in case["ops"]:
            if op[0] == "via":
                ops.append(f"via,{op[1]},{hs(op[2])},{e_atoms(op[3])}")
            else:
                ops.append(f"o,{op[1]}," + md_line_op(op[2:]))
        return "\t".join(["heap", e_atoms(self.probes), t, b] + ops)

    def oracle(self, case, real_out):
        if real_out.startswith("EXC:"):
            return "copying or reading raised " + real_out[4:]
        problems = self.run(case)[1]
        return (f"MultiDict {case['how']}: " + problems[0]) if problems else None

    def nontrivial(self, case, real_out):
        return len(case["ops"]) > 0

    def bucket(self, case, real_out):
        n = len(case["ops"])
        return f"{case['how']} len={n if n < 4 else '4+'}"

    def mutate(self, case, rng):
        ops = case["ops"]
        for i in range(len(ops)):
            yield dict(case, ops=ops[:i] + ops[i + 1 :])

    def exhaustive(self, tier):
        return True


class ProbeStream(Stream):
    """copy / deepcopy / pickle / eq / hash consistency and copy independence (runtime behaviour:
    oracle only). One aspect per case."""

    name = "probes"
    KINDS = ["MultiDict", "ImmutableMultiDict", "Headers", "HeaderSet", "ImmutableDict", "ImmutableTypeConversionDict", "ImmutableList", "CombinedMultiDict", "FileMultiDict", "TypeConversionDict"]
    ASPECTS = ["copy.copy", "copy()", "deepcopy", "pickle2", "pickle5", "eq", "eqhash"]
    # F08h (repaired by 27361e1): deepcopy of a CombinedMultiDict used to be an unusable object;
    # F08g (repaired by 2346059): copy.copy(HeaderSet) used to share the containers of the original
    corpus = [
        {"kind": "HeaderSet", "aspect": "copy.copy", "pairs": [["a", "1"]]},
        {"kind": "HeaderSet", "aspect": "copy.copy", "pairs": [["a", "1"], ["b", "x"], ["a", "2"]]},
        {"kind": "CombinedMultiDict", "aspect": "deepcopy", "pairs": [["a", "1"], ["b", "x"], ["a", "2"]]},
        {"kind": "CombinedMultiDict", "aspect": "deepcopy", "pairs": []},
    ]
    HASHABLE = ["ImmutableMultiDict", "ImmutableDict", "ImmutableTypeConversionDict", "ImmutableList"]
    # inputs whose keys can be inserted in another order without changing the value
    EQH_PAIRS = [
        [["a", "1"], ["b", "1"]],
        [["a", "1"], ["b", "2"], ["c", "3"]],
        [["a", "1"], ["b", "x"], ["a", "2"]],
        [["b", "1"], ["a", "1"], ["b", "2"], ["a", "2"], ["c", "1"]],
        [["a", "1"]],
        [],
    ]

    def cases(self, rng, tier):
        n = 600 if tier == "quick" else 8000
        for kind in self.KINDS:
            for asp in self.ASPECTS:
                yield {"kind": kind, "aspect": asp, "pairs": []}
                yield {"kind": kind, "aspect": asp, "pairs": [["a", "1"], ["b", "x"], ["a", "2"]]}
        # equal objects built with their keys inserted in a different order: equal hash, one set member
        for kind in self.HASHABLE:
            for pairs in self.EQH_PAIRS:
                for perm in range(6):
                    yield {"kind": kind, "aspect": "eqhash", "pairs": pairs, "perm": perm}
        for _ in range(n):
            kind = rng.choice(self.KINDS)
            pairs = [[rng.choice(["a", "b", "A", "c"]), rng.choice(["1", "2", "x"])] for _ in range(rng.randrange(0, 5))]
            asp = rng.choice(self.ASPECTS)
            if asp == "eqhash":
                kind = rng.choice(self.HASHABLE)
            yield {"kind": kind, "aspect": asp, "pairs": pairs, "perm": rng.randrange(1000)}

    @staticmethod
    def build(ds, kind, pairs):
        pairs = [(k, v) for k, v in pairs]
        if kind in ("MultiDict", "ImmutableMultiDict", "FileMultiDict"):
            return getattr(ds, kind)(pairs)
        if kind == "Headers":
            return ds.Headers(pairs)
        if kind == "HeaderSet":
            seen, out = set(), []
            for k, _ in pairs:
                if k.lower() not in seen:
                    seen.add(k.lower())
                    out.append(k)
            return ds.HeaderSet(out)
        if kind in ("ImmutableDict", "ImmutableTypeConversionDict", "TypeConversionDict"):
            return getattr(ds, kind)(dict(pairs))
        if kind == "ImmutableList":
            return ds.ImmutableList([v for _, v in pairs])
        if kind == "CombinedMultiDict":
            return ds.CombinedMultiDict([ds.MultiDict(pairs[:2]), ds.MultiDict(pairs[2:])])
        raise AssertionError(kind)

    srt = False

    def content(self, x):
        import werkzeug.datastructures as ds

        if isinstance(x, ds.MultiDict):
            return sorted((k, list(v)) for k, v in x.lists()) if self.srt else [(k, list(v)) for k, v in x.lists()]
        if isinstance(x, ds.Headers):
            return list(x)
        if isinstance(x, ds.HeaderSet):
            return (list(x), sorted(x.as_set()), len(x))
        if isinstance(x, list):
            return list(x)
        return list(x.items())

    @staticmethod
    def poke(ds, c):
        """mutate a (mutable) copy through its public API"""
        if isinstance(c, ds.HeaderSet):
            c.add("zz-new")
            c.discard("a")
        elif isinstance(c, ds.Headers):
            c.add("zz", "new")
            c.remove("a")
        elif isinstance(c, ds.CombinedMultiDict):
            if c.dicts:
                c.dicts[0].add("zz", "new")
        elif isinstance(c, ds.MultiDict):
            c.add("zz", "new")
            c.add("a", "more")
            c.setlistdefault("b").append("tail")
        elif isinstance(c, dict):
            c["zz"] = "new"
        elif isinstance(c, list):
            c.append("new")

    def real(self, case):
        import copy
        import pickle

        import werkzeug.datastructures as ds

        kind, asp = case["kind"], case["aspect"]
        x = self.build(ds, kind, case["pairs"])
        self.srt = kind == "CombinedMultiDict"
        before = self.content(x)
        immutable = kind.startswith("Immutable")
        out = []
        if asp == "eqhash":
            if kind not in self.HASHABLE:
                return "ok"
            ps = [list(p) for p in case["pairs"]]
            keys = []
            for k, _ in ps:
                if k not in keys:
                    keys.append(k)
            perm = case.get("perm", 0)
            variants = [
                [p for k in reversed(keys) for p in ps if p[0] == k],  # keys reversed, per-key order kept
                [p for k in sorted(keys) for p in ps if p[0] == k],
                [p for k in keys[1:] + keys[:1] for p in ps if p[0] == k],
                ps[1:] + ps[:1],
                list(reversed(ps)),
            ]
            r2 = random.Random(perm)
            sh = list(keys)
            r2.shuffle(sh)
            variants.append([p for k in sh for p in ps if p[0] == k])
            y_pairs = variants[perm % len(variants)]
            y = self.build(ds, kind, y_pairs)
            if x == y:
                if hash(x) != hash(y):
                    out.append(f"equal objects (built from {y_pairs!r}) hash differently")
                if len({x, y}) != 1:
                    out.append("equal objects are two different set members")
                if {x: 1}.get(y) != 1 or {y: 1}.get(x) != 1:
                    out.append("equal objects are not interchangeable as dict keys")
                if not (y == x) or (x != y):
                    out.append("== is not symmetric / consistent with !=")
            elif sorted(map(tuple, ps)) == sorted(map(tuple, y_pairs)) and kind != "ImmutableList" and [p for k in keys for p in ps if p[0] == k] == [p for k in keys for p in y_pairs if p[0] == k]:
                out.append(f"same keys and per-key values (built from {y_pairs!r}) compare unequal")
            return ";".join(out) if out else "ok"
        if asp == "eq":
            y = self.build(ds, kind, case["pairs"])
            z = self.build(ds, kind, case["pairs"] + [["q", "9"]])
            if kind != "HeaderSet":
                if not (x == y) or (x != y):
                    out.append("objects built from equal input compare unequal")
                if x == z or not (x != z):
                    out.append("objects with different content compare equal")
            try:
                hx = hash(x)
            except TypeError:
                hx = None
            if immutable or kind == "CombinedMultiDict":
                if hx is None:
                    out.append("immutable container is not hashable")
                else:
                    if hash(y) != hx:
                        out.append("equal objects hash differently")
                    if x == z and hash(z) != hx:
                        out.append("objects that compare equal hash differently")
            elif hx is not None and kind != "HeaderSet":
                out.append("mutable container is hashable")
            return ";".join(out) if out else "ok"
        if asp == "copy.copy":
            c = copy.copy(x)
        elif asp == "copy()":
            if not hasattr(x, "copy"):
                return "ok"
            c = x.copy()
        elif asp == "deepcopy":
            c = copy.deepcopy(x)
        else:
            c = pickle.loads(pickle.dumps(x, int(asp[6:])))
        documented_mutable_copy = (asp in ("copy()", "copy.copy") and kind in ("ImmutableMultiDict", "CombinedMultiDict", "ImmutableDict", "ImmutableTypeConversionDict")) or (
            # F08h (repaired by 27361e1): like copy(), deepcopy of a combined dict is a plain MultiDict
            asp == "deepcopy" and kind == "CombinedMultiDict"
        )
        try:
            if self.content(c) != before:
                out.append("copy has different content")
        except Exception as e:  # noqa: BLE001
            out.append(f"reading the copy raises {type(e).__name__}")
            return ";".join(out)
        if kind == "CombinedMultiDict" and asp == "deepcopy":
            # F08h regression: a usable, independent MultiDict with the same items(multi=True),
            # nested values included
            if type(c).__name__ != "MultiDict":
                out.append(f"deepcopy has type {type(c).__name__}")
            if sorted(c.items(multi=True)) != sorted(x.items(multi=True)):
                out.append("deepcopy has different items(multi=True)")
            nested = ds.CombinedMultiDict([ds.MultiDict([("n", ["v"]), ("m", {"k": [1]})]), ds.MultiDict([("n", ["w"])])])
            nc = copy.deepcopy(nested)
            if [list(map(repr, v)) for _, v in sorted(nc.lists())] != [list(map(repr, v)) for _, v in sorted(nested.lists())]:
                out.append("deepcopy of nested values differs")
            nc.getlist("n")[0].append("changed")
            nc["m"]["k"].append(2)
            nc.add("n", "extra")
            if nested.getlist("n") != [["v"], ["w"]] or nested["m"] != {"k": [1]}:
                out.append("mutating nested values of the deep copy changed the original")
        if type(c) is not type(x) and not documented_mutable_copy and not (asp == "copy()" and kind in ("ImmutableList", "TypeConversionDict")):
            out.append(f"copy has type {type(c).__name__}")
        if type(c) is type(x) and kind not in ("HeaderSet", "CombinedMultiDict") and not (c == x):
            out.append("copy != original")
        if immutable and type(c) is type(x) and hash(c) != hash(x):
            out.append("copy hashes differently")
        if c is x:
            if not immutable:
                out.append("copy is the same mutable object")
        else:
            try:
                self.poke(ds, c)
            except TypeError:
                pass
            if self.content(x) != before:
                out.append("mutating the copy changed the original")
        return ";".join(out) if out else "ok"

    def oracle(self, case, real_out):
        if real_out == "ok":
            return None
        kind, asp = case["kind"], case["aspect"]
        # a key only for the exact call site and the exact outcome the finding describes
        pre = ""  # (F08g, copy.copy(HeaderSet) aliasing, is repaired by 2346059: nothing maps to it)
        if kind == "CombinedMultiDict" and asp == "eq" and real_out == "objects with different content compare equal;objects that compare equal hash differently":
            pre = "F08i: "  # == ignores the wrapped dicts while the hash does not; nothing else is wrong
        return pre + f"{kind} {asp}: {real_out}"

    def finding_key(self, case, what):
        m = re.match(r"(F08[a-z]): ", what)
        return m.group(1) if m else None

    def bucket(self, case, real_out):
        return case["kind"] + "/" + case["aspect"]


CHECK = Check(
    prop="C08",
    gen=["Containers", "PyFns_Headers", "PyFns_HeaderSet", "PyFns_MultiDict"],
    modules=["WzVerif.Props.C08", "WzVerif.Props.C08T", "WzVerif.Props.C08T2"],
    streams=[MultiDictStream(), HeadersStream(), HeaderSetStream(), CombinedStream(), ImmutableStream(), EnvironStream(), TypeConvStream(), CopyHeapStream(), ImmutablePlainStream(), ProbeStream(), PreludeKernels()],
    assumptions=[
        "C08T2 (MultiDict methods as regenerated from the source): the object is its dict of lists, an insertion-ordered association list (keys are texts, the value type is a parameter); super().<dict method> are the prelude's dict primitives (kernel rows dictops); dict.setdefault(key, []).append(value) is modelled as storing the old list plus the value; iter_multi_items(mapping) is handed over as the flat list of pairs; getlist's type callable answers a value or raises ValueError / TypeError",
        "Headers.add / set / _del_key / remove (called without keyword arguments, str values), _str_header_value and HeaderSet.update / add / remove / discard / __setitem__ are regenerated from the source by tools/py2lean.py (Gen/PyFns_Headers.lean, Gen/PyFns_HeaderSet.lean) on every run and proved equal to the hand model for all inputs (Props/C08T): the object's attributes are threaded through as explicit state, on_update is modelled as a flag, an iterator as the list of items not yet consumed; list / set mutation primitives are modelled in Util/PyPrelude.lean and validated by stream prelude-kernels",
        "CPython dict (insertion order, re-insertion keeps position, popitem takes the last entry), list indexing/simple slices and str.lower/upper/title on ASCII text are modelled primitives (Model.Containers.PyDict, Model.Headers.pyIdx/sliceBounds), validated by the ops-* streams, not verified",
        "type conversion callables (get/getlist type=) are a parameter of the model; the streams use int on an optional sign + ASCII digits",
        "extended slices (step != 1), non-text keys and the deprecated OrderedMultiDict classes are outside the model",
        "copies: Model.ContainersHeap gives MultiDict object identity (inner lists = heap objects, mutated in place where the code does, live lists leaked by setlistdefault, copy()/copy.copy/deepcopy/unpickling allocate new list objects); copy_independent is proved there for all histories on either object and alias_copy_not_independent shows a list-sharing copy falsifies it; tied to the code by stream copy-heap (original and copy, all reads of both after every step). Values are atoms (deepcopy of nested mutable values is exercised by stream probes only). Headers / HeaderSet / immutable containers: copy / pickle content as functions of the state (headers_copy_eq, md_pickle_roundtrip), aliasing by stream probes",
        "equality / hashing: dict equality and the frozenset of items(multi=True) are modelled as functions of the state (imd_eq_hash_consistent); Python's hash() itself is opaque (equal hashed values give equal hashes)",
        "immutable variants: the model executes a mutator call on an immutable class through Imm.call, which consults the regenerated blocker table (immutable_unchanged_after_refusal is a theorem over table + model; the drivers for ImmutableMultiDict, CombinedMultiDict, EnvironHeaders, ImmutableTypeConversionDict use it)",
        "known findings F08b (HeaderSet item assignment creates a case-duplicate), F08d (MultiDict key with zero values): negation witnesses proved, theorems carry the excluding hypotheses; a violation is mapped to one of these keys only when the history contains the call the finding names AND the whole observed outcome equals the outcome that finding describes (reference models with exactly that quirk: SpecMultiMap(quirk=True), SpecCISet(quirk=True)); F08i (CombinedMultiDict ==) is keyed by exact call site and exact outcome text in stream probes; F08c (constructor) and F08g (copy.copy(HeaderSet)) are repaired by 1a2e0e6 / 2346059, their former failing inputs are corpus regression cases",
    ],
    trusted_extra=["CPython dict/list/str semantics for the modelled primitives (validated by the streams, not verified)"],
    quick_budget=60000,
    thorough_budget=400000,
)

MANIFEST = {
    "level_text": "Machine-checked Lean 4 refinement theorems: the transcribed MultiDict / Headers / HeaderSet methods refine the documented abstract models (insertion-ordered multimap, case-insensitive pair list, case-insensitive ordered set) for every operation history (Headers: every keyed mutator = a sequence of the atomic actions append / replace-first-drop-rest / drop-all up to the first refused value, hdr_refines); HeaderSet invariant preservation; Headers.set algebra; Immutable* blocker tables regenerated from the live classes and closed by decide, and every history of mutator calls on an immutable instance is refused leaving it unchanged (theorem over table + model); TypeConversionDict.get(type=), FileMultiDict.add_file, bulk update from every input form, single-key mutator laws; CombinedMultiDict = merge of the wrapped dicts (first-wins get, concatenated lists in first-appearance key order); pickle round trip, copy/deepcopy content, ==/hash consistency of the immutable multidict; copies are independent of the original in a heap model with list-object identity (all histories on either object, incl. appends through leaked live lists). The transcriptions are tied to the code by exhaustive short-history correspondence streams and the property oracle (independent Python reference models) runs on the real code.",
    "level_note": "Trusted: Lean kernel; extract.py; harness; CPython dict/list/str primitives (modelled, validated). copy independence proved in the heap model (values as atoms) and checked on the code by stream copy-heap; Python hash() opaque. Known findings F08b, F08d, F08i.",
    "technique": "Lean 4 proof (refinement by induction over operation histories, decide over regenerated tables) + model/code correspondence",
    "design_ref": "DESIGN.md section 4, C08",
}
