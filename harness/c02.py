"""C02 - form data survives encode -> parse unchanged (multipart and urlencoded).

Streams
  urlencode-kernels  quote_plus / werkzeug.urls._urlencode / unquote(errors="werkzeug.url_quote") /
                     parse_qsl(keep_blank_values) vs Model/Urlencode.lean (urllib is stdlib: modelled and
                     validated here, not verified); oracle: parse_qsl(_urlencode(items)) == items
  options-header     http.parse_options_header vs Model/FormOptions.lean; oracle: name / filename of
                     `form-data; name="…"; filename="…"` come back exactly
  encoder-events     real MultipartEncoder output for event sequences vs the model; oracle: decoding the
                     output with MultipartDecoder gives the parts that were encoded
  client-encode      werkzeug.test.encode_multipart (stream_encode_multipart: event order, 16 KiB Data events,
                     content-type defaulting, Headers.update) vs Model/MultipartClient.lean; oracle: parsing the
                     bytes gives back names, text values, file names, content types, contents
  client-roundtrip   EnvironBuilder(data=…, query_string=…) -> Request.form / files / args and
                     encode_multipart -> MultiPartParser; oracle: identical names, values, filenames,
                     content types, byte-exact contents, order
"""
from __future__ import annotations

import io
import random

from harness.c01 import canon_event, decode_real, parts_of, payload_tokens
from vlib.core import Check, Stream, b01, hs, hx, line, opt, out_list, unhs, unhx

FORBIDDEN_IN_NAME = ['"', "\\", "\r", "\n", "%22"]

NAME_ATOMS = ["a", "b", "field", " ", "  ", ";", "=", ":", ",", "é", "ü", "名", "\U0001f600", "%", "%2", "%41", "'", "*", "/", "\t", "\x0b", "\x1c", "\x85", " ", "\xa0", "name", "filename=", "x.txt", ".", "&", "+", "#", "\x00", "\x7f", "﻿"]
TEXT_ATOMS = NAME_ATOMS + ['"', "\\", "\r", "\n", "\r\n", "%22", "--", "--bound", "\r\n--bound", "\r\n--bound--", "=", "&", "퟿", "", "￿", "\U0010ffff"]


# percent-escape look-alikes: names and file names are never percent-decoded (only `%22` is special, and
# the property excludes it), so `%` followed by two hex digits of either case must come back verbatim.
# The interesting targets are escapes of control characters, of the header syntax (`"` `;` `=` `\`),
# of `%` itself and of UTF-8 sequences.
PCT_TARGETS = [0x00, 0x09, 0x0A, 0x0D, 0x1F, 0x20, 0x25, 0x2B, 0x2F, 0x3B, 0x3D, 0x5C, 0x7F, 0x80, 0xC3, 0xA9, 0xFF]
HEXD = "0123456789abcdefABCDEF"


def pct_atom(rng):
    r = rng.random()
    if r < 0.5:
        b = rng.choice(PCT_TARGETS)
        s = "%%%02X" % b if rng.random() < 0.6 else "%%%02x" % b
    elif r < 0.8:
        s = "%" + rng.choice(HEXD) + rng.choice(HEXD)
    elif r < 0.9:
        s = rng.choice(["%C3%A9", "%e2%82%ac", "%0D%0A", "%0d%0a", "%250A", "%%0A", "%0A%", "%u000A", "&#10;", "%5Cn"])
    else:
        s = rng.choice(["%", "%%", "%0", "%A", "%G0", "%0G"])
    return s if s != "%22" else "%23"


def rand_name(rng, maxlen=4):
    k = rng.choice([0, 1, 1, 2, 3, maxlen])
    s = "".join(pct_atom(rng) if rng.random() < 0.25 else rng.choice(NAME_ATOMS) for _ in range(k))
    while "%22" in s:
        s = s.replace("%22", "%2")
    return s


def pct_family():
    """every `%XX` (both letter cases) alone and inside a name, except `%22`"""
    out = []
    for b in range(256):
        for t in sorted({"%%%02X" % b, "%%%02x" % b}):
            if t != "%22":
                out.append(t)
    return out


# file names that look like Python's pseudo stream names (`<stderr>`, `<fdopen>`: FileStorage discards
# such a name only when it was taken from `stream.name`, never an explicitly given filename) and near
# misses
ANGLE_FILENAMES = ["<x>", "<>", "<a b>", "<é>", "<untitled>", "<Ünïcode ☃>", "<stderr>", "<fdopen>", "<x", "x>", "a<b>c", "<<x>>", "<x>.txt"]


def rand_filename(rng, maxlen=4):
    if rng.random() < 0.2:
        return rng.choice(ANGLE_FILENAMES)
    return rand_name(rng, maxlen)


def rand_text(rng, maxlen=6):
    k = rng.choice([0, 1, 1, 2, 3, maxlen])
    return "".join(rng.choice(TEXT_ATOMS) for _ in range(k))


def rand_bytes(rng, boundary: bytes):
    toks = payload_tokens(boundary, b"\r\n")
    k = rng.choice([0, 1, 2, 3, 5])
    p = b"".join(rng.choice(toks) for _ in range(k))
    if rng.random() < 0.15:
        p += bytes(rng.randrange(256) for _ in range(rng.randrange(1, 40)))
    return p


def no_delimiter(payload: bytes, boundary: bytes) -> bool:
    """the encoder writes CRLF + payload + CRLF--boundary: is the first delimiter the real one?"""
    import re

    rx = re.compile(rb"(?:\r\n|\n|\r)--" + re.escape(boundary) + rb"(?:--[^\S\n\r]*(?:\r\n|\n|\r)?|[^\S\n\r]*(?:\r\n|\n|\r))")
    probe = b"\r\n" + payload + b"\r\n--" + boundary + b"--\r\n" if payload else b"\r\n--" + boundary + b"--\r\n"
    m = rx.search(probe)
    return m is not None and m.start() == (2 + len(payload) if payload else 0)


# --------------------------------------------------------------------------


class UrlKernels(Stream):
    name = "urlencode-kernels"
    SAFE = "!$'()*,/:;?@"
    corpus = (
        [{"op": "quote", "safe": hx(b"!$'()*,/:;?@"), "s": hx(bytes([b]))} for b in range(256)]
        + [{"op": "unquote", "s": hs(s)} for s in ["", "%", "%4", "%41", "%zz", "%%41", "a%20b", "%C3%A9", "%c3%a9", "%C3", "%E2%82", "%FF", "é%41ü", "%F0%9F%98%80", "%ED%A0%80", "+", "%2B", "a%", "%4%41", "%C3%28", "%F4%90%80%80", "\x80", "%E0%80%AF"]]
        + [{"op": "qsl", "kb": kb, "s": hs(s)} for kb in (0, 1) for s in ["", "a=b", "a=b&c=d", "a", "a&b", "a=", "=b", "=", "&", "&&a=1&&", "a=b=c", "a=1&a=2", "a+b=c+d", "%26=%3D", "a=%zz", "é=ü", "a=b;c=d"]]
        + [{"op": "enc", "items": [[hs(k), hs(v)] for k, v in items]} for items in [[], [("a", "b")], [("a", ""), ("", "b"), ("", "")], [("a b", "c+d"), ("é", "&=%")], [("k", "1"), ("k", "2")]]]
    )

    def cases(self, rng, tier):
        for _ in range(2500 if tier == "quick" else 40000):
            r = rng.random()
            if r < 0.25:
                bs = bytes(rng.choice(b" +%&=aZ09-._~!$'()*,/:;?@\xc3\xa9\x00\x7f\xff#[]") for _ in range(rng.randrange(0, 10)))
                safe = rng.choice([self.SAFE, "", "/", "+&", "%", " ", "é/"])
                yield {"op": "quote", "safe": hx(safe.encode("utf-8")), "s": hx(bs)}
            elif r < 0.5:
                s = "".join(rng.choice(["%", "4", "1", "C", "3", "A", "9", "a", "f", "F", "z", "+", "é", "ü", "\U0001f600", "%C3%A9", "%E2%82%AC", "%F0%9F", "%80", "&", "=", " "]) for _ in range(rng.randrange(0, 9)))
                yield {"op": "unquote", "s": hs(s)}
            elif r < 0.75:
                s = "".join(rng.choice(["a", "b", "=", "&", "+", "%", "%26", "%3D", "%2B", "%C3%A9", "é", ";", " ", "%zz", "1"]) for _ in range(rng.randrange(0, 12)))
                yield {"op": "qsl", "kb": rng.randrange(2), "s": hs(s)}
            else:
                items = [[hs(rand_text(rng, 4)), hs(rand_text(rng, 5))] for _ in range(rng.choice([0, 1, 2, 3, 6]))]
                yield {"op": "enc", "items": items}

    def real(self, case):
        import urllib.parse as up

        import werkzeug.urls as wu

        op = case["op"]
        if op == "quote":
            return hx(up.quote_plus(unhx(case["s"]), safe=unhx(case["safe"]).decode("utf-8")).encode("ascii"))
        if op == "unquote":
            return hs(up.unquote(unhs(case["s"]), errors="werkzeug.url_quote"))
        if op == "qsl":
            return out_list(hs(k) + ":" + hs(v) for k, v in up.parse_qsl(unhs(case["s"]), keep_blank_values=bool(case["kb"]), errors="werkzeug.url_quote"))
        items = [(unhs(k), unhs(v)) for k, v in case["items"]]
        return hx(wu._urlencode(items).encode("ascii"))

    def model_line(self, case):
        op = case["op"]
        if op == "quote":
            safe = unhx(case["safe"]).decode("utf-8").encode("ascii", "ignore")
            return line("url.quoteplus", hx(safe), case["s"])
        if op == "unquote":
            return line("url.unquote", case["s"])
        if op == "qsl":
            return line("url.parseqsl", case["kb"], case["s"])
        return line("url.urlencode", out_list(k + ":" + v for k, v in case["items"]))

    def oracle(self, case, real_out):
        import urllib.parse as up

        if case["op"] == "enc":
            items = [(unhs(k), unhs(v)) for k, v in case["items"]]
            if real_out.startswith("EXC"):
                return f"_urlencode raised {real_out}"
            back = up.parse_qsl(unhx(real_out).decode("ascii"), keep_blank_values=True, errors="werkzeug.url_quote")
            if back != items:
                return f"parse_qsl(_urlencode(items)) = {back!r} != {items!r}"
        return None

    def bucket(self, case, real_out):
        return case["op"]


class OptionsStream(Stream):
    name = "options-header"
    corpus = [{"v": hs(s)} for s in ["", "form-data", 'form-data; name="a"', 'form-data; name="a"; filename="f.txt"', 'form-data; name=a; filename=b', 'form-data; name="a;b"; filename="c\\\\d"', 'form-data; name="q\\"q"', 'form-data; name="%22"', "text/plain; charset=utf-8", "text/plain;charset=UTF-8 ; x=y", 'a; b="c', "a; =b", "a; b", 'a; b*0="x"; b*1="y"', "a; b=c; b=d", ' a ; B="C" ', "a;b=c;;d=e", 'a; b=""', "a; b=c d; e=f", 'form-data; name="a"; name="b"', "; a=b", 'x; a="\\\\"; b="\\""', "a; *0=x", "a; *1=x; b*0=y", "é ;*0=*1utf-8"]]

    def cases(self, rng, tier):
        # the family "a percent escape look-alike inside a quoted name / file name", exhaustively
        for i, t in enumerate(pct_family()):
            n, f = ("sale 50" + t + "off", None) if i % 2 else ("f", "report" + t + "2024.txt")
            v = f'form-data; name="{n}"' + (f'; filename="{f}"' if f is not None else "")
            yield {"v": hs(v), "n": hs(n), "f": opt(hs, f)}
        for _ in range(1500 if tier == "quick" else 25000):
            if rng.random() < 0.5:
                n, f = rand_name(rng), (rand_name(rng) if rng.random() < 0.5 else None)
                v = f'form-data; name="{n}"' + (f'; filename="{f}"' if f is not None else "")
                yield {"v": hs(v), "n": hs(n), "f": opt(hs, f)}
            else:
                toks = ["a", "b", "name", "=", ";", '"', "\\", " ", "\\\\", '\\"', "%22", "x-y", "é", "*0", "*1", "text/plain", "charset", "utf-8", ",", "\t"]
                yield {"v": hs("".join(rng.choice(toks) for _ in range(rng.randrange(1, 12))))}

    def real(self, case):
        from werkzeug.http import parse_options_header

        v = unhs(case["v"])
        if "*=" in v:
            return "SKIP"
        val, opts = parse_options_header(v)
        return hs(val) + "|" + ("&".join(hs(k) + "=" + hs(x) for k, x in opts.items()) if opts else "[]")

    def model_line(self, case):
        if "*=" in unhs(case["v"]):
            return None
        return line("mp.options", case["v"])

    def oracle(self, case, real_out):
        if "n" in case:
            from werkzeug.http import parse_options_header

            val, opts = parse_options_header(unhs(case["v"]))
            f = None if case["f"] == "~" else unhs(case["f"])
            if val != "form-data" or opts.get("name") != unhs(case["n"]) or opts.get("filename") != f:
                return f"name/filename do not come back: {val!r} {opts!r}"
        return None

    def bucket(self, case, real_out):
        return "disposition" if "n" in case else "junk"


def mk_events(rng, boundary):
    """a valid event sequence: optional preamble, parts (one or more Data events each), epilogue"""
    evs = []
    if rng.random() < 0.5:
        evs.append("P:" + hx(rng.choice([b"", b"", b"pre", b"x\r\ny"])))
    parts = []
    for _ in range(rng.choice([0, 1, 1, 2, 3])):
        name = rand_name(rng)
        fn = rand_filename(rng) if rng.random() < 0.45 else None
        hdrs = rng.choice([[], [("Content-Type", "text/plain")], [("Content-Type", "text/plain; charset=utf-8"), ("X-A", "b")], [("content-disposition", "ignored")], [("X-É", "ü")]])
        for _ in range(10):
            payload = rand_bytes(rng, boundary)
            if no_delimiter(payload, boundary):
                break
        else:
            payload = b"v"
        h = "&".join(hs(k) + "=" + hs(v) for k, v in hdrs) if hdrs else "[]"
        evs.append(("U:" + hs(name) + ":" + hs(fn) + ":" + h) if fn is not None else ("F:" + hs(name) + ":" + h))
        # chunk the payload into Data events
        lo = 0 if rng.random() < 0.3 else 1
        cuts = sorted(set(rng.randrange(lo, len(payload) + 1) for _ in range(rng.choice([0, 0, 1, 2])))) if payload else []
        pieces, prev = [], 0
        for c in cuts:
            pieces.append(payload[prev:c])
            prev = c
        pieces.append(payload[prev:])
        for i, pc in enumerate(pieces):
            evs.append("D:" + hx(pc) + ":" + b01(i < len(pieces) - 1))
        parts.append((name, fn, [(k, v) for k, v in hdrs if k.lower() != "content-disposition"], payload))
    evs.append("E:" + hx(rng.choice([b"", b"", b"epi"])))
    return evs, parts


def to_event(s):
    from werkzeug.datastructures import Headers
    from werkzeug.sansio.multipart import Data, Epilogue, Field, File, Preamble

    k = s.split(":")

    def hdrs(h):
        return Headers([] if h == "[]" else [(unhs(a), unhs(b)) for a, b in (kv.split("=") for kv in h.split("&"))])

    if k[0] == "P":
        return Preamble(unhx(k[1]))
    if k[0] == "F":
        return Field(name=None if k[1] == "~" else unhs(k[1]), headers=hdrs(k[2]))
    if k[0] == "U":
        return File(name=None if k[1] == "~" else unhs(k[1]), filename=unhs(k[2]), headers=hdrs(k[3]))
    if k[0] == "D":
        return Data(unhx(k[1]), k[2] == "1")
    return Epilogue(unhx(k[1]))


class EncoderEvents(Stream):
    name = "encoder-events"

    def __init__(self):
        self.corpus = [
            {"b": hx(b"b"), "evs": ["P:-", "F:" + hs("a") + ":[]", "D:" + hx(b"abc") + ":0", "E:-"], "valid": True},
            {"b": hx(b"b"), "evs": ["F:" + hs("a") + ":[]", "D:-:0", "U:" + hs("f") + ":" + hs("x.txt") + ":[]", "D:" + hx(b"\r\n--b-") + ":0", "E:-"], "valid": True},
            # F02a regression (fixed by d57c0c6): empty first Data chunk followed by data
            {"b": hx(b"b"), "evs": ["P:-", "F:" + hs("a") + ":[]", "D:-:1", "D:" + hx(b"abc") + ":0", "E:-"], "valid": True},
            # file names of the form `<...>` stay file names
            {"b": hx(b"b"), "evs": ["P:-", "U:" + hs("f") + ":" + hs("<x>") + ":[]", "D:" + hx(b"abc") + ":0", "U:" + hs("g") + ":" + hs("<>") + ":[]", "D:-:0", "U:" + hs("h") + ":" + hs("<é>") + ":[]", "D:" + hx(b"v") + ":0", "E:-"], "valid": True},
            # state errors
            {"b": hx(b"b"), "evs": ["D:" + hx(b"x") + ":0"], "valid": False},
            {"b": hx(b"b"), "evs": ["P:-", "P:-"], "valid": False},
            {"b": hx(b"b"), "evs": ["E:-", "F:" + hs("a") + ":[]"], "valid": False},
            {"b": hx(b"b"), "evs": ["F:~:[]"], "valid": False},
        ]

    def cases(self, rng, tier):
        for _ in range(1500 if tier == "quick" else 25000):
            bd = rng.choice([b"bound", b"B", b"----WebKitFormBoundary7MA4YWxkTrZu0gW", b"a-b", b"x.y+z", b"0123456789" * 3])
            evs, _ = mk_events(rng, bd)
            if rng.random() < 0.1:
                # invalid orders: model correspondence only
                rng.shuffle(evs)
                yield {"b": hx(bd), "evs": evs, "valid": False}
            else:
                yield {"b": hx(bd), "evs": evs, "valid": True}

    def real(self, case):
        from werkzeug.sansio.multipart import MultipartEncoder

        enc = MultipartEncoder(unhx(case["b"]))
        out = b""
        for e in case["evs"]:
            out += enc.send_event(to_event(e))
        return hx(out)

    def model_line(self, case):
        return line("mp.encode", case["b"], out_list(case["evs"]))

    def oracle(self, case, real_out):
        if not case["valid"]:
            return None
        if real_out.startswith("EXC"):
            return f"encoder raised {real_out} on a valid event sequence"
        evs, err, _ = decode_real(unhx(case["b"]), [unhx(real_out)])
        if err is not None:
            return f"decoding the encoder output raises {err}"
        got = parts_of(evs)
        # expected parts from the encoded events
        want, cur = [], None
        for e in case["evs"]:
            k = e.split(":")
            if k[0] in ("F", "U"):
                cur = [k, b""]
                want.append(cur)
            elif k[0] == "D" and cur is not None:
                cur[1] += unhx(k[1])
        if len(got) != len(want):
            return f"{len(got)} parts decoded, {len(want)} encoded"
        for (gev, gp), (wk, wp) in zip(got, want):
            gk = gev.split(":")
            if gk[0] != wk[0] or gk[1] != wk[1] or (wk[0] == "U" and gk[2] != wk[2]):
                return f"kind/name/filename differ: {gev[:80]}"
            if gp != wp:
                return f"payload differs: {gp!r} vs {wp!r}"
            wh = wk[-1]
            whl = [] if wh == "[]" else [kv for kv in wh.split("&") if unhs(kv.split("=")[0]).lower() != "content-disposition"]
            gh = gk[-1].split("&")[1:]  # after the Content-Disposition header
            if gh != whl:
                return f"headers differ: {gh} vs {whl}"
        return None

    def bucket(self, case, real_out):
        if real_out.startswith("EXC"):
            return real_out
        return f"parts={min(sum(1 for e in case['evs'] if e[:2] in ('F:', 'U:')), 3)}"


CONTENT_TYPES = [None, "text/plain", "image/png", "application/octet-stream", "text/plain; charset=utf-8"]


class ClientRoundtrip(Stream):
    name = "client-roundtrip"
    corpus = [
        {"fields": [[hs("a"), hs("1")], [hs("a"), hs("2")], [hs("é"), hs("")]], "files": [], "args": [[hs("q"), hs("a b&c=d")]], "via": "environ"},
        {"fields": [[hs("x"), hs("\r\n--x\r\n")]], "files": [[hs("f"), hx(b"\x00\xff\r\n--"), hs("a b.png"), "image/png"]], "args": [], "via": "environ"},
        {"fields": [], "files": [[hs("f"), hx(b""), hs("e.bin"), None]], "args": [], "via": "encode"},
        # non-ASCII text values longer than one 64 KiB read of the form parser: a multi-byte character
        # ends up split between two reads / two Data events
        {"fields": [[hs("t"), hs("x" + "é" * 40000)]], "files": [[hs("f"), hx(b"d"), hs("f.bin"), None]], "args": [], "via": "environ"},
        {"fields": [[hs("t"), hs("€" * 30000)]], "files": [[hs("f"), hx(b"d"), hs("f.bin"), None]], "args": [], "via": "environ"},
        {"fields": [[hs("t"), hs("xy" + "\U0001f600" * 20000)], [hs("u"), hs("é" * 70000)]], "files": [[hs("f"), hx(b"d"), hs("f.bin"), None]], "args": [], "via": "environ"},
        {"fields": [[hs("t"), hs("x" + "é" * 40000)]], "files": [], "args": [], "via": "encode"},
        # the same through MultiPartParser with small buffers
        {"fields": [[hs("t"), hs("aé€\U0001f600b")]], "files": [], "args": [], "via": "parser", "bs": 1},
        {"fields": [[hs("é"), hs("é" * 50)], [hs("t"), hs("€" * 33)]], "files": [[hs("f"), hx("é".encode() * 9), hs("é.txt"), "text/plain"]], "args": [], "via": "parser", "bs": 3},
        # uploads whose file name has the form `<...>` (and near misses) stay files with that name, through every path
    ] + [
        {"fields": [[hs("a"), hs("1")]], "files": [[hs("u%d" % i), hx(b"c\xff" + fn.encode()), hs(fn), ct] for i, fn in enumerate(ANGLE_FILENAMES)], "args": [], "via": via, **({"bs": 5} if via == "parser" else {})}
        for via in ["environ", "encode", "parser"]
        for ct in [None, "text/plain"]
    ]

    def cases(self, rng, tier):
        for _ in range(700 if tier == "quick" else 12000):
            fields = [[hs(rand_name(rng) or "k"), hs(rand_text(rng))] for _ in range(rng.choice([0, 1, 2, 3, 5]))]
            if rng.random() < 0.3 and fields:
                fields.append([fields[0][0], hs(rand_text(rng))])  # repeated key
            files = []
            for _ in range(rng.choice([0, 0, 1, 2])):
                content = rand_bytes(rng, b"bound")
                files.append([hs("u" + rand_name(rng, 2)), hx(content), hs(rand_filename(rng) or "f"), rng.choice(CONTENT_TYPES)])
            args = [[hs(rand_name(rng) or "q"), hs(rand_text(rng))] for _ in range(rng.choice([0, 0, 1, 3]))]
            yield {"fields": fields, "files": files, "args": args, "via": rng.choice(["environ", "environ", "encode"])}
        # MultiPartParser with small buffers / short reads over non-ASCII text values
        for _ in range(300 if tier == "quick" else 5000):
            fields = []
            for _ in range(rng.choice([1, 1, 2, 3])):
                v = "".join(rng.choice(["é", "ü", "€", "名", "\U0001f600", "a", " ", "\r\n", "-", "\u07ff", "\uffff"]) for _ in range(rng.choice([1, 3, 8, 20, 60])))
                fields.append([hs(rand_name(rng) or "k"), hs(v)])
            files = [[hs("u"), hx(rand_bytes(rng, b"bound")), hs(rng.choice(["é.bin", "é.bin"] + ANGLE_FILENAMES)), None]] if rng.random() < 0.3 else []
            yield {"fields": fields, "files": files, "args": [], "via": "parser", "bs": rng.choice([1, 2, 3, 5, 7, 11, 64])}

    @staticmethod
    def expected(case):
        from werkzeug.datastructures import MultiDict

        form = list(MultiDict([(unhs(k), unhs(v)) for k, v in case["fields"]]).items(multi=True))
        files = list(MultiDict([(unhs(k), (unhs(fn), ct, unhx(c))) for k, c, fn, ct in case["files"]]).items(multi=True))
        args = list(MultiDict([(unhs(k), unhs(v)) for k, v in case["args"]]).items(multi=True))
        return form, files, args

    def real(self, case):
        import mimetypes

        from werkzeug.datastructures import MultiDict
        from werkzeug.formparser import MultiPartParser
        from werkzeug.test import EnvironBuilder, encode_multipart
        from werkzeug.wrappers import Request

        from werkzeug.datastructures import FileStorage

        data = {}
        for k, v in case["fields"]:
            data.setdefault(unhs(k), []).append(unhs(v))
        for k, c, fn, ct in case["files"]:
            if case["via"] == "environ":
                t = (io.BytesIO(unhx(c)), unhs(fn)) if ct is None else (io.BytesIO(unhx(c)), unhs(fn), ct)
            else:
                t = FileStorage(io.BytesIO(unhx(c)), unhs(fn), unhs(k), ct)
            data.setdefault(unhs(k), []).append(t)
        if case["via"] == "environ":
            qs = MultiDict([(unhs(k), unhs(v)) for k, v in case["args"]])
            b = EnvironBuilder(method="POST", data=data, query_string=qs if case["args"] else None)
            env = b.get_environ()
            req = Request(env)
            form = list(req.form.items(multi=True))
            files = [(k, (f.filename, f.content_type, f.stream.read())) for k, f in req.files.items(multi=True)]
            args = list(req.args.items(multi=True))
        else:
            from harness.c01 import ShortReader

            boundary, body = encode_multipart(data, boundary="Bound4ry")
            if case["via"] == "parser":
                p = MultiPartParser(buffer_size=case["bs"])
                src = ShortReader(body, [case["bs"], 1, 2] * 7)
            else:
                p = MultiPartParser()
                src = io.BytesIO(body)
            f1, f2 = p.parse(src, boundary.encode(), len(body))
            form = list(f1.items(multi=True))
            files = [(k, (f.filename, f.content_type, f.stream.read())) for k, f in f2.items(multi=True)]
            args = self.expected(case)[2]
        # content types are compared after the defaulting rule of the client (guess by filename)
        canon = lambda fl: out_list(hs(k) + ":" + hs(fn or "") + ":" + hs(ct or "") + ":" + hx(c) for k, (fn, ct, c) in fl)  # noqa: E731
        return out_list(hs(k) + "=" + hs(v) for k, v in form) + "|" + canon(files) + "|" + out_list(hs(k) + "=" + hs(v) for k, v in args)

    def oracle(self, case, real_out):
        import mimetypes

        if real_out.startswith("EXC"):
            return f"round trip raised {real_out}"
        form, files, args = self.expected(case)
        files = [(k, (fn, ct if ct is not None else (mimetypes.guess_type(fn)[0] or "application/octet-stream"), c)) for k, (fn, ct, c) in files]
        canon = lambda fl: out_list(hs(k) + ":" + hs(fn or "") + ":" + hs(ct or "") + ":" + hx(c) for k, (fn, ct, c) in fl)  # noqa: E731
        want = out_list(hs(k) + "=" + hs(v) for k, v in form) + "|" + canon(files) + "|" + out_list(hs(k) + "=" + hs(v) for k, v in args)
        if real_out != want:
            a, b = real_out.split("|"), want.split("|")
            which = ["form", "files", "args"][[x != y for x, y in zip(a, b)].index(True)]
            return f"{which} differ after the round trip: {a[[x != y for x, y in zip(a, b)].index(True)][:100]} vs {b[[x != y for x, y in zip(a, b)].index(True)][:100]}"
        return None

    def bucket(self, case, real_out):
        big = " big" if any(len(v) > 60000 for _, v in case["fields"]) else ""
        return case["via"] + (" multipart" if case["files"] else " urlencoded" if case["via"] == "environ" else " multipart") + (" args" if case["args"] else "") + big


FS_HEADERS = [
    [],
    [],
    [("Content-Type", "text/plain")],
    [("content-type", "image/png"), ("X-A", "b")],
    [("X-A", "1"), ("Content-Type", "a/b"), ("CONTENT-TYPE", "c/d"), ("X-B", "2")],
    [("X-É", "ü")],
    [("Content-Type", "text/plain; charset=utf-8")],
    [("Content-Length", "3")],
]
GUESSABLE = ["a.txt", "a b.png", "é.jpg", "x.tar.gz", "noext", "<x>", "x.unknownext", ".png", "a.PNG", "x.json", ""]


def order_as_iter_data(items):
    """order in which `_iter_data` walks a dict of lists built from the items: keys by first occurrence"""
    keys, by = [], {}
    for it in items:
        if it[1] not in by:
            keys.append(it[1])
            by[it[1]] = []
        by[it[1]].append(it)
    return [it for k in keys for it in by[k]]


class ClientEncode(Stream):
    """`werkzeug.test.encode_multipart` (= stream_encode_multipart: event order, 16 KiB Data events, content
    type defaulting, Headers.update) vs Model/MultipartClient.lean; oracle: parsing the bytes with
    MultiPartParser gives back the names, text values, file names, content types and contents"""

    name = "client-encode"

    def __init__(self):
        def T(k, v):
            return ["T", hs(k), hs(v)]

        def U(k, fn, hdrs, c):
            return ["U", hs(k), None if fn is None else hs(fn), [[hs(a), hs(b)] for a, b in hdrs], hx(c)]

        self.corpus = [
            {"b": hx(b"B"), "items": [T("a", "1"), T("a", ""), T("é", "ü\r\n--B")]},
            {"b": hx(b"B"), "items": [U("f", "a.txt", [], b"abc"), U("f", "x.unknownext", [], b""), U("g", "<x>", [("Content-Type", "text/plain")], b"\r\n--")]},
            # more than one 16 KiB read: Data(more_data=True) events, then the empty last one
            {"b": hx(b"B"), "items": [U("f", "big.bin", [], b"x" * 40000), T("t", "after")]},
            {"b": hx(b"B"), "items": [U("f", "e.bin", [("X-A", "1"), ("Content-Type", "a/b"), ("CONTENT-TYPE", "c/d")], b"d" * 16384)]},
            # a FileStorage without a file name is sent as a plain field
            {"b": hx(b"B"), "items": [U("f", None, [], b"abc")]},
            {"b": hx(b"B"), "items": [U("f", "", [], b"abc")]},
            {"b": hx(b"B"), "items": []},
        ]

    def cases(self, rng, tier):
        for _ in range(700 if tier == "quick" else 12000):
            bd = rng.choice([b"bound", b"B", b"----WebKitFormBoundary7MA4YWxkTrZu0gW", b"x.y+z"])
            items = []
            for _ in range(rng.choice([0, 1, 1, 2, 3, 5])):
                key = rand_name(rng) or "k"
                if rng.random() < 0.5:
                    items.append(["T", hs(key), hs(rand_text(rng))])
                else:
                    fn = rng.choice(GUESSABLE) if rng.random() < 0.5 else rand_filename(rng)
                    if rng.random() < 0.07:
                        fn = None
                    content = rand_bytes(rng, bd)
                    if rng.random() < 0.05:
                        content = content + b"z" * rng.choice([16383, 16384, 16385, 33000])
                    hdrs = rng.choice(FS_HEADERS)
                    items.append(["U", hs(key), None if fn is None else hs(fn), [[hs(a), hs(b)] for a, b in hdrs], hx(content)])
            if rng.random() < 0.3 and items:
                it = list(rng.choice(items))  # a repeated key, possibly mixing a text and a file value
                it[1] = items[0][1]
                items.append(it)
            yield {"b": hx(bd), "items": items}

    @staticmethod
    def build(case):
        import io

        from werkzeug.datastructures import FileStorage, Headers

        data = {}
        for it in case["items"]:
            key = unhs(it[1])
            if it[0] == "T":
                v = unhs(it[2])
            else:
                v = FileStorage(io.BytesIO(unhx(it[4])), None if it[2] is None else unhs(it[2]), key, headers=Headers([(unhs(a), unhs(b)) for a, b in it[3]]))
            data.setdefault(key, []).append(v)
        return data

    def real(self, case):
        from werkzeug.test import encode_multipart

        _, body = encode_multipart(self.build(case), boundary=unhx(case["b"]).decode("ascii"))
        return hx(body)

    def model_line(self, case):
        import mimetypes

        out = []
        for it in order_as_iter_data(case["items"]):
            if it[0] == "T":
                out.append("T:" + it[1] + ":" + it[2])
            else:
                fn = None if it[2] is None else unhs(it[2])
                g = mimetypes.guess_type(fn)[0] if fn else None
                h = "&".join(a + "=" + b for a, b in it[3]) if it[3] else "[]"
                out.append("U:" + it[1] + ":" + opt(str, it[2]) + ":" + opt(hs, g) + ":" + h + ":" + it[4])
        return line("mp.client", case["b"], out_list(out))

    def oracle(self, case, real_out):
        import io
        import mimetypes

        from werkzeug.formparser import MultiPartParser

        if real_out.startswith("EXC"):
            return f"encode_multipart raised {real_out}"
        bd = unhx(case["b"])
        items = order_as_iter_data(case["items"])
        for it in items:
            payload = unhs(it[2]).encode() if it[0] == "T" else unhx(it[4])
            if not no_delimiter(payload, bd):
                return None  # a payload line that starts with --boundary: outside the property's domain
            if it[0] == "U" and it[2] is None:
                return None  # an upload without a file name is sent as a field (not a file round trip)
        body = unhx(real_out)
        form, files = MultiPartParser().parse(io.BytesIO(body), bd, len(body))
        got_f = list(form.items(multi=True))
        got_u = [(k, f.filename, f.content_type, f.stream.read()) for k, f in files.items(multi=True)]
        want_f = group_by_first([(unhs(it[1]), unhs(it[2])) for it in items if it[0] == "T"])
        want_u = []
        for it in items:
            if it[0] == "U":
                fn = unhs(it[2])
                own = [unhs(b) for a, b in it[3] if unhs(a).lower() == "content-type"]
                ct = own[0] if own else (fn and mimetypes.guess_type(fn)[0] or "application/octet-stream")
                want_u.append((unhs(it[1]), fn, ct, unhx(it[4])))
        want_u = group_by_first(want_u)
        if got_f != want_f:
            return f"fields differ after encode_multipart -> MultiPartParser: {got_f!r:.120} vs {want_f!r:.120}"
        if got_u != want_u:
            return f"files differ after encode_multipart -> MultiPartParser: {got_u!r:.160} vs {want_u!r:.160}"
        return None

    def bucket(self, case, real_out):
        n_u = sum(1 for it in case["items"] if it[0] == "U")
        big = any(it[0] == "U" and len(it[4]) > 32768 for it in case["items"])
        return f"fields={min(len(case['items']) - n_u, 3)} files={min(n_u, 3)}" + (" big" if big else "")


def group_by_first(items):
    """MultiDict.items(multi=True) order"""
    keys, by = [], {}
    for it in items:
        if it[0] not in by:
            keys.append(it[0])
            by[it[0]] = []
        by[it[0]].append(it)
    return [it for k in keys for it in by[k]]


CHECK = Check(
    prop="C02",
    gen=["Multipart", "Urlencode", "FormOptions", "PyFns_Encoder"],
    modules=["WzVerif.Props.C02", "WzVerif.Props.C02T"],
    streams=[UrlKernels(), OptionsStream(), EncoderEvents(), ClientEncode(), ClientRoundtrip()],
    assumptions=[
        "C02T (MultipartEncoder.send_event as regenerated from the source): one translation per event class (isinstance decided by the declared dataclass; Field/File names are str as declared - a None name is the model's AttributeError arm, outside the translation); str.encode() is UTF-8 on surrogate-free text; str.lower() as the prelude models it (ASCII)",
        "urllib.parse quote_plus / urlencode / unquote / parse_qsl are stdlib: modelled by hand-written functions and validated by stream urlencode-kernels, not verified",
        "UTF-8 is Lean core's encoder / strict decoder (round trip proved in Util/Bytes.lean); lone surrogates are outside the domain (Python str may hold them, List Char cannot)",
        "parse_options_header is modelled in Model/FormOptions.lean (token / quoted parameters, RFC 2231 numbered continuations); the charset form key*=… is outside the model",
        "stream_encode_multipart is modelled by its event sequence (Model/MultipartClient.lean: event order, 16 KiB Data events, content-type defaulting, Headers.set) and validated by stream client-encode; mimetypes.guess_type is an opaque parameter of that model, SpooledTemporaryFile spooling, the random default boundary and EnvironBuilder's own argument handling (files vs form, content type selection) are covered by stream client-roundtrip only",
        "the request side of the urlencoded round trip uses C10's request-level model (Model/FormLimitsRequest.lean; BytesIO-like wsgi.input)",
    ],
    trusted_extra=["CPython urllib.parse / codecs error-handler protocol for the modelled primitives (validated by stream urlencode-kernels, not verified)"],
    quick_budget=20000,
    thorough_budget=400000,
)

MANIFEST = {
    "level_text": "Machine-checked Lean 4 theorems about executable models of quote_plus/urlencode/unquote/parse_qsl (safe set regenerated from werkzeug.urls._urlencode by AST), of parse_options_header (quoted-value replace steps and token classes regenerated from the source / live regexes), of MultipartEncoder/MultipartDecoder and of the test client's stream_encode_multipart: percent-encoding round trips for every byte string, parse_qsl(urlencode(items)) = items and Request.form of the urlencoded body = items for every list of Unicode pairs, Content-Disposition name/filename come back exactly, decode(encode(parts)) = parts for every boundary, every list of valid parts and every chunking, and what the test client writes for any mix of text and file values comes back through MultiPartParser (any buffer_size, any short-read schedule) as exactly the fields, file names, content types and byte-exact contents; models tied to the code by differential streams, the encode->parse oracle runs on the real encoder, test client and parsers.",
    "level_note": "Trusted: Lean kernel; extract.py; harness; CPython urllib/codecs for modelled primitives. mimetypes.guess_type is opaque; FileStorage / SpooledTemporaryFile / EnvironBuilder argument handling above the models are covered by the correspondence + oracle streams.",
    "technique": "Lean 4 proof (induction over byte lists / item lists, decide over generated tables) + model/code correspondence",
    "design_ref": "DESIGN.md section 4, C02",
}
