"""C20 - host trust and the debugger's gates cannot be bypassed.

Streams
  hosts    host_is_trusted / get_host / Request.host over a label grammar (exact names, true subdomains,
           look-alikes, ports, IDN + punycode, bracketed IPv6, empty / over-long labels, case variants)
           vs Model.Debugger.hostIsTrusted / getHost (the idna codec's answers are supplied to the model:
           IDNA is an opaque parameter). Oracle: accepted => equals a listed name or is a true subdomain
           of a dot-prefixed entry (bracket-aware port strip, label-wise); no failure other than SecurityError.
  session  PIN attempts interleaved with run-time PIN changes (app.pin = new), reuse of the cookie the server
           actually issued, and eval attempts, vs Model.Debugger.runSession. Oracle: eval runs / a wrong PIN is
           authenticated only with a cookie issued for the *current* PIN.
  pin      histories of PIN attempts {right, wrong, stale cookie} against the real pin_auth (time.sleep
           stubbed) vs Model.Debugger.runHistory. Oracle: an unbounded failure count; more than ten
           failures since the last success => the right PIN is refused.
  pin-overlap  k wrong attempts from threads, each parked inside its penalty delay (time.sleep = gate), then the
           right PIN: it must be refused and at most eleven wrong PINs may have been compared (oracle only).
  gates    points of the property's product plus off-grid variations (other secrets, __debugger__ spellings,
           grammar hosts, pre-existing failures) driven through the real DebuggedApplication.__call__ with a
           spy frame vs Model.Debugger.dispatch. Oracle: the gate conjunctions of the property.
"""
from __future__ import annotations

import importlib.util
import os
import re
import sys

from harness.pyprelude import PreludeKernels
from vlib.core import VERIF, Check, Stream, b01, hs, line, opt, unhs

_GEN = None


def gen_mod():
    """tools/gen/c20.py (the code that drives the real DebuggedApplication), imported by path"""
    global _GEN
    if _GEN is None:
        tools = os.path.join(VERIF, "tools")
        if tools not in sys.path:
            sys.path.append(tools)
        spec = importlib.util.spec_from_file_location("wz_gen_c20", os.path.join(tools, "gen", "c20.py"))
        _GEN = importlib.util.module_from_spec(spec)
        spec.loader.exec_module(_GEN)
    return _GEN


# --------------------------------------------------------------------------
# independent statement of "trusted host"


def strip_port(h: str) -> str:
    """authority without the port: an IPv6 literal keeps its brackets, and only a ':port' directly
    after the closing bracket is a port - anything else after it is part of the (then unmatched) name"""
    if h.startswith("["):
        m = re.fullmatch(r"(\[[^\]]*\])(:.*)?", h, re.S)
        return m.group(1) if m else h
    return h.split(":", 1)[0]


def alabel(name: str):
    try:
        return name.encode("idna").decode("ascii")
    except UnicodeError:
        return None


def spec_trusted(host, trusted):
    """True / False / 'either' (only a letter-case difference decides)"""
    if not host:
        return False
    name = alabel(strip_port(host))
    if name is None:
        return False
    labels = name.split(".")
    verdict = False
    for ref in trusted:
        sub = ref.startswith(".")
        rn = alabel(strip_port(ref[1:] if sub else ref))
        if rn is None:
            continue
        rl = rn.split(".")
        for fold in (False, True):
            a = [x.lower() for x in labels] if fold else labels
            b = [x.lower() for x in rl] if fold else rl
            hit = a == b or (sub and len(a) > len(b) and a[-len(b) :] == b and all(a))
            if hit and not fold:
                return True
            if hit:
                verdict = "either"
    return verdict


def idna_table(strings):
    out = []
    seen = set()
    for s in strings:
        if s in seen:
            continue
        seen.add(s)
        a = alabel(s)
        out.append(hs(s) + ":" + ("!" if a is None else hs(a)))
    return ",".join(out) or "[]"


def strs(lst):
    return ",".join(hs(x) for x in lst) or "[]"


LABELS = ["localhost", "example", "com", "evil", "a", "b", "sub", "xn--bcher-kva", "bücher", "日本", "127", "0", "1", "LOCALHOST", "Example", "x" * 63, "x" * 64, "", "ä" * 40, "a_b", "a b", "-", "xn--", "xn--a"]
NAMES = ["localhost", "example.com", "127.0.0.1", "bücher.example", "xn--bcher-kva.example", "sub.example.com", "a.b", "com", "[::1]", "[::2]", "[fe80::1]", "[2001:db8::1]", "192.168.0.1", "日本.jp"]
PORTS = ["", "", "", ":80", ":443", ":5000", ":", ":80:90", ":abc"]


def gen_name(rng):
    if rng.random() < 0.6:
        return rng.choice(NAMES)
    return ".".join(rng.choice(LABELS) for _ in range(rng.randrange(1, 4)))


def gen_trusted(rng):
    out = []
    if rng.random() < 0.06:
        return out  # configured, but empty: nobody is trusted
    for _ in range(rng.choice([1, 1, 2, 3])):
        n = gen_name(rng)
        while not all(n.split(".")) and not n.startswith("["):  # a sane configuration: no empty labels
            n = gen_name(rng)
        if rng.random() < 0.5 and not n.startswith("["):
            n = "." + n
        if rng.random() < 0.15:
            n += rng.choice([":80", ":5000"])
        out.append(n)
    return out


def gen_host(rng, trusted):
    r = rng.random()
    ref = rng.choice(trusted or ["localhost", "example.com", "[::1]"])
    base = ref[1:] if ref.startswith(".") else ref
    base_np = strip_port(base)
    if r < 0.15:
        h = base_np
    elif r < 0.35:
        h = ".".join([rng.choice(LABELS) for _ in range(rng.choice([1, 1, 2]))] + [base_np])
    elif r < 0.45:
        h = rng.choice(["evil", "x", "-", "a"]) + base_np
    elif r < 0.55:
        h = base_np + rng.choice([".evil.com", ".", "x", ".com"])
    elif r < 0.62:
        h = base_np.upper() if rng.random() < 0.5 else base_np.title()
    elif r < 0.7 and base_np.startswith("["):
        h = rng.choice(["[::2]", "[", "[::1]", "[fe80::2]", "[::1", "[]", "[2001:db8::2]", base_np + "x", base_np + "]", base_np[:-1], base_np + ".evil.com"])
    elif r < 0.74:
        return rng.choice([None, "", ":", ":80", ".", ".."])
    else:
        h = gen_name(rng)
    return h + rng.choice(PORTS)


class HostStream(Stream):
    name = "hosts"

    corpus = [
        # F20b (fixed by 98be25c): the idna codec's plain UnicodeError used to escape
        {"via": "fn", "host": hs("a..b"), "trusted": [hs("a.b")]},
        {"via": "fn", "host": hs("x" * 64 + ".localhost"), "trusted": [hs(".localhost")]},
        {"via": "fn", "host": hs(".localhost"), "trusted": [hs(".localhost"), hs("127.0.0.1")]},
        {"via": "get_host", "host": hs("a..b"), "trusted": [hs("a.b")], "scheme": "http"},
        {"via": "request", "host": hs(".localhost"), "trusted": [hs(".localhost")], "scheme": "http"},
        {"via": "fn", "host": hs("localhost"), "trusted": [hs("a..b"), hs("localhost")]},
        # F20c (fixed by ede13ce): partition(':') cut a bracketed IPv6 literal, every '[...' equalled every '[...'
        {"via": "fn", "host": hs("[::2]"), "trusted": [hs("[::1]")]},
        {"via": "fn", "host": hs("["), "trusted": [hs("[::1]")]},
        {"via": "fn", "host": hs("[::1]:8080"), "trusted": [hs("[::1]")]},
        {"via": "fn", "host": hs("[::1]"), "trusted": [hs("[::1]:443")]},
        {"via": "fn", "host": hs("[::1]x"), "trusted": [hs("[::1]")]},
        {"via": "fn", "host": hs("[::1]"), "trusted": [hs("[::1]evil")]},
        {"via": "fn", "host": hs("[::1"), "trusted": [hs("[::1]")]},
        {"via": "fn", "host": hs("[::1]]"), "trusted": [hs("[::1]")]},
        {"via": "get_host", "host": hs("[::2]:80"), "trusted": [hs("[::1]")], "scheme": "http"},
        {"via": "request", "host": hs("[fe80::2]"), "trusted": [hs("[fe80::1]")], "scheme": "https"},
        # look-alikes and true subdomains
        {"via": "fn", "host": hs("evillocalhost"), "trusted": [hs(".localhost")]},
        {"via": "fn", "host": hs("localhost.evil.com"), "trusted": [hs(".localhost"), hs("localhost")]},
        {"via": "fn", "host": hs("sub.localhost:5000"), "trusted": [hs(".localhost")]},
        {"via": "fn", "host": hs("sub.localhost"), "trusted": [hs("localhost")]},
        {"via": "fn", "host": hs("bücher.example"), "trusted": [hs("xn--bcher-kva.example")]},
        {"via": "fn", "host": hs("xn--bcher-kva.example"), "trusted": [hs(".bücher.example"), hs("bücher.example")]},
        {"via": "fn", "host": "~", "trusted": [hs("localhost")]},
        {"via": "fn", "host": hs(""), "trusted": [hs("")]},
        {"via": "get_host", "host": hs("example.com:80"), "trusted": [hs("example.com")], "scheme": "http"},
        {"via": "get_host", "host": hs("example.com:443"), "trusted": [hs("example.com")], "scheme": "wss"},
        {"via": "request", "host": hs("evil.com"), "trusted": [hs("example.com")], "scheme": "https"},
        # a configured but empty list trusts nobody (it is not "no validation")
        {"via": "fn", "host": hs("localhost"), "trusted": []},
        {"via": "get_host", "host": hs("evil.example"), "trusted": [], "scheme": "http"},
        {"via": "get_host", "host": "~", "trusted": [], "scheme": "https"},
        {"via": "request", "host": hs("localhost"), "trusted": [], "scheme": "http"},
        {"via": "request", "host": hs(""), "trusted": [], "scheme": "http"},
    ]

    def cases(self, rng, tier):
        while True:
            trusted = gen_trusted(rng)
            host = gen_host(rng, trusted)
            via = rng.choice(["fn", "fn", "get_host", "request"])
            c = {"via": via, "host": opt(hs, host), "trusted": [hs(t) for t in trusted]}
            if via != "fn":
                c["scheme"] = rng.choice(["http", "https", "ws", "wss"])
                if host is None and via == "request":
                    c["host"] = hs("")  # a WSGI environ built by the test helpers always carries a Host
            yield c

    @staticmethod
    def _args(case):
        host = None if case["host"] == "~" else unhs(case["host"])
        return host, [unhs(t) for t in case["trusted"]]

    def real(self, case):
        from werkzeug.sansio.utils import get_host, host_is_trusted

        host, trusted = self._args(case)
        if case["via"] == "fn":
            return b01(host_is_trusted(host, trusted))
        if case["via"] == "get_host":
            return hs(get_host(case["scheme"], host, ("srv.example", 8080), trusted))
        from werkzeug.test import create_environ
        from werkzeug.wrappers import Request

        env = create_environ("/", base_url=f"{case['scheme']}://placeholder/")
        env["HTTP_HOST"] = host
        req = Request(env)
        req.trusted_hosts = trusted
        return hs(req.host)

    def model_line(self, case):
        host, trusted = self._args(case)
        if case["via"] == "fn":
            need = ([strip_port(host)] if host else []) + [strip_port(t[1:] if t.startswith(".") else t) for t in trusted]
            return line("host.trusted", case["host"], strs(trusted), idna_table(need))
        scheme = case["scheme"]
        eff = host
        if eff is None:
            eff = "srv.example:8080"
        if scheme in ("http", "ws") and eff.endswith(":80"):
            eff = eff[:-3]
        elif scheme in ("https", "wss") and eff.endswith(":443"):
            eff = eff[:-4]
        need = [strip_port(eff)] + [strip_port(t[1:] if t.startswith(".") else t) for t in trusted]
        return line("host.get", hs(scheme), case["host"], hs("srv.example"), 8080, strs(trusted), idna_table(need))

    def oracle(self, case, real_out):
        host, trusted = self._args(case)
        if case["via"] == "fn":
            if real_out.startswith("EXC"):
                return f"host_is_trusted raised {real_out[4:]} instead of answering"
            if real_out == "1" and spec_trusted(host, trusted) is False:
                return f"accepted although {host!r} is neither listed in {trusted!r} nor a true subdomain of a dot-prefixed entry"
            return None
        eff = host if host is not None else "srv.example:8080"
        scheme = case["scheme"]
        if scheme in ("http", "ws") and eff.endswith(":80"):
            eff = eff[:-3]
        elif scheme in ("https", "wss") and eff.endswith(":443"):
            eff = eff[:-4]
        if real_out == "EXC:SecurityError":
            return None
        if real_out.startswith("EXC"):
            return f"{case['via']} raised {real_out[4:]} instead of SecurityError"
        if spec_trusted(eff, trusted) is False:
            return f"accepted although {eff!r} is neither listed in {trusted!r} nor a true subdomain of a dot-prefixed entry"
        return None

    def nontrivial(self, case, real_out):
        return case["host"] not in ("~", "-")

    def bucket(self, case, real_out):
        host, trusted = self._args(case)
        s = spec_trusted(host, trusted) if case["via"] == "fn" else None
        tag = "acc" if real_out in ("1",) or (case["via"] != "fn" and not real_out.startswith("EXC")) else ("rej" if not real_out.startswith("EXC:") or real_out == "EXC:SecurityError" else real_out)
        return f"{case['via']}/{tag}" + (f"/spec={s}" if s is not None else "")

    def mutate(self, case, rng):
        host, trusted = self._args(case)
        if host:
            for i in range(len(host)):
                c = dict(case)
                c["host"] = hs(host[:i] + host[i + 1 :])
                yield c
        for i in range(len(trusted)):
            if len(trusted) > 1:
                c = dict(case)
                c["trusted"] = case["trusted"][:i] + case["trusted"][i + 1 :]
                yield c


# --------------------------------------------------------------------------


def run_history(h: str, start_failures=0):
    """drive the real pin_auth; returns (answers 'a'/'x'/'f' per attempt, final counter)"""
    g = gen_mod()
    rig = g.Rig(False, True)
    out = []
    for ch in h:
        if ch == "r":
            path, q = rig.build_query("pinauth-right", "right", "known")
            res = rig.request(path, q, "localhost", "absent")
        elif ch == "w":
            path, q = rig.build_query("pinauth-wrong", "right", "known")
            res = rig.request(path, q, "localhost", "absent")
        else:
            path, q = rig.build_query("pinauth-right", "right", "known")
            res = rig.request(path, q, "localhost", "wronghash")
        code = g.classify(res)
        if code < g.OUT_PINAUTH or code > g.OUT_PINAUTH + 3:
            out.append("?")
            continue
        auth, exhausted = divmod(code - g.OUT_PINAUTH, 2)
        out.append("a" if auth else ("x" if exhausted else "f"))
    return "".join(out), int(rig.app._failed_pin_auth.value)


class PinStream(Stream):
    name = "pin"

    corpus = [
        {"h": "s" * 256 + "r"},  # F20a (fixed by 3932b31): the byte counter wrapped to 0 and the right PIN worked again
        {"h": "s" * 255 + "r"},
        {"h": "s" * 257 + "rwr"},
        {"h": "w" * 11 + "r"},
        {"h": "w" * 10 + "r" + "w" * 11 + "r"},
        {"h": "w" * 11 + "s" * 250 + "r"},
        {"h": "wswswswswsws" + "r"},
        {"h": "w" * 10 + "s" + "r"},
        {"h": "r"},
        {"h": ""},
        {"h": "w" * 5 + "r" + "w" * 6 + "r"},
        {"h": "w" * 11 + "r" * 3 + "s" * 600 + "r"},
    ]

    def cases(self, rng, tier):
        import itertools

        if tier == "thorough":
            # every history up to length 7, then every continuation of the 10/11-failure prefixes up to length 14
            for n in range(0, 8):
                for t in itertools.product("rws", repeat=n):
                    yield {"h": "".join(t)}
            for pre in ("w" * 10, "w" * 11, "s" * 10, "s" * 11, "wswswswsws", "wswswswswsw"):
                for n in range(0, 15 - len(pre)):
                    for t in itertools.product("rws", repeat=n):
                        yield {"h": pre + "".join(t)}
        count = 0
        while tier != "quick" or count < 450:
            count += 1
            n = rng.choice([1, 3, 8, 12, 14, 14, 14, 14, 20, 40, 270, 300, 520] if tier != "quick" else [1, 3, 8, 12, 14, 14, 14, 14, 14, 20, 40, 270])
            w = rng.choice([(1, 1, 1), (1, 6, 1), (1, 3, 6), (1, 0, 20), (3, 1, 1)])
            yield {"h": "".join(rng.choices("rws", weights=w, k=n))}

    def real(self, case):
        ans, counter = run_history(case["h"])
        return f"{ans}|{counter}"

    def exhaustive(self, tier):
        return tier == "thorough"  # every history up to length 7 and every continuation of the lock-out prefixes up to 14

    def model_line(self, case):
        return line("pin.history", 0, case["h"] or "-")

    def oracle(self, case, real_out):
        if real_out.startswith("EXC"):
            return f"pin_auth raised {real_out[4:]}"
        ans = real_out.split("|")[0]
        failures = 0  # unbounded count of failed attempts since start / the last success
        for i, (ch, a) in enumerate(zip(case["h"], ans)):
            if a == "?":
                return f"attempt {i} was not answered by pinauth"
            if failures > 10 and a == "a":
                return f"attempt {i} authenticated after {failures} failed attempts since the last success"
            if a == "a":
                if ch != "r":
                    return f"attempt {i} authenticated without the right PIN"
                failures = 0
            elif ch in "ws" or (ch == "r" and a == "f"):
                failures += 1
        return None

    def nontrivial(self, case, real_out):
        return len(case["h"]) > 11

    def bucket(self, case, real_out):
        n = len(case["h"])
        return ("len<=14" if n <= 14 else ("len<=255" if n <= 255 else "len>255")) + ("/locked" if "x" in real_out else "/open")

    def mutate(self, case, rng):
        h = case["h"]
        for i in range(len(h)):
            yield {"h": h[:i] + h[i + 1 :]}


# --------------------------------------------------------------------------


def run_session(h: str):
    """drive the real debugger through a session: PIN attempts, PIN changes, reuse of the cookie the
    server issued, eval attempts. Returns (observations, final counter)."""
    g = gen_mod()
    rig = g.Rig(True, True)
    held = None  # the cookie value the client was last issued
    pin = g.PIN
    changes = 0
    out = []
    for ch in h:
        if ch == "c":
            changes += 1
            pin = "%03d-%03d-%03d" % (changes, changes, changes)
            rig.app.pin = pin  # the public setter: "the pin was changed"
            out.append("c")
            continue
        if ch == "e":
            path, q = rig.build_query("eval", "right", "known")
            res = rig.request(path, q, "localhost", "absent", cookie_raw=held)
            out.append("E" if res["eval_calls"] else "e")
            continue
        if ch == "r":
            path, q = rig.build_query("pinauth-right", "right", "known", extra={"pin": pin})
            res = rig.request(path, q, "localhost", "absent")
        elif ch == "w":
            path, q = rig.build_query("pinauth-wrong", "right", "known")
            res = rig.request(path, q, "localhost", "absent")
        elif ch == "s":
            path, q = rig.build_query("pinauth-wrong", "right", "known")
            res = rig.request(path, q, "localhost", "wronghash")
        else:  # "u": the held cookie with a wrong PIN
            path, q = rig.build_query("pinauth-wrong", "right", "known")
            res = rig.request(path, q, "localhost", "absent", cookie_raw=held)
        code = g.classify(res)
        if code < g.OUT_PINAUTH or code > g.OUT_PINAUTH + 3:
            out.append("?")
            continue
        auth, exhausted = divmod(code - g.OUT_PINAUTH, 2)
        out.append("a" if auth else ("x" if exhausted else "f"))
        if auth:
            issued = rig.issued_cookie(res)
            if issued is not None:
                held = issued
    return "".join(out), int(rig.app._failed_pin_auth.value)


class SessionStream(Stream):
    """PIN attempts interleaved with run-time PIN changes and reuse of cookies issued earlier"""

    name = "session"
    corpus = [
        {"h": "rce"},  # a cookie issued for the former PIN must not open eval
        {"h": "rcu"},  # ... nor authenticate a wrong PIN
        {"h": "rcre"},  # re-authenticating with the new PIN does
        {"h": "re"},
        {"h": "e"},
        {"h": "rcrcue"},
        {"h": "rcuuuuuuuuuuuur"},  # stale cookies count as failures: locked out
        {"h": "wwwwwwwwwwwrce"},
        {"h": "rucucue"},
        {"h": "crce"},
        {"h": "rccre"},
    ]

    def cases(self, rng, tier):
        import itertools

        if tier == "thorough":
            for n in range(0, 7):
                for t in itertools.product("rwcue", repeat=n):
                    yield {"h": "".join(t)}
        count = 0
        while tier != "quick" or count < 500:
            count += 1
            n = rng.choice([2, 3, 4, 6, 8, 12, 14, 20, 40])
            w = rng.choice([(3, 1, 1, 3, 3, 4), (1, 1, 1, 1, 1, 1), (2, 4, 2, 2, 3, 2), (1, 0, 0, 2, 6, 3)])
            yield {"h": "".join(rng.choices("rwscue", weights=w, k=n))}

    def exhaustive(self, tier):
        return tier == "thorough"  # every session up to length 6 over {r, w, c, u, e}

    def real(self, case):
        ans, counter = run_session(case["h"])
        return f"{ans}|{counter}"

    def model_line(self, case):
        return line("pin.session", case["h"] or "-")

    def oracle(self, case, real_out):
        if real_out.startswith("EXC"):
            return f"the debugger raised {real_out[4:]}"
        ans = real_out.split("|")[0]
        cur = 0  # which PIN is current
        held = None  # for which PIN the client's cookie was issued
        failures = 0
        for i, (ch, a) in enumerate(zip(case["h"], ans)):
            if a == "?":
                return f"step {i} was not answered by pinauth"
            if ch == "c":
                cur += 1
            elif ch == "e":
                if a == "E" and held != cur:
                    return f"step {i}: code was evaluated with " + ("no PIN cookie" if held is None else "a cookie issued for a former PIN")
            else:
                cookie_ok = ch == "u" and held == cur
                if a == "a":
                    if not cookie_ok and ch != "r":
                        return f"step {i}: pinauth authenticated without the current PIN or a cookie valid for it"
                    if not cookie_ok and failures > 10:
                        return f"step {i}: authenticated after {failures} failed attempts since the last success"
                    if ch == "r":
                        failures = 0
                    held = cur
                else:
                    failures += 1
        return None

    def nontrivial(self, case, real_out):
        return "c" in case["h"] and len(case["h"]) > 2

    def bucket(self, case, real_out):
        ans = real_out.split("|")[0]
        return ("changed" if "c" in case["h"] else "same-pin") + ("/evalran" if "E" in ans else "") + ("/locked" if "x" in ans else "")

    def mutate(self, case, rng):
        h = case["h"]
        for i in range(len(h)):
            yield {"h": h[:i] + h[i + 1 :]}


# --------------------------------------------------------------------------


def run_overlap(k: int, stale: int = 0):
    """`k` wrong-PIN requests (the first `stale` of them with a stale cookie instead) are issued from
    threads, one after the other, each left parked inside its penalty delay (time.sleep is replaced by
    a gate); then the right PIN is sent from the main thread; then the gate opens.
    Returns (answer to the right PIN, answers of the wrong attempts, counter when the right PIN was sent)."""
    import queue
    import threading
    import time
    from unittest import mock

    from werkzeug import debug as debug_mod

    g = gen_mod()
    rig = g.Rig(False, True)
    gate = threading.Event()
    events = queue.Queue()

    def parked_sleep(seconds):
        events.put("parked")
        gate.wait(10)

    answers = [None] * k

    def attempt(i):
        try:
            if i < stale:
                path, q = rig.build_query("pinauth-wrong", "right", "known")
                res = rig.request(path, q, "localhost", "wronghash", patch=False)
            else:
                path, q = rig.build_query("pinauth-wrong", "right", "known")
                res = rig.request(path, q, "localhost", "absent", patch=False)
            code = g.classify(res)
            if g.OUT_PINAUTH <= code <= g.OUT_PINAUTH + 3:
                auth, exhausted = divmod(code - g.OUT_PINAUTH, 2)
                answers[i] = "a" if auth else ("x" if exhausted else "f")
            else:
                answers[i] = "?"
        except Exception as e:  # noqa: BLE001
            answers[i] = "EXC:" + type(e).__name__
        finally:
            events.put("done")

    threads = []
    with mock.patch.object(time, "sleep", parked_sleep), mock.patch.object(debug_mod, "_log", lambda *a, **k: None):
        try:
            for i in range(k):
                t = threading.Thread(target=attempt, args=(i,), daemon=True)
                threads.append(t)
                t.start()
                events.get(timeout=10)  # this attempt is now parked in its delay, or already answered
            counter = int(rig.app._failed_pin_auth.value)
            path, q = rig.build_query("pinauth-right", "right", "known")
            res = rig.request(path, q, "localhost", "absent", patch=False)
            code = g.classify(res)
            if g.OUT_PINAUTH <= code <= g.OUT_PINAUTH + 3:
                auth, exhausted = divmod(code - g.OUT_PINAUTH, 2)
                right = "a" if auth else ("x" if exhausted else "f")
            else:
                right = "?"
        finally:
            gate.set()
            for t in threads:
                t.join(10)
    return right, "".join(a if a is not None and len(a) == 1 else "?" for a in answers), counter


class OverlapStream(Stream):
    """overlapping wrong guesses on real threads (outside the sequential model; oracle only)"""

    name = "pin-overlap"
    corpus = [{"k": 11, "stale": 0}, {"k": 12, "stale": 0}, {"k": 30, "stale": 0}, {"k": 12, "stale": 12}, {"k": 14, "stale": 5}]

    def cases(self, rng, tier):
        if tier == "thorough":
            for k in (11, 13, 20, 40):
                for stale in (0, 3, k):
                    yield {"k": k, "stale": stale}

    def real(self, case):
        right, wrongs, counter = run_overlap(case["k"], case["stale"])
        return f"{right}|{wrongs}|{counter}"

    def oracle(self, case, real_out):
        if real_out.startswith("EXC"):
            return f"the debugger raised {real_out[4:]}"
        right, wrongs, counter = real_out.split("|")
        if "?" in wrongs or "a" in wrongs:
            return f"a wrong attempt was answered {wrongs!r}"
        if right != "x":
            return f"the right PIN was answered {right!r} after {case['k']} rejected attempts whose penalty delays were still running (more than ten failures: it must be refused)"
        # a cookie-less wrong attempt answered 'f' was compared against the PIN
        compared = wrongs[case["stale"] :].count("f")
        allowed = max(0, 11 - case["stale"])  # the stale-cookie failures, issued first, already count
        if compared > allowed:
            return f"{compared} wrong PINs were compared against the PIN after {case['stale']} stale-cookie failures: the gate admits at most eleven failures"
        return None

    def bucket(self, case, real_out):
        return f"k={case['k']}/stale={case['stale']}"


# --------------------------------------------------------------------------

# the class of each cookie kind of the rig under its fixed clock (what the property says about it)
COOKIE_CLASS = {"valid": "valid", "edge-valid": "valid", "edge-expired": "expired", "expired": "expired", "wronghash": "wronghash", "malformed": "malformed",
                "badts": "malformed", "empty": "malformed", "absent": "absent"}
SECRET_VARIANTS = ["right", "wrong", "absent", "prefix", "longer", "upper", "empty"]
DEBUGGER_VARIANTS = ["yes", "yes", "yes", "YES", "no", "1", ""]


class GateStream(Stream):
    name = "gates"

    corpus = [
        {"cmd": "eval", "secret": "right", "host": hs("localhost"), "cookie": "valid", "frame": "known", "evalex": True, "pin": True, "dbg": "yes", "pre": 0},
        {"cmd": "eval", "secret": "right", "host": hs("evillocalhost"), "cookie": "valid", "frame": "known", "evalex": True, "pin": True, "dbg": "yes", "pre": 0},
        {"cmd": "eval", "secret": "right", "host": hs("localhost"), "cookie": "expired", "frame": "known", "evalex": True, "pin": True, "dbg": "yes", "pre": 0},
        {"cmd": "eval", "secret": "prefix", "host": hs("localhost"), "cookie": "valid", "frame": "known", "evalex": True, "pin": False, "dbg": "yes", "pre": 0},
        {"cmd": "console", "secret": "absent", "host": hs("example.com"), "cookie": "absent", "frame": "known", "evalex": True, "pin": True, "dbg": "", "pre": 0},
        {"cmd": "pinauth-right", "secret": "right", "host": hs("localhost.evil.com"), "cookie": "absent", "frame": "known", "evalex": True, "pin": True, "dbg": "yes", "pre": 0},
        {"cmd": "pinauth-right", "secret": "right", "host": hs("localhost"), "cookie": "absent", "frame": "known", "evalex": True, "pin": True, "dbg": "yes", "pre": 11},
        {"cmd": "pinauth-right", "secret": "right", "host": hs("localhost"), "cookie": "absent", "frame": "known", "evalex": True, "pin": True, "dbg": "yes", "pre": 300},
        {"cmd": "printpin", "secret": "wrong", "host": hs("localhost"), "cookie": "absent", "frame": "known", "evalex": True, "pin": True, "dbg": "yes", "pre": 0},
        {"cmd": "printpin", "secret": "right", "host": "~", "cookie": "absent", "frame": "known", "evalex": False, "pin": True, "dbg": "yes", "pre": 0},
        {"cmd": "eval", "secret": "right", "host": hs("localhost"), "cookie": "valid", "frame": "missing", "evalex": True, "pin": True, "dbg": "yes", "pre": 0},
        {"cmd": "eval", "secret": "right", "host": hs("localhost"), "cookie": "valid", "frame": "nonint", "evalex": True, "pin": False, "dbg": "yes", "pre": 0},
        {"cmd": "eval", "secret": "right", "host": hs("localhost"), "cookie": "edge-valid", "frame": "known", "evalex": True, "pin": True, "dbg": "yes", "pre": 0},
        {"cmd": "eval", "secret": "right", "host": hs("localhost"), "cookie": "edge-expired", "frame": "known", "evalex": True, "pin": True, "dbg": "yes", "pre": 0},
        {"cmd": "eval", "secret": "upper", "host": hs("localhost"), "cookie": "valid", "frame": "known", "evalex": True, "pin": True, "dbg": "yes", "pre": 0},
        {"cmd": "pinauth-wrong", "secret": "right", "host": hs("localhost"), "cookie": "badts", "frame": "known", "evalex": True, "pin": True, "dbg": "yes", "pre": 0},
        {"cmd": "pinauth-wrong", "secret": "right", "host": hs("localhost"), "cookie": "empty", "frame": "missing", "evalex": False, "pin": True, "dbg": "yes", "pre": 0},
    ]

    def cases(self, rng, tier):
        g = gen_mod()
        default = [".localhost", "127.0.0.1"]
        count = 0
        while tier != "quick" or count < 700:
            count += 1
            def rnd_host():
                if rng.random() < 0.6:
                    return rng.choice(g.HOSTS)[0]
                return gen_host(rng, default)

            rnd = {
                "cmd": lambda: rng.choice(g.CMDS),
                "secret": lambda: rng.choice(SECRET_VARIANTS[:3] if rng.random() < 0.7 else SECRET_VARIANTS),
                "host": lambda: opt(hs, rnd_host()),
                "cookie": lambda: rng.choice(g.W_COOKIES + ["expired"]),
                "frame": lambda: rng.choice(g.W_FRAMES),
                "evalex": lambda: rng.random() < 0.6,
                "pin": lambda: rng.random() < 0.6,
                "dbg": lambda: rng.choice(DEBUGGER_VARIANTS),
                "pre": lambda: rng.choice([0, 0, 0, 5, 10, 11, 12, 260]),
            }
            if rng.random() < 0.35:
                case = {k: f() for k, f in rnd.items()}
            else:
                # start from a request that passes every gate, then break zero to two conjuncts
                case = {
                    "cmd": rng.choice(["eval", "eval", "console", "pinauth-right", "pinauth-wrong", "printpin"]),
                    "secret": "right",
                    "host": hs(rng.choice(["localhost", "sub.localhost", "127.0.0.1", "localhost:5000"])),
                    "cookie": "valid",
                    "frame": "known",
                    "evalex": True,
                    "pin": rng.random() < 0.7,
                    "dbg": "yes",
                    "pre": 0,
                }
                for k in rng.sample(sorted(rnd), rng.choice([0, 1, 1, 1, 2])):
                    case[k] = rnd[k]()
            yield case

    def _run(self, case):
        import json

        key = json.dumps(case, sort_keys=True)
        memo = self.__dict__.setdefault("_memo", {})
        if key not in memo:
            if len(memo) > 20000:
                memo.clear()
            memo[key] = self._run_uncached(case)
        return memo[key]

    def _run_uncached(self, case):
        g = gen_mod()
        rig = g.Rig(case["evalex"], case["pin"])
        rig.clock = g.W_CLOCK  # a fixed clock: the edge-of-PIN_TIME cookies are deterministic
        host = None if case["host"] == "~" else unhs(case["host"])
        # failures that happened before this request
        for _ in range(case["pre"] if case["pin"] else 0):
            path, q = rig.build_query("pinauth-right", "right", "known")
            rig.request(path, q, "localhost", "wronghash")
        before = int(rig.app._failed_pin_auth.value)
        sv = case["secret"]
        base = sv if sv in ("right", "wrong", "absent") else "right"
        path, q = rig.build_query(case["cmd"], base, case["frame"])
        if "s" in q and sv not in ("right", "wrong", "absent"):
            s = rig.app.secret
            q["s"] = {"prefix": s[:-1], "longer": s + "x", "upper": s.swapcase(), "empty": ""}[sv]
        if "__debugger__" in q:
            q["__debugger__"] = case["dbg"]
        try:
            res = rig.request(path, q, host, case["cookie"])
            code = g.classify(res)
        except Exception as e:  # noqa: BLE001 - "any other failure" is an observation, not a harness error
            res = {"status": None, "body": b"", "eval_calls": [], "inner_ran": False, "logs": [], "set_cookie": [], "exc": type(e).__name__}
            code = g.OUT_ODD
        try:
            trusted = rig.app.check_host_trust({"HTTP_HOST": host} if host is not None else {})
        except Exception:  # noqa: BLE001
            trusted = False
        return code, before, int(rig.app._failed_pin_auth.value), trusted, res

    def real(self, case):
        code, before, after, trusted, res = self._run(case)
        return f"{code}|{after}"

    def model_line(self, case):
        code, before, after, trusted, res = self._run(case)
        cmd = case["cmd"]
        in_dbg = cmd not in ("console", "plain")
        mcmd = {"eval": "other", "pinauth-right": "pinauth", "pinauth-wrong": "pinauth", "printpin": "printpin", "resource": "resource"}.get(cmd, "none")
        secret = case["secret"] if case["secret"] in ("right", "wrong", "absent") else "wrong"
        if not in_dbg:
            secret = "absent"
        return line(
            "dbg.dispatch", b01(case["evalex"]), b01(case["pin"]), before, b01(in_dbg and case["dbg"] == "yes"), mcmd, b01(cmd == "resource"), secret,
            b01(case["frame"] == "known"), b01(trusted), COOKIE_CLASS[case["cookie"]], b01(cmd == "pinauth-right"), b01(cmd == "console"),
        )

    def canon_model(self, case, out):
        # the model does not distinguish a served resource (1) from a missing one (2)
        return out

    def oracle(self, case, real_out):
        g = gen_mod()
        if real_out.startswith("EXC"):
            return f"the debugger raised {real_out[4:]}"
        code, before, after, trusted, res = self._run(case)
        host = None if case["host"] == "~" else unhs(case["host"])
        host_ok = spec_trusted(host, [".localhost", "127.0.0.1"]) is not False
        secret_ok = case["secret"] == "right"
        pin_ok = (not case["pin"]) or COOKIE_CLASS[case["cookie"]] == "valid"
        if code == g.OUT_ODD:
            if res.get("exc"):
                return f"the debugger raised {res['exc']} instead of answering or refusing with SecurityError"
            return f"unclassifiable answer (status {res['status']}): neither a gate's answer, nor SecurityError, nor the application"
        if res["eval_calls"] and not (case["evalex"] and host_ok and secret_ok and case["frame"] == "known" and pin_ok):
            return "code was evaluated in a frame without evalex + trusted Host + secret + known frame + valid PIN cookie"
        if code == g.OUT_CONSOLE and not (case["evalex"] and host_ok):
            return "the console page answered an untrusted Host (or with evalex off)"
        if g.OUT_PINAUTH <= code <= g.OUT_PINAUTH + 3 and not (host_ok and secret_ok):
            return "pinauth answered without a trusted Host and the secret"
        if code in (g.OUT_PRINTPIN_LOGGED, g.OUT_PRINTPIN_SILENT) and not (host_ok and secret_ok):
            return "printpin answered without a trusted Host and the secret"
        if res["logs"] and not (host_ok and secret_ok):
            return "the PIN was logged for a request without a trusted Host and the secret"
        if g.OUT_PINAUTH <= code <= g.OUT_PINAUTH + 3 and case["pin"] and case["pre"] > 10 and COOKIE_CLASS[case["cookie"]] != "valid":
            auth = (code - g.OUT_PINAUTH) // 2
            if auth:
                return f"PIN accepted after {case['pre']} failed attempts"
        if code in (g.OUT_PINAUTH + 2, g.OUT_PINAUTH + 3) and res["set_cookie"] and not (host_ok and secret_ok):
            return "a PIN cookie was issued to an untrusted request"
        return None

    def nontrivial(self, case, real_out):
        return not real_out.startswith("0|")

    def bucket(self, case, real_out):
        return case["cmd"] + "->" + real_out.split("|")[0]

    def mutate(self, case, rng):
        g = gen_mod()
        for k, vals in (("secret", SECRET_VARIANTS), ("cookie", g.W_COOKIES), ("frame", g.W_FRAMES), ("evalex", [True, False]), ("pin", [True, False])):
            for v in vals:
                if case[k] != v:
                    c = dict(case)
                    c[k] = v
                    yield c



# --------------------------------------------------------------------------
# check_pin_trust on raw cookie values, with the clock as an input


TS_TEXTS = ["{now}", "{edge1}", "{edge0}", "{old}", "{future}", "0", "-5", "+{now}", " {now}", "{now} ", "1_0", "{now}.5", "abc", "", "0x10", "१२३", "٣", "1e9", "{now}|x", "9" * 30, "-" + "9" * 30]
HASH_TEXTS = ["R", "R", "R", "W", "", "R|R", "r", "R ", " R"]
CLOCKS = [2_000_000_000.5, 2_000_000_000.0, 1_700_000_000.999, 604_800.0, 0.25, 4_102_444_800.75]


class PinCookieStream(Stream):
    """DebuggedApplication.check_pin_trust on arbitrary cookie texts and clock values vs
    Model.Debugger.checkPinTrustRaw (int() on the timestamp text is an opaque input of the model)"""

    name = "pincookie"

    @staticmethod
    def mk(ts, h, clock, pin=True, bare=None):
        return {"ts": ts, "hash": h, "clock": clock, "pin": pin, "bare": bare}

    def __init__(self):
        mk = self.mk
        self.corpus = [
            mk("{now}", "R", 2_000_000_000.5), mk("{edge1}", "R", 2_000_000_000.5), mk("{edge0}", "R", 2_000_000_000.5), mk("{edge0}", "R", 2_000_000_000.0),
            mk("{edge1}", "R", 2_000_000_000.0), mk("{now}", "W", 2_000_000_000.5), mk("abc", "R", 2_000_000_000.5), mk("{future}", "R", 0.25),
            mk("{now}", "R", 2_000_000_000.5, pin=False), mk(None, None, 2_000_000_000.5, bare="not-a-cookie"), mk(None, None, 2_000_000_000.5, bare=""),
            mk(None, None, 2_000_000_000.5, bare=None), mk("{old}", "R", 2_000_000_000.5), mk("१२३", "R", 0.25), mk("{now}|x", "R", 2_000_000_000.5),
            mk("9" * 30, "R", 2_000_000_000.5), mk("-" + "9" * 30, "R", 2_000_000_000.5),
        ]

    def cases(self, rng, tier):
        n = 0
        while tier != "quick" or n < 1200:
            n += 1
            if rng.random() < 0.12:
                yield self.mk(None, None, rng.choice(CLOCKS), pin=rng.random() < 0.8, bare=rng.choice([None, "", "not-a-cookie", "|", "||", "5", "R"]))
            else:
                yield self.mk(rng.choice(TS_TEXTS), rng.choice(HASH_TEXTS), rng.choice(CLOCKS), pin=rng.random() < 0.85)

    def _build(self, case):
        from werkzeug.debug import PIN_TIME, hash_pin

        g = gen_mod()
        now = int(case["clock"])
        if case["ts"] is None:
            raw = case["bare"]
        else:
            ts = case["ts"].format(now=now, edge1=now - PIN_TIME + 1, edge0=now - PIN_TIME, old=now - 2 * PIN_TIME, future=now + 10 * PIN_TIME)
            h = case["hash"].replace("R", hash_pin(g.PIN)).replace("W", hash_pin("000-000-000")).replace("r", hash_pin(g.PIN).upper())
            raw = f"{ts}|{h}"
        return raw

    def _observe(self, case):
        import time
        from unittest import mock

        from werkzeug.debug import PIN_TIME, hash_pin
        from werkzeug.http import parse_cookie
        from werkzeug.test import create_environ

        g = gen_mod()
        rig = self.__dict__.setdefault("_rigs", {}).get(case["pin"])
        if rig is None:
            rig = self._rigs[case["pin"]] = g.Rig(False, case["pin"])
        raw = self._build(case)
        env = create_environ("/")
        if raw is not None:
            env["HTTP_COOKIE"] = f"{rig.cookie_name}={raw}".encode("utf-8").decode("latin-1")  # the WSGI string convention
        val = parse_cookie(env).get(rig.cookie_name)  # what check_pin_trust itself reads
        clock = case["clock"]
        with mock.patch.object(time, "time", lambda: clock):
            res = rig.app.check_pin_trust(env)
        return res, val, (hash_pin(g.PIN) if case["pin"] else None), int(PIN_TIME)

    def real(self, case):
        return str(self._observe(case)[0])

    def model_line(self, case):
        import math

        res, val, hp, pin_time = self._observe(case)
        tsval = "~"
        if val and "|" in val:
            try:
                tsval = str(int(val.split("|", 1)[0]))
            except ValueError:
                tsval = "!"
        return line("dbg.pintrust", pin_time, opt(hs, hp), opt(hs, val), math.floor(case["clock"]), tsval)

    def oracle(self, case, real_out):
        res, val, hp, pin_time = self._observe(case)
        if real_out.startswith("EXC"):
            return f"check_pin_trust raised {real_out[4:]}"
        if not case["pin"]:
            return None if res is True else "with the PIN switched off check_pin_trust must answer True"
        if res is True:
            # authorised: the right hash and a timestamp younger than PIN_TIME - for this clock value
            if not val or "|" not in val:
                return "a cookie without 'timestamp|hash' authorised"
            ts_text, h = val.split("|", 1)
            if h != hp:
                return "a cookie with a hash other than the current PIN's authorised"
            try:
                ts = int(ts_text)
            except ValueError:
                return "a cookie whose timestamp is not an integer authorised"
            if not (case["clock"] - pin_time < ts):
                return f"a cookie older than PIN_TIME authorised (clock {case['clock']}, timestamp {ts})"
        return None

    def bucket(self, case, real_out):
        return real_out + ("/pin-off" if not case["pin"] else "")

    def nontrivial(self, case, real_out):
        return case["ts"] is not None


CHECK = Check(
    prop="C20",
    gen=["Debugger", "DebuggerWide", "PyFns_Host", "PyFns_Debug", "Http"],
    modules=["WzVerif.Props.C20", "WzVerif.Props.C20T", "WzVerif.Props.C20T2"],
    streams=[HostStream(), PinStream(), SessionStream(), OverlapStream(), GateStream(), PinCookieStream(), PreludeKernels()],
    assumptions=[
        "round 3 (Props/C20T2): DebuggedApplication.check_pin_trust, _fail_pin_auth, pin_auth and the handler selection of __call__ are regenerated from the source by tools/py2lean.py (Gen/PyFns_Debug.lean) on every run and proved equal to the hand model (checkPinTrust on the class of the cookie, failPinAuth on the byte counter, pinAuth, the branch structure of respond) for all inputs; what the methods read from the request and their collaborators (cookie value, hash_pin, the clock test, query arguments, check_host_trust, the frame table) enters as parameters, the two cookie statements of pin_auth and the penalty sleep are pinned by their exact source text, the lock is a no-op in the sequential model (the overlap of requests is covered by the pin-overlap stream and the AST facts of Props/C20)",
        "the idna codec is an opaque parameter of the model (String -> Except); the harness supplies CPython's answers for the strings of each case, the theorems hold for every such function",
        "hash_pin (sha1) and gen_salt are abstracted: in the dispatch model the PIN cookie is one of {valid, expired, wrong hash, malformed, absent}, the secret one of {right, wrong, absent}; the class of a cookie is defined by checkPinTrustRaw / classifyCookie on the raw cookie value with the clock floor(time.time()) and PIN_TIME as parameters and Python's int() on the timestamp text as an opaque function (the harness supplies its value per case; stream pincookie drives the real check_pin_trust with a patched clock); for an integer timestamp the code's float comparison (time.time() - PIN_TIME) < ts equals the integer comparison floor(time.time()) - PIN_TIME < ts",
        "the widened table (Gen/DebuggerWide.lean, 32256 points, regenerated on every run with time.time() fixed at 2000000000.5 and four shared DebuggedApplication objects whose failure counter is reset before every point) refines the secret (case-swapped, truncated, empty), cookie (just valid, just expired, three malformed spellings), frame id (missing, non-integer) and Host (port, trailing dot, upper case, IPv6 literal) dimensions; a second table (504 points) varies app.trusted_hosts (default, ['[::1]', '.example.com'], []) and the request method; in both the Host verdict and the cookie class the model uses are its own (hostIsTrusted with CPython's ASCII idna fast path, the raw cookie check), not the live ones",
        "the generated gate table is the complete product command x secret x Host (21 listed values with the class the property text gives them) x cookie x frame x evalex x pin, one fresh DebuggedApplication per point, time.sleep and _log stubbed, the frame is a spy object registered in app.frames",
        "get_resource (static files of the debugger) is served without Host or secret check; the property does not list it among the gated endpoints",
        "PINs are abstracted to generations in the session model (a run-time change of app.pin increments the generation; a cookie carries the generation it was issued for); cookie expiry is not part of sessions",
        "multi-process sharing of the failure counter (multiprocessing.Value) and real sleeping are outside the model; the sequential model is complemented by (a) the structural obligation fail_counted_before_delay read off the AST of _fail_pin_auth / pin_auth and (b) stream pin-overlap, which exercises real threads: wrong attempts issued one after the other are each parked inside their penalty delay (time.sleep replaced by a threading.Event gate) while the right PIN is tried - oracle only, outside the model",
        "_strip_port, host_is_trusted and get_host are regenerated from the source by tools/py2lean.py (Gen/PyFns_Host.lean) on every run and proved equal to the hand model for all inputs (Props/C20T; idna stays opaque); the CPython primitives the translated code calls (startswith, find, slicing, partition, endswith) are modelled in Util/PyPrelude.lean and validated by stream prelude-kernels",
    ],
    trusted_extra=["CPython's idna codec (encodings.idna) - opaque in the model, also used by the host oracle"],
    quick_budget=4000,
    thorough_budget=10000,
)

MANIFEST = {
    "level_text": "Machine-checked Lean 4 theorems: the eval / console / pinauth / printpin gates decided by the kernel over the complete dispatch table obtained on every run by driving the real DebuggedApplication over the property's product (20160 points), over a widened product (32256 points: secret spellings x cookie edge cases at the PIN_TIME boundary x frame-id spellings x Host spellings) and over trusted_hosts settings x request method (504 points), and proved on the model for every input; a cookie older than PIN_TIME never authorises, for every clock value, timestamp parser and cookie text; host_is_trusted soundness/completeness for every host, trusted list and IDNA function; PIN lockout permanence for every attempt history (saturating byte counter observationally equal to an unbounded counter; the wrapping counter refuted). Model tied to the code by correspondence streams for host validation, PIN histories and dispatch.",
    "level_note": "Trusted: Lean kernel; extract.py + the rig driving DebuggedApplication; the harness; CPython's idna codec (opaque).",
    "technique": "Lean 4 proof (decide +kernel over a regenerated complete decision table; induction over attempt histories and trusted lists) + model/code correspondence",
    "design_ref": "DESIGN.md section 4, C20",
}
