"""C06 - every HTTP header serialiser is inverted by its parser.

Stream
  codec-pairs   value -> real dump -> real parse, and Model.Http / Model.Date on the same value;
                compares the wire text and the parsed value. Oracle (on the real code only, for values
                inside the property's domain): parse(dump(v)) == v and parse(dump(parse(h))) == parse(h)
                for h = dump(v).
Values outside the domain (keys with '*', '%22', overlapping ranges, ...) are still generated: they
exercise the model/code correspondence at the domain boundary; the oracle is silent on them.
"""
from __future__ import annotations

import json
import random
import signal
from datetime import datetime, timedelta, timezone

from harness.pyprelude import PreludeKernels
from vlib.core import Check, Stream, b01, hs, line, opt, out_list, unhs

TIME_LIMIT_S = 3.0


class Timeout(BaseException):
    """BaseException: an `except Exception` inside werkzeug or the harness must not swallow the alarm"""


def _alarm(signum, frame):
    raise Timeout()


def timed(f):
    """per-case time limit for dump -> parse on the real code (replaces the runner's longer watchdog)"""
    old = signal.signal(signal.SIGALRM, _alarm)
    signal.setitimer(signal.ITIMER_REAL, TIME_LIMIT_S)
    try:
        return f()
    finally:
        signal.setitimer(signal.ITIMER_REAL, 0)
        signal.signal(signal.SIGALRM, old)


TOKEN_CHARS = "!#$%&'*+-.0123456789ABCDEFGHIJKLMNOPQRSTUVWXYZ^_`abcdefghijklmnopqrstuvwxyz|~"
HOT = ['"', "\\", ",", ";", "=", " ", "\t", "*", "%", "%22", "'", "/", ":", "-", "a", "b", "Z", "0", "9", "é", "\xff", "\xa0", "\x85",
       "€", "\U0001f600", " ", "\\\\", '\\"', "W/", "utf-8''", "*0", "\x00", "\x7f", "None", "bytes", "x", "_", "~", "(", "[", "<", "@", "\x0b", "\x1f", "İ", "ß"]


def rand_text(rng, maxlen=8, crlf=False):
    n = rng.choice([0, 1, 1, 2, 3, 4, 6, maxlen])
    out = []
    for _ in range(n):
        r = rng.random()
        if r < 0.6:
            out.append(rng.choice(HOT))
        elif r < 0.8:
            out.append(rng.choice(TOKEN_CHARS))
        elif r < 0.9:
            out.append(chr(rng.randrange(0x20, 0x100)))
        elif r < 0.97:
            out.append(chr(rng.randrange(0x100, 0x3000)))
        else:
            out.append(chr(rng.randrange(0x10000, 0x110000)))
    s = "".join(out)
    if not crlf:
        s = s.replace("\r", "").replace("\n", "")
    return s.encode("utf-8", "ignore").decode("utf-8")


def rand_token(rng, lower=False, star=False, maxlen=6):
    alphabet = TOKEN_CHARS if star else TOKEN_CHARS.replace("*", "")
    if lower:
        alphabet = "".join(c for c in alphabet if not c.isupper())
    return "".join(rng.choice(alphabet) for _ in range(rng.randrange(1, maxlen + 1)))


def is_token(s):
    return bool(s) and all(c in TOKEN_CHARS for c in s)


def no_crlf(s):
    return "\r" not in s and "\n" not in s


# ---- canonical renderings (mirror lean/WzVerif/Driver/C06.lean) ----


def c_list(items):
    return out_list(hs(x) for x in items)


def c_pairs_opt(d):
    return out_list(hs(k) + ":" + opt(hs, v) for k, v in d)


def c_optlist(items):
    return out_list(opt(hs, x) for x in items)


def c_etags(strong, weak, star):
    return "S=" + c_optlist(strong) + ";W=" + c_optlist(weak) + ";*=" + b01(star)


def c_range(r):
    if r is None:
        return "~"
    return hs(r.units) + "|" + out_list(f"{b}:{opt(str, e)}" for b, e in r.ranges)


def c_crange(c):
    if c is None:
        return "~"
    return "|".join([opt(hs, c.units), opt(str, c.start), opt(str, c.stop), opt(str, c.length)])


def c_ccval(v):
    if v is None:
        return "none"
    if v is True:
        return "true"
    if v is False:
        return "false"
    if isinstance(v, int):
        return f"i:{v}"
    return "s:" + hs(v)


def c_auth(a):
    if a is None:
        return "~"
    return hs(a.type) + "|" + c_pairs_opt(list(a.parameters.items())) + "|" + opt(hs, a.token)


def dec_opt(x):
    return None if x is None or x == "~" else unhs(x)


def exc(f):
    try:
        return f()
    except Exception as e:  # noqa: BLE001 - the class is the observation
        return "EXC:" + exc_name(e)


def exc_name(e):
    import binascii

    if type(e) is binascii.Error:
        return "binascii.Error"
    return type(e).__name__


EPOCH = datetime(1, 1, 1, tzinfo=timezone.utc)


def to_seconds(dt):
    """whole seconds since 0001-01-01T00:00:00 UTC of an aware datetime"""
    d = dt - EPOCH
    return d.days * 86400 + d.seconds


def cc_tables():
    import inspect

    from werkzeug.datastructures import RequestCacheControl, ResponseCacheControl

    out = {}
    for cname, cls in (("request", RequestCacheControl), ("response", ResponseCacheControl)):
        rows = []
        for name in sorted(dir(cls)):
            p = inspect.getattr_static(cls, name)
            if isinstance(p, property) and p.fget is not None and p.fget.__closure__:
                cells = {n: c.cell_contents for n, c in zip(p.fget.__code__.co_freevars, p.fget.__closure__)}
                if "key" in cells and "type" in cells:
                    rows.append((name, cells["key"], cells["empty"], cells["type"]))
        out[cname] = rows
    return out



# ---- mutation / assignment histories (header sets, cache-control, CSP) ----

#: member names with case variants of each other (ASCII case folding only: `str.lower` of the model
#: is ASCII; the non-ASCII members are caseless), quoting-relevant members, the empty string
HS_POOL = ["GET", "get", "Get", "gET", "POST", "post", "Cookie", "cookie", "COOKIE", "Accept-Encoding", "accept-encoding", "ACCEPT-ENCODING",
           "a", "A", "b", "B", "x y", "X Y", 'q"', 'Q"', "a,b", "A,B", "", "\\", "é", "€", "*", "0"]


def hs_member(rng):
    return rng.choice(HS_POOL) if rng.random() < 0.9 else rand_text(rng, 3)


def gen_set_hist(rng):
    r = rng.random()
    init = [hs_member(rng) for _ in range(rng.choice([0, 1, 1, 2, 3, 4]))]
    if r < 0.5:
        # half of the time already a proper set: members distinct ignoring case
        seen, init2 = set(), []
        for x in init:
            if x.lower() not in seen:
                seen.add(x.lower())
                init2.append(x)
        init = init2
    ops, cur = [], list(init)
    for _ in range(rng.choice([1, 1, 2, 3, 4, 6])):
        k = rng.random()
        existing = rng.choice(cur) if cur else hs_member(rng)
        variant = rng.choice([existing, existing.lower(), existing.upper(), existing.swapcase(), existing.title()])
        pick = variant if rng.random() < 0.6 else hs_member(rng)
        if k < 0.2:
            ops.append(["a", hs(pick)])
        elif k < 0.32:
            ops.append(["r", hs(pick)])
        elif k < 0.44:
            ops.append(["d", hs(pick)])
        elif k < 0.54:
            ops.append(["u", [hs(rng.choice([pick, hs_member(rng)])) for _ in range(rng.randrange(0, 4))]])
        elif k < 0.58:
            ops.append(["c"])
        elif k < 0.68:
            ops.append(["x", rng.randrange(-4, 4)])
        else:
            # item assignment: most often a case variant of the entry it replaces
            if cur and rng.random() < 0.7:
                i = rng.randrange(len(cur))
                if rng.random() < 0.5:
                    i -= len(cur)
                old = cur[i]
                v = rng.choice([old.lower(), old.upper(), old.swapcase(), old.title(), old]) if rng.random() < 0.7 else hs_member(rng)
            else:
                i, v = rng.randrange(-4, 4), hs_member(rng)
            ops.append(["s", i, hs(v)])
        cur = ref_set_hist(init, ops)[0]
    return {"codec": "set-hist", "init": [hs(x) for x in init], "ops": ops}


def ref_set_hist(init, ops):
    """the documented meaning of a HeaderSet history - a case-insensitive ordered set - and whether
    the history stays in C06's domain: no item assignment that duplicates *another* member (known
    finding F08b otherwise; initial lists with case-duplicates are in the domain since F08c was repaired)"""
    members = []
    for x in init:  # the constructor runs the loop of update(): first spelling wins (repair 1a2e0e6)
        if x.lower() not in [m.lower() for m in members]:
            members.append(x)
    ok = True

    def add(x):
        if x.lower() not in [m.lower() for m in members]:
            members.append(x)

    def drop(x):
        for i, m in enumerate(members):
            if m.lower() == x.lower():
                del members[i]
                return

    for op in ops:
        k = op[0]
        if k == "a":
            add(unhs(op[1]))
        elif k in ("r", "d"):
            drop(unhs(op[1]))
        elif k == "u":
            for x in op[1]:
                add(unhs(x))
        elif k == "c":
            members.clear()
        elif k == "x":
            if -len(members) <= op[1] < len(members):
                del members[op[1]]
        elif k == "s":
            i, v = op[1], unhs(op[2])
            if -len(members) <= i < len(members):
                others = members[:]
                del others[i]
                if v.lower() in [m.lower() for m in others]:
                    ok = False
                members[i] = v
    return members, ok


def run_set_hist(case):
    from werkzeug import datastructures as ds

    h = ds.HeaderSet([unhs(x) for x in case["init"]])
    log = []
    for op in case["ops"]:
        try:
            k = op[0]
            if k == "a":
                h.add(unhs(op[1]))
            elif k == "r":
                h.remove(unhs(op[1]))
            elif k == "d":
                h.discard(unhs(op[1]))
            elif k == "u":
                h.update([unhs(x) for x in op[1]])
            elif k == "c":
                h.clear()
            elif k == "x":
                del h[op[1]]
            elif k == "s":
                h[op[1]] = unhs(op[2])
            log.append("ok")
        except (KeyError, IndexError) as e:
            log.append(type(e).__name__)
    return h, log


def c_hs(h):
    return c_list(list(h)) + "|" + c_list(sorted(h.as_set())) + "|" + str(len(h))


def hs_op_line(op):
    k = op[0]
    if k == "u":
        return "u:" + ("[]" if not op[1] else "+".join(op[1]))
    return ":".join(str(x) for x in op)


def c_ccval2(v):
    if v is None:
        return "none"
    if v is True:
        return "true"
    if v is False:
        return "false"
    if isinstance(v, int):
        return f"i{v}"
    return "s" + hs(v)


def gen_cc_hist(rng, table):
    """assignments through the typed properties of ResponseCacheControl, dict-style writes, deletions"""
    base = {}
    for _ in range(rng.randrange(0, 3)):
        _, k2, _, _ = rng.choice(table)
        base[k2] = rng.choice([None, str(rng.randrange(0, 100)), rand_text(rng, 3)])
    ops = []
    for _ in range(rng.choice([1, 2, 2, 3, 4, 6])):
        attr, key, empty, ty = rng.choice(table)
        k = rng.random()
        if k < 0.6:
            if ty is bool:
                val = rng.random() < 0.6
            elif ty is int:
                val = rng.choice([None, rng.randrange(0, 10**6), rng.randrange(-50, 50), True, False, 0])
            else:
                val = rng.choice([None, True, False, rand_text(rng, 5), "a, b"])
            ops.append(["t", attr, c_ccval2(val)])
        elif k < 0.72:
            ops.append(["x", attr])
        elif k < 0.86:
            kk = key if rng.random() < 0.5 else (rand_token(rng) if rng.random() < 0.85 else rand_text(rng, 3))
            ops.append(["i", hs(kk), opt(hs, rng.choice([None, rand_text(rng, 4), str(rng.randrange(0, 50))]))])
        elif k < 0.96:
            ops.append(["p", hs(key if rng.random() < 0.7 else rand_token(rng))])
        else:
            ops.append(["c"])
    return {"codec": "cc-hist", "base": [[hs(k), opt(hs, v)] for k, v in base.items()], "ops": ops}


def dec_ccval2(x):
    if x == "none":
        return None
    if x == "true":
        return True
    if x == "false":
        return False
    if x[0] == "i":
        return int(x[1:])
    return unhs(x[1:])


def run_cc_hist(case):
    from werkzeug import datastructures as ds

    obj = ds.ResponseCacheControl({unhs(k): (None if v == "~" else unhs(v)) for k, v in case["base"]})
    for op in case["ops"]:
        k = op[0]
        if k == "t":
            setattr(obj, op[1], dec_ccval2(op[2]))
        elif k == "x":
            delattr(obj, op[1])
        elif k == "i":
            obj[unhs(op[1])] = None if op[2] == "~" else unhs(op[2])
        elif k == "p":
            obj.pop(unhs(op[1]), None)
        elif k == "c":
            obj.clear()
    return obj


def gen_csp_hist(rng, keys):
    base = {}
    for _ in range(rng.randrange(0, 3)):
        base[rng.choice(keys)] = rng.choice(["'self'", "https://x.example", "data: *"])
    ops = []
    for _ in range(rng.choice([1, 2, 2, 3, 4, 6])):
        key = rng.choice(keys) if rng.random() < 0.85 else rand_text(rng, 3)
        k = rng.random()
        if k < 0.65:
            v = " ".join(rng.choice(["'self'", "https://x.example", "data:", "*", "'none'"]) for _ in range(rng.randrange(1, 3))) if rng.random() < 0.85 else rand_text(rng, 4)
            ops.append(["s", hs(key), hs(v) if rng.random() < 0.85 else "~"])
        elif k < 0.95:
            ops.append(["d", hs(key)])
        else:
            ops.append(["c"])
    return {"codec": "csp-hist", "base": [[hs(k), hs(v)] for k, v in base.items()], "ops": ops}


def run_csp_hist(case, keys):
    from werkzeug import datastructures as ds

    obj = ds.ContentSecurityPolicy({unhs(k): unhs(v) for k, v in case["base"]})
    for op in case["ops"]:
        k = op[0]
        if k == "c":
            obj.clear()
            continue
        key = unhs(op[1])
        attr = key.replace("-", "_") if key in keys else None
        if k == "s":
            v = None if op[2] == "~" else unhs(op[2])
            if attr is not None:
                setattr(obj, attr, v)  # the typed property
            elif v is None:
                obj.pop(key, None)
            else:
                obj[key] = v
        elif k == "d":
            if attr is not None:
                delattr(obj, attr)
            else:
                obj.pop(key, None)
    return obj


def csp_keys():
    import inspect

    from werkzeug.datastructures import ContentSecurityPolicy

    out = []
    for name in sorted(dir(ContentSecurityPolicy)):
        p = inspect.getattr_static(ContentSecurityPolicy, name)
        if isinstance(p, property) and p.fget is not None and p.fget.__closure__:
            cells = {n: c.cell_contents for n, c in zip(p.fget.__code__.co_freevars, p.fget.__closure__)}
            if "key" in cells and name == cells["key"].replace("-", "_"):
                out.append(cells["key"])
    return out


class CodecPairs(Stream):
    name = "codec-pairs"

    CODECS = ["quote", "list", "set", "dict", "options", "etag", "etags", "range", "crange", "age", "cc", "csp", "auth", "www", "date", "dateaware", "ifrange", "etags-text", "list-text", "set-hist", "set-hist", "cc-hist", "csp-hist", "range-text", "crange-text", "csp-text", "dict-text"]

    corpus = [
        {"codec": "quote", "v": hs(v), "allow": a}
        for a in (True, False)
        for v in ["", "a", "a b", 'a"b', "a\\b", '\\"', '"', "\\", '\\\\"', '"\\', "é", "tok-en", '""', '"a"', "a,b", "%22", "\\\\", '\\"\\']
    ] + [
        {"codec": "list", "items": [hs(x) for x in items]}
        for items in [[], [""], ["a", "b c"], ['a"', "\\", ","], ["", ""], [" a "], ['"x"'], ["a", "", "b"]]
    ] + [
        {"codec": "set", "items": [hs(x) for x in items]} for items in [[], ["a", "A"], ["foo", "bar baz"], [""], ["Cookie", "cookie", "X", "COOKIE"], ["a", "b", "A", "B", "a"], ["", ""], ["x y", "X Y"]]
    ] + [
        {"codec": "dict", "d": [[hs(k), opt(hs, v)] for k, v in d]}
        for d in [[], [("a", "b")], [("a", None)], [("a", "b c"), ("d", None), ("e", "")], [("a*", "x")], [("a*", "utf-8''%C3%A9")], [("k", 'q"\\')], [("a", "="), ("b", "x=y")]]
    ] + [
        {"codec": "options", "h": opt(hs, h), "d": [[hs(k), opt(hs, v)] for k, v in d]}
        for h, d in [("text/html", []), ("text/html", [("charset", "utf-8")]), ("form-data", [("name", 'a"b'), ("filename", "x y.txt")]), ("a", [("k", "%22")]), ("a", [("k", "x %22 y")]), ("a", [("k*", "utf-8''%C3%A9")]), ("a", [("k*0", "x")]), ("", [("k", "v")]), ("a;b", [("k", "v")]), (" a", [("k", "v")]), ("a", [("K", "v")]), ("a", [("k", "")]), ("a", [("k", None)]), (None, [("k", "v")]), ("a", [("k", "\\")]), ("a", [("k", ";")]), ("form-data", [("name", "upload"), ("filename", "x; name=other")]), ("a", [("filename", "a; size=1.txt")]), ("a", [("k", 'x"; j="y')]), ("a", [("k", "v, j=w")])]
    ] + [
        {"codec": "etag", "e": hs(e), "weak": w} for w in (False, True) for e in ["", "abc", "a b", 'a"b', "W/x", " x ", "*", "a,b"]
    ] + [
        {"codec": "etags", "strong": [hs(x) for x in s], "weak": [hs(x) for x in w], "star": st}
        for s, w, st in [([], [], False), (["a"], [], False), ([], ["a"], False), (["a", "b"], ["c"], False), ([], [], True), (["a"], ["b"], True), (["*"], [], False), (["a,b", " c "], ["W/x"], False), ([""], [], False), (["a\nb"], [], False), (["None"], [], False), (["é"], ["\U0001f600"], False), ([""], [""], False), (["", "a"], [], False)]
    ] + [
        {"codec": "range", "units": hs(u), "ranges": rs}
        for u, rs in [("bytes", [[0, 500]]), ("bytes", [[0, 1]]), ("bytes", [[5, None]]), ("bytes", [[-500, None]]), ("bytes", [[0, 10], [10, 20], [30, None]]), ("bytes", [[0, 10], [5, 20]]), ("bytes", [[-5, None], [0, 3]]), ("bytes", [[3, None], [5, 6]]), ("bytes", []), ("Bytes", [[0, 1]]), (" bytes", [[0, 1]]), ("a=b", [[0, 1]]), ("", [[0, 1]]), ("bytes", [[3, 3]]), ("bytes", [[-1, 5]]), ("bytes", [[0, None]]), ("items", [[10**30, 10**30 + 1]]), ("bytes", [[0, 5], [0, None]]), ("bytes", [[-1, None]])]
    ] + [
        {"codec": "crange", "units": opt(hs, u), "start": s, "stop": e, "length": ln}
        for u, s, e, ln in [("bytes", 0, 500, 1000), ("bytes", 0, 1, None), ("bytes", None, None, 1000), ("bytes", None, None, None), ("bytes", 5, 10, 7), ("bytes", 0, 10, 0), (None, None, None, None), ("by tes", 0, 1, 2), ("", 0, 1, 2), ("bytes", None, None, 0), ("a/b-c", 1, 2, 3), ("bytes", 5, 5, 10), ("bytes", -1, 5, 10), ("bytes", 0, 5, -1)]
    ] + [
        {"codec": "age", "n": n} for n in [0, 1, 59, 3600, 86399999999999, 86400000000000, 10**20]
    ] + [
        {"codec": "csp", "d": [[hs(k), hs(v)] for k, v in d]}
        for d in [[], [("default-src", "'self'")], [("default-src", "'self'"), ("script-src", "'self' https://x.example")], [("a", "b;c")], [("a b", "c")], [("a", " b")], [("a", "")], [("", "b")], [("a\tb", "c")]]
    ] + [
        {"codec": c, "type": hs(t), "params": [[hs(k), opt(hs, v)] for k, v in ps], "token": opt(hs, tok)}
        for c in ("auth", "www")
        for t, ps, tok in [("basic", [("username", "u"), ("password", "p")], None), ("basic", [("username", "ü:x"), ("password", "p:q")], None), ("basic", [("username", ""), ("password", "")], None), ("bearer", [], "abc.def=="), ("bearer", [], ""), ("bearer", [], "a=b"), ("digest", [("realm", "r"), ("nonce", "n n"), ("qop", "auth")], None), ("digest", [("realm", None)], None), ("digest", [], None), ("x-custom", [("a", "1")], None), ("Bearer", [], "t"), ("a b", [], "t"), ("basic", [], "dTpw"), ("basic", [("username", "u")], None)]
    ] + [
        {"codec": "date", "t": t} for t in [0, 1, 86399, 86400, 31535999 + 86400 * 365 * 98, 63113904000, 63839700306, 315537897599, 315537897598, 31556952000 - 1, 3124137600]
    ] + [
        {"codec": "dateaware", "c": c, "off": off}
        for c, off in [([2024, 2, 29, 23, 59, 59], 0), ([2024, 2, 29, 23, 59, 59], None), ([2024, 3, 1, 0, 30, 0], 3600), ([1000, 1, 1, 0, 0, 0], -86340), ([9999, 12, 31, 23, 59, 59], 86340), ([9999, 12, 31, 23, 59, 59], -60), ([1, 1, 1, 0, 0, 0], 60), ([99, 6, 1, 0, 0, 0], 0), ([100, 6, 1, 0, 0, 0], 0), ([1900, 2, 28, 23, 59, 59], -1)]
    ] + [
        {"codec": "ifrange", "etag": opt(hs, e), "t": t}
        for e, t in [("abc", None), (None, 63839700306), (None, None), ("Thu, 01 Jan 2026 00:00:00 GMT", None), ("", None), ("W/x", None), ("a b", None), ("1 Jan 2026 00:00", None), ("Thu, 01 Jan 2026 00:00:00 +0000", None)]
    ]

    corpus = corpus + [
        {"codec": c, "h": hs(h)}
        for c in ("etags-text", "list-text")
        for h in ["", "a", '"a"', 'a"b', 'a"', '"a', '"a" x"', 'W/"a", b , "c"', "W/", "w/x", ",", " , a ,", '"a", "b"x, c', '""', "*", "*, a", 'a, *', '"a\\"', "a\xa0,\xa0b", 'W/"a"b', '"a",b"', '"a" ,b"']
    ]


    corpus = corpus + [
        {"codec": c, "h": hs(h)}
        for c, hh in [
            ("range-text", ["bytes=0-4", " BYTES= 0 - 4 ,7- ", "bytes=-5", "bytes=0-0,-1", "=0-1", "a=b=0-1", "bytes=5-3", "bytes=0-4,2-6", "bytes=", "bytes=0-,1-2", "İ=0-1", "x\xa0=\xa00-1\xa0", "bytes=-0", "bytes=--1", "ß=1-2"]),
            ("crange-text", ["bytes 0-4/10", "  items\t 3-7/* ", "bytes */5", "bytes */*", "b 5-3/9", "b 0-4/3", "a/b 1-2/3", "bytes 0-4", "b  0-0/1", "b -1-2/5", "b 0-4/-1", "b\xa00-1/2", "b 0 - 1/2"]),
            ("csp-text", ["default-src 'self'", " a  b ;; c\td e;x; a z ", "a b;a c", ";", "a", "a\xa0b c", " a \t b ", "a b; A c", "a  ", "a=b c;d"]),
            ("dict-text", ["a=b", "max-age=5, private=\"a, b\", no-store, x = \" y\"", "a**=b", 'a"b=c, d"', "a*=utf-8''%C3%A9", "=x", "a=, b", "a b=c", "a=b=c", 'k="\\"', "A=1, a=2", "a;b=c"]),
        ]
        for h in hh
    ] + [
        {"codec": "set-hist", "init": [hs(x) for x in init], "ops": ops}
        for init, ops in [
            (["GET"], [["s", 0, hs("get")]]), (["Cookie", "Accept"], [["s", 0, hs("cookie")], ["s", -1, hs("ACCEPT")]]), (["a", "b"], [["s", 0, hs("B")]]), (["a", "b"], [["s", 0, hs("B")], ["r", hs("b")]]),
            (["a", "A"], [["r", hs("a")]]), (["a", "A"], []), (["foo", "bar"], [["r", hs("Foo")]]), (["foo"], [["d", hs("x")], ["r", hs("x")], ["x", 5], ["s", 3, hs("y")]]),
            ([], [["a", hs("x y")], ["a", hs("X Y")], ["u", [hs("q"), hs("Q"), hs("")]], ["x", 0]]), (["a", "b", "c"], [["x", -1], ["c"], ["a", hs("C")]]), (["a"], [["s", 0, hs("A")], ["s", 0, hs("a")], ["a", hs("A")]]),
        ]
    ] + [
        {"codec": "cc-hist", "base": [[hs(k), opt(hs, v)] for k, v in base], "ops": ops}
        for base, ops in [
            # int() of the typed accessors: digits of any script, white space, underscores (thorough-tier find)
            ([("s-maxage", "\u0967")], [["i", hs("must-understand"), "~"]]), ([("max-age", " \u0661_\u0662\u3000")], []), ([("max-age", "\uff11\uff10")], [["t", "no_store", "true"]]),
            ([("max-age", "5\x1f")], []), ([("max-age", "\u00b2")], []), ([("max-age", "1__0")], []), ([("max-age", "+\u0967")], []), ([("max-age", "-\u0660")], []), ([("s-maxage", "\U0001d7ce\U0001d7cf")], []),
            ([], [["t", "max_age", "i5"], ["t", "no_store", "true"], ["x", "max_age"]]), ([("max-age", "5")], [["t", "max_age", "none"], ["t", "private", "s" + hs("a")]]),
            ([("no-cache", None)], [["t", "no_cache", "false"], ["t", "no_cache", "true"], ["i", hs("x-ext"), hs("a b")], ["p", hs("x-ext")]]), ([("a", "b")], [["c"], ["t", "public", "true"]]),
            ([], [["t", "max_age", "true"], ["t", "s_maxage", "i-3"], ["t", "must_revalidate", "true"], ["t", "must_revalidate", "false"]]), ([], [["i", hs("a,b"), hs("x")]]),
        ]
    ] + [
        {"codec": "csp-hist", "base": [[hs(k), hs(v)] for k, v in base], "ops": ops}
        for base, ops in [
            ([], [["s", hs("default-src"), hs("'self'")], ["s", hs("img-src"), hs("data: *")], ["s", hs("default-src"), "~"]]), ([("default-src", "'self'")], [["d", hs("default-src")], ["s", hs("x"), hs("y")]]),
            ([("a", "b")], [["c"], ["s", hs("script-src"), hs("'none'")]]), ([], [["s", hs("report-uri"), hs("/r;x")]]), ([], [["s", hs("script-src"), hs(" x")]]),
        ]
    ]

    def cases(self, rng, tier):
        tables = cc_tables()
        while True:
            codec = rng.choice(self.CODECS)
            yield self.gen(codec, rng, tables)

    def gen(self, codec, rng, tables):
        if codec == "quote":
            return {"codec": codec, "v": hs(rand_text(rng)), "allow": rng.random() < 0.7}
        if codec in ("list", "set"):
            return {"codec": codec, "items": [hs(rand_text(rng, 5)) for _ in range(rng.randrange(0, 5))]}
        if codec == "dict":
            d = {}
            for _ in range(rng.randrange(0, 5)):
                k = rand_token(rng, star=rng.random() < 0.1) if rng.random() < 0.9 else rand_text(rng, 3)
                d[k] = None if rng.random() < 0.25 else rand_text(rng, 5)
            return {"codec": codec, "d": [[hs(k), opt(hs, v)] for k, v in d.items()]}
        if codec == "options":
            h = rng.choice(["text/html", "form-data", "a", "x/y+z", "attachment"]) if rng.random() < 0.8 else rand_text(rng, 4)
            d = {}
            for _ in range(rng.randrange(0, 4)):
                k = rand_token(rng, lower=rng.random() < 0.9, star=rng.random() < 0.1) if rng.random() < 0.9 else rand_text(rng, 3)
                d[k] = rand_text(rng, 5) if rng.random() < 0.95 else None
                if d[k] is not None and rng.random() < 0.2:
                    # a value that itself looks like further parameters / list items
                    other = rng.choice(list(d)) if rng.random() < 0.5 else rand_token(rng, lower=True)
                    d[k] += rng.choice(["; ", ";", " ; ", ", ", '"; ']) + other + "=" + rng.choice([rand_token(rng), '"' + rand_text(rng, 3).replace('"', "") + '"', ""])
            return {"codec": codec, "h": hs(h), "d": [[hs(k), opt(hs, v)] for k, v in d.items()]}
        if codec == "etag":
            return {"codec": codec, "e": hs(rand_text(rng, 5)), "weak": rng.random() < 0.5}
        if codec == "etags":
            mk = lambda: [hs(rand_text(rng, 4).replace('"', "") or "e") for _ in range(rng.randrange(0, 4))]  # noqa: E731
            strong, weak = mk(), mk()
            if rng.random() < 0.1:
                strong.append(hs(rand_text(rng, 4)))  # may contain a quote or be empty: outside the domain
            return {"codec": codec, "strong": strong, "weak": weak, "star": rng.random() < 0.05}
        if codec == "range":
            rs, pos = [], 0
            n = rng.randrange(1, 4)
            for i in range(n):
                r = rng.random()
                if r < 0.12 and i == n - 1:
                    rs.append([-rng.randrange(1, 1000), None])
                elif r < 0.24 and i == n - 1:
                    rs.append([pos + rng.randrange(0, 50), None])
                else:
                    a = pos + rng.randrange(0, 50)
                    b = a + rng.randrange(1, 100)
                    if rng.random() < 0.08:
                        a, b = rng.randrange(-5, 60), rng.randrange(-5, 60)  # may be invalid / overlapping
                    rs.append([a, b])
                    pos = max(pos, b)
            units = rng.choice(["bytes", "bytes", "bytes", "items", "x-unit"]) if rng.random() < 0.9 else rand_text(rng, 3)
            return {"codec": codec, "units": hs(units), "ranges": rs}
        if codec == "crange":
            units = rng.choice(["bytes", "bytes", "items"]) if rng.random() < 0.9 else rand_text(rng, 3)
            if rng.random() < 0.2:
                s = e = None
            else:
                s = rng.randrange(0, 1000)
                e = s + rng.randrange(1, 1000) if rng.random() < 0.95 else s - rng.randrange(0, 3)
            ln = None if rng.random() < 0.3 else rng.randrange(0, 2500)
            return {"codec": codec, "units": hs(units), "start": s, "stop": e, "length": ln}
        if codec == "age":
            return {"codec": codec, "n": rng.choice([rng.randrange(0, 100), rng.randrange(0, 10**7), rng.randrange(0, 10**15)])}
        if codec == "cc":
            cname = rng.choice(["request", "response"])
            attr, key, empty, ty = rng.choice(tables[cname])
            if ty is bool:
                val = rng.random() < 0.6
            elif ty is int:
                val = rng.choice([None, rng.randrange(0, 10**6), rng.randrange(-50, 50), True if empty is True else 0])
            else:
                val = rng.choice([None, True, rand_text(rng, 5)])
            base = {}
            for _ in range(rng.randrange(0, 3)):
                _, k2, _, _ = rng.choice(tables[cname])
                base[k2] = rng.choice([None, str(rng.randrange(0, 100)), rand_text(rng, 3)])
            if rng.random() < 0.3:
                base[rand_token(rng)] = rand_text(rng, 4)
            enc = val if not isinstance(val, str) else "s:" + hs(val)
            return {"codec": codec, "cls": cname, "attr": attr, "val": enc, "base": [[hs(k), opt(hs, v)] for k, v in base.items()]}
        if codec == "csp":
            d = {}
            for _ in range(rng.randrange(0, 4)):
                k = rng.choice(["default-src", "script-src", "img-src", "report-uri", "x"]) if rng.random() < 0.85 else rand_text(rng, 3)
                v = " ".join(rng.choice(["'self'", "https://x.example", "data:", "*", "'none'"]) for _ in range(rng.randrange(1, 3))) if rng.random() < 0.85 else rand_text(rng, 4)
                d[k] = v
            return {"codec": codec, "d": [[hs(k), hs(v)] for k, v in d.items()]}
        if codec in ("auth", "www"):
            r = rng.random()
            if r < 0.35 and codec == "auth":
                return {"codec": codec, "type": hs("basic"), "params": [[hs("username"), hs(rand_text(rng, 5))], [hs("password"), hs(rand_text(rng, 5))]], "token": None}
            scheme = rng.choice(["bearer", "digest", "negotiate", "x-a1", "token"]) if rng.random() < 0.9 else rand_text(rng, 3)
            if r < 0.6:
                tok = "".join(rng.choice("abcXYZ019+/._-~") for _ in range(rng.randrange(0, 8))) + rng.choice(["", "", "=", "=="])
                if rng.random() < 0.1:
                    tok = rand_text(rng, 4)
                return {"codec": codec, "type": hs(scheme), "params": [], "token": hs(tok)}
            d = {}
            for _ in range(rng.randrange(0, 4)):
                k = rng.choice(["realm", "nonce", "qop", "opaque", "algorithm", "stale", "uri"]) if rng.random() < 0.8 else rand_token(rng, star=rng.random() < 0.1)
                d[k] = rand_text(rng, 5) if rng.random() < 0.92 else None
            return {"codec": codec, "type": hs(scheme), "params": [[hs(k), opt(hs, v)] for k, v in d.items()], "token": None}
        if codec == "date":
            lo, hi = to_seconds(datetime(1000, 1, 1, tzinfo=timezone.utc)), to_seconds(datetime(9999, 12, 31, 23, 59, 59, tzinfo=timezone.utc))
            r = rng.random()
            if r < 0.8:
                t = rng.randrange(lo, hi + 1)
            elif r < 0.9:
                y = rng.randrange(1000, 10000)
                t = to_seconds(datetime(y, rng.choice([1, 2, 3, 12]), 1, tzinfo=timezone.utc)) - rng.randrange(0, 3)
            else:
                t = rng.randrange(0, lo)
            return {"codec": codec, "t": t}
        if codec == "dateaware":
            y = rng.randrange(1000, 10000)
            mo = rng.randrange(1, 13)
            d = rng.randrange(1, 29) if rng.random() < 0.7 else rng.choice([28, 29, 30, 31])
            try:
                datetime(y, mo, d)
            except ValueError:
                d = 28
            off = rng.choice([None, 0, rng.randrange(-86399, 86400), 60 * rng.randrange(-1439, 1440), 3600 * rng.randrange(-14, 15)])
            return {"codec": codec, "c": [y, mo, d, rng.randrange(0, 24), rng.randrange(0, 60), rng.randrange(0, 60)], "off": off}
        if codec in ("etags-text", "list-text"):
            toks = ['"', '"', ",", ", ", " ", "W/", "w/", "a", "b", "*", "\\", '\\"', "x y", "\xa0", "\u00e9", ";", "="]
            return {"codec": codec, "h": hs("".join(rng.choice(toks) for _ in range(rng.randrange(0, 9))))}
        if codec in ("range-text", "crange-text", "csp-text", "dict-text"):
            toks = {"range-text": ["bytes", "=", "-", ",", " ", "0", "1", "5", "10", "-", "=", "B", "x", "\xa0", "+", "_"],
                    "crange-text": ["bytes", " ", "/", "-", "*", "0", "1", "5", "10", "\t", "b", "\xa0", "-", "/"],
                    "csp-text": ["default-src", " ", ";", "'self'", "a", "b", "\t", " ", ";", "\xa0", "A", "data:", "=", ","],
                    "dict-text": ["a", "b", "=", ",", " ", '"', "*", "\\", "max-age", "5", "k", "=", ",", "utf-8''", "%C3%A9", ";", "A"]}[codec]
            return {"codec": codec, "h": hs("".join(rng.choice(toks) for _ in range(rng.randrange(0, 10))))}
        if codec == "set-hist":
            return gen_set_hist(rng)
        if codec == "cc-hist":
            return gen_cc_hist(rng, tables["response"])
        if codec == "csp-hist":
            return gen_csp_hist(rng, csp_keys())
        if codec == "ifrange":
            if rng.random() < 0.5:
                return {"codec": codec, "etag": hs(rand_text(rng, 5).replace('"', "")), "t": None}
            return {"codec": codec, "etag": None, "t": rng.randrange(to_seconds(datetime(1000, 1, 1, tzinfo=timezone.utc)), to_seconds(datetime(9999, 12, 31, tzinfo=timezone.utc)))}
        raise AssertionError(codec)

    # ---- real code: returns (wire, parsed canonical, parsed object, second-pass canonical) ----

    def run_real(self, case):
        import werkzeug.http as http
        from werkzeug import datastructures as ds
        from werkzeug.datastructures.cache_control import _CacheControl

        codec = case["codec"]
        if codec == "quote":
            v = unhs(case["v"])
            w = http.quote_header_value(v, allow_token=case["allow"])
            p = http.unquote_header_value(w)
            return w, hs(p), p, hs(http.unquote_header_value(http.quote_header_value(p, allow_token=case["allow"])))
        if codec == "list":
            items = [unhs(x) for x in case["items"]]
            w = http.dump_header(items)
            p = http.parse_list_header(w)
            return w, c_list(p), p, c_list(http.parse_list_header(http.dump_header(p)))
        if codec == "set":
            items = [unhs(x) for x in case["items"]]
            w = ds.HeaderSet(items).to_header()
            p = http.parse_set_header(w)
            p2 = http.parse_set_header(p.to_header())
            return w, c_list(list(p)), p, c_list(list(p2))
        if codec == "dict":
            d = {unhs(k): (None if v == "~" else unhs(v)) for k, v in case["d"]}
            w = http.dump_header(d)
            p = exc(lambda: http.parse_dict_header(w))
            if isinstance(p, str):
                return w, p, None, p
            return w, c_pairs_opt(p.items()), p, c_pairs_opt(http.parse_dict_header(http.dump_header(p)).items())
        if codec == "options":
            h = None if case["h"] == "~" else unhs(case["h"])
            d = {unhs(k): (None if v == "~" else unhs(v)) for k, v in case["d"]}
            w = http.dump_options_header(h, d)
            p = exc(lambda: http.parse_options_header(w))
            if isinstance(p, str):
                return w, p, None, p
            c = lambda r: hs(r[0]) + "|" + out_list(hs(k) + ":" + hs(v) for k, v in r[1].items())  # noqa: E731
            p2 = exc(lambda: c(http.parse_options_header(http.dump_options_header(p[0], p[1]))))
            return w, c(p), p, p2
        if codec == "etag":
            e = unhs(case["e"])
            w = http.quote_etag(e, case["weak"])
            p = http.unquote_etag(w)
            cp = "~" if p[0] is None else hs(p[0]) + "|" + b01(p[1])
            return w, cp, p, cp
        if codec == "etags":
            et = self.mk_etags(case)
            w = et.to_header()
            p = http.parse_etags(w)
            p2 = http.parse_etags(p.to_header())
            return w, self.c_etags_obj(p), p, self.c_etags_obj(p2)
        if codec == "range":
            r = ds.Range(unhs(case["units"]), [(b, e) for b, e in case["ranges"]])
            w = r.to_header()
            p = http.parse_range_header(w)
            p2 = None if p is None else http.parse_range_header(p.to_header())
            return w, c_range(p), p, c_range(p2)
        if codec == "crange":
            u = None if case["units"] == "~" else unhs(case["units"])
            cr = ds.ContentRange(u, case["start"], case["stop"], case["length"])
            w = cr.to_header()
            p = http.parse_content_range_header(w)
            p2 = None if p is None else http.parse_content_range_header(p.to_header())
            return w, c_crange(p), p, c_crange(p2)
        if codec == "age":
            w = http.dump_age(case["n"])
            p = http.parse_age(w)
            cp = "~" if p is None else str(p.days * 86400 + p.seconds)
            p2 = None if p is None else http.parse_age(http.dump_age(p))
            return w, cp, p, "~" if p2 is None else str(p2.days * 86400 + p2.seconds)
        if codec == "cc":
            cls = ds.RequestCacheControl if case["cls"] == "request" else ds.ResponseCacheControl
            attr, key, empty, ty = next(r for r in cc_tables()[case["cls"]] if r[0] == case["attr"])
            val = case["val"]
            if isinstance(val, str):
                val = unhs(val[2:])
            base = {unhs(k): (None if v == "~" else unhs(v)) for k, v in case["base"]}
            obj = _CacheControl(base)
            obj._set_cache_value(key, val, ty)  # the setter behind every typed property
            w = obj.to_header()
            p = http.parse_cache_control_header(w, cls=cls)
            g = getattr(p, attr)
            p2 = http.parse_cache_control_header(p.to_header(), cls=cls)
            return w, c_pairs_opt(p.items()) + "|" + c_ccval(g), (p, g), c_pairs_opt(p2.items()) + "|" + c_ccval(getattr(p2, attr))
        if codec == "csp":
            d = {unhs(k): unhs(v) for k, v in case["d"]}
            w = ds.ContentSecurityPolicy(d).to_header()
            p = http.parse_csp_header(w)
            c = lambda x: out_list(hs(k) + ":" + hs(v) for k, v in x.items())  # noqa: E731
            return w, c(p), p, c(http.parse_csp_header(p.to_header()))
        if codec in ("auth", "www"):
            cls = ds.Authorization if codec == "auth" else ds.WWWAuthenticate
            ps = {unhs(k): (None if v == "~" else unhs(v)) for k, v in case["params"]}
            tok = dec_opt(case["token"])
            a = cls(unhs(case["type"]), ps, tok)
            w = a.to_header()
            p = exc(lambda: cls.from_header(w))
            if isinstance(p, str):
                return w, p, None, p
            p2 = None if p is None else exc(lambda: c_auth(cls.from_header(p.to_header())))
            return w, c_auth(p), p, c_auth(None) if p is None else p2
        if codec == "date":
            dt = EPOCH + timedelta(seconds=case["t"])
            w = http.http_date(dt)
            p = http.parse_date(w)
            cp = "~" if p is None else str(to_seconds(p))
            p2 = None if p is None else http.parse_date(http.http_date(p))
            return w, cp, p, "~" if p2 is None else str(to_seconds(p2))
        if codec == "dateaware":
            dt = self.mk_dt(case)
            w = http.http_date(dt)
            p = http.parse_date(w)
            cp = "~" if p is None else str(to_seconds(p))
            return w, cp, p, cp
        if codec == "etags-text":
            p = http.parse_etags(unhs(case["h"]))
            p2 = http.parse_etags(p.to_header())
            return unhs(case["h"]), self.c_etags_obj(p) + "#" + self.c_etags_obj(p2), p, self.c_etags_obj(p2)
        if codec == "range-text":
            p = http.parse_range_header(unhs(case["h"]))
            p2 = "~" if p is None else exc(lambda: c_range(http.parse_range_header(p.to_header())))
            return unhs(case["h"]), c_range(p) + "#" + p2, p, p2
        if codec == "crange-text":
            p = http.parse_content_range_header(unhs(case["h"]))
            p2 = "~" if p is None else exc(lambda: c_crange(http.parse_content_range_header(p.to_header())))
            return unhs(case["h"]), c_crange(p) + "#" + p2, p, p2
        if codec == "csp-text":
            c = lambda x: out_list(hs(k) + ":" + hs(v) for k, v in x.items())  # noqa: E731
            p = http.parse_csp_header(unhs(case["h"]))
            p2 = c(http.parse_csp_header(p.to_header()))
            return unhs(case["h"]), c(p) + "#" + p2, p, p2
        if codec == "dict-text":
            p = http.parse_dict_header(unhs(case["h"]))
            p2 = exc(lambda: c_pairs_opt(http.parse_dict_header(http.dump_header(p)).items()))
            return unhs(case["h"]), c_pairs_opt(p.items()) + "#" + p2, p, p2
        if codec == "list-text":
            p = http.parse_list_header(unhs(case["h"]))
            p2 = http.parse_list_header(http.dump_header(p))
            return unhs(case["h"]), c_list(p) + "#" + c_list(p2), p, c_list(p2)
        if codec == "set-hist":
            h, log = run_set_hist(case)
            w = h.to_header()
            p = http.parse_set_header(w)
            pre = out_list(log) + "|" + c_hs(h) + "|" + hs(w) + "|"
            return w, pre + c_hs(p), (h, p), pre + c_hs(http.parse_set_header(p.to_header()))
        if codec == "cc-hist":
            obj = run_cc_hist(case)
            w = obj.to_header()
            p = http.parse_cache_control_header(w, cls=ds.ResponseCacheControl)
            typed = lambda o: out_list(c_ccval2(getattr(o, r[0])) for r in cc_tables()["response"])  # noqa: E731
            p2 = http.parse_cache_control_header(p.to_header(), cls=ds.ResponseCacheControl)
            return w, c_pairs_opt(p.items()) + "|" + typed(p), (obj, p), c_pairs_opt(p2.items()) + "|" + typed(p2)
        if codec == "csp-hist":
            obj = run_csp_hist(case, csp_keys())
            w = obj.to_header()
            p = http.parse_csp_header(w)
            c = lambda x: out_list(hs(k) + ":" + hs(v) for k, v in x.items())  # noqa: E731
            return w, c(p), (obj, p), c(http.parse_csp_header(p.to_header()))
        if codec == "ifrange":
            ir = self.mk_ifrange(case)
            w = ir.to_header()
            p = http.parse_if_range_header(w)
            c = lambda x: opt(hs, x.etag) + "|" + ("~" if x.date is None else str(to_seconds(x.date)))  # noqa: E731
            return w, c(p), p, c(http.parse_if_range_header(p.to_header()))
        raise AssertionError(codec)

    @staticmethod
    def mk_dt(case):
        y, mo, d, hh, mi, ss = case["c"]
        off = case["off"]
        tz = None if off is None else timezone(timedelta(seconds=off))
        return datetime(y, mo, d, hh, mi, ss, tzinfo=tz)

    @staticmethod
    def mk_ifrange(case):
        from werkzeug.datastructures import IfRange

        e = None if case["etag"] in (None, "~") else unhs(case["etag"])
        dt = None if case["t"] is None else EPOCH + timedelta(seconds=case["t"])
        return IfRange(e, dt)

    @staticmethod
    def mk_etags(case):
        from werkzeug.datastructures import ETags

        return ETags([unhs(x) for x in case["strong"]], [unhs(x) for x in case["weak"]], case["star"])

    @staticmethod
    def c_etags_obj(et):
        # sets: canonical = sorted
        return c_etags(sorted(et._strong, key=lambda x: (x is None, x)), sorted(et._weak, key=lambda x: (x is None, x)), et.star_tag)

    #: after the first hang nothing else is evaluated (remaining cases are marked skipped and ignored
    #: by oracle and model comparison): a non-terminating change must not turn the check into a hang,
    #: and the hanging value is the replay
    def real(self, case):
        state = self.__dict__.setdefault("_hang_state", {"hung": False, "skipped": set()})
        if state["hung"]:
            state["skipped"].add(json.dumps(case, sort_keys=True))
            return "SKIPPED:after-hang"
        try:
            w, cp, _, _ = timed(lambda: self.run_real(case))
        except Timeout:
            state["hung"] = True
            return "EXC:Timeout"
        if case["codec"] == "set-hist":
            return cp
        return hs(w) + "|" + cp

    # ---- model ----

    def model_line(self, case):
        st = self.__dict__.get("_hang_state")
        if st and json.dumps(case, sort_keys=True) in st["skipped"]:
            return None
        codec = case["codec"]
        if codec == "quote":
            return line("pair.quote", case["v"], b01(case["allow"]))
        if codec == "set" and any(ord(c) > 0xFF and c.lower() != c.upper() for x in case["items"] for c in unhs(x)):
            return None  # str.lower() above U+00FF is outside the model (case-insensitive de-duplication)
        if codec in ("list", "set"):
            return line("pair." + codec, out_list(case["items"]))
        if codec == "dict":
            return line("pair.dict", out_list(k + ":" + v for k, v in case["d"]))
        if codec == "options":
            return line("pair.options", case["h"], out_list(k + ":" + v for k, v in case["d"]))
        if codec == "etag":
            return line("pair.etag", case["e"], b01(case["weak"]))
        if codec == "etags":
            et = self.mk_etags(case)  # the header lists the two frozensets in their iteration order
            return line("pair.etags", out_list(hs(x) for x in et._strong), out_list(hs(x) for x in et._weak), b01(case["star"]))
        if codec == "range" and any(ord(c) > 0xFF for c in unhs(case["units"])):
            return None  # str.lower() above U+00FF is outside the model
        if codec == "range":
            return line("pair.range", case["units"], out_list(f"{b}:{opt(str, e)}" for b, e in case["ranges"]))
        if codec == "crange":
            return line("pair.crange", case["units"], opt(str, case["start"]), opt(str, case["stop"]), opt(str, case["length"]))
        if codec == "age":
            return line("pair.age", case["n"])
        if codec == "cc":
            attr, key, empty, ty = next(r for r in cc_tables()[case["cls"]] if r[0] == case["attr"])
            val = case["val"]
            v = val if isinstance(val, str) else c_ccval(val)
            tyn = "none" if ty is None else ty.__name__
            return line("pair.cc", out_list(k + ":" + v2 for k, v2 in case["base"]), hs(key), c_ccval(empty), tyn, v)
        if codec == "csp":
            return line("pair.csp", out_list(k + ":" + v for k, v in case["d"]))
        if codec in ("auth", "www"):
            ty = case["type"]
            if any(ord(c) > 0xFF for c in unhs(ty) + unhs(ty).title() + unhs(ty).lower().title()):
                return None  # str.lower()/title() above U+00FF are outside the model (e.g. U+00FF titles to U+0178)
            if codec == "www":
                ty = hs(unhs(ty).lower())  # WWWAuthenticate.__init__ lower-cases the type
                if unhs(ty) != unhs(case["type"]).lower() or any(ord(c) > 0xFF for c in unhs(case["type"])):
                    return None
            return line("pair." + codec, ty, out_list(k + ":" + v for k, v in case["params"]), opt(hs, dec_opt(case["token"])))
        if codec == "set-hist":
            if any(ord(c) > 0x7F and c.lower() != c.upper() for x in case["init"] + [a for op in case["ops"] for a in (op[1] if op[0] == "u" else op[1:]) if isinstance(a, str)] for c in unhs(x)):
                return None  # the model's str.lower is ASCII case folding
            return line("hist.set", out_list(case["init"]), out_list(hs_op_line(op) for op in case["ops"]))
        if codec == "cc-hist":
            table = {r[0]: r for r in cc_tables()["response"]}
            ops = []
            for op in case["ops"]:
                if op[0] == "t":
                    _, key, _, ty = table[op[1]]
                    ops.append(":".join(["t", hs(key), "none" if ty is None else ty.__name__, op[2]]))
                elif op[0] == "x":
                    ops.append("x:" + hs(table[op[1]][1]))
                else:
                    ops.append(":".join(op))
            qs = [":".join([hs(key), c_ccval2(empty), "none" if ty is None else ty.__name__]) for _, key, empty, ty in cc_tables()["response"]]
            return line("hist.cc", out_list(k + ":" + v for k, v in case["base"]), out_list(ops), out_list(qs))
        if codec == "csp-hist":
            return line("hist.csp", out_list(k + ":" + v for k, v in case["base"]), out_list(":".join(op) for op in case["ops"]))
        if codec in ("range-text", "crange-text", "csp-text", "dict-text"):
            if codec == "range-text" and any(ord(c) > 0xFF for c in unhs(case["h"])):
                return None  # str.lower() above U+00FF is outside the model
            return line("nf." + codec[:-5], case["h"])
        if codec == "etags-text":
            return line("nf.etags", case["h"])
        if codec == "list-text":
            return line("nf.list", case["h"])
        if codec == "date":
            return line("pair.date", case["t"])
        if codec == "dateaware":
            return line("pair.dateaware", *case["c"], 0 if case["off"] is None else case["off"])
        return None  # ifrange: oracle only (parse_date on arbitrary text is Python's)

    def canon_model(self, case, out):
        if case["codec"] == "set-hist" and out.count("|") == 7:
            f = out.split("|")
            srt = lambda x: x if x == "[]" else c_list(sorted(unhs(y) for y in x.split(",")))  # noqa: E731
            f[2], f[6] = srt(f[2]), srt(f[6])
            return "|".join(f)
        if case["codec"] in ("list-text", "range-text", "crange-text", "csp-text", "dict-text"):
            return case["h"] + "|" + out
        if case["codec"] == "etags-text":
            def srt(p):
                parts = dict(x.split("=", 1) for x in p.split(";"))
                dec = lambda s: [] if s == "[]" else [None if x == "~" else unhs(x) for x in s.split(",")]  # noqa: E731
                key = lambda x: (x is None, x)  # noqa: E731
                if parts["*"] == "1":
                    return c_etags([], [], True)
                return c_etags(sorted(set(dec(parts["S"])), key=key), sorted(set(dec(parts["W"])), key=key), False)

            a, _, b = out.partition("#")
            return case["h"] + "|" + srt(a) + "#" + srt(b)
        if case["codec"] == "etags" and "|" in out:
            w, _, p = out.partition("|")
            try:
                parts = dict(x.split("=", 1) for x in p.split(";"))
                dec = lambda s: [] if s == "[]" else [None if x == "~" else unhs(x) for x in s.split(",")]  # noqa: E731
                key = lambda x: (x is None, x)  # noqa: E731
                if parts["*"] == "1":
                    return w + "|" + c_etags([], [], True)
                return w + "|" + c_etags(sorted(set(dec(parts["S"])), key=key), sorted(set(dec(parts["W"])), key=key), False)
            except Exception:  # noqa: BLE001
                return out
        return out

    # ---- the property ----

    def in_domain(self, case):
        codec = case["codec"]
        if codec == "quote":
            return no_crlf(unhs(case["v"]))
        if codec in ("list", "set"):
            return all(no_crlf(unhs(x)) for x in case["items"])
        if codec == "dict":
            return all(is_token(unhs(k)) and "*" not in unhs(k) and (v == "~" or no_crlf(unhs(v))) for k, v in case["d"])
        if codec == "options":
            if case["h"] == "~":
                return False
            h = unhs(case["h"])
            if not h or ";" in h or h != h.strip() or not no_crlf(h):
                return False
            for k, v in case["d"]:
                k = unhs(k)
                if not is_token(k) or "*" in k or k != k.lower() or v == "~":
                    return False
                if "%22" in unhs(v) or not no_crlf(unhs(v)):
                    return False
            return True
        if codec == "etag":
            return '"' not in unhs(case["e"]) and no_crlf(unhs(case["e"]))
        if codec == "etags":
            return not case["star"] and all(unhs(x) and '"' not in unhs(x) and no_crlf(unhs(x)) for x in case["strong"] + case["weak"])
        if codec == "range":
            u = unhs(case["units"])
            if not u or "=" in u or u != u.strip().lower() or not case["ranges"]:
                return False
            last = 0
            for b, e in case["ranges"]:
                if last < 0:
                    return False
                if e is None:
                    # open-ended `b-` must not start before the previous range ended; suffix `-n` may
                    if b >= 0 and b < last:
                        return False
                    last = -1
                    continue
                if not (0 <= b < e) or b < last:
                    return False
                last = e
            return True
        if codec == "crange":
            from werkzeug.http import is_byte_range_valid

            if case["units"] == "~":
                return False
            u = unhs(case["units"])
            return bool(u) and not any(c.isspace() for c in u) and is_byte_range_valid(case["start"], case["stop"], case["length"])
        if codec == "age":
            return 0 <= case["n"] <= 86399999999999
        if codec == "cc":
            return all(is_token(unhs(k)) and "*" not in unhs(k) and (v == "~" or no_crlf(unhs(v))) for k, v in case["base"]) and (not isinstance(case["val"], str) or no_crlf(unhs(case["val"][2:])))
        if codec == "csp":
            for k, v in case["d"]:
                k, v = unhs(k), unhs(v)
                if not k or " " in k or ";" in k or k != k.strip() or not v or v != v.strip() or ";" in v or not no_crlf(k + v):
                    return False
            return True
        if codec in ("auth", "www"):
            t = unhs(case["type"])
            if not t or not all(c in "abcdefghijklmnopqrstuvwxyz0123456789-" for c in t):
                return False
            if t == "basic" and codec == "auth":
                ps = dict((unhs(k), v) for k, v in case["params"])
                if set(ps) != {"username", "password"} or "~" in ps.values() or dec_opt(case["token"]) is not None:
                    return False
                return ":" not in unhs(ps["username"])
            if dec_opt(case["token"]) is not None:
                tok = dec_opt(case["token"])
                return not case["params"] and "=" not in tok.rstrip("=") and tok == tok.strip() and no_crlf(tok)
            if not case["params"]:
                return False
            return all(is_token(unhs(k)) and "*" not in unhs(k) and v != "~" and no_crlf(unhs(v)) for k, v in case["params"])
        if codec == "date":
            return to_seconds(datetime(1000, 1, 1, tzinfo=timezone.utc)) <= case["t"] <= to_seconds(datetime(9999, 12, 31, 23, 59, 59, tzinfo=timezone.utc))
        if codec == "dateaware":
            try:
                u = self.mk_dt(case)
                u = u.replace(tzinfo=timezone.utc) if u.tzinfo is None else u.astimezone(timezone.utc)
            except (OverflowError, ValueError):
                return False
            return 1000 <= u.year <= 9999
        if codec == "set-hist":
            texts = [unhs(x) for x in case["init"]] + [unhs(a) for op in case["ops"] for a in (op[1] if op[0] == "u" else op[1:]) if isinstance(a, str)]
            return all(no_crlf(x) for x in texts) and ref_set_hist([unhs(x) for x in case["init"]], case["ops"])[1]
        if codec == "cc-hist":
            ok = lambda k, v: is_token(unhs(k)) and "*" not in unhs(k) and (v == "~" or no_crlf(unhs(v)))  # noqa: E731
            if not all(ok(k, v) for k, v in case["base"]):
                return False
            table = {r[0]: r for r in cc_tables()["response"]}
            for op in case["ops"]:
                if op[0] == "i" and not ok(op[1], op[2]):
                    return False
                if op[0] == "t":
                    v, ty = dec_ccval2(op[2]), table[op[1]][3]
                    if isinstance(v, str) and (ty is not None or not no_crlf(v)):
                        return False
                    if isinstance(v, int) and not isinstance(v, bool) and ty is not int:
                        return False
                    if ty is bool and not isinstance(v, bool):
                        return False
            return True
        if codec == "csp-hist":
            def ok(k, v):
                return bool(k) and " " not in k and ";" not in k and k == k.strip() and bool(v) and v == v.strip() and ";" not in v and no_crlf(k + v)
            return all(ok(unhs(k), unhs(v)) for k, v in case["base"]) and all(op[0] != "s" or op[2] == "~" or ok(unhs(op[1]), unhs(op[2])) for op in case["ops"])
        if codec in ("etags-text", "list-text", "range-text", "crange-text", "csp-text", "dict-text"):
            return False  # correspondence only (arbitrary text is outside the property's quantifier)
        if codec == "ifrange":
            if case["etag"] not in (None, "~"):
                e = unhs(case["etag"])
                return '"' not in e and no_crlf(e)
            return True
        return False

    def oracle(self, case, real_out):
        if real_out.startswith("SKIPPED:"):
            return None
        if real_out in ("EXC:Timeout", "EXC:HangTimeout"):
            # "serialising and then parsing returns the value": it has to return
            return f"{case['codec']}: parse(dump(v)) does not return (no answer within {TIME_LIMIT_S}s)" if self.in_domain(case) or case["codec"].endswith("-text") else None
        if not self.in_domain(case):
            return None
        codec = case["codec"]
        try:
            w, cp, p, cp2 = self.run_real(case)
        except Exception as e:  # noqa: BLE001
            return f"{codec}: dump/parse raised {type(e).__name__} on a value of the domain"
        if cp.startswith("EXC"):
            return f"{codec}: parse raised {cp}"
        bad = self.compare(case, p)
        if bad:
            return f"{codec}: parse(dump(v)) != v: {bad}"
        if cp2 != cp:
            return f"{codec}: parse(dump(parse(h))) != parse(h)"
        return None

    def compare(self, case, p):
        codec = case["codec"]
        if codec == "quote":
            return None if p == unhs(case["v"]) else repr(p)
        if codec == "list":
            return None if p == [unhs(x) for x in case["items"]] else repr(p)
        if codec == "set":
            from werkzeug.datastructures import HeaderSet

            hs0 = HeaderSet([unhs(x) for x in case["items"]])  # the value: a header given in two spellings is kept once
            same = list(p) == list(hs0) and p.as_set() == hs0.as_set() and len(p) == len(hs0) and p.as_set(True) == hs0.as_set(True)
            return None if same else repr(p)
        if codec == "dict":
            exp = [(unhs(k), None if v == "~" else unhs(v)) for k, v in case["d"]]
            return None if list(p.items()) == exp else repr(p)
        if codec == "options":
            exp = (unhs(case["h"]), {unhs(k): unhs(v) for k, v in case["d"]})
            return None if (p[0], p[1]) == exp and list(p[1]) == list(exp[1]) else repr(p)
        if codec == "etag":
            return None if p == (unhs(case["e"]), case["weak"]) else repr(p)
        if codec == "etags":
            et = self.mk_etags(case)
            return None if (p._strong, p._weak, p.star_tag) == (et._strong, et._weak, et.star_tag) else repr(p)
        if codec == "range":
            exp = (unhs(case["units"]), [(b, e) for b, e in case["ranges"]])
            return None if p is not None and (p.units, list(p.ranges)) == exp else repr(p)
        if codec == "crange":
            exp = (unhs(case["units"]), case["start"], case["stop"], case["length"])
            return None if p is not None and (p.units, p.start, p.stop, p.length) == exp else repr(p)
        if codec == "age":
            return None if p == timedelta(seconds=case["n"]) else repr(p)
        if codec == "cc":
            pd, g = p
            val = case["val"]
            if isinstance(val, str):
                val = unhs(val[2:])
            attr, key, empty, ty = next(r for r in cc_tables()[case["cls"]] if r[0] == case["attr"])
            # what the typed property documents for a value set through it
            if ty is bool:
                exp = bool(val)
            elif val is None or val is False:
                exp = None
            elif val is True:
                exp = empty
            else:
                exp = val
            base = {unhs(k): (None if v == "~" else unhs(v)) for k, v in case["base"] if unhs(k) != key}
            others = {k: v for k, v in pd.items() if k != key}
            if g != exp or type(g) is not type(exp):
                return f"{attr}={g!r}, expected {exp!r}"
            return None if others == base else f"other directives changed: {others!r}"
        if codec == "csp":
            exp = [(unhs(k), unhs(v)) for k, v in case["d"]]
            return None if list(p.items()) == exp else repr(p)
        if codec in ("auth", "www"):
            ps = {unhs(k): (None if v == "~" else unhs(v)) for k, v in case["params"]}
            tok = dec_opt(case["token"])
            ok = p is not None and p.type == unhs(case["type"]) and dict(p.parameters) == ps and p.token == tok
            return None if ok else repr(p)
        if codec == "date":
            return None if p is not None and p.tzinfo is not None and to_seconds(p) == case["t"] else repr(p)
        if codec == "dateaware":
            dt = self.mk_dt(case)
            dt = dt.replace(tzinfo=timezone.utc) if dt.tzinfo is None else dt
            return None if p is not None and p == dt else repr(p)
        if codec == "ifrange":
            ir = self.mk_ifrange(case)
            return None if (p.etag, p.date) == (ir.etag, ir.date) else f"etag={p.etag!r} date={p.date!r}"
        if codec == "set-hist":
            h, q = p
            probes = set(h) | set(q) | {x.upper() for x in h} | {x.lower() for x in q}
            same = list(q) == list(h) and q.as_set() == h.as_set() and q.as_set(True) == h.as_set(True) and len(q) == len(h) and bool(q) == bool(h) and all((x in q) == (x in h) for x in probes)
            return None if same else f"HeaderSet after the history: items {list(h)!r} len {len(h)} as_set {sorted(h.as_set())!r}; parsed back: items {list(q)!r} len {len(q)} as_set {sorted(q.as_set())!r}"
        if codec == "cc-hist":
            obj, q = p
            if list(q.items()) != list(obj.items()):
                return f"directives {dict(q)!r}, object had {dict(obj)!r}"
            for attr, _, _, _ in cc_tables()["response"]:
                a, b = getattr(obj, attr), getattr(q, attr)
                if a != b or type(a) is not type(b):
                    return f"{attr}={b!r}, object had {a!r}"
            return None
        if codec == "csp-hist":
            obj, q = p
            if list(q.items()) != list(obj.items()):
                return f"policy {dict(q)!r}, object had {dict(obj)!r}"
            for key in csp_keys():
                if getattr(obj, key.replace("-", "_")) != getattr(q, key.replace("-", "_")):
                    return f"{key} differs"
            return None
        return None

    def finding_key(self, case, what):
        return None  # no known finding is left for C06 (F06a was repaired by 31f8ea0)

    def nontrivial(self, case, real_out):
        return not real_out.startswith("EXC") and self.in_domain(case)

    def bucket(self, case, real_out):
        tag = "EXC" if real_out.startswith("EXC") else ("in" if self.in_domain(case) else "out")
        return f"{case['codec']}:{tag}"

    def mutate(self, case, rng):
        tables = cc_tables()
        for _ in range(40):
            yield self.gen(case["codec"], rng, tables)


CHECK = Check(
    prop="C06",
    gen=["Http", "PyFns_Http", "PyFns_Internal", "PyFns_HttpDict", "PyFns_Etag", "PyFns_Range", "Containers", "PyFns_Headers", "PyFns_HeaderSet", "PyFns_HttpOptions"],
    modules=["WzVerif.Props.C06", "WzVerif.Props.C06T", "WzVerif.Props.C06T2"],
    streams=[CodecPairs(), PreludeKernels()],
    assumptions=[
        "round 3 (Props/C06T2): parse_options_header (the scanner loop with its nested quoted-string loop, translated with explicit fuel; the RFC 2231 charset / continuation pass) is regenerated from the source (Gen/PyFns_HttpOptions.lean) and proved equal to the hand model parseOptionsHeader for every text and fuel >= len(value), values and errors alike; the four regexes enter as C06's hand models (character classes isKeyCh / isTokValCh, charsetValue?, continuation?), urllib unquote as pctUnquote",
        "round 3 (Props/C06T2): parse_dict_header (regex _charset_value_re = hand model charsetValue?, urllib unquote for the four safe encodings = hand model pctUnquote), parse_cache_control_header, parse_csp_header and dump_csp_header are regenerated from the source and proved equal to the hand model for all inputs",
        "round 3: parse_list_header (urllib's parse_http_list enters as the hand model parseHttpList), dump_header (list and dict forms), dump_options_header, quote_etag, parse_set_header, parse_age (int() = hand model pyInt, timedelta as seconds), dump_age (int ages), parse_content_range_header and the ContentRange constructor are regenerated from the source as well (Gen/PyFns_Http.lean, Gen/PyFns_HttpDict.lean) and proved equal to the hand model for all inputs (Props/C06T); a Python dict is modelled as its item list in insertion order (Util/PyPrelude.lean dict* primitives, validated by stream prelude-kernels)",
        "quote_header_value (str values), unquote_header_value, is_byte_range_valid and Range.to_header are regenerated from the source by tools/py2lean.py (Gen/PyFns_Http.lean) on every run and proved equal to the hand model for all inputs (Props/C06T); the CPython primitives the translated code calls (str.replace, indexing, slicing) are modelled in Util/PyPrelude.lean and validated by stream prelude-kernels",
        "urllib.request.parse_http_list, urllib.parse.unquote, str.strip/lower/title, int(), base64 and the regexes werkzeug compiles are hand-modelled CPython primitives, validated by the stream (character classes and literal sets are regenerated from the live objects; regex sources are pinned)",
        "str.lower()/title() are exact for U+0000..U+00FF (generated tables) and identity above; theorems that involve them restrict units / schemes accordingly",
        "integers are unbounded in the model; CPython refuses int<->str conversions beyond 4300 digits (ValueError) - outside every theorem's practical reach and caught as ValueError by every parser",
        "http_date/parse_date: the civil-date arithmetic is the model's own (proved); email.utils' formatter/parser are Python's and are tied to it by the stream (date, dateaware codecs); parseDate models email.utils only on the IMF-fixdate layout",
        "ETags stores frozensets: the theorem is stated for every iteration order of the two sets",
        "HeaderSet mutation histories: the mutators update / add / remove / discard / __setitem__ are the definitions regenerated from structures.py (Gen/PyFns_HeaderSet, proved equal to C08's hand model in Props/C08T), clear / __delitem__ are C08's hand model; `headerSet_history_roundtrip` rests on C08's invariant theorem; str.lower() is ASCII case folding in that model (the stream uses ASCII-cased members); histories that create case-duplicates (known findings F08b / F08c of C08) are outside the domain and are compared model-vs-code only",
        "cache-control / CSP assignment histories are run on ResponseCacheControl / ContentSecurityPolicy through the typed properties (setattr / delattr) and dict operations; RequestCacheControl is immutable",
    ],
    trusted_extra=["CPython str / re / urllib / email.utils / base64 / datetime semantics for the modelled primitives (validated by the stream, not verified)"],
    quick_budget=10000,
    thorough_budget=120000,
)

MANIFEST = {
    "level_text": "Machine-checked Lean 4 theorems parse(dump v) = v for each header codec (for header sets, cache-control and CSP objects: for every object reachable by a mutation / assignment history; normal form on arbitrary header text for list, set, etag, Range, Content-Range and CSP headers) over an executable model whose character classes, literal sets and typed-property tables are regenerated from the live werkzeug objects on every run; the hand-written scanners (urllib list scanner, option scanner, etag regex, range/content-range parsers, base64, civil dates) are tied to the code by a differential dump->parse stream, and the round-trip + normal-form oracle runs on the real code.",
    "level_note": "Trusted: Lean kernel; extract.py; the correspondence harness; CPython str/re/urllib/email.utils/base64/datetime for modelled primitives. str.lower/title exact below U+0100 only.",
    "technique": "Lean 4 proof (induction over character lists, decide +kernel over regenerated class tables, omega for civil-date arithmetic) + model/code correspondence",
    "design_ref": "DESIGN.md section 4, C06",
}
