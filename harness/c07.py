"""C07 - no client-controlled header or query text can crash request parsing.

Stream
  hostile   latin-1 strings without control characters, assembled from the property's token alphabet,
            (a) through every listed parser of the HTTP utility layer and
            (b) through every public attribute of `Request` built from an environ whose
                client-controlled variables are such strings (server-controlled ones well-formed).
            Where the parser is modelled (Model/Http.lean, exception-aware) the *parsed value* is
            compared with the model (stronger than the outcome class); everything else is oracle-only.
Oracle (on the real code only): the call returns a value or raises a werkzeug HTTPException - never
ValueError / IndexError / TypeError / UnicodeError / OverflowError / ... - within a time bound.
"""
from __future__ import annotations

import io
import json
import random
import signal

from vlib.core import Check, Stream, b01, hs, line, opt, out_list, unhs

TIME_LIMIT_S = 3.0

TOKENS = [
    ",", ";", "=", '"', "\\", " ", "*", "%", "'", "/", ":", "-", "+", ".", "[", "]", "(", ")", "<", ">", "@", "?", "#", "&", "_", "~", "|", "!",
    "q", "q=", "q=0.5", "q=1.0001", "q=-0", "q=-0.0", "q=1e3", "q=00.5", "q=1.", ";q=1.00000000000000000001", "Q=0.3",
    "utf-8''", "UTF-8''%C3%A9", "iso-8859-1'en'%E9", "us-ascii''%ff", "x''y", "''", "*0", "*1*", "*=", "*0=", "*0*=", "k*", "k*=", "k*0*=", "k*1=", "a**=",
    "%22", "%zz", "%e9", "%C3%A9", "%C3", "%%41", "%2", "%",
    "Basic", "Bearer", "Digest", "basic ", "BASIC ", "dTpw", "dTpw=", "====", "Zm9v", "Zm9", "Zg==", "Zg=", "Z", "w6k6cA==", "/w==", "realm=", 'realm="r"', "nonce=abc",
    "bytes", "bytes=", "0-1", "-5", "5-", "-", "0-0", "5-3", "99999999999999999999", "1e5", "0x10", "1_0", "+1", "-0", "00", " 7 ", "bytes 0-1/2", "*/5", "0-1/*", "/",
    "Thu, 01 Jan 2026 00:00:00 GMT", "Thu", "Jan", "2026", "00:00:00", "GMT", "+0000", "-0500", "+99999999999999999999", "1 Jan 99999999999999999999 0:0:0",
    "1 Jan 2026 99999999999999999999999:0:0", "01-Jan-26", "Thursday, 01-Jan-26 00:00:00 GMT", "Thu Jan  1 00:00:00 2026", "31 Feb 2026 00:00:00 GMT", "1 Jan 2026", "0:0",
    "W/", 'W/"x"', '""', '"a"', '"', '"a', 'a"', "text/html", "*/*", "text/*", "*/html", "text", "en-US", "en", "en_GB", "utf-8", "utf8", "latin-1", "gzip", "identity",
    "max-age", "no-cache", "max-age=5", "max-age=x", "max-stale", "private", "no-store", "min-fresh=-1", "chunked", "default-src 'self'", "script-src",
    "a", "b", "k", "v", "x", "=x", "a=b", "\xe9", "\xff", "\xa0", "\xc3\xa9", "\xad", "\xb5", "\xdf", "\xc0", "0", "1", "9", "localhost", "a:b", "[::1]", "[", "]", ":80", ":x", "example.com:443",
]


def hostile(rng: random.Random, maxtok=7) -> str:
    n = rng.choice([1, 1, 2, 3, 4, 5, maxtok])
    s = "".join(rng.choice(TOKENS) for _ in range(n))
    # the property's alphabet: latin-1 without control characters
    return "".join(c for c in s if (0x20 <= ord(c) < 0x7F) or (0xA0 <= ord(c) <= 0xFF))


REP_PREFIX = ["", "", "", 'sid="', 'a="', '"', 'k="\\', "a; k=\"", "text/html;q=", "text/html; k*=utf-8''", "W/\"", "Basic ", "Digest realm=\"", "bytes=", "bytes 0-",
              "(", "[", "[::", "<", "a=", "max-age=", "Thu, 01 Jan 2026 (", "1 Jan 2026 00:", "a, \"", "a;", "k*0*=", "default-src "]
REP_SUFFIX = ["", "", "", "", '"', ";", ",", "x", "\\", " GMT", "=", ")", "]"]


REP_LEAD = ["", "a=", "sid=", "k=", "a; k=", "a, b=", "W/", "Basic ", "Digest realm=", "text/html; k=", "bytes=", "x "]
REP_ESC = ["\\", "\\\\", "\\a", "a\\", '\\"', "\\ ", "\\;", "\\,", "%5C"]


def repetition(rng: random.Random) -> str:
    """prefix + one token of the alphabet repeated 20-100 times + optional suffix. A third of the cases
    put an escape-like token after an *unclosed* quote, a fifth put a run after an unclosed bracket or
    comment: long runs there are what exposes super-linear scanners and regexes."""
    n = rng.randrange(20, 101)
    r = rng.random()
    if r < 0.35:
        s = rng.choice(REP_LEAD) + '"' + rng.choice(REP_ESC) * n + rng.choice(["", "", "", "x", ";", ","])
    elif r < 0.55:
        s = rng.choice(REP_LEAD) + rng.choice(["(", "[", "<", "[::", "((", "{"]) + rng.choice(TOKENS + REP_ESC) * n + rng.choice(["", "", ";", ","])
    else:
        tok = rng.choice(TOKENS) if rng.random() < 0.6 else rng.choice(REP_ESC + ['"', " ", ",", ";", "=", "*", "%", "(", "[", "a", "\xe9", "%2", "''"])
        s = rng.choice(REP_PREFIX) + tok * n + rng.choice(REP_SUFFIX)
    return "".join(c for c in s if (0x20 <= ord(c) < 0x7F) or (0xA0 <= ord(c) <= 0xFF))


DATE_DAYNAME = ["Fri, ", "Mon, ", "", "", "Xyz, ", "Friday, "]
DATE_DAY = ["31", "30", "29", "28", "01", "1", "00", "32"]
DATE_MONTH = ["Dec", "Jan", "Feb", "Apr", "Jun", "Sep", "Nov", "13", "Foo", "dec"]
DATE_YEAR = ["0001", "0002", "9998", "9999", "1", "01", "99", "69", "68", "00", "100", "999", "1000", "2026", "10000", "99999999999999999999"]
DATE_TIME = ["23:59:59", "00:00:00", "24:00:00", "23:60:00", "23:59:60", "12:00", "0:0:0", "99999999999999999999999:0:0", "12.00.00"]
DATE_ZONE = ["+0100", "-0100", "+1400", "-1400", "+2359", "-2359", "GMT", "UT", "EST", "PDT", "Z", "+0000", "-0000", "", "+2400", "+9999", "+99999999999999999999", "-1"]


def boundary_date(rng: random.Random) -> str:
    """RFC 2822 / RFC 850 / asctime shaped dates at the edges of the datetime range: years 0001, 0002,
    9998, 9999 with offsets that move the UTC instant outside 1..9999, hour 24, month 13, day 31 in
    30-day months, 2-digit years, numbers too large for C"""
    if rng.random() < 0.4:
        # a well-formed date right at one end of the datetime range, with an offset pointing outwards
        if rng.random() < 0.5:
            d, mo, y = rng.choice(["31", "30"]), "Dec", rng.choice(["9999", "9999", "9998"])
            t, z = rng.choice(["23:59:59", "12:00:00", "00:00:00"]), rng.choice(["-0100", "-1400", "-2359", "EST", "-0001", "GMT", "+0100"])
        else:
            d, mo, y = rng.choice(["01", "1", "02"]), "Jan", rng.choice(["0001", "0001", "0002"])
            t, z = rng.choice(["00:00:00", "12:00:00", "23:59:59"]), rng.choice(["+0100", "+1400", "+2359", "+0001", "GMT", "-0100"])
        return f"{rng.choice(['Fri, ', 'Mon, ', ''])}{d} {mo} {y} {t} {z}"
    d, mo, y, t, z = rng.choice(DATE_DAY), rng.choice(DATE_MONTH), rng.choice(DATE_YEAR), rng.choice(DATE_TIME), rng.choice(DATE_ZONE)
    r = rng.random()
    if r < 0.75:
        s = f"{rng.choice(DATE_DAYNAME)}{d} {mo} {y} {t} {z}".rstrip()
    elif r < 0.85:
        s = f"{rng.choice(DATE_DAYNAME)}{d}-{mo}-{y} {t} {z}".rstrip()
    elif r < 0.95:
        s = f"Fri {mo} {d} {t} {y}"
    else:
        s = f"{d} {mo} {y}"
    if rng.random() < 0.1:
        s = rng.choice(['"', "W/", " ", "("]) + s
    return s


ACCEPT_MEDIA = ["text/html", "text", "json", "*", "*/*", "text/*", "*/html", "application/xhtml+xml", "x", "a/b/c", "", "TEXT/HTML"]
ACCEPT_PARAM = ['profile="https://example.com/schema"', "version=1/2", "a=b/c", "u=/", 'p="/"', "q=0.5", "q=0", "q=1", "level=1", "charset=utf-8", "q=0.5;x=/",
                'q="0.5"', "*=x", "*0=/", "k*=utf-8''a%2Fb", 'v="a;b/c"', "/=1"]


def accept_value(rng: random.Random) -> str:
    """a comma list of media ranges with parameters; in particular media ranges *without* `/` whose
    parameter value contains one (quoted URL, `1/2`)"""
    items = []
    for _ in range(rng.choice([1, 1, 2, 3])):
        it = rng.choice(ACCEPT_MEDIA)
        for _ in range(rng.choice([0, 1, 1, 2])):
            it += rng.choice([";", "; ", " ;"]) + rng.choice(ACCEPT_PARAM)
        items.append(it)
    return rng.choice([",", ", ", " , "]).join(items)


COOKIE_ESC = ["\\" + a + b + c for a in "01234567" for b in "0789" for c in "078"] + ["\\" + x for x in ['"', "\\", "a", "8", "9", ";", ",", " ", "=", "0", "07", "37", "40", "\xe9"]]


def cookie_value(rng: random.Random) -> str:
    """quoted cookie values with backslash escapes over the whole space: `\\` + three octal digits with a
    first digit 0-7 (so also beyond \\377), `\\` + a non-octal character, `\\` at the end of the value / header"""
    items = []
    for _ in range(rng.choice([1, 1, 2, 3])):
        body = "".join(rng.choice(COOKIE_ESC) if rng.random() < 0.6 else rng.choice(["a", "b", "1", " ", "=", "%41", "\xe9", "x y"]) for _ in range(rng.choice([1, 1, 2, 3, 5])))
        close = rng.choice(['"', '"', '"', "", '\\"', "\\"])
        items.append(rng.choice(["a", "sid", "k", ""]) + rng.choice(["=", "=", " = "]) + '"' + body + close)
    return rng.choice(["; ", ";", " ; "]).join(items)


COOKIE_TARGETS = {"cookie", "cookies"}
DATE_TARGETS = {"date", "if_range", "if_modified_since", "if_unmodified_since"}
ACCEPT_TARGETS = {"accept", "accept_mime", "accept_lang", "accept_charset", "accept_mimetypes", "accept_charsets", "accept_encodings", "accept_languages"}


def hostile_for(target: str, rng: random.Random) -> str:
    """hostile text for one parser / attribute: its structured family half of the time, else the general one"""
    if target in COOKIE_TARGETS and rng.random() < 0.5:
        return cookie_value(rng)
    if target in DATE_TARGETS and rng.random() < 0.5:
        return boundary_date(rng)
    if target in ACCEPT_TARGETS and rng.random() < 0.4:
        return accept_value(rng)
    return hostile_any(rng)


HUGE_PREFIX = ["", "a; k*", "text/html;level*", "text/plain; charset*0=utf-; charset*", "bytes=", "bytes=0-", "bytes=-", "bytes 0-1/", "bytes 0-", "max-age=", "a;q=", "a;q=0.",
               "Thu, 01 Jan ", "1 Jan 2026 ", "Thu, 01 Jan 2026 00:00:00 +", "W/", "Basic ", "sid=", "k=", "-", "+", " ", "1_"]
HUGE_SUFFIX = ["", "", "=8", "=1; q=0.5", "-", "/5", " GMT", ", b", ";", " 00:00:00 GMT", "."]


def huge_number(rng: random.Random) -> str:
    """a digit run beyond CPython's int<->str conversion limit (4300 digits; `int()` then raises a plain
    ValueError) in every numeric position a header has: lengths, ages, range positions, q values, RFC 2231
    continuation numbers, date fields. 4.3 kB of digits is below ordinary server header limits."""
    n = rng.choice([4301, 4301, 4302, 4400, 5000])
    d = rng.choice(["1", "9", "0", "7"]) * n
    return rng.choice(HUGE_PREFIX) + d + rng.choice(HUGE_SUFFIX)


def has_huge_number(text: str) -> bool:
    import re

    return re.search(r"[0-9_]{4301}", text) is not None


def hostile_any(rng: random.Random) -> str:
    r = rng.random()
    if r < 0.03:
        return huge_number(rng)
    return repetition(rng) if r < 0.27 else hostile(rng)


class Timeout(BaseException):
    """BaseException: an `except Exception` inside werkzeug or the harness must not swallow the alarm"""


def _alarm(signum, frame):
    raise Timeout()


def timed(f):
    old = signal.signal(signal.SIGALRM, _alarm)
    signal.setitimer(signal.ITIMER_REAL, TIME_LIMIT_S)
    try:
        return f()
    finally:
        signal.setitimer(signal.ITIMER_REAL, 0)
        signal.signal(signal.SIGALRM, old)


# ---- canonical renderings (mirror lean/WzVerif/Driver/C06.lean) ----


def c_list(items):
    return out_list(hs(x) for x in items)


def c_pairs_opt(d):
    return out_list(hs(k) + ":" + opt(hs, v) for k, v in d)


def c_pairs(d):
    return out_list(hs(k) + ":" + hs(v) for k, v in d)


def c_optlist(items):
    key = lambda x: (x is None, x)  # noqa: E731
    return out_list(opt(hs, x) for x in sorted(set(items), key=key))


def c_etags(et):
    return "S=" + c_optlist(et._strong) + ";W=" + c_optlist(et._weak) + ";*=" + b01(et.star_tag)


def c_range(r):
    if r is None:
        return "~"
    return hs(r.units) + "|" + out_list(f"{b}:{opt(str, e)}" for b, e in r.ranges)


def c_crange(c):
    if c is None:
        return "~"
    return "|".join([opt(hs, c.units), opt(str, c.start), opt(str, c.stop), opt(str, c.length)])


def c_auth(a):
    if a is None:
        return "~"
    return hs(a.type) + "|" + c_pairs_opt(list(a.parameters.items())) + "|" + opt(hs, a.token)


def c_accept(acc):
    return out_list(sorted(hs(v) + ":" + repr(float(q) + 0.0) for v, q in acc))


def c_ccval(v):
    if v is None:
        return "none"
    if v is True:
        return "true"
    if v is False:
        return "false"
    if isinstance(v, int):
        return f"i:{v}"
    return "s:" + hs(v)


def cc_table(cls):
    import inspect

    rows = []
    for name in sorted(dir(cls)):
        p = inspect.getattr_static(cls, name)
        if isinstance(p, property) and p.fget is not None and p.fget.__closure__:
            cells = {n: c.cell_contents for n, c in zip(p.fget.__code__.co_freevars, p.fget.__closure__)}
            if "key" in cells and "type" in cells:
                rows.append((name, cells["key"], cells["empty"], cells["type"]))
    return rows


def use_accept(acc, offers):
    """the operations the property lists for Accept objects, with well-formed application-side offers"""
    for o in offers:
        o in acc  # noqa: B015
        acc.quality(o)
        acc[o]
        acc.find(o)
    acc.best_match(offers)
    acc.best_match(offers, default=offers[0])
    acc.best  # noqa: B018
    list(acc.values())
    len(acc)
    bool(acc)


MIME_OFFERS = ["text/html", "application/json", "text/plain; charset=utf-8", "application/xhtml+xml", "*/*", "image/*"]
LANG_OFFERS = ["en", "en-US", "de", "zh-Hant-TW", "fr_CA"]
CHARSET_OFFERS = ["utf-8", "iso-8859-1", "latin1", "ascii", "x-unknown"]
ENC_OFFERS = ["gzip", "identity", "br", "deflate"]

# parser name -> (callable on the real code returning the canonical text, driver command or None)


def run_parser(name, s):
    import werkzeug.http as http
    from werkzeug import datastructures as ds
    from werkzeug.sansio.http import parse_cookie as sans_cookie

    if name == "options":
        v, o = http.parse_options_header(s)
        return hs(v) + "|" + c_pairs(o.items())
    if name == "list":
        return c_list(http.parse_list_header(s))
    if name == "dict":
        return c_pairs_opt(http.parse_dict_header(s).items())
    if name == "set":
        h = http.parse_set_header(s)
        "x" in h, h.find("a"), h.as_set(), len(h)  # noqa: B018
        return c_list(list(h))
    if name in ("accept", "accept_mime", "accept_lang", "accept_charset"):
        cls, offers = {"accept": (ds.Accept, ENC_OFFERS), "accept_mime": (ds.MIMEAccept, MIME_OFFERS), "accept_lang": (ds.LanguageAccept, LANG_OFFERS), "accept_charset": (ds.CharsetAccept, CHARSET_OFFERS)}[name]
        acc = http.parse_accept_header(s, cls)
        use_accept(acc, offers)
        if name == "accept_mime":
            acc.accept_html, acc.accept_xhtml, acc.accept_json  # noqa: B018
        return c_accept(acc)
    if name in ("cc_request", "cc_response"):
        cls = ds.RequestCacheControl if name == "cc_request" else ds.ResponseCacheControl
        cc = http.parse_cache_control_header(s, cls=cls)
        typed = [c_ccval(getattr(cc, attr)) for attr, _, _, _ in cc_table(cls)]
        return c_pairs_opt(cc.items()) + "|" + ",".join(typed)
    if name == "csp":
        return c_pairs(http.parse_csp_header(s).items())
    if name == "etags":
        et = http.parse_etags(s)
        et.contains("a"), et.contains_weak("a"), "a" in et, et.contains_raw('W/"a"'), et.is_weak("a"), len(et), bool(et), et.as_set(True)  # noqa: B018
        return c_etags(et)
    if name == "unquote_etag":
        e, w = http.unquote_etag(s)
        return "~" if e is None else hs(e) + "|" + b01(w)
    if name == "range":
        r = http.parse_range_header(s)
        if r is not None:
            r.range_for_length(100), r.make_content_range(100), r.to_content_range_header(100)  # noqa: B018
        return c_range(r)
    if name == "content_range":
        c = http.parse_content_range_header(s)
        return c_crange(c)
    if name == "if_range":
        ir = http.parse_if_range_header(s)
        return opt(hs, ir.etag) + "|" + ("~" if ir.date is None else ir.date.isoformat())
    if name == "date":
        d = http.parse_date(s)
        if d is not None and d.tzinfo is None:
            return "NAIVE"
        return "~" if d is None else d.isoformat()
    if name == "age":
        a = http.parse_age(s)
        return "~" if a is None else str(a.days * 86400 + a.seconds)
    if name == "cookie":
        a = http.parse_cookie(s)
        b = sans_cookie(s)
        return out_list(hs(k) + ":" + hs(v) for k, v in a.items(multi=True)) + "|" + str(len(b))
    if name == "authorization":
        a = ds.Authorization.from_header(s)
        if a is not None:
            a.username, a.password, a.get("realm"), "nonce" in a, a["qop"], a.token  # noqa: B018
        return c_auth(a)
    if name == "www_authenticate":
        a = ds.WWWAuthenticate.from_header(s)
        if a is not None:
            a.realm, a.get("realm"), "nonce" in a, a["qop"], a.token, a.type  # noqa: B018
        return c_auth(a)
    if name == "unquote":
        return hs(http.unquote_header_value(s))
    raise AssertionError(name)


PARSER_CMD = {
    "options": "opt.parse", "list": "list.parse", "dict": "dict.parse", "set": "set.parse", "accept": "accept.parse", "accept_mime": "accept.parse",
    "accept_lang": "accept.parse", "accept_charset": "accept.parse", "cc_request": "cc.parse", "cc_response": "cc.parse", "csp": "csp.parse", "etags": "etags.parse",
    "unquote_etag": "etag.unquote", "range": "range.parse", "content_range": "crange.parse", "age": "age.parse", "authorization": "auth.parse",
    "www_authenticate": "www.parse", "unquote": "unquote",
}
PARSERS = sorted(set(PARSER_CMD) | {"if_range", "date", "cookie"})

BASE_ENV = {
    "REQUEST_METHOD": "POST", "wsgi.url_scheme": "http", "SERVER_NAME": "localhost", "SERVER_PORT": "8080", "SCRIPT_NAME": "/app", "PATH_INFO": "/p",
    "QUERY_STRING": "", "SERVER_PROTOCOL": "HTTP/1.1", "REMOTE_ADDR": "127.0.0.1", "wsgi.version": (1, 0), "wsgi.multithread": False,
    "wsgi.multiprocess": False, "wsgi.run_once": False,
}
BODY = b"a=1&b=2"
CLIENT_VARS = [
    "HTTP_HOST", "HTTP_ACCEPT", "HTTP_ACCEPT_CHARSET", "HTTP_ACCEPT_ENCODING", "HTTP_ACCEPT_LANGUAGE", "HTTP_AUTHORIZATION", "HTTP_CACHE_CONTROL", "HTTP_COOKIE",
    "HTTP_IF_MATCH", "HTTP_IF_NONE_MATCH", "HTTP_IF_MODIFIED_SINCE", "HTTP_IF_UNMODIFIED_SINCE", "HTTP_IF_RANGE", "HTTP_RANGE", "HTTP_DATE", "HTTP_MAX_FORWARDS",
    "HTTP_PRAGMA", "HTTP_REFERER", "HTTP_USER_AGENT", "HTTP_ORIGIN", "HTTP_ACCESS_CONTROL_REQUEST_HEADERS", "HTTP_ACCESS_CONTROL_REQUEST_METHOD",
    "HTTP_X_FORWARDED_FOR", "HTTP_X_FORWARDED_HOST", "HTTP_TRANSFER_ENCODING", "HTTP_CONTENT_ENCODING", "HTTP_CONTENT_MD5", "HTTP_X_CUSTOM",
    "CONTENT_TYPE", "CONTENT_LENGTH", "QUERY_STRING", "PATH_INFO",
]
# attribute -> (environ variable, parser name) for attributes that are a modelled parser applied to one header
ATTR_PARSER = {
    "accept_mimetypes": ("HTTP_ACCEPT", "accept_mime"), "accept_charsets": ("HTTP_ACCEPT_CHARSET", "accept_charset"), "accept_encodings": ("HTTP_ACCEPT_ENCODING", "accept"),
    "accept_languages": ("HTTP_ACCEPT_LANGUAGE", "accept_lang"), "cache_control": ("HTTP_CACHE_CONTROL", "cc_request"), "if_match": ("HTTP_IF_MATCH", "etags"),
    "if_none_match": ("HTTP_IF_NONE_MATCH", "etags"), "range": ("HTTP_RANGE", "range"), "authorization": ("HTTP_AUTHORIZATION", "authorization"),
    "pragma": ("HTTP_PRAGMA", "set"), "access_route": ("HTTP_X_FORWARDED_FOR", "list"),
}
URL_ATTRS = ("url", "base_url", "host_url", "root_url", "url_root")
DATE_ATTRS = ("date", "if_modified_since", "if_unmodified_since", "if_range")
ACCEPT_ATTRS = ("accept_mimetypes", "accept_charsets", "accept_encodings", "accept_languages")
ATTR_VAR = {
    "args": "QUERY_STRING", "values": "QUERY_STRING", "full_path": "QUERY_STRING", "url": "HTTP_HOST", "base_url": "HTTP_HOST", "host_url": "HTTP_HOST", "root_url": "HTTP_HOST",
    "url_root": "HTTP_HOST", "host": "HTTP_HOST", "cookies": "HTTP_COOKIE", "content_length": "CONTENT_LENGTH", "mimetype": "CONTENT_TYPE", "mimetype_params": "CONTENT_TYPE",
    "content_type": "CONTENT_TYPE", "form": "CONTENT_TYPE", "files": "CONTENT_TYPE", "data": "CONTENT_TYPE", "json": "CONTENT_TYPE", "is_json": "CONTENT_TYPE",
    "date": "HTTP_DATE", "if_modified_since": "HTTP_IF_MODIFIED_SINCE", "if_unmodified_since": "HTTP_IF_UNMODIFIED_SINCE", "if_range": "HTTP_IF_RANGE",
    "max_forwards": "HTTP_MAX_FORWARDS", "access_control_request_headers": "HTTP_ACCESS_CONTROL_REQUEST_HEADERS", "user_agent": "HTTP_USER_AGENT", "path": "PATH_INFO",
    **{a: v for a, (v, _) in ATTR_PARSER.items()},
}
SKIP_ATTRS = {"application", "from_values", "make_form_data_parser", "on_json_loading_failed", "close", "json_module", "form_data_parser_class", "user_agent_class",
              "parameter_storage_class", "dict_storage_class", "list_storage_class"}
CALLS = {"get_data": {}, "get_json": {"silent": True}}


ACCEPT_CLS = {"accept_mimetypes": ("mime", "HTTP_ACCEPT", MIME_OFFERS), "accept_charsets": ("charset", "HTTP_ACCEPT_CHARSET", CHARSET_OFFERS),
              "accept_encodings": ("accept", "HTTP_ACCEPT_ENCODING", ENC_OFFERS), "accept_languages": ("lang", "HTTP_ACCEPT_LANGUAGE", LANG_OFFERS)}
TRUSTED_SETS = [["localhost"], [".example.com", "localhost:8080"], ["[::1]", "a"], ["\xe9.example", ".a"], []]
EPOCH_ORD = 1


def fq(x):
    return repr(float(x) + 0.0)  # -0.0 (from `q=-0.0`) and 0.0 are the same quality


def c_accept_use(acc, offers):
    """items in the object's order, then membership / quality / best_match over well-formed offers"""
    items = out_list(hs(v) + ":" + fq(q) for v, q in acc)
    return items + "|" + out_list(b01(o in acc) for o in offers) + "|" + out_list(fq(acc.quality(o)) for o in offers) + "|" + opt(hs, acc.best_match(offers))


def dt_seconds(dt):
    from datetime import datetime, timezone

    d = dt - datetime(1, 1, 1, tzinfo=timezone.utc)
    return d.days * 86400 + d.seconds


def strip_port(h):
    import re

    if h.startswith("["):
        m = re.fullmatch(r"(\[[^\]]*\])(:.*)?", h, re.S)
        return m.group(1) if m else h
    return h.split(":", 1)[0]


def idna_table(strings):
    out, seen = [], set()
    for x in strings:
        if x in seen:
            continue
        seen.add(x)
        try:
            a = x.encode("idna").decode("ascii")
        except UnicodeError:
            a = None
        out.append(hs(x) + ":" + opt(hs, a))
    return ",".join(out) or "[]"


def group_pairs(out):
    """MultiDict.items(multi=True) order: keys by first occurrence, each with all its values"""
    if out == "[]" or out.startswith("EXC"):
        return out
    pairs = [p.split(":") for p in out.split(",")]
    keys = []
    for k, _ in pairs:
        if k not in keys:
            keys.append(k)
    return ",".join(f"{k}:{v}" for kk in keys for k, v in pairs if k == kk)


def group_first(out):
    """MultiDict.items(multi=True) order for `key:rest` items: keys by first occurrence, each with all
    its entries"""
    if out == "[]":
        return out
    items = out.split(",")
    keys = []
    for it in items:
        k = it.split(":", 1)[0]
        if k not in keys:
            keys.append(k)
    return ",".join(it for kk in keys for it in items if it.split(":", 1)[0] == kk)


def request_attrs():
    """every public name of a live Request object (the same enumeration Gen/RequestSurface.lean is
    generated from, so a newly added attribute is exercised here and shows up there as uncovered)"""
    from werkzeug.wrappers import Request

    names = []
    for n in sorted(dir(Request(mk_environ({})))):
        if n.startswith("_") or n in SKIP_ATTRS:
            continue
        names.append(n)
    return names


def mk_environ(env):
    e = dict(BASE_ENV)
    e["wsgi.input"] = io.BytesIO(BODY)
    e["wsgi.errors"] = io.StringIO()
    e["CONTENT_LENGTH"] = str(len(BODY))
    e["CONTENT_TYPE"] = "application/x-www-form-urlencoded"
    for k, v in env.items():
        e[k] = unhs(v)
    return e


def run_attr(attr, env, trusted=None):
    from werkzeug.wrappers import Request

    r = Request(mk_environ(env))
    if trusted is not None:
        r.trusted_hosts = [unhs(t) for t in trusted]
    if attr in CALLS:
        v = getattr(r, attr)(**CALLS[attr])
    else:
        v = getattr(r, attr)
        if callable(v) and not hasattr(v, "__len__") and attr not in ("stream", "input_stream", "user_agent"):
            return "ok:method"
    if attr in ACCEPT_CLS:
        if attr == "accept_mimetypes":
            v.accept_html, v.accept_xhtml, v.accept_json  # noqa: B018
        return "V:" + c_accept_use(v, ACCEPT_CLS[attr][2])
    if attr in ("args", "cookies"):
        return "V:" + out_list(hs(k) + ":" + hs(x) for k, x in v.items(multi=True))
    if attr == "mimetype":
        return "V:" + hs(v)
    if attr == "mimetype_params":
        return "V:" + c_pairs(v.items())
    if attr == "is_json":
        return "V:" + b01(v)
    if attr == "host":
        return "V:" + hs(v)
    if attr == "if_range":
        return "V:" + opt(hs, v.etag) + "|" + ("~" if v.date is None else str(dt_seconds(v.date)))
    if attr == "max_forwards":
        return "V:" + opt(str, v)
    if attr == "content_length":
        return "V:" + opt(str, v)
    if attr == "access_control_request_headers":
        return "V:" + ("~" if v is None else c_list(list(v)))
    pa = ATTR_PARSER.get(attr)
    if pa is not None and pa[0] in env:
        # same observation as the parser case, on the object the attribute returned
        return "V:" + canon_value(pa[1], v)
    if attr in ("args", "form", "values", "cookies", "files"):
        list(v.items(multi=True)) if hasattr(v, "items") else None
    if attr in ("url", "base_url", "host_url", "root_url", "url_root", "host", "full_path", "path"):
        assert isinstance(v, str)
    return "ok:" + type(v).__name__


def canon_value(pname, v):
    """canonical text of an already parsed object (mirrors run_parser)"""
    from werkzeug import datastructures as ds

    if pname in ("accept", "accept_mime", "accept_lang", "accept_charset"):
        offers = {"accept": ENC_OFFERS, "accept_mime": MIME_OFFERS, "accept_lang": LANG_OFFERS, "accept_charset": CHARSET_OFFERS}[pname]
        use_accept(v, offers)
        if pname == "accept_mime":
            v.accept_html, v.accept_xhtml, v.accept_json  # noqa: B018
        return c_accept(v)
    if pname == "cc_request":
        typed = [c_ccval(getattr(v, attr)) for attr, _, _, _ in cc_table(ds.RequestCacheControl)]
        return c_pairs_opt(v.items()) + "|" + ",".join(typed)
    if pname == "etags":
        v.contains("a"), "a" in v  # noqa: B018
        return c_etags(v)
    if pname == "range":
        if v is not None:
            v.range_for_length(100)
        return c_range(v)
    if pname == "authorization":
        if v is not None:
            v.username, v.password, v.get("realm")  # noqa: B018
        return c_auth(v)
    if pname == "set":
        "x" in v  # noqa: B015
        return c_list(list(v))
    if pname == "list":
        return c_list(list(v))
    raise AssertionError(pname)



# ---- the body-parsing attributes under hostile Content-Type x body (family of seeded change C07-c2) ----

MIMETYPES = ["application/x-www-form-urlencoded", "application/x-www-form-urlencoded", "multipart/form-data", "multipart/form-data", "application/json", "application/ld+json",
             "text/plain", "application/x-url-encoded", "APPLICATION/X-WWW-FORM-URLENCODED", "Multipart/Form-Data", "application/JSON", " multipart/form-data", "multipart/form-data ",
             "multipart/mixed", "", "application/x-www-form-urlencoded\xa0", "*/*", "application/+json", "a/b", "application/x-www-form-urlencoded,", "multipart/form-data\xe9"]
CHARSETS = ["bogus", "", "utf-8", "UTF-8", "latin-1", "iso-8859-1", "utf-16", "utf-7", "hex", "rot13", "rot_13", "idna", "punycode", "undefined", "base64", "\xff", "\xe9", "utf-8\xa0",
            "us-ascii", "ascii", "x" * 40, "unicode_escape", "mbcs", "utf_8_sig", "zlib", "None", "0", "utf-8;", "utf 8", "*", "%22", "utf-32", "cp65001", "ansi_x3.4-1968"]
BOUNDARIES = ["x", "x", "XyZ", "", "\xe9", "\xff", "a b", "a=1&b", "-", "--", "x" * 70, "x" * 300, "\\", "a;b", "%41", "*", "'", "x\xa0", "(", "[", ".", "^$"]


def ct_param(rng):
    r = rng.random()
    if r < 0.45:
        c = rng.choice(CHARSETS)
        k = rng.random()
        if k < 0.5:
            return "charset=" + c
        if k < 0.75:
            return 'charset="' + c + '"'
        if k < 0.85:
            return rng.choice(["charset*=utf-8''%C3%BF", "charset*=utf-8''" + c, "charset*=''" + c, "charset*=bogus''x", "charset*0=ut; charset*1=f-8", "charset*0*=utf-8''b; charset*1=ogus", "Charset=" + c, "CHARSET=" + c])
        return "charset = " + c
    if r < 0.85:
        b = rng.choice(BOUNDARIES)
        k = rng.random()
        if k < 0.55:
            return "boundary=" + b
        if k < 0.85:
            return 'boundary="' + b + '"'
        return rng.choice(["boundary*=utf-8''%C3%BF", "boundary*=utf-8''x", "boundary*0=x; boundary*1=y", "BOUNDARY=" + b, "boundary", "boundary=", "boundary=x; boundary=y"])
    return rng.choice(["q=0.5", "k=v", "*=x", "*0=x", "k*=utf-8''%ff", 'k="', "k=\\", ";", "=", "version=1", "profile=\"x\"", hostile(rng, 3)])


def content_type_value(rng):
    mt = rng.choice(MIMETYPES)
    ps = [ct_param(rng) for _ in range(rng.choice([0, 1, 1, 1, 2, 3]))]
    return rng.choice(["; ", ";", " ; ", ";  "]).join([mt] + ps)


def declared_boundary(ct):
    """what a well-behaved client would use as delimiter for this Content-Type (best effort)"""
    import re

    m = re.search(r'boundary="?([^";]*)', ct, re.I)
    return (m.group(1) if m and m.group(1) else "x").encode("latin-1", "replace")


URLENC_BODIES = [b"a=1&b=2", b"a=\xff", b"%ff=%", b"&&==&", b"a=b&name=%E4%F6%FC&x=\xe4", b"\xff\xfe a\x00=\x00", b"a=" + b"x" * 300, b"=", b"", b"a=1;b=2", "é=ü&€".encode(),
                b"a=1&a=2&b", b"+=+&%2B=%2b", b"a=%", b"%=%%", b"\xc3", b"a\n=b\r\n", b"a=b" + b"&" * 50]
JSON_BODIES = [b"{}", b'{"a": 1}', b"[" * 40 + b"]" * 40, b"[" * 60, b"\xff", b"", b"nul", b'"\\ud800"', b"1e999", b"NaN", b"\xff\xfe{\x00}\x00", b"\xef\xbb\xbf{}", b"[1,]", b'{"a":}', b" ", b"0" * 50,
               b'"' + b"\\" * 31, b"{" * 30]
PART_HEADERS = [
    b'Content-Disposition: form-data; name="a"', b'Content-Disposition: form-data; name="f"; filename="x.txt"', b"Content-Disposition: form-data; name=a", b"Content-Disposition: form-data",
    b'Content-Disposition: form-data; name="a"; filename=""', b"Content-Disposition: attachment", b"content-disposition: FORM-DATA; NAME=a", b'Content-Disposition: form-data; name="\xff"',
    b'Content-Disposition: form-data; name="a\\"b"', b'Content-Disposition: form-data; name="a', b"Content-Disposition: form-data; name*=utf-8''%C3%BF", b"Content-Disposition: form-data; name*0=a; name*1=b",
    b'Content-Disposition: form-data; name="f"; filename="\xe9\xff.txt"', b"Content-Disposition: ;", b"Content-Disposition", b"X: y", b": x", b"Content-Disposition: form-data; name=\xe9",
]
PART_CTYPES = [None, None, b"text/plain", b"text/plain; charset=utf-8", b"text/plain; charset=bogus", b'text/plain; charset=""', b"text/plain; charset=hex", b"text/plain; charset=\xff", b"text/plain; charset=ISO-8859-1",
               b"text/plain; charset=utf-16", b"text/plain; charset=US-ASCII", b"text/plain; charset*=utf-8''rot13", b"; charset=rot13", b"text/plain; charset=utf-8; charset=hex", b"application/octet-stream",
               b"text/plain; charset=idna", b"text/plain; charset=undefined"]
PART_EXTRA = [None, None, None, b"Content-Length: 3", b"Content-Length: x", b"Content-Length: -1", b"Content-Length: 99999999999999999999", b"Content-Transfer-Encoding: base64", b"X-Long: " + b"a" * 200, b" folded", b"\xff: \xfe"]
PART_DATA = [b"v", b"", b"\xff\xfe", b"a\r\nb", "é€".encode(), b"x" * 200, b"--", b"\r\n", b"\x00", b"a=1&b=2"]


def multipart_body(rng, bnd, valid=False):
    nl = rng.choice([b"\r\n", b"\r\n", b"\r\n", b"\n", b"\r"])
    out = [rng.choice([b"", b"", b"preamble" + nl, nl])]
    for _ in range(rng.choice([0, 1, 1, 2, 3])):
        out.append(b"--" + bnd + rng.choice([b"", b"", b" ", b"\t"]) + nl)
        hdrs = [rng.choice(PART_HEADERS[:2] if valid and rng.random() < 0.7 else PART_HEADERS)]
        ct = rng.choice(PART_CTYPES)
        if ct is not None:
            hdrs.append(b"Content-Type: " + ct)
        ex = rng.choice(PART_EXTRA)
        if ex is not None:
            hdrs.append(ex)
        rng.shuffle(hdrs)
        out.append(nl.join(hdrs) + nl + nl + rng.choice(PART_DATA) + nl)
    r = rng.random()
    if r < (0.95 if valid else 0.75):
        out.append(b"--" + bnd + b"--" + rng.choice([b"", nl, nl + b"epilogue"]))
    elif r < 0.85:
        out.append(b"--" + bnd)
    return b"".join(out)


BODY_ATTRS = ["form", "files", "values", "data", "get_data", "json", "get_json", "stream", "want_form_data_parsed"]
BODY_SEQ_EXTRA = ["stream.read", "get_data_text", "get_json_force", "is_json", "mimetype_params", "content_length", "close", "args", "input_stream"]


def body_case(rng):
    near = rng.random() < 0.6
    if near:
        # near-valid: a real form / JSON mimetype (sometimes in another case), a usable boundary, the
        # matching body, and one or two hostile parameters around them
        mt = rng.choice(["application/x-www-form-urlencoded", "multipart/form-data", "multipart/form-data", "application/json"])
        if rng.random() < 0.2:
            mt = rng.choice([mt.upper(), mt.title(), " " + mt, mt + " "])
        ps = [ct_param(rng) for _ in range(rng.choice([0, 1, 1, 2]))]
        if "multipart" in mt.lower():
            ps.insert(rng.randrange(len(ps) + 1), rng.choice(["boundary=x", "boundary=XyZ", 'boundary="a b"', "boundary=----w3b", 'boundary="x"', "Boundary=x"]))
        ct = rng.choice(["; ", ";", " ; "]).join([mt] + ps)
    else:
        ct = content_type_value(rng) if rng.random() < 0.9 else hostile_any(rng)
    mt = ct.split(";")[0].strip().lower()
    r = rng.random()
    if "multipart" in mt and r < 0.9:
        body = multipart_body(rng, declared_boundary(ct), valid=near)
    elif "json" in mt and r < 0.9:
        body = rng.choice(JSON_BODIES)
    elif r < 0.9:
        body = rng.choice(URLENC_BODIES)
    else:
        body = rng.choice(JSON_BODIES + [multipart_body(rng, b"x")])
    k = rng.random()
    if k < (0.85 if near else 0.55):
        cl = str(len(body))
    elif k < 0.88:
        cl = None
    elif k < 0.92:
        cl = str(max(0, len(body) - rng.choice([1, 2, 5])))
    elif k < 0.96:
        cl = str(len(body) + rng.choice([1, 5, 1000]))
    else:
        cl = rng.choice(["x", "-1", " 7", "1_0", "99999999999999999999", "", "+3", "0", "\xb2", "7 ", "0x10"])
    seq = [rng.choice(BODY_ATTRS)]
    if rng.random() < 0.3:
        seq += [rng.choice(BODY_ATTRS + BODY_SEQ_EXTRA) for _ in range(rng.choice([1, 1, 2]))]
    case = {"k": "b", "seq": seq, "ct": None if rng.random() < 0.03 else hs(ct), "body": body.hex() or "-", "cl": None if cl is None else hs(cl),
            "method": rng.choice(["POST", "POST", "POST", "PUT", "GET", "PATCH", "DELETE"]), "qs": hs(rng.choice(["", "", "a=1", "a=\xff&b=%ff", "x"]))}
    if rng.random() < 0.05:
        case["te"] = hs(rng.choice(["chunked", "Chunked", "gzip", "chunked, gzip"]))
    if rng.random() < 0.05:
        case["maxcl"] = rng.choice([0, 5, 100])
    return case


def unhexb(x):
    return b"" if x in ("-", "") else bytes.fromhex(x)


def body_environ(case):
    e = dict(BASE_ENV)
    body = unhexb(case["body"])
    e["wsgi.input"] = io.BytesIO(body)
    e["wsgi.errors"] = io.StringIO()
    e["REQUEST_METHOD"] = case["method"]
    e["QUERY_STRING"] = unhs(case["qs"])
    if case["ct"] is not None:
        e["CONTENT_TYPE"] = unhs(case["ct"])
    if case["cl"] is not None:
        e["CONTENT_LENGTH"] = unhs(case["cl"])
    if case.get("te") is not None:
        e["HTTP_TRANSFER_ENCODING"] = unhs(case["te"])
    return e


def c_fields(md):
    return out_list(opt(hs, k) + ":" + hs(v) for k, v in md.items(multi=True))


def c_files(md):
    out = []
    for k, f in md.items(multi=True):
        if getattr(f.stream, "closed", False):
            # the application closed the request before (`close` earlier in the sequence): reading a closed
            # upload is its own error, not the parser's
            out.append(opt(hs, k) + ":" + hs(f.filename or "") + ":closed")
            continue
        f.stream.seek(0)
        out.append(opt(hs, k) + ":" + hs(f.filename or "") + ":" + (f.stream.read().hex() or "-"))
    return out_list(out)


def access(r, a):
    """one access of the application; canonical text of what it saw"""
    if a == "form":
        return "V:" + c_fields(r.form)
    if a == "files":
        return "V:" + c_files(r.files)
    if a == "values":
        list(r.values.items(multi=True))
        return "ok"
    if a == "data":
        assert isinstance(r.data, bytes)
        return "ok"
    if a == "get_data":
        assert isinstance(r.get_data(), bytes)
        return "ok"
    if a == "get_data_text":
        assert isinstance(r.get_data(as_text=True), str)
        return "ok"
    if a == "json":
        r.json  # noqa: B018
        return "ok"
    if a == "get_json":
        r.get_json(silent=True)
        return "ok"
    if a == "get_json_force":
        r.get_json(force=True, silent=True)
        return "ok"
    if a == "stream":
        r.stream  # noqa: B018
        return "ok"
    if a == "stream.read":
        r.stream.read()
        return "ok"
    if a == "close":
        r.close()
        return "ok"
    v = getattr(r, a)
    if a == "args":
        list(v.items(multi=True))
    return "ok"


def run_body(case):
    from werkzeug.exceptions import HTTPException
    from werkzeug.wrappers import Request

    class R(Request):
        pass

    if case.get("maxcl") is not None:
        R.max_content_length = case["maxcl"]
    r = R(body_environ(case))
    outs = []
    for a in case["seq"]:
        try:
            outs.append(access(r, a))
        except HTTPException as e:
            outs.append(f"HTTP:{e.code}")
    return ";".join(outs)


def py_content_length(cl, te):
    """sansio.utils.get_content_length, restated (what the limited stream is set up with)"""
    import re

    if te == "chunked" or cl is None:
        return None
    t = cl.strip()
    if re.fullmatch(r"-?\d+", t, re.A):
        return max(0, int(t))
    return 0


def json_outcome(data):
    import json

    try:
        json.loads(data)
        return "ok"
    except Exception as e:  # noqa: BLE001 - the class is the observation
        return "json.JSONDecodeError" if type(e).__name__ == "JSONDecodeError" else type(e).__name__


HTTP_OF = {"RequestEntityTooLarge": 413, "ClientDisconnected": 400, "BadRequest": 400, "UnsupportedMediaType": 415, "SecurityError": 400}

# ---- every compiled regex of the request-parsing modules, timed on its own repetition family ----

REGEX_MODULES = [
    "werkzeug.http", "werkzeug.sansio.http", "werkzeug.sansio.request", "werkzeug.sansio.utils", "werkzeug.sansio.multipart", "werkzeug.wrappers.request",
    "werkzeug.datastructures.auth", "werkzeug.datastructures.accept", "werkzeug.datastructures.structures", "werkzeug.datastructures.headers",
    "werkzeug.datastructures.etag", "werkzeug.datastructures.range", "werkzeug.datastructures.cache_control", "werkzeug.datastructures.csp",
    "werkzeug.urls", "werkzeug._internal", "werkzeug.formparser", "werkzeug.user_agent", "werkzeug.wsgi", "werkzeug.utils",
]


def live_regexes():
    import importlib
    import re

    out = []
    for modname in REGEX_MODULES:
        m = importlib.import_module(modname)
        for n in sorted(vars(m)):
            if isinstance(getattr(m, n), re.Pattern):
                out.append((modname, n))
    return out


def regex_case(rng, regs):
    import importlib

    mod, name = rng.choice(regs)
    rx = getattr(importlib.import_module(mod), name)
    pat = rx.pattern if isinstance(rx.pattern, str) else rx.pattern.decode("latin-1")
    alphabet = sorted({c for c in pat if 0x20 <= ord(c) < 0x7F} | set('a\\" ;=,0'))
    n = rng.randrange(20, 70)
    tok = rng.choice(alphabet) + (rng.choice(alphabet) if rng.random() < 0.5 else "")
    s = "".join(rng.choice(alphabet) for _ in range(rng.randrange(0, 3))) + tok * n + "".join(rng.choice(alphabet + ["\xe9", "\n"]) for _ in range(rng.randrange(0, 3)))
    return {"k": "r", "mod": mod, "name": name, "s": hs(s)}


def run_regex(case):
    import importlib

    rx = getattr(importlib.import_module(case["mod"]), case["name"])
    s = unhs(case["s"])
    if isinstance(rx.pattern, bytes):
        s = s.encode("latin-1", "replace")
    rx.match(s), rx.search(s), rx.fullmatch(s)
    sum(1 for _ in rx.finditer(s))
    rx.sub(s[:0], s)
    return "ok"


class Hostile(Stream):
    name = "hostile"

    corpus = (
        [{"k": "p", "name": n, "s": hs(s)} for n, s in [
            # regressions of repaired findings
            ("authorization", "Basic \xff\xfe"), ("authorization", "Basic \xe9"), ("cookie", "a=\xff"), ("cookie", "a=\xc3\x28"),
            ("accept_mime", "text/html;*=x"), ("accept", "gzip;*=x"), ("accept_lang", "en;*=x"), ("accept_charset", "utf-8;*=x"),
            ("options", "text/html;*=x"), ("dict", "*=x"), ("cc_request", "*=x"), ("authorization", "Digest *=x"), ("www_authenticate", "Digest *=x, a=b"),
            # known findings
            ("accept_mime", "text/html;*0=x"), ("accept", "a;*12=y"), ("date", "1 Jan 99999999999999999999 0:0:0"), ("if_range", "Thu, 01 Jan 2026 00:00:00 +99999999999999999999"),
            # boundary values
            ("options", ""), ("options", ";"), ("options", "a;"), ("options", 'a; k="'), ("options", 'a; k="\\'), ("options", "a; k*=utf-8''"), ("options", "a; k*=''%22"),
            ("options", "a; k*0*=utf-8''%C3; k*1*=%A9"), ("options", "a; k*=x; j*=y"), ("options", "a; k*=foo''b; j*=c"), ("options", 'a; k="%22"'), ("options", "a;k=v;k=w"),
            ("options", "a; k=\xe9"), ("options", 'a; k="\xe9"'), ("options", "a; k*=iso-8859-1''%E9\xe9"), ("options", "a; K=V"), ("options", "a; =v"), ("options", "a; k"),
            ("list", '"'), ("list", '"\\'), ("list", ",,"), ("list", 'a, "b, c", d'), ("dict", "="), ("dict", "a"), ("dict", 'a="'), ("dict", "a*=utf-8''%ff"), ("dict", "a*=UTF-8'x'%C3%A9 z"),
            ("etags", "*"), ("etags", '""'), ("etags", 'W/"", ""'), ("etags", 'W/"a", "b" , c'), ("etags", ","), ("etags", 'W/'), ("etags", '"a'), ("etags", "a\xa0,\xa0b"), ("unquote_etag", '"'), ("unquote_etag", "w/"),
            ("range", "bytes=0-"), ("range", "bytes=-"), ("range", "bytes=--1"), ("range", "bytes=1-0"), ("range", "=,"), ("range", "bytes=0-1,-1,2-3"), ("range", "bytes=\xa00-1"),
            ("range", "bytes=99999999999999999999999999-"), ("range", "bytes=1_0-20"), ("range", "bytes=+1-2"), ("range", "bytes=0-1-2"), ("range", "bytes=-0"), ("range", "bytes=0-0,-0"), ("range", "bytes=-00"), ("range", "bytes=--0"),
            ("content_range", "bytes"), ("content_range", "bytes */*"), ("content_range", "bytes 0-0/0"), ("content_range", "bytes -1-5/10"), ("content_range", "b 1--3/5"), ("content_range", "b x/1"),
            ("content_range", "b */-1"), ("age", "-1"), ("age", "1_0"), ("age", " 5 "), ("age", "+5"), ("age", "99999999999999999999"), ("age", "5.0"), ("age", "\xb2"),
            ("authorization", "Basic"), ("authorization", "Basic ===="), ("authorization", "Basic Zg"), ("authorization", "Basic Z"), ("authorization", "Basic /w=="), ("authorization", "Basic dTpw!!"),
            ("authorization", "Bearer a=b"), ("authorization", "Bearer ab=="), ("authorization", " x"), ("authorization", "Digest realm"), ("www_authenticate", "Basic realm=\"x"),
            ("accept_mime", "text/html;q=abc"), ("accept_mime", "*/html"), ("accept_mime", "text"), ("accept_mime", "a/b;q=-0"), ("accept_mime", "a/b;q=1.00000000000000000001"),
            ("accept_mime", "a/b;q=1.0000000000000002"), ("accept_mime", "a/b;q=\xb2"), ("accept_lang", "*"), ("accept_lang", "-"), ("accept_lang", "_x"), ("accept_charset", "\xe9"), ("accept_charset", "a b"),
            ("cc_request", "max-age=\xb2"), ("cc_request", "max-age= 5 "), ("cc_request", "max-age=1_0"), ("cc_request", "max-stale"), ("cc_response", "private=\"a, b\""), ("csp", ";; a b ;c"),
            ("date", ""), ("date", "0"), ("date", "Thu, 01 Jan 2026 00:00:00 GMT"), ("date", "1 Jan 26 0:0"), ("date", "Jan"), ("date", "1 Jan 2026 25:00"), ("date", "1 Jan 0 0:0"), ("date", "1 Jan 10000 0:0"),
            ("cookie", 'sid="' + "\\" * 30), ("cookie", 'sid="' + "\\" * 90), ("cookie", 'a="' + "\\x" * 40), ("cookie", "a=" + '"' * 60), ("cookie", ";" * 80 + "="),
            ("options", 'a; k="' + "\\" * 60), ("options", 'a; k="' + '\\"' * 50), ("options", "a;" + " " * 90 + "k"), ("options", "a; " + "k*0*=utf-8''%C3;" * 30),
            ("list", '"' + "\\" * 70), ("list", ("a" * 30 + ",") * 30), ("dict", "a=" + '"' * 61), ("etags", '"' * 80), ("etags", 'W/"' + "a" * 80), ("etags", "," * 90),
            ("etags", '"a' + " " * 90), ("etags", ("\xa0" * 40) + ","), ("range", "bytes=" + "0-1," * 60), ("range", "bytes=" + "-" * 90), ("content_range", "b " + " " * 80 + "/"),
            ("date", "Thu, 01 Jan 2026 (" + "(" * 80), ("date", "(" * 100), ("date", "1 Jan 2026 " + "0:" * 60), ("date", "<" * 90), ("if_range", 'W/"' + "\\" * 80),
            ("authorization", "Basic " + "=" * 99), ("authorization", "Basic " + "Zg" * 50 + "="), ("authorization", "Digest " + 'a="' + "\\" * 60), ("accept_mime", "a/b;" + "q=1;" * 60),
            ("accept_mime", ("text/html;level=1," * 40)), ("accept_lang", "-" * 100), ("accept_charset", "utf-8," * 80), ("cc_request", 'max-age="' + "\\" * 50), ("csp", "a " * 100),
            ("age", "9" * 100), ("age", "1_" * 50 + "1"), ("unquote", '"' + '\\"' * 50),
            ("date", "Fri, 31 Dec 9999 23:59:59 -0100"), ("date", "Fri, 31 Dec 9999 23:59:59 -2359"), ("date", "Mon, 01 Jan 0001 00:00:00 +0100"), ("date", "Mon, 01 Jan 0001 00:00:00 +1400"),
            ("date", "Tue, 02 Jan 0002 00:00:00 +2359"), ("date", "Thu, 30 Dec 9998 24:00:00 GMT"), ("date", "31 Apr 2026 00:00:00 GMT"), ("date", "01 13 2026 00:00:00 GMT"),
            ("date", "31 Dec 99 23:59:59 -0100"), ("date", "31 Dec 68 23:59:59 EST"), ("date", "31-Dec-9999 23:59:59 -1400"), ("date", "Fri Dec 31 23:59:59 9999"),
            ("if_range", "Fri, 31 Dec 9999 23:59:59 -0100"), ("if_range", "Mon, 01 Jan 0001 00:00:00 +0100"), ("if_range", '"Fri, 31 Dec 9999 23:59:59 -0100"'),
            ("accept_mime", 'text;profile="https://example.com/schema"'), ("accept_mime", "json;version=1/2"), ("accept_mime", "text/html, x;u=/;q=0.5"), ("accept_mime", "*;p=/"),
            ("accept_mime", 'a;v="b;c/d", text/*'), ("accept", "gzip;v=1/2"), ("accept_lang", "en;v=1/2"), ("accept_charset", "utf-8;v=1/2"),
            # int(): the ASCII separators U+001C..U+001F are white space for str.strip() but not for int()
            # HeaderSet constructor keeps a header given in two spellings once (repair 1a2e0e6, former F08c)
            ("set", "Cookie, cookie, X, COOKIE"), ("set", "\xc0, \xe0, a"), ("set", "a, \"A\", a"), ("set", ", ,"), ("set", "\xdf, SS, ss"),
            # octal escapes of quoted cookie values over the whole space (family of seeded change C07-e2)
            ("cookie", 'a="\\400"'), ("cookie", 'a="\\777"'), ("cookie", 'a="\\377"'), ("cookie", 'a="\\000"'), ("cookie", 'a="\\08"'), ("cookie", 'a="\\4"'), ("cookie", 'a="\\\\"'), ("cookie", 'a="\\'),
            ("cookie", 'a="x\\477y"; b="\\141"'), ("cookie", 'a="\\8\\9\\;"'),
            ("age", "\u0967"), ("age", " \u0661_\u0662\u3000"), ("age", "\uff11\uff10"), ("age", "\u0967_"), ("cc_request", "max-age=\u0967\u0966"), ("cc_response", "s-maxage=\u0e51"),
            ("options", "text/plain; charset*0=utf-; charset*" + "1" * 4301 + "=8"), ("accept_mime", "text/html;level*" + "1" * 4301 + "=1"), ("age", "9" * 4301), ("range", "bytes=0-" + "9" * 4301),
            ("content_range", "bytes 0-1/" + "9" * 4301), ("cc_request", "max-age=" + "9" * 4301), ("accept_mime", "a;q=0." + "9" * 4301), ("date", "Thu, 01 Jan " + "9" * 4301 + " 00:00:00 GMT"),
            ("age", "5\x1f"), ("age", "\x1c5"), ("age", " 5\x1c"), ("age", "5\x85"), ("age", "\xa05\x0b"), ("cc_request", "max-age=5\x1f"), ("cc_request", "max-age=\x1e5"),
            ("date", "1 Jan 2026 0:0 +2500"), ("date", "\xe9"), ("if_range", '"x"'), ("if_range", "W/"), ("cookie", 'a="\\'), ("cookie", ";;="), ("unquote", '"'), ("unquote", '"\\"'),
        ]]
        + [{"k": "a", "attr": a, "env": {v: hs(s)}} for a, v, s in [
            ("args", "QUERY_STRING", "a=\xff"), ("full_path", "QUERY_STRING", "a=\xff"), ("values", "QUERY_STRING", "a=\xff&%ff=%"), ("url", "QUERY_STRING", "a=\xff"),
            ("accept_mimetypes", "HTTP_ACCEPT", "text/html;*=x"), ("accept_charsets", "HTTP_ACCEPT_CHARSET", "utf-8;*=x"), ("accept_encodings", "HTTP_ACCEPT_ENCODING", "gzip;*=x"),
            ("accept_languages", "HTTP_ACCEPT_LANGUAGE", "en;*=x"), ("authorization", "HTTP_AUTHORIZATION", "Basic \xff\xfe"), ("cookies", "HTTP_COOKIE", "a=\xff"), ("cookies", "HTTP_COOKIE", 'a="\\400"'), ("cookies", "HTTP_COOKIE", 'a="\\777"; b="\\377"'), ("cookies", "HTTP_COOKIE", 'a="\\101\\8"'),
            ("url", "HTTP_HOST", "a:b"), ("base_url", "HTTP_HOST", "["), ("host_url", "HTTP_HOST", "a:99999999"), ("url_root", "HTTP_HOST", "[zz]"), ("root_url", "HTTP_HOST", "a]"),
            ("cookies", "HTTP_COOKIE", 'sid="' + "\\" * 60), ("cookies", "HTTP_COOKIE", 'sid="' + "\\x" * 45), ("url", "HTTP_HOST", "[" * 80), ("host", "HTTP_HOST", ":" * 90),
            ("url", "PATH_INFO", "/" + "%" * 90), ("args", "QUERY_STRING", "&" * 60 + "=" * 60), ("args", "QUERY_STRING", "%" * 99), ("form", "CONTENT_TYPE", "multipart/form-data; boundary=" + '"' * 70),
            ("mimetype_params", "CONTENT_TYPE", 'a/b; k="' + "\\" * 70), ("user_agent", "HTTP_USER_AGENT", "(" * 100), ("if_modified_since", "HTTP_IF_MODIFIED_SINCE", "(" * 90),
            ("date", "HTTP_DATE", "Fri, 31 Dec 9999 23:59:59 -0100"), ("if_modified_since", "HTTP_IF_MODIFIED_SINCE", "Fri, 31 Dec 9999 23:59:59 -0100"),
            ("if_unmodified_since", "HTTP_IF_UNMODIFIED_SINCE", "Mon, 01 Jan 0001 00:00:00 +0100"), ("if_range", "HTTP_IF_RANGE", "Fri, 31 Dec 9999 23:59:59 -1400"),
            ("if_range", "HTTP_IF_RANGE", "Mon, 01 Jan 0001 00:00:00 +2359"), ("accept_mimetypes", "HTTP_ACCEPT", 'text;profile="https://example.com/schema"'),
            ("accept_mimetypes", "HTTP_ACCEPT", "json;version=1/2"), ("accept_mimetypes", "HTTP_ACCEPT", "text/html;q=0.1, x;u=/"),
            ("host", "HTTP_HOST", "a:b"), ("url", "HTTP_HOST", "\xe9:1"), ("url", "HTTP_HOST", "a b"), ("url", "PATH_INFO", "/\xff%zz"), ("path", "PATH_INFO", "\xe9"),
            ("accept_mimetypes", "HTTP_ACCEPT", "text/html;*0=x"), ("date", "HTTP_DATE", "1 Jan 99999999999999999999 0:0:0"),
            ("if_modified_since", "HTTP_IF_MODIFIED_SINCE", "1 Jan 2026 99999999999999999999999:0:0"), ("if_range", "HTTP_IF_RANGE", "Thu, 01 Jan 2026 00:00:00 +99999999999999999999"),
            ("content_length", "CONTENT_LENGTH", "9" * 4301), ("max_forwards", "HTTP_MAX_FORWARDS", "1" * 4301), ("mimetype_params", "CONTENT_TYPE", "text/plain; charset*" + "1" * 4301 + "=8"),
            ("content_length", "CONTENT_LENGTH", "-5"), ("content_length", "CONTENT_LENGTH", "\xb2"), ("content_length", "CONTENT_LENGTH", "1_0"), ("max_forwards", "HTTP_MAX_FORWARDS", "x"),
            ("max_forwards", "HTTP_MAX_FORWARDS", " 1_0 "), ("max_forwards", "HTTP_MAX_FORWARDS", "7\x1f"), ("max_forwards", "HTTP_MAX_FORWARDS", "\xb2"), ("max_forwards", "HTTP_MAX_FORWARDS", "\x1c7"), ("max_forwards", "HTTP_MAX_FORWARDS", "-\xa07"), ("content_length", "HTTP_TRANSFER_ENCODING", "chunked"),
            ("content_length", "HTTP_TRANSFER_ENCODING", "Chunked"), ("content_length", "CONTENT_LENGTH", " 12 "), ("content_length", "CONTENT_LENGTH", "+3"), ("form", "CONTENT_TYPE", "multipart/form-data"), ("form", "CONTENT_TYPE", "multipart/form-data; boundary=\xe9"),
            ("form", "CONTENT_TYPE", 'multipart/form-data; boundary="'), ("files", "CONTENT_TYPE", "multipart/form-data; boundary=a=1&b"), ("json", "CONTENT_TYPE", "application/json"),
            ("data", "CONTENT_TYPE", "application/x-www-form-urlencoded; charset=\xff"), ("form", "CONTENT_LENGTH", "99999999999999999999"), ("get_json", "CONTENT_TYPE", "application/json; charset=x"),
            ("mimetype_params", "CONTENT_TYPE", "a/b; k*=utf-8''%ff; *0=z"), ("user_agent", "HTTP_USER_AGENT", "\xff"), ("access_control_request_headers", "HTTP_ACCESS_CONTROL_REQUEST_HEADERS", 'a, "'), ("access_control_request_headers", "HTTP_ACCESS_CONTROL_REQUEST_HEADERS", "X-A, x-a, X-B"),
            ("pragma", "HTTP_PRAGMA", "no-cache, No-Cache"),
        ]]
        + [{"k": "a", "attr": "host", "env": ({} if h is None else {"HTTP_HOST": hs(h)}), "trusted": [hs(t) for t in tr]} for h, tr in [
            ("localhost", ["localhost"]), ("localhost:80", ["localhost"]), ("evil.example", ["localhost"]), ("a.example.com", [".example.com"]), ("example.com", [".example.com"]),
            ("\xe9.example", ["\xe9.example"]), ("a..b", ["a..b"]), ("[::1]:8080", ["[::1]"]), ("[::1", ["[::1"]), ("", ["localhost"]), (None, ["localhost"]), (None, ["localhost:8080"]),
            ("LOCALHOST", ["localhost"]), ("a" * 64 + ".x", [".x"]), ("x:y:z", ["x"]), ("localhost", []),
        ]]

        + [{"k": "b", "seq": seq, "ct": None if ct is None else hs(ct), "body": body.hex() or "-", "cl": hs(str(len(body))) if cl == "=" else (None if cl is None else hs(cl)), "method": "POST", "qs": hs("")}
           for seq, ct, body, cl in [
            # family of seeded change C07-c2: a client-chosen codec name in the Content-Type of a form body
            (["form"], "application/x-www-form-urlencoded; charset=bogus", b"a=b&name=%E4%F6%FC&x=\xe4", "="), (["files"], 'application/x-www-form-urlencoded; charset=""', b"a=b", "="),
            (["values"], "application/x-www-form-urlencoded; charset=hex", b"a=b", "="), (["data"], "application/x-www-form-urlencoded; charset=rot13", b"a=b", "="),
            (["form"], "application/x-www-form-urlencoded; charset*=utf-8''%C3%BF", b"a=b", "="), (["form"], "application/x-www-form-urlencoded; charset=utf-16", b"a=\xff", "="),
            (["form"], "application/x-www-form-urlencoded; charset=\xff", b"a=b", "="), (["form"], "APPLICATION/X-WWW-FORM-URLENCODED; CHARSET=undefined", b"a=b", "="),
            (["form"], "multipart/form-data; boundary=x", b'--x\r\nContent-Disposition: form-data; name="a"\r\nContent-Type: text/plain; charset=bogus\r\n\r\n\xff\r\n--x--', "="),
            (["form"], "multipart/form-data; boundary=x", b'--x\r\nContent-Disposition: form-data; name="a"\r\nContent-Type: text/plain; charset=hex\r\n\r\nv\r\n--x--', "="),
            (["form", "files"], "multipart/form-data; boundary=x; charset=bogus", b'--x\r\nContent-Disposition: form-data; name="f"; filename="a.txt"\r\n\r\nv\r\n--x--', "="),
            (["form"], "multipart/form-data; boundary=\xe9", b"--\xe9--", "="), (["form"], "multipart/form-data", b"--x--", "="), (["files"], 'multipart/form-data; boundary=""', b"", "="),
            (["form"], "multipart/form-data; boundary=x", b"--x\r\nContent-Disposition: form-data\r\n\r\nv\r\n--x--", "="), (["form"], "multipart/form-data; boundary=x", b"--x\r\nX\r\n\r\nv\r\n--x--", "="),
            (["form"], "multipart/form-data; boundary=x", b"--x\r\n\xff: \xfe\r\n\r\nv\r\n--x--", "="), (["form"], "multipart/form-data; boundary=x", b'--x\r\nContent-Disposition: form-data; name="a"\r\n\r\nv', "="),
            (["form"], "multipart/form-data; boundary=" + "x" * 300, b"--" + b"x" * 300 + b"--", "="), (["data"], "multipart/form-data; boundary=x", b"--x--", "1000"),
            (["json"], "application/json", b"{}", "="), (["json"], "application/json; charset=bogus", b"\xff", "="), (["json"], "text/plain", b"{}", "="), (["get_json"], "application/json", b"[1,]", "="),
            (["json"], "application/ld+json", b"[" * 60, "="), (["json"], "application/json", b"\xff\xfe{\x00}\x00", "="), (["get_json", "json"], "application/json", b"nul", "="),
            (["form"], "application/x-www-form-urlencoded", b"a=1", None), (["form"], "application/x-www-form-urlencoded", b"a=1", "x"), (["form"], "application/x-www-form-urlencoded", b"a=1", "99999999999999999999"),
            (["form"], "application/x-www-form-urlencoded", b"a=1", "1"), (["data", "form"], "application/x-www-form-urlencoded", b"a=1", "="), (["get_data", "form", "data"], "application/x-www-form-urlencoded", b"a=1&b=\xff", "="),
            (["stream.read", "form"], "application/x-www-form-urlencoded", b"a=1", "="), (["form"], None, b"a=1", "="), (["form"], "", b"a=1", "="), (["values", "files", "close"], "multipart/form-data; boundary=x", b"--x--", "="),
            (["get_data_text"], "text/plain; charset=bogus", b"\xff", "="),
            (["form"], "multipart/form-data; boundary=x", b'--x\r\nContent-Disposition: form-data\r\n\r\n1\r\n--x\r\nContent-Disposition: form-data; name="a"\r\n\r\n2\r\n--x\r\nContent-Disposition: form-data\r\n\r\n3\r\n--x--', "="),
            (["files"], "multipart/form-data; boundary=x", b'--x\r\nContent-Disposition: form-data; name="f"; filename="1"\r\n\r\n1\r\n--x\r\nContent-Disposition: form-data; name="g"; filename="2"\r\n\r\n2\r\n--x\r\nContent-Disposition: form-data; name="f"; filename="3"\r\n\r\n3\r\n--x--', "="), (["form"], "application/x-www-form-urlencoded", b"a=" + b"x" * 600000, "="),
        ]]
    )

    def cases(self, rng, tier):
        attrs = request_attrs()
        hot_attrs = sorted(ATTR_VAR)
        regs = live_regexes()
        while True:
            r = rng.random()
            if r < 0.2:
                yield body_case(rng)
            elif r < 0.26:
                yield regex_case(rng, regs)
            elif r < 0.62:
                name = rng.choice(PARSERS)
                yield {"k": "p", "name": name, "s": hs(hostile_for(name, rng))}
            else:
                attr = rng.choice(hot_attrs) if rng.random() < 0.7 else rng.choice(attrs)
                env = {}
                if attr in ATTR_VAR and rng.random() < 0.95:
                    env[ATTR_VAR[attr]] = hs(hostile_for(attr, rng))
                for _ in range(rng.choice([0, 0, 1, 2, 4])):
                    env[rng.choice(CLIENT_VARS)] = hs(hostile(rng))
                case = {"k": "a", "attr": attr, "env": env}
                if attr == "host" and rng.random() < 0.5:
                    case["trusted"] = [hs(t) for t in rng.choice(TRUSTED_SETS)]
                yield case

    #: after the first hang nothing else is evaluated (the remaining cases are marked skipped and
    #: ignored by oracle and model comparison): a non-terminating change must not turn the check
    #: itself into a hang, and the hanging input is the replay
    def real(self, case):
        from werkzeug.exceptions import HTTPException

        state = self.__dict__.setdefault("_hang_state", {"hung": False, "skipped": set()})
        if state["hung"]:
            state["skipped"].add(json.dumps(case, sort_keys=True))
            return "SKIPPED:after-hang"
        try:
            if case["k"] == "p":
                return timed(lambda: run_parser(case["name"], unhs(case["s"])))
            if case["k"] == "b":
                return timed(lambda: run_body(case))
            if case["k"] == "r":
                return timed(lambda: run_regex(case))
            return timed(lambda: run_attr(case["attr"], case["env"], case.get("trusted")))
        except HTTPException as e:
            return f"HTTP:{e.code}"
        except Timeout:
            state["hung"] = True
            return "EXC:Timeout"

    def model_line(self, case):
        st = self.__dict__.get("_hang_state")
        if st and json.dumps(case, sort_keys=True) in st["skipped"]:
            return None
        if case["k"] == "p":
            cmd = PARSER_CMD.get(case["name"])
            if has_huge_number(unhs(case["s"])):
                return None  # the model's integers are unbounded (CPython refuses > 4300 digits with ValueError)
            return None if cmd is None else line(cmd, case["s"])
        if case["k"] == "a" and any(has_huge_number(unhs(v)) for v in case["env"].values()):
            return None
        if case["k"] == "r":
            return None
        if case["k"] == "b":
            return self.body_line(case)
        env = case["env"]
        attr = case["attr"]
        import re

        if attr in ACCEPT_CLS:
            cls, var, offers = ACCEPT_CLS[attr]
            hdr = env.get(var, "~")
            if hdr != "~" and re.search(r"\d{15}", unhs(hdr)):
                return None  # float vs exact decimal: qualities beyond 15 significant digits are outside the model
            aliases = "[]"
            if cls == "charset":
                import codecs

                from werkzeug.http import parse_accept_header

                names = set(offers)
                if hdr != "~":
                    try:
                        names |= {v for v, _ in parse_accept_header(unhs(hdr))}
                    except Exception:  # noqa: BLE001
                        return None
                al = []
                for n in sorted(names):
                    try:
                        al.append(hs(n) + ":" + hs(codecs.lookup(n).name))
                    except (LookupError, ValueError, UnicodeError):
                        pass
                aliases = ",".join(al) or "[]"
            return line("req.accept", cls, hdr, out_list(hs(o) for o in offers), aliases)
        if attr == "args":
            return line("req.args", env.get("QUERY_STRING", "-"))
        if attr == "cookies":
            return line("req.cookies", env.get("HTTP_COOKIE", "~"))
        if attr in ("mimetype", "mimetype_params", "is_json"):
            return line("req.mimetype", env.get("CONTENT_TYPE", hs("application/x-www-form-urlencoded")))
        if attr == "host":
            trusted = case.get("trusted")
            host = env.get("HTTP_HOST", "~")
            eff = unhs(host) if host != "~" else "localhost:8080"
            if eff.endswith(":80"):
                eff = eff[:-3]
            need = [strip_port(eff)] + [strip_port(t[1:] if t.startswith(".") else t) for t in map(unhs, trusted or [])]
            return line("req.host", hs("http"), host, hs("localhost"), 8080, "~" if trusted is None else out_list(trusted), idna_table(need))
        if attr == "if_range" and "HTTP_IF_RANGE" in env:
            from werkzeug.http import parse_date

            try:
                d = parse_date(unhs(env["HTTP_IF_RANGE"]))
            except Exception:  # noqa: BLE001
                return None
            if d is not None and dt_seconds(d) < 0:
                return None
            return line("req.ifrange", env["HTTP_IF_RANGE"], "~" if d is None else dt_seconds(d))
        if case["attr"] == "max_forwards":
            return line("attr.maxfwd", env.get("HTTP_MAX_FORWARDS", "~"))
        if case["attr"] == "content_length":
            return line("attr.clen", env.get("CONTENT_LENGTH", hs(str(len(BODY)))), env.get("HTTP_TRANSFER_ENCODING", "~"))
        if case["attr"] == "access_control_request_headers":
            return line("attr.acrh", env.get("HTTP_ACCESS_CONTROL_REQUEST_HEADERS", "~"))
        pa = ATTR_PARSER.get(case["attr"])
        if pa is not None and pa[0] in env:
            return line(PARSER_CMD[pa[1]], env[pa[0]])
        return None


    @staticmethod
    def body_line(case):
        """the first access of a body attribute on a fresh request has a model counterpart"""
        if len(case["seq"]) != 1 or case["seq"][0] not in BODY_ATTRS:
            return None
        attr = case["seq"][0]
        body = unhexb(case["body"])
        cl = None if case["cl"] is None else unhs(case["cl"])
        te = None if case.get("te") is None else unhs(case["te"])
        n = py_content_length(cl, te)
        delivered, disc = (b"", False) if n is None else (body[:n], n > len(body))
        ct = None if case["ct"] is None else unhs(case["ct"])
        if ct is not None and "multipart/form-data" in ct.lower() and (b"*" in body or len(delivered) > 65536):
            return None  # RFC 2231 part parameters are outside C01's option-header model
        if any(ord(c) > 0xFF for c in unhs(case["qs"])):
            return None
        jl = json_outcome(delivered) if attr in ("json", "get_json") else "ok"
        return line("req.body", attr, hs(case["method"]), opt(hs, ct), opt(hs, cl), opt(hs, te), case["qs"], delivered.hex() or "-", b01(disc), jl,
                    "~" if case.get("maxcl") is None else case["maxcl"])

    def canon_model(self, case, out):
        if case["k"] == "b":
            if out.startswith("EXC:") and out[4:] in HTTP_OF:
                return f"HTTP:{HTTP_OF[out[4:]]}"
            if out.startswith(("EXC:", "BAD", "UNKNOWN")) or out == "ok":
                return out
            fields, _, files = out.partition("|")
            return "V:" + group_first(fields if case["seq"][0] == "form" else files)
        if case["k"] == "p":
            name = case["name"]
        elif case["attr"] in ("max_forwards", "content_length", "access_control_request_headers", "if_range"):
            return out if out.startswith("EXC:") else "V:" + out
        elif case["attr"] in ("args", "cookies"):
            return out if out.startswith(("EXC:", "BAD", "UNKNOWN")) else "V:" + group_pairs(out)
        elif case["attr"] == "host":
            if out == "EXC:SecurityError":
                return "HTTP:400"
            return out if out.startswith(("EXC:", "BAD", "UNKNOWN")) else "V:" + out
        elif case["attr"] in ("mimetype", "mimetype_params", "is_json"):
            if out.startswith(("EXC:", "BAD", "UNKNOWN")):
                return out
            mt, ps, js = out.split("|")
            return "V:" + {"mimetype": mt, "mimetype_params": ps, "is_json": js}[case["attr"]]
        elif case["attr"] in ACCEPT_CLS:
            if out.startswith(("EXC:", "BAD", "UNKNOWN")):
                return out
            items, cont, qual, best = out.split("|")

            def q(x):
                n, sc = x.split("/")
                return fq(int(n) / 10 ** int(sc))

            it = "[]" if items == "[]" else ",".join(p.split("=")[0] + ":" + q(p.split("=")[1]) for p in items.split(","))
            ql = "[]" if qual == "[]" else ",".join(q(x) for x in qual.split(","))
            return "V:" + it + "|" + cont + "|" + ql + "|" + best
        else:
            name = ATTR_PARSER[case["attr"]][1]
        if out.startswith("EXC:") or out in ("BAD-ARGS",) or out.startswith("UNKNOWN"):
            return out
        pre = "" if case["k"] == "p" else "V:"
        if name.startswith("accept"):
            if out == "[]":
                return pre + "[]"
            items = []
            for it in out.split(","):
                v, q = it.split(":")
                items.append(v + ":" + repr(float(unhs(q)) + 0.0))
            return pre + ",".join(sorted(items))
        if name == "etags":
            parts = dict(x.split("=", 1) for x in out.split(";"))
            dec = lambda s: [] if s == "[]" else [None if x == "~" else unhs(x) for x in s.split(",")]  # noqa: E731
            if parts["*"] == "1":
                return pre + "S=[];W=[];*=1"
            return pre + "S=" + c_optlist(dec(parts["S"])) + ";W=" + c_optlist(dec(parts["W"])) + ";*=0"
        if name in ("cc_request", "cc_response"):
            # the typed getters are evaluated by the model too: one driver call per property would
            # be a separate line; here the dict is compared and the typed values are recomputed from it
            from werkzeug import datastructures as ds

            cls = ds.RequestCacheControl if name == "cc_request" else ds.ResponseCacheControl
            if out == "[]":
                d = {}
            else:
                d = {}
                for it in out.split(","):
                    k, v = it.split(":")
                    d[unhs(k)] = None if v == "~" else unhs(v)
            typed = [c_ccval(model_cc_get(d, key, empty, ty)) for _, key, empty, ty in cc_table(cls)]
            return pre + out + "|" + ",".join(typed)
        return pre + out

    # ---- the property ----

    def oracle(self, case, real_out):
        if real_out.startswith("EXC:Timeout"):
            return f"{self.label(case)} did not return within {TIME_LIMIT_S}s"
        if real_out.startswith("EXC:"):
            return f"{self.label(case)} raised {real_out[4:]}"
        if real_out == "NAIVE":
            return "parse_date returned a naive datetime"
        return None

    @staticmethod
    def label(case):
        if case["k"] == "b":
            return "Request." + " -> ".join(case["seq"]) + f" (Content-Type {None if case['ct'] is None else unhs(case['ct'])!r})"
        if case["k"] == "r":
            return f"regex {case['mod']}.{case['name']}"
        return f"parser {case['name']}" if case["k"] == "p" else f"Request.{case['attr']}"

    def finding_key(self, case, what):
        """F07d, narrowly: one of the five URL attributes; the class is exactly ValueError; it is
        raised inside urllib.parse (urlsplit / .port / .hostname - the call site of the finding);
        urlsplit itself rejects `scheme://<the host get_host computed>/` with ValueError; and the same
        request with a well-formed Host does not raise. Anything else on these attributes - another
        class, another call site, a Host urlsplit accepts - stays a violation."""
        if not (case["k"] == "a" and case["attr"] in URL_ATTRS and "HTTP_HOST" in case["env"] and what == f"Request.{case['attr']} raised ValueError"):
            return None
        import traceback
        from urllib.parse import urlsplit

        from werkzeug.wrappers import Request

        try:
            run_attr(case["attr"], case["env"], case.get("trusted"))
            return None  # not reproducible
        except ValueError as e:
            if type(e) is not ValueError:
                return None
            # call site: the frame right below werkzeug.urls.uri_to_iri is urllib.parse (urlsplit itself,
            # or the .port / .hostname accessors of its result)
            frames = traceback.extract_tb(e.__traceback__)
            at = [i for i, f in enumerate(frames) if f.name == "uri_to_iri" and f.filename.replace("\\", "/").endswith("werkzeug/urls.py")]
            if not at or at[-1] + 1 >= len(frames) or not frames[at[-1] + 1].filename.replace("\\", "/").endswith("urllib/parse.py"):
                return None
        except Exception:  # noqa: BLE001
            return None
        try:
            host = Request(mk_environ(case["env"])).host
        except Exception:  # noqa: BLE001
            return None
        try:
            parts = urlsplit(f"http://{host}/")
            parts.hostname, parts.port  # noqa: B018
            return None  # urlsplit accepts this host: not the known family
        except ValueError:
            pass
        env = dict(case["env"])
        env["HTTP_HOST"] = hs("localhost")
        try:
            run_attr(case["attr"], env, case.get("trusted"))
        except Exception:  # noqa: BLE001
            return None
        return "F07d"

    def nontrivial(self, case, real_out):
        return real_out not in ("[]", "~", "ok:NoneType", "-|[]", "V:[]", "V:~")

    def bucket(self, case, real_out):
        tag = real_out if real_out.startswith(("EXC", "HTTP")) else "value"
        if case["k"] == "b":
            return "b:" + case["seq"][0] + ":" + ("HTTP" if "HTTP:" in real_out else tag)
        if case["k"] == "r":
            return "r:" + case["name"] + ":" + tag
        return (f"p:{case['name']}" if case["k"] == "p" else "a:" + ("hot" if case["attr"] in ATTR_VAR else "other")) + ":" + tag

    def mutate(self, case, rng):
        for _ in range(30):
            if case["k"] == "b":
                yield body_case(rng)
            elif case["k"] == "r":
                yield regex_case(rng, [(case["mod"], case["name"])])
            elif case["k"] == "p":
                yield {"k": "p", "name": case["name"], "s": hs(hostile(rng))}
            else:
                env = dict(case["env"])
                v = ATTR_VAR.get(case["attr"], rng.choice(CLIENT_VARS))
                env[v] = hs(hostile(rng))
                yield {"k": "a", "attr": case["attr"], "env": env}


def model_cc_get(d, key, empty, ty):
    """Model.Http.getCacheValue transcribed (the Lean function is exercised by C06's stream; here it
    only turns the model's dict into the typed tuple so that the whole answer can be compared)"""
    if ty is bool:
        return key in d
    if key not in d:
        return None
    v = d[key]
    if v is None:
        return empty
    if ty is int:
        import unicodedata

        # Model.Http.pyInt: every Unicode decimal digit becomes its ASCII digit, int()'s white space
        # (str.isspace without U+001C..U+001F) is stripped, optional sign, digits with single underscores
        t = "".join(str(unicodedata.decimal(c)) if c.isdecimal() else c for c in v)
        sp = lambda c: c.isspace() and not ("\x1c" <= c <= "\x1f")  # noqa: E731
        while t and sp(t[0]):
            t = t[1:]
        while t and sp(t[-1]):
            t = t[:-1]
        sign = 1
        if t[:1] in ("+", "-"):
            sign = -1 if t[0] == "-" else 1
            t = t[1:]
        parts = t.split("_")
        if not t or any((not p) or not all("0" <= c <= "9" for c in p) for p in parts):
            return None
        return sign * int("".join(parts))
    return v


CHECK = Check(
    prop="C07",
    gen=["Http", "RequestGlue", "RequestSurface", "Regexes", "DateExc", "Cookie", "Urlencode", "Containers", "Multipart", "PyFns_Http", "PyFns_Internal", "PyFns_HttpDict", "PyFns_HttpOptions", "PyFns_Etag", "PyFns_Range", "PyFns_Response", "CacheSetTable", "Response", "ResponseProps", "UrlTables", "Views", "PyFns_FormGlue", "PyFns_Cookie"],
    modules=["WzVerif.Props.C07", "WzVerif.Props.C07T", "WzVerif.Props.C07T2", "WzVerif.Props.C13T"],
    streams=[Hostile()],
    assumptions=[
        "round 3 (Props/C07T): the totality theorems for parse_list_header, parse_set_header, parse_dict_header, parse_cache_control_header, parse_options_header, parse_content_range_header, parse_age, parse_csp_header, parse_etags (texts without LF) and is_resource_modified are restated on the definitions regenerated from the source by tools/py2lean.py (Gen/PyFns_*.lean): the translation keeps every IndexError / ValueError / KeyError / TypeError the Python code could raise as an explicit error arm, and the theorems say no such arm is reachable; modelled, not verified on that route: the regexes (hand models of C06), urllib's parse_http_list / unquote, int(), the CPython string primitives of Util/PyPrelude.lean (validated by stream prelude-kernels in the checks that run it)",
        "parse_date (email.utils) is a parameter of the attribute theorems; its exception behaviour is pinned by a regenerated table (Gen/DateExc: classes raised over ~41 000 boundary date texts, all caught by the classes read from parse_date's except clause) and watched by the oracle; Request.url & co go through urllib.parse.urlsplit (known finding F07d); cookies / args / Accept / host are C13 / C02 / C17 / C20's models composed in Model/RequestAttrs.lean",
        "body attributes (form, files, values, data, get_data, json, get_json, stream): the dispatch FormDataParser.parse -> _parse_multipart / _parse_urlencoded, the `except ValueError` fallback, the boundary encoding, strict body decoding and get_json's error translation are modelled (Model/RequestBody.lean) and proved to let only HTTP exceptions out, under two explicit hypotheses: MultiPartParser.parse raises only ValueError subclasses / HTTP exceptions (C01/C02/C10's model is used for it in the driver) and json.loads raises only ValueError subclasses (CPython raises RecursionError on a body of a few thousand '[' - a body, outside this property's quantifier; the stream keeps JSON nesting below 100)",
        "what the limited input stream (C09) delivers is computed by the harness from Content-Length (first n bytes; ClientDisconnected at the end when fewer are available; nothing when the length is absent or Transfer-Encoding is chunked) and handed to the model as a `Wire`",
        "the glue facts the body model relies on (dispatch mimetypes, caught classes, codec call sites, parse_qsl arguments, get_part_charset's safe list) and the subclass relation of the exception vocabulary are regenerated from the AST / the live classes (Gen/RequestGlue) and pinned by `request_glue_pinned` / `exception_vocabulary`",
        "coverage: Gen/RequestSurface lists every public name of a live Request object and every public function of werkzeug.http / sansio.http / sansio.utils; `request_surface_covered` / `http_functions_covered` are decide obligations that each is modelled, raw, or explicitly excluded; the stream enumerates the same live lists",
        "the model's totality theorems quantify over all List Char; the correspondence validates the model on latin-1 text without control characters (the property's quantifier)",
        "known finding F07d (Host -> urlsplit ValueError) is recognised narrowly: URL attribute, class exactly ValueError, raised in urllib.parse directly below werkzeug.urls.uri_to_iri, urlsplit itself rejects the computed host, and the same request with Host: localhost does not raise; F07a/b/c/e/f/g are repaired and kept as corpus regressions",
        "a hang is detected by a per-case interval timer (3 s); the generator has a repetition family (prefix + one token x 20..100 + suffix) for super-linear scanners / regexes, and every module-level compiled regex of the request-parsing modules (live enumeration, Gen/Regexes) is timed directly on repetitions over its own alphabet; `regexes_examined` is the decide obligation that none has a nested unbounded quantifier or an alternation under one unless examined; after the first hang the stream stops evaluating",
    ],
    trusted_extra=["CPython str / re / urllib / base64 / int() semantics for the modelled primitives (validated by the stream, not verified)"],
    quick_budget=15000,
    thorough_budget=150000,
)

MANIFEST = {
    "level_text": "Machine-checked Lean 4 theorems `Safe (p s)` for all text s (no exception of any class escapes) for the exception-aware models of parse_dict_header, parse_options_header, parse_range_header, parse_content_range_header, parse_age, parse_cache_control_header + typed accessors, Authorization / WWWAuthenticate.from_header and parse_accept_header, plus termination of the two while-loops; one theorem over 24 header-derived Request attributes and one over the 9 body attributes (form, files, values, data, get_data, json, get_json, stream, want_form_data_parsed: value or HTTP exception, the body parsers as hypotheses); decide obligations over regenerated facts (request surface coverage, form glue, exception subclass table, regex shapes, email.utils exception classes); the models are tied to the code by a differential stream of hostile latin-1 header text and hostile Content-Type x body products, and the oracle (value or HTTPException, within a time bound) runs on every listed parser, every public Request attribute and every compiled regex of the real code.",
    "level_note": "Trusted: Lean kernel; extract.py; harness; CPython str/re/urllib/base64/int for modelled primitives. parse_date (email.utils), json.loads and the multipart parser are parameters with recorded hypotheses; urlsplit-based URL attributes are oracle-only. Known finding F07d.",
    "technique": "Lean 4 proof (exception-aware model, invariants for unguarded indexing, fuel-irrelevance for loops) + model/code correspondence + hostile-input oracle",
    "design_ref": "DESIGN.md section 4, C07",
}
