import WzVerif.Util.Bytes
import WzVerif.Util.Py
import WzVerif.Gen.Cookie
import WzVerif.Model.Cookie
import WzVerif.Props.C13
