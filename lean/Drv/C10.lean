import WzVerif.Driver.Loop
import WzVerif.Driver.C10
def main : IO Unit := Wz.Driver.run Wz.Driver.C10.handle
