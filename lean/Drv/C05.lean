import WzVerif.Driver.Loop
import WzVerif.Driver.C05
def main : IO Unit := Wz.Driver.run Wz.Driver.C05.handle
