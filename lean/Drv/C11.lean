import WzVerif.Driver.Loop
import WzVerif.Driver.C11
def main : IO Unit := Wz.Driver.run Wz.Driver.C11.handle
