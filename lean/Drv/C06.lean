import WzVerif.Driver.Loop
import WzVerif.Driver.C06
def main : IO Unit := Wz.Driver.run Wz.Driver.C06.handle
