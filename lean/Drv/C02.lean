import WzVerif.Driver.Loop
import WzVerif.Driver.C02
def main : IO Unit := Wz.Driver.run Wz.Driver.C02.handle
