import WzVerif.Driver.Loop
import WzVerif.Driver.C14
def main : IO Unit := Wz.Driver.run Wz.Driver.C14.handle
