import WzVerif.Driver.Loop
import WzVerif.Driver.C12
def main : IO Unit := Wz.Driver.run Wz.Driver.C12.handle
