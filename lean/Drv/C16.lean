import WzVerif.Driver.Loop
import WzVerif.Driver.C16
def main : IO Unit := Wz.Driver.run Wz.Driver.C16.handle
