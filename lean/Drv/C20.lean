import WzVerif.Driver.Loop
import WzVerif.Driver.C20
def main : IO Unit := Wz.Driver.run Wz.Driver.C20.handle
