import WzVerif.Driver.Loop
import WzVerif.Driver.C03
def main : IO Unit := Wz.Driver.run Wz.Driver.C03.handle
