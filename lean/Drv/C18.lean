import WzVerif.Driver.Loop
import WzVerif.Driver.C18
def main : IO Unit := Wz.Driver.run Wz.Driver.C18.handle
