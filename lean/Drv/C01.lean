import WzVerif.Driver.Loop
import WzVerif.Driver.C01
def main : IO Unit := Wz.Driver.run Wz.Driver.C01.handle
