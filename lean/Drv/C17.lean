import WzVerif.Driver.Loop
import WzVerif.Driver.C17
def main : IO Unit := Wz.Driver.run Wz.Driver.C17.handle
