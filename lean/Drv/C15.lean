import WzVerif.Driver.Loop
import WzVerif.Driver.C15
def main : IO Unit := Wz.Driver.run Wz.Driver.C15.handle
