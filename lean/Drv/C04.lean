import WzVerif.Driver.Loop
import WzVerif.Driver.C04
def main : IO Unit := Wz.Driver.run Wz.Driver.C04.handle
