import WzVerif.Driver.Loop
import WzVerif.Driver.C07
def main : IO Unit := Wz.Driver.run Wz.Driver.C07.handle
