import WzVerif.Driver.Loop
import WzVerif.Driver.C08
def main : IO Unit := Wz.Driver.run Wz.Driver.C08.handle
