import WzVerif.Driver.Loop
import WzVerif.Driver.C13
def main : IO Unit := Wz.Driver.run Wz.Driver.C13.handle
