import WzVerif.Driver.Loop
import WzVerif.Driver.C19
def main : IO Unit := Wz.Driver.run Wz.Driver.C19.handle
