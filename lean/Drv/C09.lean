import WzVerif.Driver.Loop
import WzVerif.Driver.C09
def main : IO Unit := Wz.Driver.run Wz.Driver.C09.handle
