/-
C05T — `Response._clean_status` (sansio/response.py) and `Response.get_app_iter`
(wrappers/response.py) *as regenerated from the source* by `tools/py2lean.py`
(`Gen/PyFns_Response.lean`, rewritten on every check run) against C05's hand model
`Model/Response.lean` (`cleanStatus`, `codeLine`, `bodyless`, `getAppIter`). `HTTP_STATUS_CODES` is
the regenerated table `Gen.Response.statusCodes` (`phraseOf`); `int(code_str)` is C06's hand model
`Http.pyInt` on both sides (the C05 model read the code with the narrower `Views.CC.pyInt` before
this route showed the difference on `"2_00"` and `"200\t OK"`: `clean_status_str_underscore` / `_tab`).
Property theorems only: the proofs live in Lemmas/PyFnsEq_Response.lean.
-/
import WzVerif.Gen.PyFns_Response
import WzVerif.Lemmas.PyFnsEq_Response
namespace Wz.Props.C05T
open Wz Wz.Pre Wz.Gen.PyFns_Response Wz.PyFnsEq.Response

/-- `Response.get_app_iter(environ)`, as translated from the current source of
`werkzeug/wrappers/response.py` (the test `REQUEST_METHOD == "HEAD" or 100 <= status < 200 or status in
(204, 304)`, then `direct_passthrough`), chooses the iterable exactly as the model's `bodyless` and the
branch order of `Resp.getAppIter` say: code 0 (`ClosingIterator((), self.close)` - no body) for a HEAD
request and for a 1xx / 204 / 304 response, otherwise code 1 (`self.response` itself) under
`direct_passthrough`, otherwise code 2 (`ClosingIterator(self.iter_encoded(), self.close)`); for every
method text, every status code (any int) and both values of `direct_passthrough`. -/
theorem get_app_iter_eq (method : List Char) (status : Int) (dp : Bool) :
    get_app_iter method status dp ()
      = if Resp.bodyless status method then 0 else if dp then 1 else 2 := by
  apply PyFnsEq.Response.get_app_iter_eq <;> assumption

/-- `Response._clean_status(value)` for an `int` (or `HTTPStatus`), as translated from the current
source of `werkzeug/sansio/response.py` (`int(value)`, `HTTP_STATUS_CODES[status_code].upper()` with
`except KeyError` giving `UNKNOWN`), never raises and returns exactly the model's
`cleanStatus (.code i)` - the line `"<code> <PHRASE>"` with the phrase of the regenerated status table,
`"<code> UNKNOWN"` for a code the table lacks (negative ones included), and the code - for every int. -/
theorem clean_status_int_eq (i : Int) :
    clean_status_int phraseOf i = Resp.cleanStatus (.code i) := by
  apply PyFnsEq.Response.clean_status_int_eq <;> assumption

/-- `Response._clean_status(value)` for a `str`, as translated from the current source (`strip`, the
empty test with its ValueError, `partition(" ")`, `int(code_str)` with `except ValueError` giving
`("0 " + value, 0)`, `if sep`, the `HTTP_STATUS_CODES` lookup with `except KeyError`), equals the
model's `cleanStatus (.text s)` **for every text**: same ValueError for a blank value, same
`(status line, code)` otherwise. (`int()` is C06's hand model `Http.pyInt` on both sides.) -/
theorem clean_status_str_eq (s : Str) :
    clean_status_str phraseOf s = Resp.cleanStatus (.text s) := by
  apply PyFnsEq.Response.clean_status_str_eq <;> assumption

/-- `int()`'s underscore grammar: `("200 OK", 200)` -/
theorem clean_status_str_underscore :
    clean_status_str phraseOf "2_00".toList = .ok ("200 OK".toList, 200) ∧
    Resp.cleanStatus (.text "2_00".toList) = .ok ("200 OK".toList, 200) := by
  apply PyFnsEq.Response.clean_status_str_underscore <;> assumption

/-- `int()`'s white-space stripping: `("200\t OK", 200)` -/
theorem clean_status_str_tab :
    clean_status_str phraseOf "200\t OK".toList = .ok ("200\t OK".toList, 200) ∧
    Resp.cleanStatus (.text "200\t OK".toList) = .ok ("200\t OK".toList, 200) := by
  apply PyFnsEq.Response.clean_status_str_tab <;> assumption

/-- U+001F is white space for `str.strip()` but not for `int()`: `("0 200\x1f X", 0)` -/
theorem clean_status_str_unit_separator :
    clean_status_str phraseOf "200\x1f X".toList = .ok ("0 200\x1f X".toList, 0) ∧
    Resp.cleanStatus (.text "200\x1f X".toList) = .ok ("0 200\x1f X".toList, 0) := by
  apply PyFnsEq.Response.clean_status_str_unit_separator <;> assumption

/-- The code of the translated `get_app_iter` against the model's `Resp.getAppIter` (chunks the server
receives, close actions of the iterable): the code is 0, 1 or 2; with code 0 the server gets no chunk
and closing runs `Response.close`; with code 1 or 2 it gets the encoded body items; with code 2
closing runs `Response.close`; with code 1 (the bare `self.response`) closing runs only the wrapped
iterable's own `close` - `Response.close` minus the `call_on_close` callbacks. -/
theorem get_app_iter_model (r : Resp.R) (method : Str) :
    let code := get_app_iter method r.status r.directPassthrough ()
    (code = 0 ∨ code = 1 ∨ code = 2) ∧
    (code = 0 → Resp.getAppIter r method = ⟨[], Resp.respClose r⟩) ∧
    (code ≠ 0 → (Resp.getAppIter r method).chunks = r.body.items.map Resp.Item.encode) ∧
    (code = 1 → Resp.respClose r = (Resp.getAppIter r method).closeActs ++ r.onClose) ∧
    (code = 2 → (Resp.getAppIter r method).closeActs = Resp.respClose r) := by
  apply PyFnsEq.Response.get_app_iter_model <;> assumption


end Wz.Props.C05T
