/-
C01 — multipart decoding does not depend on how the body is chunked.
Property theorems only (helper lemmas live in Lemmas/Multipart.lean).

Model: Model/Multipart.lean (`MultipartDecoder`, `MultiPartParser.parse`). `step`/`nextEvent` in the
states DATA and DATA_START are, by definition, `dataStep` (one `_parse_data` call); `dataLoop` is the
`next_event` loop while the decoder stays in those states and `dataPhase` runs it over a list of
chunks. `dataSpec` is the reference (single-shot) semantics: payload = what precedes the leftmost
match of `boundary_re` in the whole remaining stream.
-/
import WzVerif.Lemmas.Multipart
import WzVerif.Lemmas.MultipartChunks
namespace Wz.Props.C01
open Wz Wz.Multipart

/-! ### the model is of the regexes the class compiles -/

/-- The five patterns compiled by `werkzeug.sansio.multipart` (for boundary `B`), their flags and
`SEARCH_EXTRA_LENGTH` are exactly the ones the hand-written matchers `searchDelim`, `searchBlank`,
`lbLen`, `foldContinuations` were written for (regenerated from the live module on every run). -/
theorem regex_sources_as_modelled :
    Gen.Multipart.preamblePattern =
      str "(?:\r\n|\n|\r)?--B(--[^\\S\\n\\r]*(?:\r\n|\n|\r)?|[^\\S\\n\\r]*(?:\r\n|\n|\r))" ∧
    Gen.Multipart.boundaryPattern =
      str "(?:\r\n|\n|\r)--B(--[^\\S\\n\\r]*(?:\r\n|\n|\r)?|[^\\S\\n\\r]*(?:\r\n|\n|\r))" ∧
    Gen.Multipart.blankLinePattern = str "(?:\r\n\r\n|\r\r|\n\n)" ∧
    Gen.Multipart.lineBreakPattern = str "(?:\r\n|\n|\r)" ∧
    Gen.Multipart.headerContinuationPattern = str "(?:\r\n|\n|\r)[ \t]" ∧
    Gen.Multipart.escapeVerbatim = true ∧
    Gen.Multipart.patternFlags = [8, 8, 8, 8, 8] ∧
    Gen.Multipart.searchExtraLength = 8 := by
  decide +kernel

/-- The horizontal-whitespace class `[^\S\n\r]` of the live compiled regexes is {TAB, VT, FF, SP} in
all four places it occurs; in particular it contains neither CR, LF nor `-` (what every proof below
uses). -/
theorem hws_class :
    Gen.Multipart.hwsConsistent = true ∧
    ∀ n, n < 256 → isHws (UInt8.ofNat n) = (n == 9 || n == 11 || n == 12 || n == 32) := by
  refine ⟨by decide, ?_⟩
  decide +kernel

/-! ### in DATA / DATA_START `next_event` is `dataStep` -/

/-- In the states DATA and DATA_START the model of `next_event` is one `_parse_data` call
(`dataStep`, wrapped into an event by `stepData`): the kernel theorems below are about the very
function the decoder model executes. -/
theorem step_data_is_dataStep (d : Decoder) :
    (d.state = .data → step d = stepData d false) ∧
    (d.state = .dataStart → step d = stepData d true) := by
  constructor <;> intro h <;> simp [step, h]

/-! ### P0: the hold-back kernel -/

/-- **Hold-back safety** (`_parse_data`, no delimiter recognised). Whatever `_parse_data` releases is
final: for every buffer `b` and every continuation `c`, the leftmost delimiter of `b ++ c` is the
leftmost delimiter of (what was kept ++ c), moved by the released length. Covers both the
`last_newline` hold-back and the "far from a partial boundary" shortcut. -/
theorem parseData_hold_safe {bnd : Bytes} (hb : BoundaryOk bnd) (b : Bytes) {de di : Nat}
    (h : dataCut bnd b = (de, di, none)) (c : Bytes) :
    de = di ∧ di ≤ b.length ∧
      searchDelim bnd false (b ++ c) = shift di (searchDelim bnd false (b.drop di ++ c)) := by
  cases hs : searchDelim bnd false b with
  | some v =>
    rcases v with ⟨s, e, f⟩
    rw [dataCut_of_search hs] at h; simp at h
  | none =>
    rcases dataCut_of_no_search hb hs with ⟨k, hk, hkle, _, hsafe⟩
    rw [hk] at h
    simp only [Prod.mk.injEq, and_true] at h
    rcases h with ⟨rfl, rfl⟩
    exact ⟨rfl, hkle, hsafe c⟩

example : BoundaryOk (str "bound") ∧ dataCut (str "bound") (str "ab\r\n--bou") = (2, 2, none) := by
  decide +kernel

/-- **Decision stability.** A delimiter recognised in the buffer is the delimiter of every
extension of the buffer: same payload end, same kind (part / closing); only the LF completing a
trailing CR may still arrive. -/
theorem parseData_decision_stable {bnd : Bytes} (hb : BoundaryOk bnd) (b : Bytes) {de di : Nat} {f : Bool}
    (h : dataCut bnd b = (de, di, some f)) (c : Bytes) :
    ∃ di', dataCut bnd (b ++ c) = (de, di', some f) ∧
      (f = false → di' = di ∨ (di' = di + 1 ∧ b.length = di ∧ ∃ c', c = 10 :: c')) := by
  cases hs : searchDelim bnd false b with
  | none =>
    rcases dataCut_of_no_search hb hs with ⟨k, hk, _⟩
    rw [hk] at h; simp at h
  | some v =>
    rcases v with ⟨s, e, f'⟩
    rw [dataCut_of_search hs] at h
    simp only [Prod.mk.injEq, Option.some.injEq] at h
    rcases h with ⟨rfl, rfl, rfl⟩
    rcases searchDelim_append_stable hb hs c with ⟨e', he', hrel⟩
    exact ⟨e', dataCut_of_search he', hrel⟩

example : dataCut (str "bound") (str "ab\r\n--bound\r") = (2, 12, some false) := by decide +kernel

/-- **parseData_split (every chunk list).** Start with buffer `buf` in state DATA (`start = false`)
or DATA_START (`start = true`, the buffer then begins with the line break that ended the headers)
and let the rest of the stream arrive as any list of chunks. If the single-shot semantics of the
whole stream `buf ++ chunks.flatten` finds payload `P`, delimiter kind `f` and residual `R`, the
chunked loop (`receive_data` / `next_event` until NEED_DATA, chunk after chunk) produces Data events
whose concatenation is exactly `P`, decides `f`, and leaves `R` — or `LF :: R` when a chunk ended
between the CR and LF that close a non-final delimiter line (the LF is then still to be consumed as
an empty header line). -/
theorem parseData_split {bnd : Bytes} (hb : BoundaryOk bnd) (start : Bool) (buf : Bytes)
    (chunks : List Bytes) (hstart : start = true → 0 < lbLen buf) {P : Bytes} {f : Bool} {R : Bytes}
    (h : dataSpec bnd start (buf ++ chunks.flatten) = some (P, f, R)) :
    ∃ R', dataPhase bnd start buf [] chunks = .ok (P, some (f, R')) ∧
      (f = false → R' = R ∨ R' = 10 :: R) := by
  cases start with
  | false => simpa using dataPhase_false_sound hb chunks buf [] P f R h
  | true => simpa using dataPhase_true_sound hb chunks buf [] P f R (hstart rfl) h

/-- non-vacuity: the F01a body's payload, arriving byte by byte after the header block (the closing
delimiter is recognised before its CRLF arrives: the residual differs, it belongs to the epilogue) -/
example :
    dataSpec (str "bound") true (str "\r\nx\nyyy\r\n--bound--\r\n") = some (str "x\nyyy", true, []) ∧
    (dataPhase (str "bound") true (str "\r") [] ((str "\nx\nyyy\r\n--bound--\r\n").map fun b => [b])).toOption =
      some (str "x\nyyy", some (true, str "\r\n")) := by
  decide +kernel

/-- **No false delimiter.** If the whole stream contains no delimiter, no chunking makes the loop
report one (it answers NEED_DATA at the end), and what it released is a prefix of the stream. -/
theorem parseData_split_none {bnd : Bytes} (hb : BoundaryOk bnd) (start : Bool) (buf : Bytes)
    (chunks : List Bytes) (hstart : start = true → 0 < lbLen buf)
    (h : dataSpec bnd start (buf ++ chunks.flatten) = none) :
    ∃ p, dataPhase bnd start buf [] chunks = .ok (p, none) := by
  have hs : searchDelim bnd false (buf ++ chunks.flatten) = none := by
    unfold dataSpec at h
    cases hx : searchDelim bnd false (buf ++ chunks.flatten) with
    | none => rfl
    | some v => rcases v with ⟨s, e, f⟩; rw [hx] at h; simp at h
  cases start with
  | false =>
    rcases dataPhase_false_none hb chunks buf [] hs with ⟨p, hp, _⟩
    exact ⟨p, by simpa using hp⟩
  | true =>
    rcases dataPhase_true_none hb chunks buf [] (hstart rfl) hs with ⟨p, hp⟩
    exact ⟨p, by simpa using hp⟩

/-- single shot: the loop over the whole stream is the reference semantics -/
theorem parseData_single {bnd : Bytes} (start : Bool) (S : Bytes)
    (hstart : start = true → 0 < lbLen S) {P : Bytes} {f : Bool} {R : Bytes}
    (h : dataSpec bnd start S = some (P, f, R)) :
    dataPhase bnd start S [] [] = .ok (P, some (f, R)) := by
  unfold dataSpec at h
  cases hx : searchDelim bnd false S with
  | none => rw [hx] at h; simp at h
  | some w =>
    rcases w with ⟨s, e, g⟩
    rw [hx] at h
    simp only [Option.some.injEq, Prod.mk.injEq] at h
    rcases h with ⟨rfl, rfl, rfl⟩
    cases start with
    | false => simp [dataPhase, dataLoop_false_decides S.length [] hx]
    | true => simp [dataPhase, dataLoop_true_decides S.length [] (hstart rfl) hx]

/-- **parseData_split, 2-way form of the property text.** For every buffer `b` and continuation `c`:
feeding `b`, draining, feeding `c`, draining gives the same concatenated payload and the same
delimiter decision as feeding `b ++ c` at once, and the same residual up to the split-CRLF LF. -/
theorem parseData_split_two {bnd : Bytes} (hb : BoundaryOk bnd) (start : Bool) (b c : Bytes)
    (hstart : start = true → 0 < lbLen b) {P : Bytes} {f : Bool} {R : Bytes}
    (h : dataPhase bnd start (b ++ c) [] [] = .ok (P, some (f, R))) :
    ∃ R', dataPhase bnd start b [] [c] = .ok (P, some (f, R')) ∧ (f = false → R' = R ∨ R' = 10 :: R) := by
  have hstart' : start = true → 0 < lbLen (b ++ c) := fun hs =>
    Nat.lt_of_lt_of_le (hstart hs) (lbLen_append_ge b c)
  cases hspec : dataSpec bnd start (b ++ c) with
  | none =>
    rcases parseData_split_none hb start (b ++ c) [] hstart' (by simpa using hspec) with ⟨p, hp⟩
    rw [hp] at h; simp at h
  | some v =>
    rcases v with ⟨P', f', R0⟩
    rw [parseData_single start (b ++ c) hstart' hspec] at h
    simp only [Except.ok.injEq, Prod.mk.injEq, Option.some.injEq] at h
    rcases h with ⟨rfl, rfl, rfl⟩
    exact parseData_split hb start b [c] hstart (by simpa using hspec)

example :
    (dataPhase (str "bound") false (str "abc\r" ++ str "\n--bound\r\nrest") [] []).toOption =
      some (str "abc", some (false, str "rest")) ∧
    (dataPhase (str "bound") false (str "abc\r") [] [str "\n--bound\r\nrest"]).toOption =
      some (str "abc", some (false, str "rest")) := by
  decide +kernel

/-! ### P0: the retained search position -/

/-- **searchPos_irrelevant (PREAMBLE), no padding bound.** When `preamble_re` fails on buffer `b`
searched from `sp`, the decoder (as repaired for F01c, f636614) keeps
`_search_position = nextSearchPos`: `max(0, len(b) - len(boundary) - SEARCH_EXTRA_LENGTH)`, lowered to
two bytes before the last `--boundary` found by `b.rfind(b"--" + boundary, sp)`. If no continuation
of the buffer can have a match that starts before the old position (`NoEarly`, true of position 0),
then no continuation can have one that starts before the new position, and for **every** continuation
`c` — any amount of transport padding on the first delimiter included — searching `b ++ c` from the
new position finds the same first delimiter as searching from 0. The former padding bound is gone. -/
theorem searchPos_irrelevant {bnd b : Bytes} {sp : Nat} (hsp : NoEarly bnd sp b)
    (hnone : searchDelimFrom bnd true sp b = none) (c : Bytes) :
    NoEarly bnd (nextSearchPos bnd b sp) b ∧
    searchDelimFrom bnd true (nextSearchPos bnd b sp) (b ++ c) = searchDelimFrom bnd true 0 (b ++ c) := by
  have hn : searchDelim bnd true b = none := by rw [← hsp.search]; exact hnone
  have h1 := noEarly_next hsp hn
  refine ⟨h1, ?_⟩
  rw [(h1.append c).search, searchDelimFrom_eq_shift]; simp

/-- the same over a whole run: however the bytes searched so far arrived (`chunks`, `preamble_re`
failing after each of them), the position the decoder has kept (`spAfter`) hides nothing: for every
continuation the search from it finds what a search from 0 finds -/
theorem searchPos_irrelevant_run {bnd : Bytes} (chunks : List Bytes) (c : Bytes)
    (hnone : searchDelim bnd true chunks.flatten = none) :
    searchDelimFrom bnd true (spAfter bnd chunks [] 0) (chunks.flatten ++ c) =
      searchDelimFrom bnd true 0 (chunks.flatten ++ c) := by
  have h := spAfter_noEarly chunks [] 0 (NoEarly.zero bnd []) (by simpa using hnone)
  simp only [List.nil_append] at h
  rw [(h.append c).search, searchDelimFrom_eq_shift]; simp

/-- non-vacuity and the F01c input: `--bound` + 20 SP + CRLF, first chunk ending inside the padding.
The old rule would resume at 20 - 5 - 8 = 7 and miss the delimiter; the repaired rule keeps position 0
(two bytes before the pending `--bound`, cut off at 0), the delimiter is found, and the two-chunk decode
of the finding's body yields the field like the single-shot decode -/
example :
    searchDelim (str "bound") true (str "--bound             ") = none ∧
    nextSearchPos (str "bound") (str "--bound             ") 0 = 0 ∧
    nextSearchPos (str "bound") (str "xxxxxxxxxxxxxxxxxxxxxxxxxxxxxx") 0 = 17 ∧
    nextSearchPos (str "bound") (str "xxxxxxxxxx\r\n--bound         ") 0 = 10 ∧
    spAfter (str "bound") [str "xxxxxxxxxx\r", str "\n--bound   ", str "      "] [] 0 = 10 ∧
    searchDelimFrom (str "bound") true 0 (str "--bound             " ++ str "       \r\n") = some (0, 29, false) ∧
    partsOf (decodeChunks (str "bound") none none
      [str "--bound             ",
       str "       \r\nContent-Disposition: form-data; name=\"a\"\r\n\r\nv\r\n--bound--\r\n"]).events =
    partsOf (decodeChunks (str "bound") none none
      [str "--bound                    \r\nContent-Disposition: form-data; name=\"a\"\r\n\r\nv\r\n--bound--\r\n"]).events ∧
    (partsOf (decodeChunks (str "bound") none none
      [str "--bound             ",
       str "       \r\nContent-Disposition: form-data; name=\"a\"\r\n\r\nv\r\n--bound--\r\n"]).events).length = 1 := by
  decide +kernel

/-- **searchPos_irrelevant (PART).** The blank-line search resumed at
`max(0, len(b) - SEARCH_EXTRA_LENGTH)` finds the same first blank line as a search from 0, for every
buffer and continuation, unconditionally. -/
theorem searchPos_irrelevant_blank {b c : Bytes} (hnone : searchBlank b = none) :
    searchBlankFrom (b.length - searchExtra) (b ++ c) = searchBlankFrom 0 (b ++ c) := by
  rw [searchPos_irrelevant_blank_lemma hnone, searchBlankFrom_eq_shift]; simp

example : searchBlank (str "Content-Disposition: form-data; name=\"a\"\r\n\r") = none := by
  decide +kernel

/-! ### P1: whole bodies -/

/-- **decode_chunk_independent, for all three delimiter conventions.** `nl` is the line break the
body uses for its delimiter and header lines: CRLF, bare LF or bare CR. For every boundary without
CR / LF and every body of the form

  preamble · NL `--boundary` NL headers NL NL payload … NL `--boundary--` · ep

(`bodyOf nl bnd ep pr lead parts`): an arbitrary preamble `pr` inside which `preamble_re` matches
nowhere (`PreFree`, decidable: the first delimiter the decoder can find is the intended one — the
preamble may contain line breaks, dashes and even `--boundary` as long as that occurrence is not a
delimiter line; implied by `PreOk`, "does not contain `--boundary`", see `preOk_preFree`; with
`lead = false` the body starts directly with `--boundary`, as browsers send it); any list of parts
satisfying the decidable predicate `ValidPart nl` (fields and files in any order, repeated names,
empty / body-less / non-empty payloads made of line-break runs, dashes, boundary prefixes and
look-alikes, long lines, binary — `PayloadOkNl`: no *line* of the payload starts with `--boundary`,
and the property's side condition as an explicit decidable hypothesis `NoOther`: with bare-LF
delimiters the payload contains no CR, with bare-CR delimiters no LF, no condition for CRLF; Unicode
names; extra headers); arbitrary bytes `ep` after the closing `--boundary--` (a line break, an
epilogue, transport padding, nothing) — and **every** list of chunks whose concatenation is that body:
decoding chunk by chunk raises nothing and yields exactly the same parts — kind, name, filename,
headers, byte-exact payload — as decoding the body in one piece, namely the given parts. The retained
`_search_position` in PREAMBLE and PART, the hold-back in `_parse_data`, DATA_START waiting, a chunk
ending between the CR and LF of a delimiter line, several parts in one chunk … are all covered. -/
theorem decode_chunk_independent_nl {nl : Nl} {bnd : Bytes} (hb : BoundaryOk bnd) (ep pr : Bytes)
    (lead : Bool) (parts : List Part) (hpre : PreFree nl bnd ep pr lead parts)
    (hv : ∀ p ∈ parts, ValidPart nl bnd p)
    (chunks : List Bytes) (hjoin : chunks.flatten = bodyOf nl bnd ep pr lead parts) :
    (decodeChunks bnd none none chunks).err = none ∧
    partsOf (decodeChunks bnd none none chunks).events =
      partsOf (decodeChunks bnd none none [bodyOf nl bnd ep pr lead parts]).events ∧
    partsOf (decodeChunks bnd none none chunks).events = parts.map decodedPart := by
  have h1 := decode_chunks_full_lemma (nl := nl) (ep := ep) hb parts hpre hv chunks hjoin
  have h2 := decode_chunks_full_lemma (nl := nl) (ep := ep) hb parts hpre hv [bodyOf nl bnd ep pr lead parts] (by simp)
  exact ⟨h1.1, by rw [h1.2, h2.2], h1.2⟩

/-- a preamble that does not contain `--boundary` at all (and, for bare-LF bodies, does not end in
CR, which would merge with the delimiter's LF) is admissible, whatever follows -/
theorem preOk_preFree {nl : Nl} {bnd : Bytes} (hb : BoundaryOk bnd) (ep pr : Bytes) (lead : Bool)
    (parts : List Part) (hpre : PreOk nl bnd pr lead) : PreFree nl bnd ep pr lead parts :=
  preFree_of_preOk hb parts hpre

/-- **decode_chunk_independent (CRLF-delimited bodies)**: the case `nl = CRLF`, where the payload is
unrestricted apart from `--boundary` at a line start (`payloadOkNl_crlf`) -/
theorem decode_chunk_independent_partial {bnd : Bytes} (hb : BoundaryOk bnd) (ep pr : Bytes) (lead : Bool)
    (hpre : PreOk .crlf bnd pr lead) (parts : List Part) (hv : ∀ p ∈ parts, ValidPart .crlf bnd p)
    (chunks : List Bytes) (hjoin : chunks.flatten = bodyOf .crlf bnd ep pr lead parts) :
    (decodeChunks bnd none none chunks).err = none ∧
    partsOf (decodeChunks bnd none none chunks).events =
      partsOf (decodeChunks bnd none none [bodyOf .crlf bnd ep pr lead parts]).events ∧
    partsOf (decodeChunks bnd none none chunks).events = parts.map decodedPart :=
  decode_chunk_independent_nl hb ep pr lead parts (preFree_of_preOk hb parts hpre) hv chunks hjoin

/-- the CRLF side conditions are the ones stated before the generalisation: any payload without
`--boundary` at a line start, any preamble without `--boundary` -/
theorem crlf_side_conditions (bnd pr payload : Bytes) :
    (PayloadOkNl .crlf bnd payload ↔ PayloadOk bnd payload) ∧
    (PreOk .crlf bnd pr true ↔ containsSub (delim bnd) pr = false) := by
  refine ⟨payloadOkNl_crlf, ?_⟩
  simp [PreOk]

/-- without preamble and with the leading line break the body is `encBody` -/
theorem bodyOf_encBody (bnd ep : Bytes) (parts : List Part) :
    bodyOf .crlf bnd ep [] true parts = encBody .crlf bnd ep parts := by simp [bodyOf]

/-- the CRLF body really is the encoder's output -/
theorem encBody_is_encoder_output {bnd : Bytes} (parts : List Part) (hv : ∀ p ∈ parts, ValidPart .crlf bnd p) :
    encodeAll bnd parts = .ok (encBody .crlf bnd stdEp parts) :=
  encodeAll_eq parts hv

/-- non-vacuity: the F01a body (payload `x LF y…`) and a body-less field are valid parts, a preamble
with line breaks and dashes is admissible, and a byte-at-a-time chunking is a chunking -/
example :
    BoundaryOk (str "bound") ∧
    ValidPart .crlf (str "bound") ⟨true, some ['a'], some ['f'], [], str "x\nyyyyyyyyyyyyyyyyyyyyyyyyyyy"⟩ ∧
    ValidPart .crlf (str "bound") ⟨false, some ['b'], none, [], []⟩ ∧
    PreOk .crlf (str "bound") (str "pre\r\namble --boun\r\n--") true ∧ PreOk .crlf (str "bound") [] false ∧
    ¬ PreOk .crlf (str "bound") (str "x --bound y") true ∧
    ((bodyOf .crlf (str "bound") (str "\r\nepilogue") (str "pre") true [⟨false, some ['b'], none, [], []⟩]).map
        fun b => [b]).flatten =
      bodyOf .crlf (str "bound") (str "\r\nepilogue") (str "pre") true [⟨false, some ['b'], none, [], []⟩] := by
  decide +kernel

/-- non-vacuity for bare LF / bare CR: payloads with the own newline kind are valid, with the other
kind they are not (the side condition is needed: such bodies decode differently); a bare-LF
preamble may contain CR but not end in it; and the bodies look as expected -/
example :
    ValidPart .lf (str "bound") ⟨false, some ['a'], none, [], str "x\n\n--boun\ny"⟩ ∧
    ¬ ValidPart .lf (str "bound") ⟨false, some ['a'], none, [], str "x\r\ny"⟩ ∧
    ValidPart .cr (str "bound") ⟨true, some ['a'], some ['f'], [], str "\rx\r\r--\r"⟩ ∧
    ¬ ValidPart .cr (str "bound") ⟨false, some ['a'], none, [], str "x\ny"⟩ ∧
    ¬ ValidPart .cr (str "bound") ⟨false, some ['a'], none, [], str "x\r--bound"⟩ ∧
    PreOk .lf (str "bound") (str "pre\r\namble\n") true ∧ ¬ PreOk .lf (str "bound") (str "pre\r") true ∧
    PreOk .cr (str "bound") (str "pre\r") true ∧
    bodyOf .lf (str "b") (str "\n") (str "p") true [⟨false, some ['a'], none, [], str "v"⟩] =
      str "p\n--b\nContent-Disposition: form-data; name=\"a\"\n\nv\n--b--\n" ∧
    bodyOf .cr (str "b") [] [] false [⟨false, some ['a'], none, [], []⟩] =
      str "--b\rContent-Disposition: form-data; name=\"a\"\r\r--b--" := by
  decide +kernel

/-- non-vacuity for `PreFree`: preambles that contain `--bound` without it being a delimiter line are
admissible (they are not `PreOk`); one with a real delimiter line (`--bound` + white space + line break,
or `--bound--`) is not -/
example :
    PreFree .crlf (str "bound") stdEp (str "x --boundX\r\n--bound y\r\n--bound-") true
      [⟨false, some ['a'], none, [], str "v"⟩] ∧
    ¬ PreOk .crlf (str "bound") (str "x --boundX\r\n--bound y\r\n--bound-") true ∧
    PreFree .lf (str "bound") [] (str "--bound\tz\n--bounds") true [] ∧
    ¬ PreFree .crlf (str "bound") stdEp (str "x --bound \t\r\nfoo") true [] ∧
    ¬ PreFree .crlf (str "bound") stdEp (str "x--bound--") true [] ∧
    ¬ PreFree .crlf (str "bound") stdEp (str "x--bound \t") true [] := by
  decide +kernel

/-- **formParse_read_independent (one level up), for all three delimiter conventions.** For every
such body, `MultiPartParser(buffer_size=k).parse` over a stream that delivers short reads returns the
same form fields and files for **every** `buffer_size` and **every** read schedule: the fields (name,
value decoded with the part's charset) and files (name, filename, headers, byte-exact content) of the
parts, in order (`formOfParts`); a part whose charset cannot be determined fails the same way for
every schedule. -/
theorem formParse_read_independent_nl {nl : Nl} {bnd : Bytes} (hb : BoundaryOk bnd) (ep pr : Bytes)
    (lead : Bool) (parts : List Part) (hpre : PreFree nl bnd ep pr lead parts)
    (hv : ∀ p ∈ parts, ValidPart nl bnd p) (bufSize : Nat) (sched : List Nat) :
    formParse bnd none none bufSize sched (bodyOf nl bnd ep pr lead parts) =
      formOfParts ([], []) (parts.map decodedPart) :=
  formParse_lemma (nl := nl) (ep := ep) hb parts hpre hv bufSize sched

/-- in particular any two buffer sizes / schedules agree, e.g. byte-at-a-time and one full read -/
theorem formParse_bufsize_irrelevant_nl {nl : Nl} {bnd : Bytes} (hb : BoundaryOk bnd) (ep pr : Bytes)
    (lead : Bool) (parts : List Part) (hpre : PreFree nl bnd ep pr lead parts)
    (hv : ∀ p ∈ parts, ValidPart nl bnd p) (b1 b2 : Nat) (s1 s2 : List Nat) :
    formParse bnd none none b1 s1 (bodyOf nl bnd ep pr lead parts) =
      formParse bnd none none b2 s2 (bodyOf nl bnd ep pr lead parts) := by
  rw [formParse_read_independent_nl hb ep pr lead parts hpre hv,
    formParse_read_independent_nl hb ep pr lead parts hpre hv]

/-- **formParse_read_independent (CRLF-delimited bodies)** -/
theorem formParse_read_independent {bnd : Bytes} (hb : BoundaryOk bnd) (ep pr : Bytes) (lead : Bool)
    (hpre : PreOk .crlf bnd pr lead) (parts : List Part) (hv : ∀ p ∈ parts, ValidPart .crlf bnd p)
    (bufSize : Nat) (sched : List Nat) :
    formParse bnd none none bufSize sched (bodyOf .crlf bnd ep pr lead parts) =
      formOfParts ([], []) (parts.map decodedPart) :=
  formParse_read_independent_nl hb ep pr lead parts (preFree_of_preOk hb parts hpre) hv bufSize sched

/-- **formParse_bufsize_irrelevant (CRLF-delimited bodies)** -/
theorem formParse_bufsize_irrelevant {bnd : Bytes} (hb : BoundaryOk bnd) (ep pr : Bytes) (lead : Bool)
    (hpre : PreOk .crlf bnd pr lead) (parts : List Part) (hv : ∀ p ∈ parts, ValidPart .crlf bnd p)
    (b1 b2 : Nat) (s1 s2 : List Nat) :
    formParse bnd none none b1 s1 (bodyOf .crlf bnd ep pr lead parts) =
      formParse bnd none none b2 s2 (bodyOf .crlf bnd ep pr lead parts) :=
  formParse_bufsize_irrelevant_nl hb ep pr lead parts (preFree_of_preOk hb parts hpre) hv b1 b2 s1 s2

/-- non-vacuity / sanity: a field and a file, read one byte at a time -/
example :
    (formParse (str "b") none none 1 []
      (bodyOf .crlf (str "b") stdEp [] false [⟨false, some ['a'], none, [], str "v\r\n-"⟩,
                          ⟨true, some ['f'], some ['x'], [], [0, 255]⟩])).toOption =
    some ([(some ['a'], "v\r\n-".toList)],
          [⟨some ['f'], ['x'], [("Content-Disposition".toList, "form-data; name=\"f\"; filename=\"x\"".toList)],
            [0, 255]⟩]) := by
  decide +kernel

/-- the same through bare-LF and bare-CR bodies, read three bytes at a time -/
example :
    (formParse (str "b") none none 3 []
      (bodyOf .lf (str "b") (str "\n") (str "pre") true [⟨false, some ['a'], none, [], str "v\n-"⟩])).toOption =
      some ([(some ['a'], "v\n-".toList)], []) := by
  decide +kernel

example :
    (formParse (str "b") none none 3 []
      (bodyOf .cr (str "b") [] [] false [⟨false, some ['a'], none, [], str "v\r-"⟩])).toOption =
      some ([(some ['a'], "v\r-".toList)], []) := by
  decide +kernel

/-! ### P1 with arbitrary header blocks -/

/-- **decode_chunk_independent, arbitrary header blocks.** The most general form: a part is given by
the raw bytes of its header block and its payload (`RawPart`), and must satisfy the decidable
predicate `RawOk nl bnd`:

* the header block starts with a byte that is not white space (so not with a line break);
* its first blank line is the `NL NL` that ends it (no earlier blank line — inside the block any mix
  of CRLF / LF / CR line breaks, folded continuation lines, white space around names, colons and
  values, lines without a colon, any header order and letter case are allowed);
* the decoder makes a Field / File event of it (`headEvent`, i.e. `_parse_headers` succeeds, a
  Content-Disposition header is present and `parse_options_header` accepts it — the name may even be
  missing);
* the transport padding (`pad`) that follows `--boundary` on the delimiter line in front of the part
  is horizontal white space — **any amount**, on the first delimiter line (the F01c input class,
  repaired by f636614) as on the later ones;
* the payload has no line starting with `--boundary` and is free of the other newline kind.

For every boundary without CR / LF, every admissible preamble (`PreFreeR`), every list of such parts,
every `ep`, every line-break convention `nl` of the delimiter lines and **every** chunking of the
body: decoding chunk by chunk raises nothing and yields the same parts as decoding in one piece,
namely `RawPart.out` of each part (the part `next_event` reports for the header block, with the
payload). The theorems for `Name: value` header lines above are the instance `rawOf` of this one. -/
theorem decode_chunk_independent_raw {nl : Nl} {bnd : Bytes} (hb : BoundaryOk bnd) (ep pr : Bytes)
    (lead : Bool) (parts : List RawPart) (hpre : PreFreeR nl bnd ep pr lead parts)
    (hv : ∀ p ∈ parts, RawOk nl bnd p)
    (chunks : List Bytes) (hjoin : chunks.flatten = bodyOfR nl bnd ep pr lead parts) :
    (decodeChunks bnd none none chunks).err = none ∧
    partsOf (decodeChunks bnd none none chunks).events =
      partsOf (decodeChunks bnd none none [bodyOfR nl bnd ep pr lead parts]).events ∧
    partsOf (decodeChunks bnd none none chunks).events = parts.map RawPart.out := by
  have h1 := decode_chunks_full_raw (nl := nl) (ep := ep) hb parts hpre hv chunks hjoin
  have h2 := decode_chunks_full_raw (nl := nl) (ep := ep) hb parts hpre hv [bodyOfR nl bnd ep pr lead parts] (by simp)
  exact ⟨h1.1, by rw [h1.2, h2.2], h1.2⟩

/-- **formParse_read_independent, arbitrary header blocks** -/
theorem formParse_read_independent_raw {nl : Nl} {bnd : Bytes} (hb : BoundaryOk bnd) (ep pr : Bytes)
    (lead : Bool) (parts : List RawPart) (hpre : PreFreeR nl bnd ep pr lead parts)
    (hv : ∀ p ∈ parts, RawOk nl bnd p) (bufSize : Nat) (sched : List Nat) :
    formParse bnd none none bufSize sched (bodyOfR nl bnd ep pr lead parts) =
      formOfParts ([], []) (parts.map RawPart.out) :=
  formParse_raw (nl := nl) (ep := ep) hb parts hpre hv bufSize sched

/-- any two buffer sizes / read schedules agree -/
theorem formParse_bufsize_irrelevant_raw {nl : Nl} {bnd : Bytes} (hb : BoundaryOk bnd) (ep pr : Bytes)
    (lead : Bool) (parts : List RawPart) (hpre : PreFreeR nl bnd ep pr lead parts)
    (hv : ∀ p ∈ parts, RawOk nl bnd p) (b1 b2 : Nat) (s1 s2 : List Nat) :
    formParse bnd none none b1 s1 (bodyOfR nl bnd ep pr lead parts) =
      formParse bnd none none b2 s2 (bodyOfR nl bnd ep pr lead parts) := by
  rw [formParse_read_independent_raw hb ep pr lead parts hpre hv,
    formParse_read_independent_raw hb ep pr lead parts hpre hv]

/-- the parts with `Name: value` header lines are raw parts: same body, same side conditions, same
result -/
theorem validPart_is_raw {nl : Nl} {bnd : Bytes} (ep pr : Bytes) (lead : Bool) (parts : List Part)
    (hv : ∀ p ∈ parts, ValidPart nl bnd p) :
    (∀ q ∈ parts.map (rawOf nl), RawOk nl bnd q) ∧
    (parts.map (rawOf nl)).map RawPart.out = parts.map decodedPart ∧
    bodyOfR nl bnd ep pr lead (parts.map (rawOf nl)) = bodyOf nl bnd ep pr lead parts ∧
    (PreFree nl bnd ep pr lead parts → PreFreeR nl bnd ep pr lead (parts.map (rawOf nl))) :=
  ⟨rawOk_map hv, map_rawOf_out parts hv, bodyOf_raw bnd parts, preFree_raw⟩

/-- a preamble that does not contain `--boundary` is admissible in front of raw parts too -/
theorem preOk_preFreeR {nl : Nl} {bnd : Bytes} (hb : BoundaryOk bnd) (ep pr : Bytes) (lead : Bool)
    (parts : List RawPart) (hpre : PreOk nl bnd pr lead) : PreFreeR nl bnd ep pr lead parts :=
  preFreeR_of_preOk hb parts hpre

/-- non-vacuity: a header block with a lower-case name, no space after the colon, a folded
continuation line, white space around a name and a value, LF / CR / CRLF line breaks mixed inside the
block and Content-Type after Content-Disposition is admissible under all three conventions, and the
decoder reports the expected part; blocks that start with white space, contain a blank line, lack
Content-Disposition or end in CR (which would merge with a CRLF / CR blank line) are not; 40 bytes of
transport padding on the delimiter line are admissible, padding that is not white space is not -/
example :
    let r : RawPart := ⟨str "content-disposition:form-data;\r\n\tname=a\nX-Foo :  bar \rContent-Type: text/plain", str "v", str " \t \x0b                                   "⟩
    RawOk .crlf (str "b") r ∧ RawOk .lf (str "b") r ∧ RawOk .cr (str "b") r ∧
    r.out = ⟨false, some ['a'], none,
      [("content-disposition".toList, "form-data; name=a".toList), ("X-Foo".toList, "bar".toList),
       ("Content-Type".toList, "text/plain".toList)], str "v"⟩ ∧
    RawOk .crlf (str "b") ⟨str "Content-Disposition: form-data", [], []⟩ ∧
    ¬ RawOk .crlf (str "b") ⟨str " Content-Disposition: form-data; name=a", [], []⟩ ∧
    ¬ RawOk .crlf (str "b") ⟨str "Content-Disposition: form-data; name=a\r\n\r\nX: y", [], []⟩ ∧
    ¬ RawOk .crlf (str "b") ⟨str "Content-Type: text/plain", [], []⟩ ∧
    ¬ RawOk .cr (str "b") ⟨str "Content-Disposition: form-data; name=a\r", [], []⟩ ∧
    ¬ RawOk .crlf (str "b") ⟨str "Content-Disposition: form-data; name=a", [], str " x"⟩ := by
  decide +kernel

/-- sanity: such a body through the form parser, two bytes at a time, with a preamble that contains a
near-delimiter and the F01c amount of transport padding (20 SP) on the first delimiter line, some on
the second -/
example :
    (formParse (str "b") none none 2 []
      (bodyOfR .crlf (str "b") (str "\r\n") (str "x --bz") true
        [⟨str "content-disposition:form-data;\r\n\tname=a\nX-Foo :  bar \rContent-Type: text/plain", str "v", str "                    "⟩,
         ⟨str "Content-Disposition: form-data; name=f; filename=\"q\"", [0, 255], str " \t"⟩])).toOption =
    some ([(some ['a'], ['v'])],
          [⟨some ['f'], ['q'], [("Content-Disposition".toList, "form-data; name=f; filename=\"q\"".toList)],
            [0, 255]⟩]) := by
  decide +kernel

/-
OPEN (P1) — stated, not proved:

-- OPEN: decode_chunk_independent for the rest of the property's grammar: bodies that mix line-break
-- conventions between delimiter lines, and header blocks that start with white space.
-- (F01c is repaired: `searchPos_irrelevant` carries no bound and the whole-run theorems allow any
-- amount of transport padding on every delimiter line, `RawPart.pad`.)

-- OPEN: drain_split — for every decoder configuration reachable from `mkDecoder` and bytes c₁ c₂,
--   feed c₁ ; drain ; feed c₂ ; drain  ≈  feed (c₁ ++ c₂) ; drain
-- as an equivalence on configurations (the theorem above is stated on whole runs instead).
-/

end Wz.Props.C01
