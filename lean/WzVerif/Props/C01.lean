/- C01 property theorems (not written yet) -/
namespace Wz.Props.C01
end Wz.Props.C01
