/-
C20T2 — C20T continued: the debugger's PIN functions of `werkzeug/debug/__init__.py`
(`DebuggedApplication.check_pin_trust`, `_fail_pin_auth`, `pin_auth`, `__call__`) *as regenerated
from the source* by `tools/py2lean.py` (`Gen/PyFns_Debug.lean`, rewritten on every check run)
against C20's hand model `Model/Debugger.lean` (`checkPinTrust`, `failPinAuth`, `pinAuth`,
`respond`). What the methods read from the request and their collaborators (the PIN cookie value,
`hash_pin`, the clock, the query arguments, `check_host_trust`, the frame table) enters as
parameters; the shared byte counter is an `Int` attribute; the penalty sleep is recorded in flags.
Property theorems only: the proofs live in Lemmas/PyFnsEq_Debug.lean.
-/
import WzVerif.Gen.PyFns_Debug
import WzVerif.Lemmas.PyFnsEq_Debug
namespace Wz.Props.C20T2
open Wz Wz.Pre Wz.Gen.PyFns_Debug Wz.PyFnsEq.Debug

/-- `DebuggedApplication.check_pin_trust`, as translated from the current source (`self.pin is
None`, the cookie lookup, `not val or "|" not in val`, the two-way unpacking of
`val.split("|", 1)`, `int(ts_str)` with `except ValueError`, the hash comparison, the freshness
test), never raises - the unpacking is only reached when `"|" in val`, so `split` yields two parts -
and answers exactly the model's `checkPinTrust` on the class of the cookie (`classify`), for every
`hash_pin`, every clock, every cookie value (or none) and every PIN (or `None`): `True` when no PIN
is configured or the cookie is valid, `None` for a well-formed cookie with another PIN's hash,
`False` otherwise. This is the function behind the `cookie` field of `Dbg.Req` in C20. -/
theorem check_pin_trust_eq (hash_pin : Str → Str) (fresh : Int → Bool) (cookie pin : Option Str) :
    Gen.PyFns_Debug.check_pin_trust hash_pin fresh cookie pin ()
      = .ok (trustCode (Dbg.checkPinTrust pin.isSome (classify hash_pin fresh cookie pin))) := by
  apply PyFnsEq.Debug.check_pin_trust_eq <;> assumption

/-- `DebuggedApplication._fail_pin_auth`, as translated from the current source (read under the
lock, `if count < 255: value = count + 1`, then `time.sleep(5.0 if count > 5 else 0.5)`), for a
counter within the byte range: the new counter is the model's saturating `failPinAuth`, a penalty
sleep always happens (`slept = True`), and it is the long one exactly when the counter *before*
this failure exceeded 5 (C20 `fail_counted_before_delay`: counted first, delay chosen from the old
count). -/
theorem fail_pin_auth_eq (c : Int) (s l : Bool) (h0 : 0 ≤ c) (h1 : c ≤ 255) :
    Gen.PyFns_Debug.fail_pin_auth c s l
      = (((Dbg.failPinAuth (byte c)).toNat : Int), true, decide (c > 5)) := by
  apply PyFnsEq.Debug.fail_pin_auth_eq <;> assumption

/-- The translated `_fail_pin_auth` keeps the counter inside `0..255` (what a `Value("B")` can
hold: the assignment never overflows the C byte), and the counter never decreases. -/
theorem fail_pin_auth_range (c : Int) (s l : Bool) (h0 : 0 ≤ c) (h1 : c ≤ 255) :
    0 ≤ (Gen.PyFns_Debug.fail_pin_auth c s l).1 ∧ (Gen.PyFns_Debug.fail_pin_auth c s l).1 ≤ 255 ∧
      c ≤ (Gen.PyFns_Debug.fail_pin_auth c s l).1 := by
  apply PyFnsEq.Debug.fail_pin_auth_range <;> assumption

/-- For every counter value whatsoever the penalty sleep happens, and its length is chosen from the
counter as it was before the increment. -/
theorem fail_pin_auth_slept (c : Int) (s l : Bool) :
    (Gen.PyFns_Debug.fail_pin_auth c s l).2 = (true, decide (c > 5)) := by
  apply PyFnsEq.Debug.fail_pin_auth_slept <;> assumption

/-- `pin_auth` behind an untrusted Host: the answer is `SecurityError()` (`none`) whatever the
cookie, the entered PIN and the counter are, nothing is counted and nobody sleeps (C20
`untrusted_host` for the pinauth handler; the model's `hostGate`). -/
theorem pin_auth_untrusted_host (trust : Option Bool) (entered : Except String Str)
    (pin : Option Str) (failed : Int) (s l : Bool) :
    Gen.PyFns_Debug.pin_auth false trust entered pin failed s l ()
      = ((failed, s, l), .ok none) := by
  apply PyFnsEq.Debug.pin_auth_untrusted_host <;> assumption

/-- `DebuggedApplication.pin_auth`, as translated from the current source, after a passed Host
check, for a counter within the byte range, a present `pin` argument and a configured PIN: the JSON
answer `{"auth", "exhausted"}` and the new failure counter are exactly those of the model's
`Dbg.pinAuth = pinAuthWith failPinAuth` on the trust verdict (`trustOf`) and on the PIN comparison
the code performs (`pinRight`); the cookie is set iff `auth`, deleted iff not `auth` and the trust
verdict was `None` (stale hash), untouched otherwise; a penalty sleep happens exactly when the
request is counted as a failure (`penalised`), its length chosen from the old counter. In
particular: a locked-out client (`failed > 10`, no valid cookie) gets `exhausted` without the PIN
even being compared and without a counter change; a right PIN resets the counter to 0. -/
theorem pin_auth_eq (trust : Option Bool) (text p : Str) (failed : Int) (s l : Bool)
    (h0 : 0 ≤ failed) (h1 : failed ≤ 255) :
    Gen.PyFns_Debug.pin_auth true trust (.ok text) (some p) failed s l ()
      = pinAuthSpec (trustOf trust) (pinRight text p) failed s l := by
  apply PyFnsEq.Debug.pin_auth_eq <;> assumption

/-- The new counter of the translated `pin_auth` is the model's, in the form of the task statement
(`UInt8.ofNat failed.toNat` is the byte the `Int` stands for), and stays within `0..255`. -/
theorem pin_auth_counter (trust : Option Bool) (text p : Str) (failed : Int) (s l : Bool)
    (h0 : 0 ≤ failed) (h1 : failed ≤ 255) :
    (Gen.PyFns_Debug.pin_auth true trust (.ok text) (some p) failed s l ()).1.1
        = (((Dbg.pinAuth (UInt8.ofNat failed.toNat) (trustOf trust) (pinRight text p)).2.toNat : Nat) : Int)
      ∧ 0 ≤ (Gen.PyFns_Debug.pin_auth true trust (.ok text) (some p) failed s l ()).1.1
      ∧ (Gen.PyFns_Debug.pin_auth true trust (.ok text) (some p) failed s l ()).1.1 ≤ 255 := by
  apply PyFnsEq.Debug.pin_auth_counter <;> assumption

/-- `pin_auth` when no PIN is configured (`self.pin is None`) but the caller claims a trust verdict
other than `True` (which `check_pin_trust` never gives then, see `pin_request_eq`): as long as the
PIN comparison is not reached (`trust` is not `False`, or the client is locked out) the answer is
still the model's - the PIN is not looked at -; on the comparison path `pin.replace` is applied to
`None`: AttributeError, with the counter untouched. -/
theorem pin_auth_no_pin (trust : Option Bool) (text : Str) (failed : Int) (s l : Bool)
    (h0 : 0 ≤ failed) (h1 : failed ≤ 255) :
    Gen.PyFns_Debug.pin_auth true trust (.ok text) none failed s l ()
      = if trust = some false ∧ failed ≤ 10 then ((failed, s, l), .error "AttributeError")
        else pinAuthSpec (trustOf trust) false failed s l := by
  apply PyFnsEq.Debug.pin_auth_no_pin <;> assumption

/-- `pin_auth` when the request has no `pin` argument (`request.args["pin"]` raises; the
translation calls the error by the parameter's text, "KeyError"): the error propagates on the one
path that reads the argument - Host trusted, trust verdict `False`, not locked out - and there
before anything is counted (and before `self.pin` is touched). -/
theorem pin_auth_missing_pin_arg (e : String) (pin : Option Str) (failed : Int) (s l : Bool)
    (h10 : failed ≤ 10) :
    Gen.PyFns_Debug.pin_auth true (some false) (.error e) pin failed s l ()
      = ((failed, s, l), .error e) := by
  apply PyFnsEq.Debug.pin_auth_missing_pin_arg <;> assumption

/-- On every other path `pin_auth` does not read the `pin` argument: Host untrusted, a trust
verdict `None` or `True`, or a locked-out client get the same result whether the argument is
present, absent, or anything else. -/
theorem pin_auth_entered_unread (host_trusted : Bool) (trust : Option Bool)
    (entered entered' : Except String Str) (pin : Option Str) (failed : Int) (s l : Bool)
    (h : host_trusted = false ∨ trust ≠ some false ∨ failed > 10) :
    Gen.PyFns_Debug.pin_auth host_trusted trust entered pin failed s l ()
      = Gen.PyFns_Debug.pin_auth host_trusted trust entered' pin failed s l () := by
  apply PyFnsEq.Debug.pin_auth_entered_unread <;> assumption

/-- Exactly when the translated `pin_auth` raises AttributeError (given that the `pin` argument does not
itself carry that error text): the Host is trusted, the verdict is `False`, the client is not
locked out, the argument is present, and no PIN is configured. For every counter value. -/
theorem pin_auth_attribute_error_iff (host_trusted : Bool) (trust : Option Bool)
    (entered : Except String Str) (pin : Option Str) (failed : Int) (s l : Bool)
    (hent : entered ≠ .error "AttributeError") :
    (Gen.PyFns_Debug.pin_auth host_trusted trust entered pin failed s l ()).2 = .error "AttributeError"
      ↔ host_trusted = true ∧ trust = some false ∧ failed ≤ 10 ∧ (∃ t, entered = .ok t) ∧ pin = none := by
  apply PyFnsEq.Debug.pin_auth_attribute_error_iff <;> assumption

/-- **`pin_auth` composed with `check_pin_trust`** (both as translated from the current source)
is the model's pinauth handler: for a trusted Host, a counter within the byte range and a present
`pin` argument - and for *every* `self.pin`, including `None` - the JSON answer and the new counter
are those of `Dbg.pinAuth` on `checkPinTrust pin.isSome (classify …)` and on the PIN comparison of
the code; this is literally the argument of `.pinauth` in `Dbg.respond` (with `cfg.pinOn :=
pin.isSome`, `r.cookie := classify …`, `r.pinRight := pinRightOpt text pin`). The cookie is set iff
`auth` and deleted iff the cookie carried another PIN's hash. With no PIN configured everybody is
authenticated and the PIN is never compared. -/
theorem pin_request_eq (hash_pin : Str → Str) (fresh : Int → Bool) (cookie : Option Str)
    (text : Str) (pin : Option Str) (failed : Int) (s l : Bool)
    (h0 : 0 ≤ failed) (h1 : failed ≤ 255) :
    pinRequest hash_pin fresh cookie true (.ok text) pin failed s l
      = pinAuthSpec (Dbg.checkPinTrust pin.isSome (classify hash_pin fresh cookie pin))
          (pinRightOpt text pin) failed s l := by
  apply PyFnsEq.Debug.pin_request_eq <;> assumption

/-- Behind an untrusted Host the composed handler answers `SecurityError()` and changes nothing. -/
theorem pin_request_untrusted_host (hash_pin : Str → Str) (fresh : Int → Bool)
    (cookie : Option Str) (entered : Except String Str) (pin : Option Str) (failed : Int)
    (s l : Bool) :
    pinRequest hash_pin fresh cookie false entered pin failed s l = ((failed, s, l), .ok none) := by
  apply PyFnsEq.Debug.pin_request_untrusted_host <;> assumption

/-- **The AttributeError arm of `pin_auth` is dead code**: the translation has to provide for
`pin.replace("-", "")` on `self.pin = None` (`t.cast(str, self.pin)` is no check), but when the
trust verdict comes from `check_pin_trust` on the same `self.pin` - as it does in the source - a
missing PIN makes the verdict `True` and the PIN comparison is not reached. For every `hash_pin`,
clock, cookie, Host verdict, `pin` argument (present or KeyError), PIN (or `None`), counter and
flags, the composed handler never yields AttributeError. -/
theorem pin_request_no_attribute_error (hash_pin : Str → Str) (fresh : Int → Bool)
    (cookie : Option Str) (host_trusted : Bool) (entered : Except String Str) (pin : Option Str)
    (failed : Int) (s l : Bool) (hent : entered ≠ .error "AttributeError") :
    (pinRequest hash_pin fresh cookie host_trusted entered pin failed s l).2
      ≠ .error "AttributeError" := by
  apply PyFnsEq.Debug.pin_request_no_attribute_error <;> assumption

/-- `Dbg.respond` is: select the handler (`handler`), then run it (`handlerOutcome`). So every C20
statement about `respond` is a statement about the handler selection proved equal to the translated
`__call__` below, followed by the model of the handler bodies. -/
theorem respond_eq_handler (cfg : Dbg.Config) (failed : UInt8) (r : Dbg.Req) :
    Dbg.respond cfg failed r = handlerOutcome cfg failed r (handler cfg r) := by
  apply PyFnsEq.Debug.respond_eq_handler <;> assumption

/-- **`DebuggedApplication.__call__` selects the handler the model says**: the `if/elif` chain as
translated from the current source (`request.args.get("__debugger__") == "yes"`; `cmd == "resource"
and arg`; `cmd == "pinauth" and secret == self.secret`; `cmd == "printpin" and …`; the five-fold
conjunction in front of `execute_command`; the three-fold one in front of `display_console`)
returns, for every value of the query arguments, frame table, path, secret, `evalex`,
`console_path` and for every trust verdict that `check_pin_trust` can give (`hpt`), the code of the
handler that `Dbg.respond` runs for the abstracted request (`reqOf`, `cfgOf`); by
`respond_eq_handler`, `respond` is that handler's model. The fields `hostTrusted`, `pinRight` and
`pinLogging` are not read by `__call__` (they are arbitrary here): the Host check is inside the
handlers. -/
theorem debugger_dispatch_eq (ad ac af as : Option Str) (fk : Bool) (pin_trust : Option Bool)
    (path secret : Str) (evalex : Bool) (cp : Option Str)
    (pinOn pinLogging hostTrusted pinRight : Bool) (cookie : Dbg.Cookie)
    (hpt : pin_trust = trustCode (Dbg.checkPinTrust pinOn cookie)) :
    Gen.PyFns_Debug.debugger_dispatch ad ac af as fk pin_trust path secret evalex cp () ()
      = ((handler (cfgOf evalex pinOn cp pinLogging)
          (reqOf ad ac af as fk path secret cp hostTrusted cookie pinRight) : Nat) : Int) := by
  apply PyFnsEq.Debug.debugger_dispatch_eq <;> assumption

/-- `debugger_dispatch_eq` for an arbitrary trust verdict (every verdict is the verdict of some
cookie when a PIN is configured). -/
theorem debugger_dispatch_model (ad ac af as : Option Str) (fk : Bool) (pin_trust : Option Bool)
    (path secret : Str) (evalex : Bool) (cp : Option Str) :
    Gen.PyFns_Debug.debugger_dispatch ad ac af as fk pin_trust path secret evalex cp () ()
      = ((handler (cfgOf evalex true cp true)
          (reqOf ad ac af as fk path secret cp true (cookieOfTrust pin_trust) true) : Nat) : Int) := by
  apply PyFnsEq.Debug.debugger_dispatch_model <;> assumption

/-- The translated `__call__` answers with one of the six handler codes. -/
theorem debugger_dispatch_range (ad ac af as : Option Str) (fk : Bool) (pin_trust : Option Bool)
    (path secret : Str) (evalex : Bool) (cp : Option Str) :
    0 ≤ Gen.PyFns_Debug.debugger_dispatch ad ac af as fk pin_trust path secret evalex cp () () ∧
      Gen.PyFns_Debug.debugger_dispatch ad ac af as fk pin_trust path secret evalex cp () () ≤ 5 := by
  apply PyFnsEq.Debug.debugger_dispatch_range <;> assumption

/-- `get_resource` is selected exactly for `?__debugger__=yes&cmd=resource&f=<non-empty>`: no
secret, no cookie, no Host check (the resources are the debugger's static files). -/
theorem debugger_dispatch_eq_one_iff (ad ac af as : Option Str) (fk : Bool)
    (pin_trust : Option Bool) (path secret : Str) (evalex : Bool) (cp : Option Str) :
    Gen.PyFns_Debug.debugger_dispatch ad ac af as fk pin_trust path secret evalex cp () () = 1
      ↔ ad = some ['y', 'e', 's'] ∧ ac = some ['r', 'e', 's', 'o', 'u', 'r', 'c', 'e']
        ∧ hasArgOf af = true := by
  apply PyFnsEq.Debug.debugger_dispatch_eq_one_iff <;> assumption

/-- `pin_auth` is selected exactly for `?__debugger__=yes&cmd=pinauth&s=<the secret>` - whatever
`f`, the frame, `evalex` and the cookie are. -/
theorem debugger_dispatch_eq_two_iff (ad ac af as : Option Str) (fk : Bool)
    (pin_trust : Option Bool) (path secret : Str) (evalex : Bool) (cp : Option Str) :
    Gen.PyFns_Debug.debugger_dispatch ad ac af as fk pin_trust path secret evalex cp () () = 2
      ↔ ad = some ['y', 'e', 's'] ∧ ac = some ['p', 'i', 'n', 'a', 'u', 't', 'h']
        ∧ as = some secret := by
  apply PyFnsEq.Debug.debugger_dispatch_eq_two_iff <;> assumption

/-- `log_pin_request` is selected exactly for `?__debugger__=yes&cmd=printpin&s=<the secret>`. -/
theorem debugger_dispatch_eq_three_iff (ad ac af as : Option Str) (fk : Bool)
    (pin_trust : Option Bool) (path secret : Str) (evalex : Bool) (cp : Option Str) :
    Gen.PyFns_Debug.debugger_dispatch ad ac af as fk pin_trust path secret evalex cp () () = 3
      ↔ ad = some ['y', 'e', 's'] ∧ ac = some ['p', 'r', 'i', 'n', 't', 'p', 'i', 'n']
        ∧ as = some secret := by
  apply PyFnsEq.Debug.debugger_dispatch_eq_three_iff <;> assumption

/-- **The eval gate of the translated `__call__`** (C20 `eval_gate` on the regenerated code):
`execute_command` is selected if and only if the request says `__debugger__=yes`, `evalex` is on,
there is a `cmd`, `frm` names a known frame, `s` is the secret, `check_pin_trust` answered `True`
(not `False`, not `None`), and the request was not taken by an earlier arm (`cmd` is neither
`pinauth` nor `printpin` - with the right secret those arms take it - and not `resource` with a
non-empty `f`). No other combination of inputs reaches code execution. -/
theorem debugger_dispatch_eq_four_iff (ad ac af as : Option Str) (fk : Bool)
    (pin_trust : Option Bool) (path secret : Str) (evalex : Bool) (cp : Option Str) :
    Gen.PyFns_Debug.debugger_dispatch ad ac af as fk pin_trust path secret evalex cp () () = 4
      ↔ ad = some ['y', 'e', 's'] ∧ evalex = true ∧ ac.isSome = true ∧ fk = true
        ∧ as = some secret ∧ pin_trust = some true
        ∧ ac ≠ some ['p', 'i', 'n', 'a', 'u', 't', 'h']
        ∧ ac ≠ some ['p', 'r', 'i', 'n', 't', 'p', 'i', 'n']
        ∧ ¬ (ac = some ['r', 'e', 's', 'o', 'u', 'r', 'c', 'e'] ∧ hasArgOf af = true) := by
  apply PyFnsEq.Debug.debugger_dispatch_eq_four_iff <;> assumption

/-- `display_console` is selected exactly for a request without `__debugger__=yes` whose path is
the configured console path, with `evalex` on. -/
theorem debugger_dispatch_eq_five_iff (ad ac af as : Option Str) (fk : Bool)
    (pin_trust : Option Bool) (path secret : Str) (evalex : Bool) (cp : Option Str) :
    Gen.PyFns_Debug.debugger_dispatch ad ac af as fk pin_trust path secret evalex cp () () = 5
      ↔ ad ≠ some ['y', 'e', 's'] ∧ evalex = true ∧ cp = some path := by
  apply PyFnsEq.Debug.debugger_dispatch_eq_five_iff <;> assumption

/-- **A pinauth request through the translated code is `Dbg.respond`**: take any request for which
the translated `__call__` selects `pin_auth` (code 2), with the trust verdict supplied by the
translated `check_pin_trust` for the request's cookie and the configured PIN; then the translated
`pin_auth` - whose own trust verdict comes from the same `check_pin_trust` - answers exactly what
the model's `respond` answers for the abstracted request and configuration (`SecurityError` behind
an untrusted Host, otherwise the `{"auth", "exhausted"}` pair of `Dbg.pinAuth`), for every counter
value within the byte range, every PIN (or `None`) and every `pin` argument text. This closes the
gap between the C20 theorems about `respond` (`pinauth_gate`, `untrusted_host`, the lockout
theorems over `pinAuth`) and the three methods as they are in the source today. -/
theorem dispatch_pinauth_respond (hash_pin : Str → Str) (fresh : Int → Bool) (cookie : Option Str)
    (ad ac af as : Option Str) (fk : Bool) (path secret : Str) (evalex : Bool) (cp : Option Str)
    (pin : Option Str) (pinLogging hostTrusted : Bool) (text : Str) (failed : Int) (s l : Bool)
    (h0 : 0 ≤ failed) (h1 : failed ≤ 255) (t : Option Bool)
    (ht : Gen.PyFns_Debug.check_pin_trust hash_pin fresh cookie pin () = .ok t)
    (h2 : Gen.PyFns_Debug.debugger_dispatch ad ac af as fk t path secret evalex cp () () = 2) :
    pinAnswerOutcome (pinRequest hash_pin fresh cookie hostTrusted (.ok text) pin failed s l).2
      = some (Dbg.respond (cfgOf evalex pin.isSome cp pinLogging) (byte failed)
          (reqOf ad ac af as fk path secret cp hostTrusted (classify hash_pin fresh cookie pin)
            (pinRightOpt text pin))) := by
  apply PyFnsEq.Debug.dispatch_pinauth_respond <;> assumption

/-- The failure counter after such a request is the model's `nextCounter`: unchanged behind an
untrusted Host, otherwise the counter `Dbg.pinAuth` returns (saturating increment for a counted
failure, reset to 0 for the right PIN). -/
theorem dispatch_pinauth_counter (hash_pin : Str → Str) (fresh : Int → Bool) (cookie : Option Str)
    (ad ac af as : Option Str) (fk : Bool) (path secret : Str) (evalex : Bool) (cp : Option Str)
    (pin : Option Str) (pinLogging hostTrusted : Bool) (text : Str) (failed : Int) (s l : Bool)
    (h0 : 0 ≤ failed) (h1 : failed ≤ 255) (t : Option Bool)
    (ht : Gen.PyFns_Debug.check_pin_trust hash_pin fresh cookie pin () = .ok t)
    (h2 : Gen.PyFns_Debug.debugger_dispatch ad ac af as fk t path secret evalex cp () () = 2) :
    (pinRequest hash_pin fresh cookie hostTrusted (.ok text) pin failed s l).1.1
      = ((Dbg.nextCounter (cfgOf evalex pin.isSome cp pinLogging) (byte failed)
          (reqOf ad ac af as fk path secret cp hostTrusted (classify hash_pin fresh cookie pin)
            (pinRightOpt text pin))).toNat : Int) := by
  apply PyFnsEq.Debug.dispatch_pinauth_counter <;> assumption

/-- the counter hypotheses `0 ≤ failed ≤ 255` (the range of `multiprocessing.Value("B")`) are satisfiable -/
example : (0 : Int) ≤ 7 ∧ (7 : Int) ≤ 255 := by decide

example : (fail_pin_auth 255 false false).1 = 255 ∧ (fail_pin_auth 6 false false) = (7, true, true) := by decide

end Wz.Props.C20T2
