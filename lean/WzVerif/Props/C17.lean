/-
C17 — content negotiation picks a best-quality, most-specific offer.
Property theorems only (helper lemmas live in Lemmas/Accept.lean).

The generic theorems hold for every `Neg σ κ` (any specificity function, any match relation) whose
two `≤` relations are total preorders; they are then instantiated for the four werkzeug classes.
-/
import WzVerif.Lemmas.AcceptText
import WzVerif.Lemmas.AcceptHeader
import WzVerif.Lemmas.AcceptHeader2
import WzVerif.Gen.AcceptTbl
import WzVerif.Gen.AcceptApi
namespace Wz.Props.C17
open Wz Wz.Accept

variable {σ κ : Type}

/-! ## tables regenerated from the live code -/

/-- one row of `Gen.AcceptTbl.qTable`: the model's `parse_accept_header("a;q=" + s)` equals what
the live function returned (no item, or the item `a` with that normalised q) -/
def qRowAgrees (e : Str × Option (Nat × Nat)) : Bool :=
  ((parseAcceptRaw (['a', ';', 'q', '='] ++ e.1)).toOption.map fun l =>
      l.map fun it => (it.1, it.2.norm.num, it.2.norm.scale))
    == some (match e.2 with
      | none => []
      | some (n, s) => [(['a'], n, s)])

/-- The live `parse_accept_header` (with the live `_q_value_re`, `float` and range check) and the
model agree on every q text of length ≤ 3 over the alphabet `-.015x` and the length-4 texts
starting `0.`, `1.`, `-0`, `-1` — 402 strings, including
all the malformed, negative and `> 1` shapes of the property (`decide` over the regenerated table;
an edit of the regex or of a comparison in the range check changes a row). -/
theorem q_table_agrees : Gen.AcceptTbl.qTable.all qRowAgrees = true := by decide +kernel

def tblAt (t : List Bool) (n : Nat) : Bool := t.getD n false

/-- The live `_locale_delim_re` and `_mime_split_re` accept exactly the single characters the model
splits on (`_`/`-`; `/`/`;`), and the whitespace `_mime_split_re` absorbs around `;` is the model's. -/
theorem delimiter_tables_agree :
    ∀ n, n < 256 →
      tblAt Gen.AcceptTbl.langDelim n = isLangDelim (Char.ofNat n) ∧
      tblAt Gen.AcceptTbl.mimeDelim n = (n == 47 || n == 59) ∧
      tblAt Gen.AcceptTbl.mimeWs n = Py.isSpace (Char.ofNat n) := by
  decide +kernel

/-! ## parsing: order of the parsed items -/

/-- `Accept.__init__` neither drops nor invents client items. -/
theorem parse_perm (N : Neg σ κ) (values : List (Str × κ)) : (mk N values).Perm values :=
  sortDesc_perm _ _

/-- The parsed list is sorted descending by `(specificity, q)`: every earlier item is at least as
specific as every later one, and among equally specific items has at least its quality. -/
theorem parse_sorted (N : Neg σ κ) (hs : TotalPre N.sle) (hq : TotalPre N.qle)
    (values : List (Str × κ)) :
    (mk N values).Pairwise fun x y =>
      N.sle (N.spec y.1) (N.spec x.1) = true ∧
      (N.sle (N.spec x.1) (N.spec y.1) = true → N.qle y.2 x.2 = true) := by
  refine (sortDesc_sorted (keyGe N) (keyGe_totalPre N hs hq) values).imp ?_
  intro x y h
  simp only [keyGe] at h
  have t := hs.total (N.spec x.1) (N.spec y.1)
  cases c1 : N.sle (N.spec x.1) (N.spec y.1) <;> simp_all

/-- Parsing keeps the client's order among items of equal specificity and quality: the subsequence
of items whose specificity is equivalent to `s` and whose quality is equivalent to `q` is the same
before and after `Accept.__init__`. -/
theorem parse_order_stable (N : Neg σ κ) (hs : TotalPre N.sle) (hq : TotalPre N.qle)
    (values : List (Str × κ)) (s : σ) (q : κ) :
    let same := fun (x : Str × κ) =>
      N.sle (N.spec x.1) s && N.sle s (N.spec x.1) && N.qle x.2 q && N.qle q x.2
    (mk N values).filter same = values.filter same := by
  intro same
  apply sortDesc_filter
  intro a b ha hb
  simp only [same, Bool.and_eq_true] at ha hb
  simp only [keyGe]
  have h1 := hs.trans _ _ _ hb.1.1.1 ha.1.1.2
  have h2 := hq.trans _ _ _ hb.1.2 ha.2
  simp [h1, h2]

example : (mk acceptNeg [("a".toList, ⟨5, 1⟩), ("*".toList, ⟨1, 0⟩), ("b".toList, ⟨50, 2⟩),
      ("c".toList, ⟨9, 1⟩)]).map (·.1)
    = ["c".toList, "a".toList, "b".toList, "*".toList] := by decide

/-! ## lookup of one offer -/

/-- `_best_single_match` on the sorted list returns a client item that matches the offer and is
the most specific matching one — and, among equally specific matching items, one of highest
quality. This is "the quality of an offer" of the property text. -/
theorem sorted_first_match_most_specific (N : Neg σ κ) (hs : TotalPre N.sle) (hq : TotalPre N.qle)
    (values : List (Str × κ)) (offer : Str) (x : Str × κ)
    (h : bestSingle N (mk N values) offer = some x) :
    x ∈ values ∧ N.matches offer x.1 = true ∧
    ∀ y ∈ values, N.matches offer y.1 = true →
      N.sle (N.spec y.1) (N.spec x.1) = true ∧
      (N.sle (N.spec x.1) (N.spec y.1) = true → N.qle y.2 x.2 = true) := by
  have hk := keyGe_totalPre N hs hq
  refine ⟨(mem_sortDesc _).mp (List.mem_of_find?_eq_some h), by simpa using List.find?_some h, ?_⟩
  intro y hy hm
  have := find_sorted_max (keyGe N) (fun it => N.matches offer it.1) (mk N values)
    (sortDesc_sorted _ hk values) hk.refl x h y ((mem_sortDesc _).mpr hy) hm
  simp only [keyGe] at this
  have t := hs.total (N.spec x.1) (N.spec y.1)
  cases c1 : N.sle (N.spec x.1) (N.spec y.1) <;> simp_all

example : bestSingle mimeNeg (mk mimeNeg [("text/*".toList, ⟨9, 1⟩), ("text/html".toList, ⟨2, 1⟩),
      ("*/*".toList, ⟨5, 1⟩)]) "text/html".toList = some ("text/html".toList, ⟨2, 1⟩) := by decide

/-- An offer has no quality (`quality()` returns 0, `find` -1, `in` False) exactly when no client
item matches it. -/
theorem no_match_iff (N : Neg σ κ) (values : List (Str × κ)) (offer : Str) :
    bestSingle N (mk N values) offer = none ↔ ∀ y ∈ values, N.matches offer y.1 = false := by
  simp only [bestSingle, List.find?_eq_none, mk]
  constructor
  · intro h y hy
    simpa using h y ((mem_sortDesc _).mpr hy)
  · intro h y hy
    simpa using h y ((mem_sortDesc _).mp hy)

/-- `quality`, `find` and `__contains__` agree with `_best_single_match`. -/
theorem quality_find_contains (N : Neg σ κ) (self : List (Str × κ)) (key : Str) :
    (quality N self key = none ↔ bestSingle N self key = none) ∧
    (find N self key = none ↔ bestSingle N self key = none) ∧
    (contains N self key = false ↔ bestSingle N self key = none) := by
  refine ⟨by simp [quality], ?_, ?_⟩
  · simp [find, bestSingle, List.findIdx?_eq_none_iff, List.find?_eq_none]
  · simp [contains, bestSingle, List.find?_eq_none]

/-! ## the selection loop -/

/-- `best_match` returns an offer `r` (at some position `pre ++ r :: post`) whose quality `q` is
positive and the highest among all offers; among the offers of that same quality its matched range
is the most specific; and every earlier offer is strictly worse (lower quality, or the same quality
with a strictly less specific range) — so ties go to the earlier offer. -/
theorem bestMatch_optimal (N : Neg σ κ) (hs : TotalPre N.sle) (hq : TotalPre N.qle)
    (self : List (Str × κ)) (offers : List Str) (r : Str)
    (h : bestMatch N self offers = some r) :
    ∃ pre post ci q, offers = pre ++ r :: post ∧ bestSingle N self r = some (ci, q) ∧
      N.qle q N.zero = false ∧
      (∀ o ∈ offers, ∀ ci' q', bestSingle N self o = some (ci', q') →
          N.qle q' q = true ∧ (N.qle q q' = true → N.sle (N.spec ci') (N.spec ci) = true)) ∧
      (∀ o ∈ pre, ∀ ci' q', bestSingle N self o = some (ci', q') →
          N.qle q q' = true → N.sle (N.spec ci) (N.spec ci') = false) := by
  have hr := rankGe_totalPre N hs hq
  unfold bestMatch at h
  rw [bestMatch_eq_argmax] at h
  rcases argmax_from_none (offerScore N self) (rankGe N) hr offers with ⟨hn, _⟩ | ⟨r', s, pre, post, hres, hl, hsr, hpre, hpost⟩
  · rw [hn] at h; cases h
  · rw [hres] at h
    simp only [Option.map_some, Option.some.injEq] at h
    subst h
    obtain ⟨q, sp⟩ := s
    -- unpack the score of r'
    have hsr' := hsr
    unfold offerScore at hsr'
    cases hb : bestSingle N self r' with
    | none => rw [hb] at hsr'; cases hsr'
    | some m =>
      obtain ⟨ci, q0⟩ := m
      rw [hb] at hsr'
      simp only at hsr'
      split at hsr'
      · cases hsr'
      · rename_i hpos
        simp only [Option.some.injEq, Prod.mk.injEq] at hsr'
        obtain ⟨rfl, rfl⟩ := hsr'
        have hpos : N.qle q0 N.zero = false := by simpa using hpos
        have h0q : N.qle N.zero q0 = true := by
          cases hq.total N.zero q0 with
          | inl x => exact x
          | inr x => rw [x] at hpos; cases hpos
        -- the score of an arbitrary offer
        have hscore : ∀ o ci' q', bestSingle N self o = some (ci', q') →
            (N.qle q' N.zero = true ∧ offerScore N self o = none) ∨
            (offerScore N self o = some (q', N.spec ci')) := by
          intro o ci' q' ho
          unfold offerScore
          rw [ho]
          cases c : N.qle q' N.zero <;> simp [c]
        refine ⟨pre, post, ci, q0, hl, rfl, hpos, ?_, ?_⟩
        · intro o ho ci' q' hbo
          rcases hscore o ci' q' hbo with ⟨hle0, _⟩ | hsc
          · have h1 := hq.trans _ _ _ hle0 h0q
            refine ⟨h1, ?_⟩
            intro h2
            rw [hq.trans _ _ _ h2 hle0] at hpos; cases hpos
          · rw [hl] at ho
            rcases List.mem_append.mp ho with ho | ho
            · have := hpre o ho _ hsc
              simp only [rankGe] at this
              have t1 := hq.total q' q0
              have t2 := hs.total (N.spec ci') (N.spec ci)
              cases c1 : N.qle q' q0 <;> cases c2 : N.qle q0 q' <;>
                cases c3 : N.sle (N.spec ci) (N.spec ci') <;> simp_all
            · rcases List.mem_cons.mp ho with rfl | ho
              · rw [hb] at hbo
                simp only [Option.some.injEq, Prod.mk.injEq] at hbo
                obtain ⟨rfl, rfl⟩ := hbo
                exact ⟨hq.refl _, fun _ => hs.refl _⟩
              · have := hpost o ho _ hsc
                simp only [rankGe] at this
                have t1 := hq.total q' q0
                cases c1 : N.qle q' q0 <;> cases c2 : N.qle q0 q' <;> simp_all
        · intro o ho ci' q' hbo hqq
          rcases hscore o ci' q' hbo with ⟨hle0, _⟩ | hsc
          · rw [hq.trans _ _ _ hqq hle0] at hpos; cases hpos
          · have := hpre o ho _ hsc
            simp only [rankGe] at this
            cases c1 : N.qle q' q0 <;> cases c3 : N.sle (N.spec ci) (N.spec ci') <;> simp_all

example : bestMatch mimeNeg (mk mimeNeg [("text/*".toList, ⟨9, 1⟩), ("text/html".toList, ⟨2, 1⟩),
      ("*/*".toList, ⟨5, 1⟩)]) ["image/png".toList, "text/html".toList, "text/plain".toList]
    = some "text/plain".toList := by decide

/-- `best_match` returns the default exactly when no offer has positive quality, i.e. an offer that
no range matches, or whose most specific range has `q = 0`, is never chosen — and some offer is
chosen whenever one has positive quality. -/
theorem bestMatch_none_iff (N : Neg σ κ) (hs : TotalPre N.sle) (hq : TotalPre N.qle)
    (self : List (Str × κ)) (offers : List Str) :
    bestMatch N self offers = none ↔
      ∀ o ∈ offers, ∀ ci q, bestSingle N self o = some (ci, q) → N.qle q N.zero = true := by
  have hr := rankGe_totalPre N hs hq
  have hsc : ∀ o, offerScore N self o = none ↔
      ∀ ci q, bestSingle N self o = some (ci, q) → N.qle q N.zero = true := by
    intro o
    unfold offerScore
    cases hb : bestSingle N self o with
    | none => simp
    | some m =>
      obtain ⟨ci, q⟩ := m
      cases c : N.qle q N.zero <;> simp [c]
  unfold bestMatch
  rw [bestMatch_eq_argmax]
  rcases argmax_from_none (offerScore N self) (rankGe N) hr offers with ⟨hn, hall⟩ | ⟨r', s, pre, post, hres, hl, hsr, _, _⟩
  · rw [hn]
    simp only [Option.map_none, true_iff]
    intro o ho
    exact (hsc o).mp (hall o ho)
  · rw [hres]
    simp only [Option.map_some, reduceCtorEq, false_iff]
    intro hall
    have := (hsc r').mpr (hall r' (by rw [hl]; simp))
    rw [this] at hsr; cases hsr

example : bestMatch acceptNeg (mk acceptNeg [("gzip".toList, Q.zero), ("*".toList, ⟨5, 1⟩)])
    ["gzip".toList] = none := by decide

/-! ## the property in one statement -/

/-- declarative reading of "the quality of an offer": `x` is a client item that matches the offer,
is at least as specific as every other matching item, and among the equally specific ones has the
highest q -/
def IsOfferQuality (N : Neg σ κ) (values : List (Str × κ)) (offer : Str) (x : Str × κ) : Prop :=
  x ∈ values ∧ N.matches offer x.1 = true ∧
  ∀ y ∈ values, N.matches offer y.1 = true →
    N.sle (N.spec y.1) (N.spec x.1) = true ∧
    (N.sle (N.spec x.1) (N.spec y.1) = true → N.qle y.2 x.2 = true)

/-- The property, end to end on the parsed client items (any class): if `best_match` on the parsed
header returns `r`, then `r` is an offer, its quality (the q of its most specific matching range)
is positive, and no offer has a higher quality — where "quality" is the declarative
`IsOfferQuality`, not the code's lookup. -/
theorem negotiation_meets_property (N : Neg σ κ) (hs : TotalPre N.sle) (hq : TotalPre N.qle)
    (values : List (Str × κ)) (offers : List Str) (r : Str)
    (h : bestMatch N (mk N values) offers = some r) :
    r ∈ offers ∧ ∃ x, IsOfferQuality N values r x ∧ N.qle x.2 N.zero = false ∧
      ∀ o ∈ offers, ∀ y, IsOfferQuality N values o y → N.qle y.2 x.2 = true := by
  obtain ⟨pre, post, ci, q, hl, hb, hpos, hall, _⟩ := bestMatch_optimal N hs hq (mk N values) offers r h
  have hx := sorted_first_match_most_specific N hs hq values r (ci, q) hb
  refine ⟨by rw [hl]; simp, (ci, q), hx, hpos, ?_⟩
  intro o ho y hy
  cases hbo : bestSingle N (mk N values) o with
  | none =>
    have := (no_match_iff N values o).mp hbo y hy.1
    rw [hy.2.1] at this; cases this
  | some y0 =>
    obtain ⟨ci0, q0⟩ := y0
    have hy0 := sorted_first_match_most_specific N hs hq values o (ci0, q0) hbo
    -- y and y0 dominate each other, so q y ≤ q y0
    have d1 := hy.2.2 (ci0, q0) hy0.1 hy0.2.1
    have d2 := hy0.2.2 y hy.1 hy.2.1
    have hyq : N.qle y.2 q0 = true := d2.2 d1.1
    exact hq.trans _ _ _ hyq (hall o ho ci0 q0 hbo).1

example : TotalPre acceptNeg.sle ∧ TotalPre acceptNeg.qle ∧
    bestMatch acceptNeg (mk acceptNeg [("gzip".toList, ⟨5, 1⟩), ("*".toList, ⟨1, 1⟩)])
      ["br".toList, "gzip".toList] = some "gzip".toList :=
  ⟨specLe_totalPre, qle_totalPre, by decide⟩

/-- ... and conversely nothing is chosen only when no offer has positive quality. -/
theorem negotiation_none_meets_property (N : Neg σ κ) (hs : TotalPre N.sle) (hq : TotalPre N.qle)
    (values : List (Str × κ)) (offers : List Str)
    (h : bestMatch N (mk N values) offers = none) :
    ∀ o ∈ offers, ∀ y, IsOfferQuality N values o y → N.qle y.2 N.zero = true := by
  intro o ho y hy
  have hnone := (bestMatch_none_iff N hs hq (mk N values) offers).mp h o ho
  cases hbo : bestSingle N (mk N values) o with
  | none =>
    have := (no_match_iff N values o).mp hbo y hy.1
    rw [hy.2.1] at this; cases this
  | some y0 =>
    obtain ⟨ci0, q0⟩ := y0
    have hy0 := sorted_first_match_most_specific N hs hq values o (ci0, q0) hbo
    have d1 := hy.2.2 (ci0, q0) hy0.1 hy0.2.1
    have d2 := hy0.2.2 y hy.1 hy.2.1
    exact hq.trans _ _ _ (d2.2 d1.1) (hnone ci0 q0 hbo)

/-! ## q values -/

/-- Exactly which q texts are kept: `parseQ s = some q` iff `s` has the shape `-?digits(.digits)?`
(`_q_value_re`), `q` is its decimal value, `q ≤ 1`, and a minus sign only stands in front of zero.
Every other text — empty, `1.`, `.5`, `+1`, `1e-1`, `abc`, anything negative or above one — makes
`parse_accept_header` drop the item. -/
theorem q_text_kept_iff (s : Str) (q : Q) : parseQ s = some q ↔ QText s q := parseQ_iff s q

/-- A q that passes `_q_value_re` and the range check lies in `[0, 1]`, and a q written with a
minus sign is only accepted when it is `-0`. -/
theorem parseQ_range (s : Str) (q : Q) (h : parseQ s = some q) :
    q.num ≤ 10 ^ q.scale ∧ (s.head? = some '-' → q.num = 0) := by
  obtain ⟨neg, ip, fr, hne, hip, _, hs, _, hle, hneg⟩ := parseQ_sound s q h
  refine ⟨hle, ?_⟩
  intro hd
  apply hneg
  cases neg with
  | true => rfl
  | false =>
    subst hs
    cases ip with
    | nil => exact absurd rfl hne
    | cons a t =>
      simp only [Bool.false_eq_true, ↓reduceIte, List.nil_append, List.cons_append, List.head?_cons,
        Option.some.injEq] at hd
      subst hd
      have := hip '-' (by simp)
      revert this; decide

example : parseQ "0.001".toList = some ⟨1, 3⟩ ∧ parseQ "1.000".toList = some ⟨1000, 3⟩ ∧
    parseQ "-0.5".toList = none ∧ parseQ "1.001".toList = none ∧ parseQ "1.".toList = none ∧
    parseQ "abc".toList = none ∧ parseQ "".toList = none ∧ parseQ "-0".toList = some ⟨0, 0⟩ := by
  decide

/-- An item is dropped by the loop of `parse_accept_header` exactly when it carries a `q` parameter
whose (stripped) text fails `_q_value_re` or the range check. -/
theorem item_dropped_iff (item : Str) (opts : List (Str × Str)) :
    acceptItem item opts = none ↔
      ∃ qs, dictGet opts qKey = some qs ∧ parseQ (Py.strip qs) = none := by
  unfold acceptItem
  cases hq : dictGet opts qKey with
  | none => simp
  | some qs =>
    cases hp : parseQ (Py.strip qs) <;> simp [hp]

/-- Items with a malformed or out-of-range q are ignored: removing such an item from the lexed
header does not change the parsed result (for any class, before and after sorting).
`_partial`: stated for items whose `q` parameter survived `parse_options_header`; see
`invalid_q_ignored_full_false` for the inputs this excludes. -/
theorem invalid_q_ignored_partial (item : Str) (opts : List (Str × Str)) (qs : Str)
    (hq : dictGet opts qKey = some qs) (hbad : parseQ (Py.strip qs) = none)
    (l1 l2 : List (Str × List (Str × Str))) :
    acceptItems (l1 ++ (item, opts) :: l2) = acceptItems (l1 ++ l2) := by
  have : acceptItem item opts = none := (item_dropped_iff item opts).mpr ⟨qs, hq, hbad⟩
  simp [acceptItems, List.filterMap_append, this]

example : dictGet [(qKey, "1.5".toList)] qKey = some "1.5".toList ∧
    parseQ (Py.strip "1.5".toList) = none := by decide

/-- the full-strength reading of "items with malformed q are ignored" on header text:
an element `value;q=<text>` whose q text is not a valid q contributes nothing -/
def InvalidQIgnoredFull : Prop :=
  ∀ (value qs : Str), value.all (fun c => isTokChar c || c == '/') = true → qs.all (fun c => c != ',' && c != ';' && c != '"') = true →
    parseQ (Py.strip qs) = none →
    (parseAcceptRaw (value ++ ";q=".toList ++ qs)).toOption = some []

/-- Known finding F17b: the full-strength form is false. `text/html;q=` (empty q) is kept with q=1:
`parse_options_header` drops the unparsable parameter before the q check sees it. -/
theorem invalid_q_ignored_full_false : ¬ InvalidQIgnoredFull := by
  intro h
  have := h "text/html".toList [] (by decide) (by decide) (by decide)
  revert this
  decide

/-- Header text level: the element `value;q=<text>` (value made of token characters and `/`,
q text a non-empty token) parses to nothing when the q text fails `_q_value_re` / the range
check, and to exactly `(value, q)` otherwise.
This is the `_partial` form of "items with malformed or out-of-range q are ignored" on header text;
excluded are exactly the q texts that are not tokens (empty, or starting with a blank — F17b). -/
theorem invalid_q_ignored_header_partial (v qs : Str) (hv : IsValueText v) (hq : IsToken qs) :
    (parseAcceptRaw (qElement v qs)).toOption =
      some (match parseQ qs with
        | none => []
        | some q => [(v, q)]) := by
  have hne : (qElement v qs).isEmpty = false := by simp [qElement]
  have hs : Py.strip qs = qs := strip_noSpace' qs (fun c hc => (isTokChar_props c (hq.2 c hc)).1)
  simp only [parseAcceptRaw, hne, Bool.false_eq_true, ↓reduceIte, lexHeader,
    parseListHeader_qElement v qs hv hq, List.mapM_cons, List.mapM_nil,
    parseOptionsHeader_qElement v qs hv hq]
  have : acceptItems [(v, [(qKey, qs)])] = (match parseQ qs with
      | none => []
      | some q => [(v, q)]) := by
    simp only [acceptItems, List.filterMap_cons, List.filterMap_nil, acceptItem, dictGet,
      List.find?_cons_of_pos, BEq.rfl, Option.map_some, hs]
    cases parseQ qs <;> simp
  rw [← this]
  rfl

example : IsValueText "text/html".toList ∧ IsToken "1.5".toList ∧ parseQ "1.5".toList = none ∧
    qElement "text/html".toList "1.5".toList = "text/html;q=1.5".toList := by
  refine ⟨⟨by decide, ?_⟩, ⟨by decide, ?_⟩, by decide, by decide⟩
  · intro c hc
    have : c ∈ "text/html".toList := hc
    by_cases h : c = '/'
    · exact Or.inr h
    · left
      have hm : c = 't' ∨ c = 'e' ∨ c = 'x' ∨ c = 'h' ∨ c = 'm' ∨ c = 'l' := by
        have : c = 't' ∨ c = 'e' ∨ c = 'x' ∨ c = 't' ∨ c = '/' ∨ c = 'h' ∨ c = 't' ∨ c = 'm' ∨ c = 'l' := by
          simpa using this
        rcases this with h1 | h1 | h1 | h1 | h1 | h1 | h1 | h1 | h1 <;> simp_all
      rcases hm with rfl | rfl | rfl | rfl | rfl | rfl <;> decide
  · intro c hc
    have : c = '1' ∨ c = '.' ∨ c = '5' := by simpa using hc
    rcases this with rfl | rfl | rfl <;> decide

/-- the same happens for bad whitespace after `=` -/
theorem invalid_q_space_kept :
    (parseAcceptRaw "text/html;q= 0.5".toList).toOption = some [("text/html".toList, Q.one)] := by
  decide

/-! ## the property on header text -/

/-- `parse_accept_header` on the property's grammar, as text: for a header
`e₁,e₂,…,eₙ` whose elements are `value(;key=token)*(;q=token)?` (values of token characters and
`/`, distinct lower-case keys, token parameter values — media ranges with and without parameters,
language tags, charsets, codings), the list handed to the Accept class consists, in header order,
of `value; key=token; …` with the q of the element (1 when absent) for exactly the elements whose
q text is a valid q (`q_text_kept_iff`); elements with any other token as q text are dropped.
The one gap of the code is outside this grammar: a q parameter that is not a token (`;q=`,
`;q= 0.5`) is lost in `parse_options_header` and the element is kept with q=1 — known finding
F17b, witnesses `invalid_q_ignored_full_false` and `invalid_q_space_kept`. -/
theorem parse_accept_text (es : List Elem) (hne : es ≠ []) (h : ∀ e ∈ es, e.WF) :
    parseAcceptRaw (headerText es) = .ok (es.filterMap Elem.item) :=
  parseAcceptRaw_header es hne h

/-- an element is dropped exactly when it has a q text that is not a valid q -/
theorem element_dropped_iff (e : Elem) :
    e.item = none ↔ ∃ qs, e.q = some qs ∧ ∀ q, ¬ QText qs q := by
  unfold Elem.item
  cases hq : e.q with
  | none => simp
  | some qs =>
    simp only [Option.map_eq_none_iff, Option.some.injEq, exists_eq_left']
    constructor
    · intro hn q hqt
      rw [(parseQ_iff qs q).mpr hqt] at hn; cases hn
    · intro hall
      cases hp : parseQ qs with
      | none => rfl
      | some q => exact absurd ((parseQ_iff qs q).mp hp) (hall q)

def exampleHeader : List Elem :=
  [⟨"text/html".toList, [("level".toList, "1".toList)], some "0.5".toList⟩,
   ⟨"text/*".toList, [], some "1.5".toList⟩, ⟨"*/*".toList, [], none⟩]

example : headerText exampleHeader = "text/html;level=1;q=0.5,text/*;q=1.5,*/*".toList ∧
    exampleHeader.filterMap Elem.item =
      [("text/html; level=1".toList, ⟨5, 1⟩), ("*/*".toList, Q.one)] := by decide

/-- The property end to end on header text, for any of the four classes: negotiate on the parsed
text of a well-formed header; if `best_match` returns `r`, then `r` is an offer, its quality — the
q of the most specific element of the header that matches it, computed declaratively from the
header's elements — is positive, and no offer has a higher quality. -/
theorem negotiation_meets_property_text (N : Neg σ Q) (hs : TotalPre N.sle)
    (es : List Elem) (hne : es ≠ []) (h : ∀ e ∈ es, e.WF) (self : List (Str × Q))
    (hp : parseAccept N (headerText es) = .ok self) (offers : List Str) (r : Str)
    (hb : bestMatch N self offers = some r) (hq : N.qle = Q.le) :
    r ∈ offers ∧ ∃ x, IsOfferQuality N (es.filterMap Elem.item) r x ∧ N.qle x.2 N.zero = false ∧
      ∀ o ∈ offers, ∀ y, IsOfferQuality N (es.filterMap Elem.item) o y → N.qle y.2 x.2 = true := by
  unfold parseAccept at hp
  rw [parse_accept_text es hne h] at hp
  simp only [Except.map, Except.ok.injEq] at hp
  subst hp
  have hq' : TotalPre N.qle := by rw [hq]; exact qle_totalPre
  exact negotiation_meets_property N hs hq' _ offers r hb

/-- ... and `None` is returned only when no offer has positive quality. -/
theorem negotiation_none_meets_property_text (N : Neg σ Q) (hs : TotalPre N.sle)
    (es : List Elem) (hne : es ≠ []) (h : ∀ e ∈ es, e.WF) (self : List (Str × Q))
    (hp : parseAccept N (headerText es) = .ok self) (offers : List Str)
    (hb : bestMatch N self offers = none) (hq : N.qle = Q.le) :
    ∀ o ∈ offers, ∀ y, IsOfferQuality N (es.filterMap Elem.item) o y → N.qle y.2 N.zero = true := by
  unfold parseAccept at hp
  rw [parse_accept_text es hne h] at hp
  simp only [Except.map, Except.ok.injEq] at hp
  subst hp
  have hq' : TotalPre N.qle := by rw [hq]; exact qle_totalPre
  exact negotiation_none_meets_property N hs hq' _ offers hb

/-- Parsing header text keeps the client's order among elements of equal specificity and quality. -/
theorem parse_order_stable_text (N : Neg σ Q) (hs : TotalPre N.sle)
    (es : List Elem) (hne : es ≠ []) (h : ∀ e ∈ es, e.WF) (self : List (Str × Q))
    (hp : parseAccept N (headerText es) = .ok self) (s : σ) (q : Q) (hq : N.qle = Q.le) :
    let same := fun (x : Str × Q) =>
      N.sle (N.spec x.1) s && N.sle s (N.spec x.1) && N.qle x.2 q && N.qle q x.2
    self.filter same = (es.filterMap Elem.item).filter same := by
  unfold parseAccept at hp
  rw [parse_accept_text es hne h] at hp
  simp only [Except.map, Except.ok.injEq] at hp
  subst hp
  have hq' : TotalPre N.qle := by rw [hq]; exact qle_totalPre
  exact parse_order_stable N hs hq' _ s q

example : (parseAccept mimeNeg (headerText exampleHeader)).toOption =
      some [("text/html; level=1".toList, ⟨5, 1⟩), ("*/*".toList, Q.one)] ∧
    bestMatch mimeNeg [("text/html; level=1".toList, ⟨5, 1⟩), ("*/*".toList, Q.one)]
      ["text/plain".toList, "text/html;level=1".toList] = some "text/plain".toList := by decide

/-! ## the four classes -/


/-- `MIMEAccept`: every generic theorem applies (its specificity tuples are totally ordered by
Python's tuple comparison, q values by `≤`). Stated here for the selection. -/
theorem mime_bestMatch_optimal (self : List (Str × Q)) (offers : List Str) (r : Str)
    (h : bestMatch mimeNeg self offers = some r) :
    ∃ pre post ci q, offers = pre ++ r :: post ∧ bestSingle mimeNeg self r = some (ci, q) ∧
      mimeMatches r ci = true ∧ Q.le q Q.zero = false ∧
      (∀ o ∈ offers, ∀ ci' q', bestSingle mimeNeg self o = some (ci', q') →
          Q.le q' q = true ∧ (Q.le q q' = true → specLe (mimeSpec ci') (mimeSpec ci) = true)) ∧
      (∀ o ∈ pre, ∀ ci' q', bestSingle mimeNeg self o = some (ci', q') →
          Q.le q q' = true → specLe (mimeSpec ci) (mimeSpec ci') = false) := by
  obtain ⟨pre, post, ci, q, h1, h2, h3, h4, h5⟩ :=
    bestMatch_optimal mimeNeg specLe_totalPre qle_totalPre self offers r h
  refine ⟨pre, post, ci, q, h1, h2, ?_, h3, h4, h5⟩
  have := List.find?_some h2
  simpa [mimeNeg] using this

/-- `MIMEAccept._value_matches`, concrete facts: `*/*` matches every offer; an item without `/`
or of the form `*/x` matches nothing; parameters are compared as a multiset and ignored under
a wildcard subtype. -/
theorem mime_match_facts :
    (∀ v, mimeMatches v "*/*".toList = true) ∧
    (∀ v item, hasSlash item = false → mimeMatches v item = false) ∧
    (∀ v item, (mimeNorm item).type = star → (mimeNorm item).subtype ≠ star → mimeMatches v item = false) ∧
    (∀ v item, hasSlash item = true → (mimeNorm item).type ≠ star →
        (mimeNorm item).type = (mimeNorm v).type → (mimeNorm item).subtype = star →
        mimeMatches v item = true) ∧
    (∀ v item, hasSlash item = true → (mimeNorm item).type ≠ star → (mimeNorm item).subtype ≠ star →
        (mimeNorm v).type ≠ star → (mimeNorm v).subtype ≠ star →
        (mimeMatches v item = true ↔
          ((mimeNorm item).type = (mimeNorm v).type ∧ (mimeNorm item).subtype = (mimeNorm v).subtype ∧
           (mimeNorm item).params.Perm (mimeNorm v).params))) := by
  refine ⟨?_, ?_, ?_, ?_, ?_⟩
  · intro v
    have h : (mimeNorm "*/*".toList).type = star ∧ (mimeNorm "*/*".toList).subtype = star := by decide
    have h2 : hasSlash "*/*".toList = true := by decide
    unfold mimeMatches
    simp only [h2, h.1, h.2]
    simp
  · intro v item h
    simp [mimeMatches, h]
  · intro v item h1 h2
    unfold mimeMatches
    split
    · rfl
    · simp [h1, h2]
  · intro v item h0 h1 h2 h3
    simp [mimeMatches, h0, h2, h3]
  · intro v item h0 h1 h2 h3 h4
    simp [mimeMatches, h0, h1, h2, h3, h4, List.isPerm_iff]

/-- On well-formed media-type text (`type/subtype; p1; p2 …` as `parse_accept_header` rebuilds it:
lower-case pieces free of `/`, `;` and blanks) the specificity tuple is
`(type ≠ *, subtype ≠ *, True per parameter …)`. -/
theorem mime_spec_text (t s : Str) (ps : List Str) (ht : NoDelim t) (hs : NoDelim s)
    (hps : ∀ p ∈ ps, NoDelim p) :
    mimeSpec (renderMime t s ps) = (t != star) :: (s != star) :: ps.map (· != star) := by
  simp [mimeSpec, mimeSplit_render t s ps ht hs hps]

/-- On well-formed text, a concrete range `t/s;ps` matches a concrete offer `t'/s';ps'` exactly when
type and subtype agree and the parameters agree as multisets (order-insensitive). -/
theorem mime_match_text (t s t' s' : Str) (ps ps' : List Str)
    (ht : NoDelim t) (hs : NoDelim s) (hps : ∀ p ∈ ps, NoDelim p)
    (ht' : NoDelim t') (hs' : NoDelim s') (hps' : ∀ p ∈ ps', NoDelim p)
    (lt : IsLower t) (ls : IsLower s) (lps : ∀ p ∈ ps, IsLower p)
    (lt' : IsLower t') (ls' : IsLower s') (lps' : ∀ p ∈ ps', IsLower p)
    (n1 : t ≠ star) (n2 : s ≠ star) (n3 : t' ≠ star) (n4 : s' ≠ star) :
    mimeMatches (renderMime t' s' ps') (renderMime t s ps) = true ↔
      t = t' ∧ s = s' ∧ ps.Perm ps' := by
  have hi := mimeNorm_render t s ps ht hs hps lt ls lps
  have hv := mimeNorm_render t' s' ps' ht' hs' hps' lt' ls' lps'
  have := mime_match_facts.2.2.2.2 (renderMime t' s' ps') (renderMime t s ps)
    (hasSlash_render t s ps) (by rw [hi]; exact n1) (by rw [hi]; exact n2)
    (by rw [hv]; exact n3) (by rw [hv]; exact n4)
  rw [this, hi, hv]

/-- Parameters are a set: matching is invariant under any reordering of the parameters of the
client's range and of the offer (well-formed text; wildcards allowed on either side). An offer that
spells `level=1;charset=utf-8` as `charset=utf-8;level=1` matches exactly the same ranges. -/
theorem mime_match_param_order_irrelevant (t s t' s' : Str) (ps ps2 ps' ps2' : List Str)
    (ht : NoDelim t) (hs : NoDelim s) (hps : ∀ p ∈ ps, NoDelim p)
    (ht' : NoDelim t') (hs' : NoDelim s') (hps' : ∀ p ∈ ps', NoDelim p)
    (lt : IsLower t) (ls : IsLower s) (lps : ∀ p ∈ ps, IsLower p)
    (lt' : IsLower t') (ls' : IsLower s') (lps' : ∀ p ∈ ps', IsLower p)
    (hperm : ps.Perm ps2) (hperm' : ps'.Perm ps2') :
    mimeMatches (renderMime t' s' ps2') (renderMime t s ps2) =
      mimeMatches (renderMime t' s' ps') (renderMime t s ps) := by
  have hi := mimeNorm_render t s ps ht hs hps lt ls lps
  have hv := mimeNorm_render t' s' ps' ht' hs' hps' lt' ls' lps'
  have hi2 := mimeNorm_render t s ps2 ht hs (fun p hp => hps p (hperm.mem_iff.mpr hp)) lt ls
    (fun p hp => lps p (hperm.mem_iff.mpr hp))
  have hv2 := mimeNorm_render t' s' ps2' ht' hs' (fun p hp => hps' p (hperm'.mem_iff.mpr hp)) lt' ls'
    (fun p hp => lps' p (hperm'.mem_iff.mpr hp))
  have hp : ps2.isPerm ps2' = ps.isPerm ps' := by
    rw [Bool.eq_iff_iff, List.isPerm_iff, List.isPerm_iff]
    exact ⟨fun h => hperm.trans (h.trans hperm'.symm), fun h => hperm.symm.trans (h.trans hperm')⟩
  unfold mimeMatches
  simp only [hasSlash_render, hi, hv, hi2, hv2, hp]

example : mimeMatches "text/html; charset=utf-8; level=1".toList "text/html; level=1; charset=utf-8".toList = true ∧
    ["level=1".toList, "charset=utf-8".toList].Perm ["charset=utf-8".toList, "level=1".toList] :=
  ⟨by decide, List.Perm.swap _ _ _⟩

/-- ... a `t/*` range matches exactly the offers of type `t`, whatever their parameters. -/
theorem mime_match_text_subtype_wildcard (t t' s' : Str) (ps' : List Str)
    (ht : NoDelim t) (ht' : NoDelim t') (hs' : NoDelim s') (hps' : ∀ p ∈ ps', NoDelim p)
    (lt : IsLower t) (lt' : IsLower t') (ls' : IsLower s') (lps' : ∀ p ∈ ps', IsLower p)
    (n1 : t ≠ star) (n3 : t' ≠ star) :
    mimeMatches (renderMime t' s' ps') (renderMime t star []) = true ↔ t = t' := by
  have hstar : NoDelim star := by
    intro c hc
    have : c = '*' := by simpa [star] using hc
    subst this
    exact ⟨by decide, by decide, by decide⟩
  have lstar : IsLower star := by unfold IsLower; decide
  have hi := mimeNorm_render t star [] ht hstar (by simp) lt lstar (by simp)
  have hv := mimeNorm_render t' s' ps' ht' hs' hps' lt' ls' lps'
  unfold mimeMatches
  simp only [hasSlash_render, hi, hv, Bool.not_true, Bool.false_eq_true, ↓reduceIte]
  simp [n1, n3]

example : renderMime "text".toList "html".toList ["level=1".toList] = "text/html; level=1".toList ∧
    mimeMatches "text/html; level=1".toList "text/html; level=1".toList = true := by decide

/-- the specificity order of media ranges: `*/*` < `type/*` < `type/subtype` < with parameters -/
theorem mime_spec_order :
    mimeSpec "*/*".toList = [false, false] ∧ mimeSpec "text/*".toList = [true, false] ∧
    mimeSpec "text/html".toList = [true, true] ∧ mimeSpec "text/html; level=1".toList = [true, true, true] ∧
    specLe [false, false] [true, false] = true ∧ specLe [true, false] [false, false] = false ∧
    specLe [true, false] [true, true] = true ∧ specLe [true, true] [true, false] = false ∧
    specLe [true, true] [true, true, true] = true ∧ specLe [true, true, true] [true, true] = false := by
  decide

/-! ### LanguageAccept -/

/-- what `best_match` of any class guarantees about its result -/
theorem bestMatch_sound (N : Neg σ κ) (hs : TotalPre N.sle) (hq : TotalPre N.qle)
    (self : List (Str × κ)) (offers : List Str) (r : Str) (h : bestMatch N self offers = some r) :
    r ∈ offers ∧ ∃ ci q, (ci, q) ∈ self ∧ N.matches r ci = true ∧ N.qle q N.zero = false := by
  obtain ⟨pre, post, ci, q, h1, h2, h3, _, _⟩ := bestMatch_optimal N hs hq self offers r h
  refine ⟨by rw [h1]; simp, ci, q, List.mem_of_find?_eq_some h2, ?_, h3⟩
  simpa [bestSingle] using List.find?_some h2

/-- Exact stage: when some offer has positive quality under exact (normalised) tag matching,
`LanguageAccept.best_match` is the generic selection, so `bestMatch_optimal` describes it. -/
theorem lang_exact_stage (self : List (Str × Q)) (offers : List Str) (r : Str)
    (h : bestMatch langNeg self offers = some r) : langBestMatch self offers = some r := by
  simp [langBestMatch, h]

theorem lang_exact_stage_optimal (self : List (Str × Q)) (offers : List Str) (r : Str)
    (h : bestMatch langNeg self offers = some r) :
    ∃ pre post ci q, offers = pre ++ r :: post ∧ bestSingle langNeg self r = some (ci, q) ∧
      Q.le q Q.zero = false ∧
      (∀ o ∈ offers, ∀ ci' q', bestSingle langNeg self o = some (ci', q') →
          Q.le q' q = true ∧ (Q.le q q' = true → specLe (baseSpec ci') (baseSpec ci) = true)) ∧
      (∀ o ∈ pre, ∀ ci' q', bestSingle langNeg self o = some (ci', q') →
          Q.le q q' = true → specLe (baseSpec ci) (baseSpec ci') = false) :=
  bestMatch_optimal langNeg specLe_totalPre qle_totalPre self offers r h

/-- the offers kept for the fallback stages are offers, and none of them was found refused -/
theorem mem_langNotRefused {self : List (Str × Q)} {offers : List Str} {o : Str}
    (h : o ∈ langNotRefused self offers) :
    o ∈ offers ∧ ∀ ci q, bestSingle langNeg self o = some (ci, q) → Q.le q Q.zero = false := by
  unfold langNotRefused at h
  obtain ⟨h1, h2⟩ := List.mem_filter.mp h
  refine ⟨h1, ?_⟩
  intro ci q hb
  rw [hb] at h2
  simpa using h2

/-- Every result of `LanguageAccept.best_match`, including the fallback stages, is one of the
offers and is justified by a client range of positive quality: the range matches the offer
exactly, or the range's primary tag is the offer (stage 2), or the offer's primary tag is the
range (stage 3). In particular a stage-3 result has the matched primary tag — the repaired F17
(`english-x` for client `en` is impossible). -/
theorem lang_result_sound (self : List (Str × Q)) (offers : List Str) (r : Str)
    (h : langBestMatch self offers = some r) :
    r ∈ offers ∧ ∃ ci q, (ci, q) ∈ self ∧ Q.le q Q.zero = false ∧
      (langMatches r ci = true ∨ baseMatches r (primaryTag ci) = true ∨
       langMatches (primaryTag r) ci = true) := by
  unfold langBestMatch at h
  split at h
  · rename_i r1 h1
    simp only [Option.some.injEq] at h; subst h
    obtain ⟨hm, ci, q, hin, hmt, hpos⟩ := bestMatch_sound langNeg specLe_totalPre qle_totalPre _ _ _ h1
    exact ⟨hm, ci, q, hin, hpos, Or.inl hmt⟩
  · dsimp only at h
    split at h
    · rename_i r2 h2
      simp only [Option.some.injEq] at h; subst h
      obtain ⟨hm, ci, q, hin, hmt, hpos⟩ := bestMatch_sound acceptNeg specLe_totalPre qle_totalPre _ _ _ h2
      have hin' : (ci, q) ∈ self.map fun it => (primaryTag it.1, it.2) := (mem_sortDesc _).mp hin
      obtain ⟨it, hit, heq⟩ := List.mem_map.mp hin'
      simp only [Prod.mk.injEq] at heq
      refine ⟨(mem_langNotRefused hm).1, it.1, it.2, hit, ?_, Or.inr (Or.inl ?_)⟩
      · rw [heq.2]; exact hpos
      · rw [heq.1]; exact hmt
    · split at h
      · rename_i p h3
        obtain ⟨hm, ci, q, hin, hmt, hpos⟩ := bestMatch_sound langNeg specLe_totalPre qle_totalPre _ _ _ h3
        cases hf : ((langNotRefused self offers).zip ((langNotRefused self offers).map primaryTag)).find?
            (fun x => x.2 == p) with
        | none => rw [hf] at h; cases h
        | some x =>
          rw [hf] at h
          simp only [Option.map_some, Option.some.injEq] at h
          obtain ⟨hx1, hx2, hx3⟩ := zip_map_find primaryTag _ _ x hf
          subst h
          have : primaryTag x.1 = p := by rw [← hx2]; simpa using hx3
          refine ⟨(mem_langNotRefused hx1).1, ci, q, hin, hpos, Or.inr (Or.inr ?_)⟩
          rw [this]; exact hmt
      · cases h

example : langBestMatch (mk langNeg [("en".toList, Q.one)]) ["english-x".toList, "en-US".toList]
    = some "en-US".toList := by decide
example : langBestMatch (mk langNeg [("en-US".toList, ⟨5, 1⟩), ("en-GB".toList, ⟨9, 1⟩)])
    ["de".toList, "en".toList] = some "en".toList := by decide

/-- The fallback stages only ever pick an offer that no client range matches exactly (0816efc):
a fallback result is an offer without any exact match. -/
theorem lang_fallback_only_unmatched (self : List (Str × Q)) (offers : List Str) (r : Str)
    (h : langBestMatch self offers = some r) (hfb : bestMatch langNeg self offers = none) :
    r ∈ offers ∧ bestSingle langNeg self r = none := by
  have hm := (lang_result_sound self offers r h).1
  refine ⟨hm, ?_⟩
  -- r survived the filter ...
  have hr : r ∈ langNotRefused self offers := by
    unfold langBestMatch at h
    rw [hfb] at h
    dsimp only at h
    split at h
    · rename_i r2 h2
      simp only [Option.some.injEq] at h; subst h
      exact (bestMatch_sound acceptNeg specLe_totalPre qle_totalPre _ _ _ h2).1
    · split at h
      · rename_i p h3
        cases hf : ((langNotRefused self offers).zip ((langNotRefused self offers).map primaryTag)).find?
            (fun x => x.2 == p) with
        | none => rw [hf] at h; cases h
        | some x =>
          rw [hf] at h
          simp only [Option.map_some, Option.some.injEq] at h
          subst h
          exact (zip_map_find primaryTag _ _ x hf).1
      · cases h
  -- ... and the exact stage found nothing of positive quality
  have hle := (bestMatch_none_iff langNeg specLe_totalPre qle_totalPre self offers).mp hfb r hm
  cases hb : bestSingle langNeg self r with
  | none => rfl
  | some m =>
    obtain ⟨ci, q⟩ := m
    have h1 := hle ci q hb
    have h2 := (mem_langNotRefused hr).2 ci q hb
    change Q.le q Q.zero = true at h1
    rw [h1] at h2; cases h2

example : langBestMatch (mk langNeg [("en-US".toList, ⟨5, 1⟩)]) ["en".toList] = some "en".toList ∧
    bestMatch langNeg (mk langNeg [("en-US".toList, ⟨5, 1⟩)]) ["en".toList] = none := by decide

/-- "An offer whose best range has q=0 is never chosen" — at full strength for
`LanguageAccept.best_match` including both fallback stages (F17c, repaired by 0816efc): whenever
the chosen offer has an exact match at all, that match has positive quality. -/
theorem lang_zero_never_chosen (self : List (Str × Q)) (offers : List Str) (r : Str)
    (h : langBestMatch self offers = some r) :
    ∀ ci q, bestSingle langNeg self r = some (ci, q) → Q.le q Q.zero = false := by
  intro ci q hb
  cases h1 : bestMatch langNeg self offers with
  | some r1 =>
    have : langBestMatch self offers = some r1 := lang_exact_stage self offers r1 h1
    rw [this] at h
    simp only [Option.some.injEq] at h
    subst h
    obtain ⟨_, _, ci0, q0, _, hb0, hpos, _, _⟩ :=
      bestMatch_optimal langNeg specLe_totalPre qle_totalPre self offers r1 h1
    rw [hb0] at hb
    simp only [Option.some.injEq, Prod.mk.injEq] at hb
    rw [← hb.2]; exact hpos
  | none =>
    have := (lang_fallback_only_unmatched self offers r h h1).2
    rw [this] at hb; cases hb

/-- regression inputs of F17c: the refused offers no longer come back -/
theorem lang_refused_stays_refused :
    langBestMatch (mk langNeg [("en-US".toList, Q.zero), ("*".toList, Q.one)]) ["en_us".toList] = none ∧
    langBestMatch (mk langNeg [("en-US".toList, Q.zero), ("en".toList, ⟨5, 1⟩)]) ["en-US".toList] = none ∧
    langBestMatch (mk langNeg [("en".toList, Q.zero), ("en-GB".toList, Q.one)]) ["en".toList] = none ∧
    langBestMatch (mk langNeg [("en-US".toList, Q.zero), ("*".toList, Q.one)])
      ["en_us".toList, "de-AT".toList] = some "de-AT".toList := by decide

/-- The last stage never fails to map the matched primary tag back to an offer (the `next(...)`
in the code cannot raise `StopIteration`): the result is `None` exactly when all three stages find
no offer of positive quality (the fallback stages run over the offers that were not refused). -/
theorem lang_none_iff (self : List (Str × Q)) (offers : List Str) :
    langBestMatch self offers = none ↔
      bestMatch langNeg self offers = none ∧
      bestMatch acceptNeg (langFallbackSelf self) (langNotRefused self offers) = none ∧
      bestMatch langNeg self ((langNotRefused self offers).map primaryTag) = none := by
  unfold langBestMatch
  cases h1 : bestMatch langNeg self offers with
  | some r => simp
  | none =>
    dsimp only
    generalize langNotRefused self offers = offers'
    cases h2 : bestMatch acceptNeg (langFallbackSelf self) offers' with
    | some r => simp
    | none =>
      cases h3 : bestMatch langNeg self (offers'.map primaryTag) with
      | none => simp
      | some p =>
        simp only [reduceCtorEq, and_false, iff_false]
        obtain ⟨hm, _⟩ := bestMatch_sound langNeg specLe_totalPre qle_totalPre _ _ _ h3
        obtain ⟨o, ho, hop⟩ := List.mem_map.mp hm
        intro hnone
        simp only [Option.map_eq_none_iff, List.find?_eq_none] at hnone
        have hz : (o, primaryTag o) ∈ offers'.zip (offers'.map primaryTag) := by
          clear hm h2 h3 hnone
          induction offers' with
          | nil => simp at ho
          | cons a t ih =>
            simp only [List.map_cons, List.zip_cons_cons, List.mem_cons]
            rcases List.mem_cons.mp ho with rfl | ho
            · left; rfl
            · right; exact ih ho
        have := hnone _ hz
        simp [hop] at this

/-- `CharsetAccept` (for every codec alias table): the generic selection theorem applies. -/
theorem charset_bestMatch_optimal (aliases : List (Str × Str)) (self : List (Str × Q))
    (offers : List Str) (r : Str) (h : bestMatch (charsetNeg aliases) self offers = some r) :
    ∃ pre post ci q, offers = pre ++ r :: post ∧
      bestSingle (charsetNeg aliases) self r = some (ci, q) ∧ Q.le q Q.zero = false ∧
      (∀ o ∈ offers, ∀ ci' q', bestSingle (charsetNeg aliases) self o = some (ci', q') →
          Q.le q' q = true ∧ (Q.le q q' = true → specLe (baseSpec ci') (baseSpec ci) = true)) ∧
      (∀ o ∈ pre, ∀ ci' q', bestSingle (charsetNeg aliases) self o = some (ci', q') →
          Q.le q q' = true → specLe (baseSpec ci) (baseSpec ci') = false) :=
  bestMatch_optimal (charsetNeg aliases) specLe_totalPre qle_totalPre self offers r h

example : bestMatch (charsetNeg [("UTF8".toList, "utf-8".toList), ("utf-8".toList, "utf-8".toList)])
    (mk (charsetNeg []) [("UTF8".toList, ⟨5, 1⟩)]) ["latin1".toList, "utf-8".toList]
    = some "utf-8".toList := by decide

/-! ## the Request attributes and the rest of the Accept API -/

def clsName : AcceptCls → Str
  | .accept => "Accept".toList
  | .mime => "MIMEAccept".toList
  | .lang => "LanguageAccept".toList
  | .charset => "CharsetAccept".toList

/-- `Request.accept_mimetypes / accept_charsets / accept_encodings / accept_languages`, read from
the source by AST on every run: each is `parse_accept_header(self.headers.get(<header>), <class>)`
with exactly the header and the class the model uses (a swapped header or class changes the
regenerated table). -/
theorem request_attr_table :
    Gen.AcceptApi.requestAttrs =
      AcceptAttr.all.map fun a => (a.spec.1, a.spec.2.1, clsName a.spec.2.2) := by decide

/-- `MIMEAccept.accept_html / accept_xhtml / accept_json` test exactly these media types with
`in self`, or-ed together (`accept_html` also consults `accept_xhtml`) — as the model does. -/
theorem mime_flag_table :
    Gen.AcceptApi.mimeFlags =
      [("accept_html".toList, [mtHtml], ["accept_xhtml".toList]),
       ("accept_xhtml".toList, [mtXhtml, mtXml], []),
       ("accept_json".toList, [mtJson], [])] := by decide

/-- Which methods each class defines itself: `MIMEAccept` only `_specificity` and `_value_matches`,
`LanguageAccept` only `_value_matches` and `best_match`, `CharsetAccept` only `_value_matches` —
everything else (`quality`, `find`, `index`, `__contains__`, `__getitem__`, `best`, `values`,
`to_header`, the sort in `__init__`) is `Accept`'s, which is what makes the generic theorems apply
to all four classes. -/
theorem class_overrides_table :
    Gen.AcceptApi.overrides =
      [("Accept".toList, ["__contains__".toList, "__getitem__".toList, "__init__".toList,
          "_best_single_match".toList, "_specificity".toList, "_value_matches".toList, "best".toList,
          "best_match".toList, "find".toList, "index".toList, "quality".toList, "to_header".toList,
          "values".toList]),
       ("MIMEAccept".toList, ["_specificity".toList, "_value_matches".toList]),
       ("LanguageAccept".toList, ["_value_matches".toList, "best_match".toList]),
       ("CharsetAccept".toList, ["_value_matches".toList])] := by decide

/-- A Request attribute depends on its own header only: two header sets that agree on that header
give the same object — `Accept-Language` never leaks into `accept_mimetypes` etc. -/
theorem request_attr_reads_only_its_header (aliases : List (Str × Str)) (attr : AcceptAttr)
    (h1 h2 : List (Str × Str)) (h : headersGet h1 attr.spec.2.1 = headersGet h2 attr.spec.2.1) :
    requestAccept aliases attr h1 = requestAccept aliases attr h2 := by
  simp [requestAccept, h]

/-- … and is the parse of that header's text with the attribute's class, so every theorem about
`parseAccept` / `bestMatch` (`negotiation_meets_property_text` …) is a theorem about
`request.accept_*`. An absent header gives the empty object, on which nothing is ever chosen. -/
theorem request_attr_is_parse (aliases : List (Str × Str)) (attr : AcceptAttr) (headers : List (Str × Str)) :
    (∀ v, headersGet headers attr.spec.2.1 = some v →
      requestAccept aliases attr headers = parseAccept (attr.spec.2.2.neg aliases) v) ∧
    (headersGet headers attr.spec.2.1 = none →
      requestAccept aliases attr headers = .ok [] ∧
      ∀ offers d, clsBestMatch aliases attr.spec.2.2 [] offers d = d) := by
  refine ⟨fun v hv => by simp [requestAccept, hv], fun hn => ⟨by simp [requestAccept, hn], ?_⟩⟩
  intro offers d
  have hb : ∀ (N : Neg (List Bool) Q) (os : List Str), bestMatch N [] os = none := by
    intro N os
    have : ∀ st, os.foldl (bestStep N []) st = st := by
      induction os with
      | nil => intro st; rfl
      | cons o t ih => intro st; simp [List.foldl_cons, bestStep, bestSingle, ih]
    simp [bestMatch, this]
  cases hc : attr.spec.2.2 <;>
    simp [clsBestMatch, bestMatchD, hb, langBestMatch, langNotRefused, langFallbackSelf, mk, sortDesc]

example : (requestAccept [] .languages [("Accept".toList, "text/html".toList),
      ("accept-language".toList, "de;q=0.5, en".toList)]).toOption =
    some [("en".toList, Q.one), ("de".toList, ⟨5, 1⟩)] := by decide

/-- `best_match(matches, default)`: the default is returned exactly when plain `best_match` returns
`None`; otherwise the result is the negotiated offer (to which `bestMatch_optimal` applies). -/
theorem bestMatch_default (N : Neg σ κ) (self : List (Str × κ)) (offers : List Str) (d : Option Str) :
    (bestMatch N self offers = none → bestMatchD N self offers d = d) ∧
    (∀ r, bestMatch N self offers = some r → bestMatchD N self offers d = some r) := by
  constructor
  · intro h; simp [bestMatchD, h]
  · intro r h; simp [bestMatchD, h]

/-- The `best` property is the first parsed item: a client item that is at least as specific as
every other one and has the highest q among the equally specific ones. (Most specific first —
*not* highest quality first: `text/html;q=0.1, */*;q=0.9` has `best == "text/html"`.) -/
theorem best_is_most_specific_first (N : Neg σ κ) (hs : TotalPre N.sle) (hq : TotalPre N.qle)
    (values : List (Str × κ)) (v : Str) (h : best (mk N values) = some v) :
    ∃ q, (v, q) ∈ values ∧ ∀ y ∈ values,
      N.sle (N.spec y.1) (N.spec v) = true ∧
      (N.sle (N.spec v) (N.spec y.1) = true → N.qle y.2 q = true) := by
  unfold best at h
  cases hm : mk N values with
  | nil => rw [hm] at h; cases h
  | cons x t =>
    rw [hm] at h
    simp only [List.head?_cons, Option.map_some, Option.some.injEq] at h
    subst h
    have hsorted := parse_sorted N hs hq values
    rw [hm] at hsorted
    have hx : x ∈ values := (mem_sortDesc _).mp (by rw [show sortDesc (keyGe N) values = mk N values from rfl, hm]; simp)
    refine ⟨x.2, hx, ?_⟩
    intro y hy
    have hy' : y ∈ x :: t := by rw [← hm]; exact (mem_sortDesc _).mpr hy
    rcases List.mem_cons.mp hy' with rfl | hyt
    · exact ⟨hs.refl _, fun _ => hq.refl _⟩
    · exact (List.pairwise_cons.mp hsorted).1 y hyt

example : best (mk mimeNeg [("*/*".toList, ⟨9, 1⟩), ("text/html".toList, ⟨1, 1⟩)]) = some "text/html".toList := by
  decide

/-- `self[key]` / `quality(key)` for a string key is the q of `_best_single_match` — on a parsed
object the quality of the offer in the property's sense (`sorted_first_match_most_specific`) — and
`0` exactly when no client range matches. -/
theorem getitem_is_offer_quality (N : Neg σ κ) (values : List (Str × κ)) (key : Str) :
    (∀ x, bestSingle N (mk N values) key = some x → getItemStr N (mk N values) key = x.2) ∧
    ((∀ y ∈ values, N.matches key y.1 = false) → getItemStr N (mk N values) key = N.zero) := by
  constructor
  · intro x hx; simp [getItemStr, quality, hx]
  · intro h
    have := (no_match_iff N values key).mpr h
    simp [getItemStr, quality, this]

/-- `index(key)` is `find(key)` with `ValueError` for `-1`: it returns the position of the first
item that matches, and raises exactly when none does. -/
theorem index_spec (N : Neg σ κ) (self : List (Str × κ)) (key : Str) :
    (∀ i, index N self key = .ok i ↔ find N self key = some i) ∧
    (index N self key = .error "ValueError" ↔ ∀ y ∈ self, N.matches key y.1 = false) ∧
    (∀ i, index N self key = .ok i →
      ∃ x, self[i]? = some x ∧ N.matches key x.1 = true ∧ bestSingle N self key = some x) := by
  refine ⟨?_, ?_, ?_⟩
  · intro i
    unfold index
    cases find N self key <;> simp
  · unfold index
    cases hf : find N self key with
    | none =>
      simp only [true_iff]
      have := (quality_find_contains N self key).2.1.mp hf
      simpa [bestSingle, List.find?_eq_none] using this
    | some i =>
      simp only [reduceCtorEq, false_iff]
      intro hall
      have hnone : find N self key = none := by
        simp only [find, List.findIdx?_eq_none_iff]
        intro y hy; simpa using hall y hy
      rw [hnone] at hf; cases hf
  · intro i hi
    unfold index at hi
    cases hf : find N self key with
    | none => rw [hf] at hi; cases hi
    | some j =>
      rw [hf] at hi
      simp only [Except.ok.injEq] at hi
      subst hi
      unfold find at hf
      have hlt := (List.findIdx?_eq_some_iff_getElem.mp hf).1
      have hget := (List.findIdx?_eq_some_iff_getElem.mp hf).2
      refine ⟨self[j], by simp [hlt], by simpa using hget.1, ?_⟩
      unfold bestSingle
      rw [List.find?_eq_some_iff_getElem]
      refine ⟨by simpa using hget.1, j, hlt, rfl, ?_⟩
      intro k hk
      simpa using hget.2 k hk

/-- `values()` lists the client's values, each exactly once per item (a permutation of the header
order). -/
theorem values_perm (N : Neg σ κ) (vs : List (Str × κ)) :
    (values (mk N vs)).Perm (vs.map (·.1)) := (parse_perm N vs).map _

/-- the convenience flags are membership tests: `accept_json` holds exactly when some client range
matches `application/json` (and likewise for the others) -/
theorem mime_flags_spec (self : List (Str × Q)) :
    (acceptJson self = true ↔ ∃ it ∈ self, mimeMatches mtJson it.1 = true) ∧
    (acceptXhtml self = true ↔ ∃ it ∈ self, mimeMatches mtXhtml it.1 = true ∨ mimeMatches mtXml it.1 = true) ∧
    (acceptHtml self = true ↔ ∃ it ∈ self, mimeMatches mtHtml it.1 = true ∨
        mimeMatches mtXhtml it.1 = true ∨ mimeMatches mtXml it.1 = true) := by
  refine ⟨?_, ?_, ?_⟩
  · simp [acceptJson, contains, mimeNeg]
  · simp only [acceptXhtml, contains, mimeNeg, Bool.or_eq_true, List.any_eq_true]
    constructor
    · rintro (⟨it, hm, h⟩ | ⟨it, hm, h⟩)
      · exact ⟨it, hm, Or.inl h⟩
      · exact ⟨it, hm, Or.inr h⟩
    · rintro ⟨it, hm, h | h⟩
      · exact Or.inl ⟨it, hm, h⟩
      · exact Or.inr ⟨it, hm, h⟩
  · simp only [acceptHtml, acceptXhtml, contains, mimeNeg, Bool.or_eq_true, List.any_eq_true]
    constructor
    · rintro (⟨it, hm, h⟩ | ⟨it, hm, h⟩ | ⟨it, hm, h⟩)
      · exact ⟨it, hm, Or.inl h⟩
      · exact ⟨it, hm, Or.inr (Or.inl h)⟩
      · exact ⟨it, hm, Or.inr (Or.inr h)⟩
    · rintro ⟨it, hm, h | h | h⟩
      · exact Or.inl ⟨it, hm, h⟩
      · exact Or.inr (Or.inl ⟨it, hm, h⟩)
      · exact Or.inr (Or.inr ⟨it, hm, h⟩)

example : acceptHtml [("application/xml".toList, Q.one)] = true ∧
    acceptJson [("*/*".toList, Q.zero)] = true ∧ acceptJson [("text/*".toList, Q.one)] = false := by decide

/-! ## the property on a Request attribute, end to end -/

/-- End to end from the request: for `request.accept_mimetypes`, `accept_charsets` and
`accept_encodings` (for `accept_languages` see the `lang_*` theorems), when the attribute's header
carries the well-formed text of the elements `es` and `best_match(offers, default)` returns an
offer `r` that negotiation chose (plain `best_match` is not `None`), then `r` is an offer, its
quality — computed declaratively from the header's elements — is positive and no offer has a
higher one. The other request headers play no role. -/
theorem request_negotiation_meets_property (aliases : List (Str × Str)) (attr : AcceptAttr)
    (hattr : attr ≠ .languages) (headers : List (Str × Str)) (es : List Elem) (hne : es ≠ [])
    (hwf : ∀ e ∈ es, e.WF) (hh : headersGet headers attr.spec.2.1 = some (headerText es))
    (self : List (Str × Q)) (hself : requestAccept aliases attr headers = .ok self)
    (offers : List Str) (d : Option Str) (r : Str)
    (hb : bestMatch (attr.spec.2.2.neg aliases) self offers = some r) :
    clsBestMatch aliases attr.spec.2.2 self offers d = some r ∧ r ∈ offers ∧
    ∃ x, IsOfferQuality (attr.spec.2.2.neg aliases) (es.filterMap Elem.item) r x ∧
      Q.le x.2 Q.zero = false ∧
      ∀ o ∈ offers, ∀ y, IsOfferQuality (attr.spec.2.2.neg aliases) (es.filterMap Elem.item) o y →
        Q.le y.2 x.2 = true := by
  have hp : parseAccept (attr.spec.2.2.neg aliases) (headerText es) = .ok self := by
    rw [← (request_attr_is_parse aliases attr headers).1 _ hh]; exact hself
  have hsle : (attr.spec.2.2.neg aliases).sle = specLe := by
    cases attr <;> first | rfl | exact absurd rfl hattr
  have hqle : (attr.spec.2.2.neg aliases).qle = Q.le := by
    cases attr <;> first | rfl | exact absurd rfl hattr
  have hzero : (attr.spec.2.2.neg aliases).zero = Q.zero := by
    cases attr <;> first | rfl | exact absurd rfl hattr
  have key := negotiation_meets_property_text (attr.spec.2.2.neg aliases)
    (by rw [hsle]; exact specLe_totalPre) es hne hwf self hp offers r hb hqle
  rw [hqle, hzero] at key
  refine ⟨?_, key⟩
  have hc : ∀ c : AcceptCls, c ≠ .lang →
      clsBestMatch aliases c self offers d = bestMatchD (c.neg aliases) self offers d := by
    intro c hcl
    cases c <;> first | rfl | exact absurd rfl hcl
  have hnl : attr.spec.2.2 ≠ .lang := by
    cases attr with
    | languages => exact absurd rfl hattr
    | mimetypes => intro h; cases h
    | charsets => intro h; cases h
    | encodings => intro h; cases h
  rw [hc _ hnl, (bestMatch_default _ self offers d).2 r hb]

/-! ### the fallback stages of `LanguageAccept.best_match` are optimal in their own terms -/

/-- Stage 2 (no offer has positive quality under exact matching): the result is the generic
selection of a plain `Accept` built from the client's *primary tags* over the offers that were not
refused — so it has the highest quality among those offers (quality = q of the range whose primary
tag equals the offer, `*` least specific), ties to the earlier offer. -/
theorem lang_stage2_optimal (self : List (Str × Q)) (offers : List Str) (r : Str)
    (h1 : bestMatch langNeg self offers = none)
    (h2 : bestMatch acceptNeg (langFallbackSelf self) (langNotRefused self offers) = some r) :
    langBestMatch self offers = some r ∧
    ∃ pre post ci q, langNotRefused self offers = pre ++ r :: post ∧
      bestSingle acceptNeg (langFallbackSelf self) r = some (ci, q) ∧ Q.le q Q.zero = false ∧
      (∀ o ∈ langNotRefused self offers, ∀ ci' q', bestSingle acceptNeg (langFallbackSelf self) o = some (ci', q') →
          Q.le q' q = true ∧ (Q.le q q' = true → specLe (baseSpec ci') (baseSpec ci) = true)) ∧
      (∀ o ∈ pre, ∀ ci' q', bestSingle acceptNeg (langFallbackSelf self) o = some (ci', q') →
          Q.le q q' = true → specLe (baseSpec ci) (baseSpec ci') = false) := by
  refine ⟨by simp [langBestMatch, h1, h2], ?_⟩
  exact bestMatch_optimal acceptNeg specLe_totalPre qle_totalPre _ _ r h2

/-- Stage 3 (stages 1 and 2 found nothing): the offers' primary tags are negotiated against the
client's ranges with the generic selection (`bestMatch_optimal` applies to the tag `p`), and the
result is the **first** not-refused offer whose primary tag is the chosen tag. -/
theorem lang_stage3_first_offer (self : List (Str × Q)) (offers : List Str) (r : Str)
    (h1 : bestMatch langNeg self offers = none)
    (h2 : bestMatch acceptNeg (langFallbackSelf self) (langNotRefused self offers) = none)
    (h : langBestMatch self offers = some r) :
    ∃ p, bestMatch langNeg self ((langNotRefused self offers).map primaryTag) = some p ∧
      primaryTag r = p ∧
      ∃ pre post, langNotRefused self offers = pre ++ r :: post ∧ ∀ o ∈ pre, primaryTag o ≠ p := by
  unfold langBestMatch at h
  rw [h1] at h
  dsimp only at h
  rw [h2] at h
  dsimp only at h
  generalize langNotRefused self offers = offers' at h ⊢
  cases h3 : bestMatch langNeg self (offers'.map primaryTag) with
  | none => rw [h3] at h; cases h
  | some p =>
    rw [h3] at h
    refine ⟨p, rfl, ?_⟩
    dsimp only at h
    -- the first pair of the zip whose second component is p
    clear h1 h2 h3
    induction offers' with
    | nil => simp at h
    | cons a t ih =>
      simp only [List.map_cons, List.zip_cons_cons, List.find?_cons] at h
      by_cases hp : (primaryTag a == p) = true
      · simp only [hp, Option.map_some, Option.some.injEq] at h
        subst h
        exact ⟨by simpa using hp, [], t, rfl, by simp⟩
      · have hp' : (primaryTag a == p) = false := by simpa using hp
        simp only [hp'] at h
        obtain ⟨hpr, pre, post, hl, hall⟩ := ih h
        refine ⟨hpr, a :: pre, post, by simp [hl], ?_⟩
        intro o ho
        rcases List.mem_cons.mp ho with rfl | ho
        · simpa using hp
        · exact hall o ho

example : langBestMatch (mk langNeg [("en".toList, Q.one)]) ["de-AT".toList, "en-GB".toList, "en-US".toList]
    = some "en-GB".toList := by decide


/-! ## `to_header()` / `str()` and its re-parse (normal form) -/

/-- Every RFC 9110 qvalue (`k/1000`, three decimals, `0 ≤ k ≤ 1000`) prints — when it is not 1 — as
a text that `_q_value_re` and the range check accept and that denotes the same number
(`0.5`, `0.001`, `0.0`, …): `decide` over all 1001 values. -/
theorem rfc_qvalues_reprint : ∀ k, k ≤ 1000 → ReprOk ⟨k, 3⟩ = true := by decide +kernel

/-- **General reprint theorem** (closes the former OPEN item): every quality `q ≤ 1` — all that
`parse_accept_header` lets through (`parseQ_range`) — which `to_header` prints in positional
notation prints as a token `_q_value_re` and the range check accept and that denotes the same
number; proved from core's `Nat.toDigits` lemmas, for every number of decimals. -/
theorem quality_reprints (q : Q) (hle : q.le Q.one = true) (hr : (qRepr q).isSome = true) :
    ReprOk q = true := reprOk_of_le_one q hle hr

/-- … and positional notation is left (Python prints `1e-05`, which would not parse back) exactly
for a non-zero quality below `1e-4`. -/
theorem to_header_positional_iff (q : Q) :
    qRepr q = none ↔ q.norm.num ≠ 0 ∧ 4 < q.norm.scale ∧ q.norm.num * 10000 < 10 ^ q.norm.scale :=
  qRepr_none_iff q

example : (qRepr ⟨1, 5⟩).isSome = false ∧ (qRepr ⟨3333333333, 10⟩).isSome = true ∧
    Q.le ⟨3333333333, 10⟩ Q.one = true := by decide

/-- Normal form: for a non-empty object whose values are plain (token characters and `/`: media
ranges without parameters, language tags, charsets, codings) and whose qualities reprint
(`ReprOk`: every quality in `{0} ∪ [1e-4, 1]` by `quality_reprints`), `parse_accept_header(obj.to_header())`
yields the same values in the same order with numerically equal qualities — nothing dropped,
nothing reordered before the class sorts again.
-- (Items carrying parameters: `to_header_normal_form_params` below.) Qualities below `1e-4` are a real gap of the code, not of the proof: Python prints `1e-05`, a
-- text `_q_value_re` rejects, so the item is lost on re-parse (`to_header_positional_iff`). -/
theorem to_header_normal_form (self : List (Str × Q)) (hne : self ≠ [])
    (hv : ∀ it ∈ self, IsValueText it.1) (hq : ∀ it ∈ self, ReprOk it.2 = true) :
    ∃ t, toHeader self = some t ∧ parseAcceptRaw t = .ok (self.map reparsed) ∧
      ∀ it ∈ self, (reparsed it).1 = it.1 ∧ Q.equiv (reparsed it).2 it.2 = true := by
  refine ⟨_, toHeader_headerText self hq, ?_, fun it hit => reparsed_equiv it (hq it hit)⟩
  rw [parse_accept_text (self.map elemOf) (by simpa using hne)
    (by
      intro e he
      obtain ⟨it, hit, rfl⟩ := List.mem_map.mp he
      exact elemOf_wf it (hv it hit) (hq it hit))]
  rw [filterMap_elemOf self hq]

/-- The normal form for everything `parse_accept_header` can have produced from plain values: the
qualities are only required to be at most 1 and printable in positional notation. -/
theorem to_header_normal_form_parsed (self : List (Str × Q)) (hne : self ≠ [])
    (hv : ∀ it ∈ self, IsValueText it.1)
    (hq : ∀ it ∈ self, it.2.le Q.one = true ∧ (qRepr it.2).isSome = true) :
    ∃ t, toHeader self = some t ∧ parseAcceptRaw t = .ok (self.map reparsed) ∧
      ∀ it ∈ self, (reparsed it).1 = it.1 ∧ Q.equiv (reparsed it).2 it.2 = true :=
  to_header_normal_form self hne hv fun it hit => quality_reprints it.2 (hq it hit).1 (hq it hit).2


/-- `parse_accept_header` on the text `to_header` writes for items that carry parameters
(`value; k=v; k2=v2;q=0.5`: a blank after the `;` of every parameter, none before `q`): the
general lexing theorem for elements whose parameters are preceded by arbitrary white space. -/
theorem parse_accept_text_spaced (es : List SpElem) (hne : es ≠ []) (h : ∀ s ∈ es, s.WF) :
    parseAcceptRaw (spHeaderText es) = .ok (es.filterMap fun s => s.e.item) :=
  parseAcceptRaw_spHeader es hne h

/-- Normal form, **with parameters** (closes the former OPEN item): for a non-empty object whose
items are what `parse_accept_header` rebuilds — `value; key=token; …` with distinct lower-case
keys — and whose qualities reprint (`quality_reprints`), `parse_accept_header(obj.to_header())`
yields the same item texts in the same order with numerically equal qualities. Media ranges with
parameters (`text/html; level=1;q=0.5`) included. -/
theorem to_header_normal_form_params (its : List PItem) (hne : its ≠ [])
    (hwf : ∀ x ∈ its, x.1.WF) (hq : ∀ x ∈ its, ReprOk x.2 = true) :
    ∃ t, toHeader (its.map PItem.toItem) = some t ∧
      parseAcceptRaw t = .ok ((its.map PItem.toItem).map reparsed) ∧
      ∀ it ∈ its.map PItem.toItem, (reparsed it).1 = it.1 ∧ Q.equiv (reparsed it).2 it.2 = true := by
  refine ⟨_, toHeader_spHeaderText its hq, ?_, ?_⟩
  · rw [parse_accept_text_spaced (its.map spOf) (by simpa using hne)
      (by
        intro s hs
        obtain ⟨x, hx, rfl⟩ := List.mem_map.mp hs
        exact spOf_wf x (hwf x hx) (hq x hx))]
    rw [filterMap_spOf its hq]
  · intro it hit
    obtain ⟨x, hx, rfl⟩ := List.mem_map.mp hit
    exact reparsed_equiv _ (hq x hx)

def exampleItems : List PItem :=
  [(⟨"text/html".toList, [("level".toList, "1".toList), ("v".toList, "2".toList)], none⟩, ⟨5, 1⟩),
   (⟨"*/*".toList, [], none⟩, Q.one)]

example : exampleItems.map PItem.toItem =
      [("text/html; level=1; v=2".toList, ⟨5, 1⟩), ("*/*".toList, Q.one)] ∧
    toHeader (exampleItems.map PItem.toItem) = some "text/html; level=1; v=2;q=0.5,*/*".toList ∧
    (parseAcceptRaw "text/html; level=1; v=2;q=0.5,*/*".toList).toOption =
      some [("text/html; level=1; v=2".toList, ⟨5, 1⟩), ("*/*".toList, Q.one)] := by decide


example : toHeader [("text/html".toList, ⟨500, 3⟩), ("*/*".toList, ⟨1000, 3⟩), ("a".toList, ⟨0, 0⟩)] =
      some "text/html;q=0.5,*/*,a;q=0.0".toList ∧
    (parseAcceptRaw "text/html;q=0.5,*/*,a;q=0.0".toList).toOption =
      some [("text/html".toList, ⟨5, 1⟩), ("*/*".toList, Q.one), ("a".toList, ⟨0, 1⟩)] ∧
    toHeader [("a".toList, ⟨1, 5⟩)] = none := by decide

end Wz.Props.C17
