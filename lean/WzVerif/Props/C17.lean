/- C17 property theorems (not written yet) -/
namespace Wz.Props.C17
end Wz.Props.C17
