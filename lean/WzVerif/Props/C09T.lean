/-
C09T — `werkzeug.sansio.utils.get_content_length` and `werkzeug._internal._plain_int` *as
regenerated from the source* by `tools/py2lean.py` (`Gen/PyFns_Length.lean`,
`Gen/PyFns_Internal.lean`, rewritten on every check run) are equal, for all inputs, to the
hand-written model functions (`Model/LimitedStream.lean` `getContentLength`; the prelude's
`plainInt`, which stream prelude-kernels compares with the real `_plain_int`).
Property theorems only (helper lemmas live in Lemmas/PyFns_Length.lean).
-/
import WzVerif.Gen.PyFns_Length
import WzVerif.Lemmas.PyFns_Length
namespace Wz.Props.C09T
open Wz Wz.Pre Wz.PyFnsLength

/-- The translation maps `_plain_int_re.fullmatch` to the prelude's hand-written matcher for
`-?\d+` under `re.ASCII`; this pins the pattern source and flags of the live regex object. -/
theorem plain_int_re_pinned : Gen.PyFns_Internal.plainIntRe = ("-?\\d+", 256) := by decide

/-- `_plain_int`, as translated from the current source (`strip`, the `fullmatch` guard raising
`ValueError`, `int`), equals the prelude's `plainInt` for every text: in particular `int()` is only
ever reached with a text of the form `-?[0-9]+` (the only part of `int()` that is modelled), and
the only exception is `ValueError`. -/
theorem plain_int_eq (v : List Char) : Gen.PyFns_Internal.plain_int v = Pre.plainInt v := by
  unfold Gen.PyFns_Internal.plain_int Pre.plainInt Pre.plainIntReFullmatch Pre.pyIntPlain Pre.strip
  cases h : isPlainIntText (Py.strip v) <;> simp [h]

/-- `get_content_length`, as translated from the current source (the `chunked` / `None` guard,
`try: return max(0, _plain_int(...)) except ValueError: return 0`), returns exactly the model's
`getContentLength` (a natural number or `None`) for every pair of header values; the model's
`chunked` flag is the comparison `http_transfer_encoding == "chunked"`. -/
theorem get_content_length_eq (cl te : Option (List Char)) :
    Gen.PyFns_Length.get_content_length cl te
      = (LS.getContentLength cl (te == some ['c', 'h', 'u', 'n', 'k', 'e', 'd'])).map
          Int.ofNat := by
  unfold Gen.PyFns_Length.get_content_length LS.getContentLength
  cases cl with
  | none => simp
  | some v =>
    simp only [plain_int_eq, ls_plainInt_eq]
    by_cases hc : te = some ['c', 'h', 'u', 'n', 'k', 'e', 'd']
    · simp [hc]
    · have hb : (te == some ['c', 'h', 'u', 'n', 'k', 'e', 'd']) = false := by simpa using hc
      simp only [hb]
      cases Pre.plainInt v <;> simp [Except.toOption]
      omega

/-- The regenerated `get_content_length` never returns a negative length (the assumption
"limit and max_content_length are natural numbers" of C09, now a theorem about the translated code). -/
theorem get_content_length_nonneg (cl te : Option (List Char)) (n : Int)
    (h : Gen.PyFns_Length.get_content_length cl te = some n) : 0 ≤ n := by
  rw [get_content_length_eq] at h
  obtain ⟨k, _, hk⟩ := Option.map_eq_some_iff.mp h
  rw [← hk]
  exact Int.natCast_nonneg k

example : Gen.PyFns_Length.get_content_length (some " -12 ".toList) none = some 0 := by decide
example : Gen.PyFns_Length.get_content_length (some "42".toList) (some "gzip".toList) = some 42 := by
  decide

/-! ### `wsgi.get_content_length(environ)` and `wsgi.get_input_stream` -/

/-- the outcome of the model's `getInputStream` read as the outcome of the function: `tooLarge` is the
raised `RequestEntityTooLarge`, every other choice is returned -/
def choiceView : LS.Choice → Except String LS.Choice
  | .tooLarge => .error "RequestEntityTooLarge"
  | c => .ok c

/-- `wsgi.get_content_length(environ)`, as translated from the current source: the sansio function on
the two environ entries `CONTENT_LENGTH` and `HTTP_TRANSFER_ENCODING` (the key texts are part of the
translated definition). -/
theorem wsgi_get_content_length_eq (environ : List (List Char × List Char)) :
    Gen.PyFns_Length.wsgi_get_content_length environ
      = (LS.getContentLength (Pre.dictGet? environ "CONTENT_LENGTH".toList)
          (Pre.dictGet? environ "HTTP_TRANSFER_ENCODING".toList == some "chunked".toList)).map Int.ofNat := by
  have h1 : "CONTENT_LENGTH".toList = ['C', 'O', 'N', 'T', 'E', 'N', 'T', '_', 'L', 'E', 'N', 'G', 'T', 'H'] := by decide
  have h2 : "HTTP_TRANSFER_ENCODING".toList = ['H', 'T', 'T', 'P', '_', 'T', 'R', 'A', 'N', 'S', 'F', 'E', 'R', '_', 'E', 'N', 'C', 'O', 'D', 'I', 'N', 'G'] := by decide
  have h3 : "chunked".toList = ['c', 'h', 'u', 'n', 'k', 'e', 'd'] := by decide
  rw [h1, h2, h3]
  unfold Gen.PyFns_Length.wsgi_get_content_length
  exact get_content_length_eq _ _

/-- `wsgi.get_input_stream(environ, safe_fallback, max_content_length)`, as translated from the current
source (the declared length against `max_content_length` first - RequestEntityTooLarge -, then
`wsgi.input_terminated`: a `LimitedStream` with `is_max=True` or the raw stream, else no length: an empty
stream / the raw stream, else a `LimitedStream` of the declared length), makes exactly the choice of the
model's `getInputStream`, for every environ, both flags and every limit (a natural number, or `None`). -/
theorem get_input_stream_eq (terminated : Bool) (environ : List (List Char × List Char)) (safe : Bool)
    (max : Option Nat) :
    Gen.PyFns_Length.get_input_stream terminated environ safe (max.map Int.ofNat)
      = choiceView (LS.getInputStream (Pre.dictGet? environ "CONTENT_LENGTH".toList)
          (Pre.dictGet? environ "HTTP_TRANSFER_ENCODING".toList == some "chunked".toList) terminated max safe) := by
  unfold Gen.PyFns_Length.get_input_stream LS.getInputStream
  rw [wsgi_get_content_length_eq]
  generalize LS.getContentLength (Pre.dictGet? environ "CONTENT_LENGTH".toList)
    (Pre.dictGet? environ "HTTP_TRANSFER_ENCODING".toList == some "chunked".toList) = n
  cases n with
  | none =>
    cases max <;> cases terminated <;> cases safe <;>
      simp [choiceView, Gen.PyFns_Length.choiceLimited]
  | some n =>
    cases max with
    | none => cases terminated <;> simp [choiceView, Gen.PyFns_Length.choiceLimited]
    | some m =>
      by_cases h : n > m
      · have h' : (Int.ofNat n) > (Int.ofNat m) := by simp only [Int.ofNat_eq_natCast]; omega
        simp [h, choiceView]
      · have h' : ¬ (m : Int) < (n : Int) := by omega
        cases terminated <;> simp [h, h', choiceView, Gen.PyFns_Length.choiceLimited]

end Wz.Props.C09T
