/-
C09T — `werkzeug.sansio.utils.get_content_length` and `werkzeug._internal._plain_int` *as
regenerated from the source* by `tools/py2lean.py` (`Gen/PyFns_Length.lean`,
`Gen/PyFns_Internal.lean`, rewritten on every check run) are equal, for all inputs, to the
hand-written model functions (`Model/LimitedStream.lean` `getContentLength`; the prelude's
`plainInt`, which stream prelude-kernels compares with the real `_plain_int`).
Property theorems only (helper lemmas live in Lemmas/PyFns_Length.lean).
-/
import WzVerif.Gen.PyFns_Length
import WzVerif.Lemmas.PyFns_Length
namespace Wz.Props.C09T
open Wz Wz.Pre Wz.PyFnsLength

/-- The translation maps `_plain_int_re.fullmatch` to the prelude's hand-written matcher for
`-?\d+` under `re.ASCII`; this pins the pattern source and flags of the live regex object. -/
theorem plain_int_re_pinned : Gen.PyFns_Internal.plainIntRe = ("-?\\d+", 256) := by decide

/-- `_plain_int`, as translated from the current source (`strip`, the `fullmatch` guard raising
`ValueError`, `int`), equals the prelude's `plainInt` for every text: in particular `int()` is only
ever reached with a text of the form `-?[0-9]+` (the only part of `int()` that is modelled), and
the only exception is `ValueError`. -/
theorem plain_int_eq (v : List Char) : Gen.PyFns_Internal.plain_int v = Pre.plainInt v := by
  unfold Gen.PyFns_Internal.plain_int Pre.plainInt Pre.plainIntReFullmatch Pre.pyIntPlain Pre.strip
  cases h : isPlainIntText (Py.strip v) <;> simp [h]

/-- `get_content_length`, as translated from the current source (the `chunked` / `None` guard,
`try: return max(0, _plain_int(...)) except ValueError: return 0`), returns exactly the model's
`getContentLength` (a natural number or `None`) for every pair of header values; the model's
`chunked` flag is the comparison `http_transfer_encoding == "chunked"`. -/
theorem get_content_length_eq (cl te : Option (List Char)) :
    Gen.PyFns_Length.get_content_length cl te
      = (LS.getContentLength cl (te == some ['c', 'h', 'u', 'n', 'k', 'e', 'd'])).map
          Int.ofNat := by
  unfold Gen.PyFns_Length.get_content_length LS.getContentLength
  cases cl with
  | none => simp
  | some v =>
    simp only [plain_int_eq, ls_plainInt_eq]
    by_cases hc : te = some ['c', 'h', 'u', 'n', 'k', 'e', 'd']
    · simp [hc]
    · have hb : (te == some ['c', 'h', 'u', 'n', 'k', 'e', 'd']) = false := by simpa using hc
      simp only [hb]
      cases Pre.plainInt v <;> simp [Except.toOption]
      omega

/-- The regenerated `get_content_length` never returns a negative length (the assumption
"limit and max_content_length are natural numbers" of C09, now a theorem about the translated code). -/
theorem get_content_length_nonneg (cl te : Option (List Char)) (n : Int)
    (h : Gen.PyFns_Length.get_content_length cl te = some n) : 0 ≤ n := by
  rw [get_content_length_eq] at h
  obtain ⟨k, _, hk⟩ := Option.map_eq_some_iff.mp h
  rw [← hk]
  exact Int.natCast_nonneg k

example : Gen.PyFns_Length.get_content_length (some " -12 ".toList) none = some 0 := by decide
example : Gen.PyFns_Length.get_content_length (some "42".toList) (some "gzip".toList) = some 42 := by
  decide

end Wz.Props.C09T
