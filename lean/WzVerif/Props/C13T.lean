/-
C13T — `dump_cookie`, `parse_cookie` (`http.py`) and `parse_cookie` (`sansio/http.py`) *as regenerated
from the source* by `tools/py2lean.py` (`Gen/PyFns_Cookie.lean`, rewritten on every check run) are
equal, for all inputs, to C13's hand model `Model/Cookie.lean` (`dumpCookie`, `parseCookie`,
`parseCookieEnviron`) that the cookie round-trip and attribute theorems are about. The three regexes
(`_cookie_no_quote_re`, `_cookie_slash_re` with its map, `_cookie_re`, `_cookie_unslash_re`) enter as
the model's functions over the tables regenerated from the live patterns; urllib's `quote` (Path) as
C15's model with the `safe=` literal of the source; the IDNA codec and `http_date(now + max_age)` are
parameters; the size warning has no effect on the result.
Property theorems only: the proofs live in Lemmas/PyFnsEq_Cookie.lean.
-/
import WzVerif.Gen.PyFns_Cookie
import WzVerif.Lemmas.PyFnsEq_Cookie
namespace Wz.Props.C13T
open Wz Wz.Pre Wz.Gen.PyFns_Cookie Wz.PyFnsEq.Cookie

/-- The `for ck, cv in _cookie_re.findall(cookie)` loop of `sansio.http.parse_cookie`, as translated
from the current source (`ck.strip()`, `cv.strip()`, the `continue` for an empty name, the test
`len(cv) >= 2 and cv[0] == cv[-1] == '"'`, the `_cookie_unslash_re.sub` on `cv[1:-1]`, the append):
it never leaves the function - `cv[0]` / `cv[-1]` are only reached for a value of at least two
characters, so no `IndexError` - and appends exactly the model's `postProcess` of the pairs, for
every list of regex matches and every accumulator. -/
theorem sansio_parse_cookie_loop_eq (ps : List (Str × Str)) : ∀ out : List (Str × Str),
    sansio_parse_cookie.loop1 ps out = .fall (out ++ Cookie.postProcess ps) := by
  apply PyFnsEq.Cookie.sansio_parse_cookie_loop_eq <;> assumption

/-- `werkzeug.sansio.http.parse_cookie(cookie)` for a `str`, as translated from the current source
(the empty-text shortcut, the appended `;`, `_cookie_re.findall`, the loop above, `cls(out)`; the
translation returns the pair list handed to the `MultiDict` constructor, in order, duplicates
included), never raises and returns exactly the model's `parseCookie` - the function C13's
parse / round-trip theorems are about -, for every text. -/
theorem sansio_parse_cookie_eq (c : List Char) :
    sansio_parse_cookie (some c) () = .ok (Cookie.parseCookie c) := by
  apply PyFnsEq.Cookie.sansio_parse_cookie_eq <;> assumption

/-- `werkzeug.sansio.http.parse_cookie(None)` is the empty dict. -/
theorem sansio_parse_cookie_none : sansio_parse_cookie none () = .ok [] := by
  apply PyFnsEq.Cookie.sansio_parse_cookie_none <;> assumption

/-- `werkzeug.http.parse_cookie(header)` for a `str` header, as translated from the current source
(for a non-empty text the WSGI dance `cookie.encode("latin1").decode(errors="replace")`, then the
sansio function - itself translated, `sansio_parse_cookie_eq`), equals the model's
`parseCookieEnviron`, for every text: the same pairs, and `UnicodeEncodeError` exactly when the
model answers `none` (a character above U+00FF, which cannot come from a WSGI environ). -/
theorem http_parse_cookie_eq (c : List Char) :
    http_parse_cookie (some c) () =
      match Cookie.parseCookieEnviron c with
      | some r => .ok r
      | none => .error "UnicodeEncodeError" := by
  apply PyFnsEq.Cookie.http_parse_cookie_eq <;> assumption

/-- `werkzeug.http.parse_cookie(None)` is the empty dict. -/
theorem http_parse_cookie_none : http_parse_cookie none () = .ok [] := by
  apply PyFnsEq.Cookie.http_parse_cookie_none <;> assumption

/-- the prelude's ASCII `str.title()` is the model's `titleAscii` -/
theorem title_eq (s : Str) : Pre.title s = Cookie.titleAscii s := by
  apply PyFnsEq.Cookie.title_eq <;> assumption

/-- `dump_cookie(key, value, max_age, expires, path, domain, secure, httponly, sync_expires=…,
max_size=…, samesite, partitioned)`, as translated from the current source (parameters of the
translation: the IDNA codec `idna` and `expires_in max_age` = `http_date(now + max_age)`, both
opaque; `max_age : int | None`, `expires : str | None`), equals - for all arguments - the model's
`Cookie.dumpCookie key value attrs` (the function C13's `Set-Cookie` theorems are about) on the
attribute record the source computes before it assembles the header:

* `path` is `quote(path, safe="%!$&'()*+,/:=@")` (the `safe=` literal is pinned here: changing it in
  the source breaks this theorem), `None` stays `None`;
* `domain` is `domainStep`: `None` for `None`, `""` for `""` (printed as `Domain=`), otherwise the
  IDNA text of `domain.partition(":")[0].lstrip(".")`;
* `expires` is `expiresStep`: the given text, else `http_date(now + max_age)` when `max_age` is given
  and `sync_expires`, else nothing;
* `max_age`, `secure`, `httponly`, `samesite`, `partitioned` as given (`samesite.title()` with the
  `ValueError`, `Partitioned` ⇒ `Secure`, the value quoting with its `KeyError` /
  `UnicodeDecodeError` are inside `dumpCookie`, in the source's order).

Order of effects: a raising IDNA codec makes the function raise that error *before* the SameSite
check and the value escaping are reached (`Except.bind`); then `ValueError` for a bad SameSite; then
the escaping errors - exactly the order of the source. `max_size` does not occur on the right-hand
side: the size warning does not change the result. -/
theorem dump_cookie_eq (idna : Str → Except String Str) (expires_in : Int → Str) (key value : Str)
    (max_age : Option Int) (expires path domain : Option Str) (secure httponly sync_expires : Bool)
    (max_size : Int) (samesite : Option Str) (partitioned : Bool) :
    dump_cookie idna expires_in key value max_age expires path domain secure httponly sync_expires
        max_size samesite partitioned =
      (domainStep idna domain).bind fun d =>
        Cookie.dumpCookie key value {
          domain := d
          expires := expiresStep expires_in max_age expires sync_expires
          maxAge := max_age
          secure := secure
          httponly := httponly
          path := path.map (Url.quote "%!$&'()*+,/:=@".toList)
          samesite := samesite
          partitioned := partitioned } := by
  apply PyFnsEq.Cookie.dump_cookie_eq <;> assumption

/-- A raising IDNA codec (`domain` non-empty) makes `dump_cookie` raise that very error, whatever
the other arguments are - in particular before a bad `samesite` (`ValueError`) or an unescapable
value is looked at. -/
theorem dump_cookie_idna_raises (idna : Str → Except String Str) (expires_in : Int → Str) (key value : Str)
    (max_age : Option Int) (expires path : Option Str) (dom : Str) (secure httponly sync_expires : Bool)
    (max_size : Int) (samesite : Option Str) (partitioned : Bool) (x : String)
    (hne : dom ≠ []) (hx : idna (domainText dom) = .error x) :
    dump_cookie idna expires_in key value max_age expires path (some dom) secure httponly sync_expires
        max_size samesite partitioned = .error x := by
  apply PyFnsEq.Cookie.dump_cookie_idna_raises <;> assumption

/-- `domain=""`: the IDNA codec is not consulted either, and the header carries an empty `Domain=`
attribute (as the real function does). -/
theorem dump_cookie_empty_domain (idna : Str → Except String Str) (expires_in : Int → Str) (key value : Str)
    (max_age : Option Int) (expires path : Option Str) (secure httponly sync_expires : Bool)
    (max_size : Int) (samesite : Option Str) (partitioned : Bool) :
    dump_cookie idna expires_in key value max_age expires path (some []) secure httponly sync_expires
        max_size samesite partitioned =
      Cookie.dumpCookie key value {
        domain := some []
        expires := expiresStep expires_in max_age expires sync_expires
        maxAge := max_age
        secure := secure
        httponly := httponly
        path := path.map (Url.quote "%!$&'()*+,/:=@".toList)
        samesite := samesite
        partitioned := partitioned } := by
  apply PyFnsEq.Cookie.dump_cookie_empty_domain <;> assumption

/-- `max_size` only drives a warning: the returned header (or error) does not depend on it. -/
theorem dump_cookie_max_size (idna : Str → Except String Str) (expires_in : Int → Str) (key value : Str)
    (max_age : Option Int) (expires path domain : Option Str) (secure httponly sync_expires : Bool)
    (max_size max_size' : Int) (samesite : Option Str) (partitioned : Bool) :
    dump_cookie idna expires_in key value max_age expires path domain secure httponly sync_expires
        max_size samesite partitioned =
    dump_cookie idna expires_in key value max_age expires path domain secure httponly sync_expires
        max_size' samesite partitioned := by
  apply PyFnsEq.Cookie.dump_cookie_max_size <;> assumption

/-- `werkzeug.http.parse_cookie(environ)` for a WSGI environ (a dict), as translated from the current
source (`header.get("HTTP_COOKIE")`, then the same latin-1 / UTF-8 dance): exactly the `str | None`
form applied to the value stored under the key `HTTP_COOKIE` (`None` when absent). The key text is part
of the translated definition. -/
theorem http_parse_cookie_environ_eq (environ : List (Str × Str)) :
    http_parse_cookie_environ environ () = http_parse_cookie (Pre.dictGet? environ "HTTP_COOKIE".toList) () := by
  have hk : "HTTP_COOKIE".toList = ['H', 'T', 'T', 'P', '_', 'C', 'O', 'O', 'K', 'I', 'E'] := by decide
  rw [hk]
  rfl

end Wz.Props.C13T
