/-
C17T2 — C17T continued: the class-specific parts of content negotiation and the small accessors of
`werkzeug/datastructures/accept.py` *as regenerated from the source* by `tools/py2lean.py`
(`Gen/PyFns_Accept.lean`, rewritten on every check run): `Accept._specificity` / `_value_matches`,
`MIMEAccept._specificity` / `_value_matches` (with `_normalize_mime`), `LanguageAccept._value_matches`
(with `_normalize_lang`), `CharsetAccept._value_matches` (its nested `_normalize`, the codec registry as
a parameter), `values`, `best`, `to_header`, `__getitem__` (str), `accept_html` / `accept_xhtml` /
`accept_json` are equal, for all inputs, to the fields of the model's `Neg` structures (`acceptNeg`,
`mimeNeg`, `langNeg`, `charsetNeg`) and to the model functions of `Model/Accept.lean` that the C17
theorems are instantiated with. The two regexes enter as the model's `mimeSplit` / `splitLang` (their
pattern sources are pinned in the generated file).
Property theorems only: the proofs live in Lemmas/PyFnsEq_Accept.lean.
-/
import WzVerif.Gen.PyFns_Accept
import WzVerif.Lemmas.PyFnsEq_Accept
namespace Wz.Props.C17T2
open Wz Wz.Pre Wz.Accept Wz.Gen.PyFns_Accept Wz.PyFnsEq.Accept

/-- The translation maps `_mime_split_re.split` / `_locale_delim_re.split` to the model's `mimeSplit` /
`splitLang`; this pins the pattern sources and flags of the live regex objects. -/
theorem regexes_pinned :
    Gen.PyFns_Accept.mimeSplitRe = ("/|(?:\\s*;\\s*)", 32) ∧ Gen.PyFns_Accept.localeDelimRe = ("[_-]", 32) := by
  decide

/-- **`Accept._specificity(value)`**, as translated from the current source (`(value != "*",)`), is the
`spec` field `baseSpec` of the model's `acceptNeg` (also used by `langNeg` and `charsetNeg`), for every string. -/
theorem accept_specificity_eq (v : List Char) :
    Gen.PyFns_Accept.accept_specificity v = baseSpec v := by
  apply PyFnsEq.Accept.accept_specificity_eq <;> assumption

/-- **`Accept._value_matches(value, item)`**, as translated (`item == "*" or item.lower() ==
value.lower()`), is the `matches` field `baseMatches` of the model's `acceptNeg`, for all strings. -/
theorem accept_value_matches_eq (value item : List Char) :
    Gen.PyFns_Accept.accept_value_matches value item = baseMatches value item := by
  apply PyFnsEq.Accept.accept_value_matches_eq <;> assumption

/-- **`_normalize_mime(value)`**, as translated (`_mime_split_re.split(value.lower())`), is the model's
`mimeSplit` of the lowered value: the list `mimeNorm` takes its type, subtype and parameters from. -/
theorem normalize_mime_eq (v : List Char) :
    Gen.PyFns_Accept.normalize_mime v = mimeSplit (lowerA v) := by
  apply PyFnsEq.Accept.normalize_mime_eq <;> assumption

/-- **`MIMEAccept._specificity(value)`**, as translated (`tuple(x != "*" for x in
_mime_split_re.split(value))`), is the `spec` field `mimeSpec` of the model's `mimeNeg`. -/
theorem mime_specificity_eq (v : List Char) :
    Gen.PyFns_Accept.mime_specificity v = mimeSpec v := by
  apply PyFnsEq.Accept.mime_specificity_eq <;> assumption

/-- **`MIMEAccept._value_matches(value, item)`**, as translated from the current source, in full
(result *and* exceptions), for all strings: it raises `ValueError` exactly when the client item
contains a `/` and the offer `value` is invalid in the model's sense (`mimeOfferInvalid`: no `/`, or
type `*` with a subtype other than `*`), and otherwise returns the model's `mimeMatches value item`.
In particular no other exception is possible: the two unpackings `a, b = normalized[:2]` cannot
fail, because they are only reached for strings containing `/`, which `_mime_split_re` splits into
at least two pieces (`mimeSplit_two`); and the code's comparison of the `sorted` parameter lists is
the model's permutation test (`sortedStr_beq`). -/
theorem mime_value_matches_eq (value item : List Char) :
    Gen.PyFns_Accept.mime_value_matches value item =
      if hasSlash item && mimeOfferInvalid value then .error "ValueError"
      else .ok (mimeMatches value item) := by
  apply PyFnsEq.Accept.mime_value_matches_eq <;> assumption

/-- the translated `MIMEAccept._value_matches` raises only `ValueError`, and exactly when the item has
a `/` and the offer is invalid -/
theorem mime_value_matches_error (value item : List Char) (e : String) :
    Gen.PyFns_Accept.mime_value_matches value item = .error e ↔
      (e = "ValueError" ∧ hasSlash item = true ∧ mimeOfferInvalid value = true) := by
  apply PyFnsEq.Accept.mime_value_matches_error <;> assumption

/-- the model's raise predicate `mimeRaises self offer` (used by the C17 statements about
`MIMEAccept` lookups) holds exactly when the translated `_value_matches(offer, item)` raises
`ValueError` for some item of `self` -/
theorem mimeRaises_iff (self : List (List Char × Q)) (offer : List Char) :
    mimeRaises self offer = true ↔
      ∃ it ∈ self, Gen.PyFns_Accept.mime_value_matches offer it.1 = .error "ValueError" := by
  apply PyFnsEq.Accept.mimeRaises_iff <;> assumption

/-- **`_normalize_lang(value)`**, as translated (`_locale_delim_re.split(value.lower())`), is the
model's `normLang`. -/
theorem normalize_lang_eq (v : List Char) : Gen.PyFns_Accept.normalize_lang v = normLang v := by
  apply PyFnsEq.Accept.normalize_lang_eq <;> assumption

/-- **`LanguageAccept._value_matches(value, item)`**, as translated (`item == "*" or
_normalize_lang(value) == _normalize_lang(item)`), is the `matches` field `langMatches` of `langNeg`. -/
theorem lang_value_matches_eq (value item : List Char) :
    Gen.PyFns_Accept.lang_value_matches value item = langMatches value item := by
  apply PyFnsEq.Accept.lang_value_matches_eq <;> assumption

/-- **`CharsetAccept._value_matches(value, item)`**, as translated (the local `_normalize` with its
`try: codecs.lookup(name).name / except LookupError: name.lower()`), is the `matches` field
`charsetMatches aliases` of the model's `charsetNeg aliases`, when the codec registry is the lookup
in the alias table `aliases` (the registry itself is an opaque parameter on both sides). -/
theorem charset_value_matches_eq (aliases : List (List Char × List Char)) (value item : List Char) :
    Gen.PyFns_Accept.charset_value_matches
        (fun n => (aliases.find? (fun p => p.1 == n)).map (·.2)) value item =
      charsetMatches aliases value item := by
  apply PyFnsEq.Accept.charset_value_matches_eq <;> assumption

/-- **`Accept.values()`**, as translated (the generator as the list of its items), yields the model's
`values`: the first components, in order, for every list of pairs. -/
theorem values_eq {κ : Type} (self : List (List Char × κ)) :
    Gen.PyFns_Accept.values self = Accept.values self := by
  apply PyFnsEq.Accept.values_eq <;> assumption

/-- **`Accept.best`**, as translated (`if self: return self[0][0]`), never raises (the `IndexError` of
`self[0]` is excluded by the guard) and returns the model's `best`: the first item's value, or `None`. -/
theorem best_eq {κ : Type} (self : List (List Char × κ)) :
    Gen.PyFns_Accept.best self = .ok (Accept.best self) := by
  apply PyFnsEq.Accept.best_eq <;> assumption

/-- **`Accept.__getitem__(key)`** for a string key, as translated (`self.quality(key)`), is the model's
`getItemStr`: the quality of the first matching item, else `0`, for every class. -/
theorem getitem_str_eq {σ κ : Type} (N : Neg σ κ) (self : List (List Char × κ)) (key : List Char) :
    Gen.PyFns_Accept.getitem_str N self key = getItemStr N self key := by
  apply PyFnsEq.Accept.getitem_str_eq <;> assumption

/-- the translated `Accept.to_header()`, for any class whose quality order is the model's `Q.le` and
any printing function `qstr` for `f"{quality}"`: the `,`-join of the items, `;q=` + `qstr quality`
appended to those whose quality is not 1 -/
theorem to_header_join {σ : Type} (N : Neg σ Q) (hN : N.qle = Q.le) (qstr : Q → List Char)
    (self : List (List Char × Q)) :
    Gen.PyFns_Accept.to_header N Q.one qstr self = [','].intercalate (self.map (hdrItem qstr)) := by
  apply PyFnsEq.Accept.to_header_join <;> assumption

/-- **`Accept.to_header()`** (also `__str__`), as translated from the current source and instantiated
with the model's exact decimal qualities (`quality != 1` decided with `Q.le`, `f"{quality}"` printed
by `qstr`), returns the model's `toHeader self`, for every list in which each quality that is printed
(i.e. is not 1) is printed by `qstr` as the model's `qRepr` says. (`qRepr` is partial: it is `none`
below `1e-4`, where Python's float `repr` switches to exponent notation.) -/
theorem to_header_eq {σ : Type} (N : Neg σ Q) (hN : N.qle = Q.le) (qstr : Q → List Char)
    (self : List (List Char × Q))
    (h : ∀ it ∈ self, it.2.isOne = true ∨ qRepr it.2 = some (qstr it.2)) :
    toHeader self = some (Gen.PyFns_Accept.to_header N Q.one qstr self) := by
  apply PyFnsEq.Accept.to_header_eq <;> assumption

/-- the model's `toHeader` is undefined exactly when some quality other than 1 is outside `qRepr`'s
domain (below `1e-4`) -/
theorem toHeader_eq_none_iff (self : List (List Char × Q)) :
    toHeader self = none ↔ ∃ it ∈ self, it.2.isOne = false ∧ qRepr it.2 = none := by
  apply PyFnsEq.Accept.toHeader_eq_none_iff <;> assumption

/-- `to_header_eq` without a side condition on the list: for every *total* printing function `qstr`
that agrees with the model's `qRepr` wherever that is defined, whenever the model's `toHeader` is
defined the translated `Accept.to_header()` returns exactly that text. -/
theorem to_header_eq_of_some {σ : Type} (N : Neg σ Q) (hN : N.qle = Q.le) (qstr : Q → List Char)
    (hq : ∀ q r, qRepr q = some r → qstr q = r)
    (self : List (List Char × Q)) (h : List Char) (hh : toHeader self = some h) :
    Gen.PyFns_Accept.to_header N Q.one qstr self = h := by
  apply PyFnsEq.Accept.to_header_eq_of_some <;> assumption

/-- for a valid offer the translated `MIMEAccept._value_matches` never raises and is the `matches`
field of the model's `mimeNeg` (which is why the generic, exception-free methods can be
instantiated with `mimeNeg`) -/
theorem mime_value_matches_valid (value item : List Char) (h : mimeOfferInvalid value = false) :
    Gen.PyFns_Accept.mime_value_matches value item = .ok (mimeNeg.matches value item) := by
  apply PyFnsEq.Accept.mime_value_matches_valid <;> assumption

/-- **`MIMEAccept.accept_xhtml`**, as translated (`"application/xhtml+xml" in self or
"application/xml" in self`, with the translated `__contains__`), is the model's `acceptXhtml`. -/
theorem accept_xhtml_eq (self : List (List Char × Q)) :
    Gen.PyFns_Accept.accept_xhtml mimeNeg self = acceptXhtml self := by
  apply PyFnsEq.Accept.accept_xhtml_eq <;> assumption

/-- **`MIMEAccept.accept_html`**, as translated (`"text/html" in self or self.accept_xhtml`), is the
model's `acceptHtml`. -/
theorem accept_html_eq (self : List (List Char × Q)) :
    Gen.PyFns_Accept.accept_html mimeNeg self = acceptHtml self := by
  apply PyFnsEq.Accept.accept_html_eq <;> assumption

/-- **`MIMEAccept.accept_json`**, as translated (`"application/json" in self`), is the model's
`acceptJson`. -/
theorem accept_json_eq (self : List (List Char × Q)) :
    Gen.PyFns_Accept.accept_json mimeNeg self = acceptJson self := by
  apply PyFnsEq.Accept.accept_json_eq <;> assumption


end Wz.Props.C17T2
