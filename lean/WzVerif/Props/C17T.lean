/-
C17T — the negotiation methods of `werkzeug.datastructures.accept` *as regenerated from the source*
by `tools/py2lean.py` (`Gen/PyFns_Accept.lean`, rewritten on every check run) are equal, for all
inputs, to the hand-written model functions of `Model/Accept.lean` that the C17 theorems are about;
two of those theorems are restated on the translated loops.
The class-specific parts (`_specificity`, `_value_matches`, the orders, the quality 0) are the
fields of the model's `Neg` structure on both sides; the sentinels `best_quality = -1` and
`best_specificity = (-1,)` are parameters of which only `qm1 ≤ 0` is assumed.
Property theorems only (helper lemmas: Lemmas/PyFns_Accept.lean, Lemmas/PyFns_Prelude.lean).
-/
import WzVerif.Gen.PyFns_Accept
import WzVerif.Lemmas.PyFns_Accept
import WzVerif.Props.C17
namespace Wz.Props.C17T
open Wz Wz.Accept Wz.PyFnsAccept

variable {σ κ : Type} (N : Neg σ κ)

/-- The translation maps `_locale_delim_re.split(x, 1)[0]` to the model's `primaryTag` (text before
the first `_` or `-`); this pins the pattern source and flags of the live regex object. -/
theorem locale_delim_re_pinned : Gen.PyFns_Accept.localeDelimRe = ("[_-]", 32) := by decide

/-- the `for client_item, quality in self` loop of `_best_single_match` is `find?` -/
theorem best_single_match_loop_eq (self : List (List Char × κ)) (offer : List Char) (l : List (List Char × κ)) :
    Gen.PyFns_Accept.best_single_match.loop1 N self offer l =
      match l.find? (fun it => N.matches offer it.1) with
      | some it => .ret (some it)
      | none => .fall () := by
  induction l with
  | nil => rfl
  | cons x t ih =>
    unfold Gen.PyFns_Accept.best_single_match.loop1
    by_cases h : N.matches offer x.1 = true
    · simp [h, List.find?_cons]
    · have h' : N.matches offer x.1 = false := by simpa using h
      simp [h', List.find?_cons, ih]

/-- `Accept._best_single_match(match)`, as translated from the current source, is the model's
`bestSingle` (first item of `self` that `_value_matches`), for every class and every list. -/
theorem best_single_match_eq (self : List (List Char × κ)) (offer : List Char) :
    Gen.PyFns_Accept.best_single_match N self offer = bestSingle N self offer := by
  unfold Gen.PyFns_Accept.best_single_match bestSingle
  rw [best_single_match_loop_eq]
  cases List.find? (fun it => N.matches offer it.1) self <;> rfl

/-- the loop of `Accept.quality` -/
theorem quality_loop_eq (self : List (List Char × κ)) (key : List Char) (l : List (List Char × κ)) :
    Gen.PyFns_Accept.quality.loop1 N self key l =
      match l.find? (fun it => N.matches key it.1) with
      | some it => .ret it.2
      | none => .fall () := by
  induction l with
  | nil => rfl
  | cons x t ih =>
    unfold Gen.PyFns_Accept.quality.loop1
    by_cases h : N.matches key x.1 = true
    · simp [h]
    · have h' : N.matches key x.1 = false := by simpa using h
      simp [h', ih]

/-- `Accept.quality(key)`, as translated: the quality of the first matching item, else `0`. -/
theorem quality_eq (self : List (List Char × κ)) (key : List Char) :
    Gen.PyFns_Accept.quality N self key = (Accept.quality N self key).getD N.zero := by
  unfold Gen.PyFns_Accept.quality Accept.quality bestSingle
  rw [quality_loop_eq]
  cases List.find? (fun it => N.matches key it.1) self <;> rfl

/-- the loop of `Accept.__contains__` -/
theorem contains_loop_eq (self : List (List Char × κ)) (key : List Char) (l : List (List Char × κ)) :
    Gen.PyFns_Accept.contains.loop1 N self key l =
      if l.any (fun it => N.matches key it.1) then .ret true else .fall () := by
  induction l with
  | nil => rfl
  | cons x t ih =>
    unfold Gen.PyFns_Accept.contains.loop1
    by_cases h : N.matches key x.1 = true
    · simp [h]
    · have h' : N.matches key x.1 = false := by simpa using h
      simp only [h', Bool.false_eq_true, if_false, ih, List.any_cons, Bool.false_or]

/-- `key in accept`, as translated, is the model's `contains`. -/
theorem contains_eq (self : List (List Char × κ)) (key : List Char) :
    Gen.PyFns_Accept.contains N self key = Accept.contains N self key := by
  unfold Gen.PyFns_Accept.contains Accept.contains
  rw [contains_loop_eq]
  cases List.any self (fun it => N.matches key it.1) <;> rfl

/-- the `enumerate` loop of `Accept.index` -/
theorem index_loop_eq (self : List (List Char × κ)) (key : List Char) (l : List (List Char × κ)) (i : Nat) :
    Gen.PyFns_Accept.index.loop1 N self key (Pre.enumerateFrom (i : Int) l) =
      match l.findIdx? (fun it => N.matches key it.1) with
      | some j => .ret (.ok ((i + j : Nat) : Int))
      | none => .fall () := by
  induction l generalizing i with
  | nil => rfl
  | cons x t ih =>
    unfold Pre.enumerateFrom Gen.PyFns_Accept.index.loop1
    by_cases h : N.matches key x.1 = true
    · simp [h, List.findIdx?_cons]
    · have h' : N.matches key x.1 = false := by simpa using h
      have e : ((i : Int) + 1) = ((i + 1 : Nat) : Int) := by omega
      simp only [h', Bool.false_eq_true, if_false, e, ih, List.findIdx?_cons]
      cases List.findIdx? (fun it => N.matches key it.1) t with
      | none => rfl
      | some j => simp; omega

/-- `Accept.find(key)` for a string key, as translated (`index` with its `enumerate` loop and
`ValueError`, caught by `find`): the position of the first matching item, else -1. -/
theorem find_eq (self : List (List Char × κ)) (key : List Char) :
    Gen.PyFns_Accept.find N self key =
      match Accept.find N self key with
      | some i => (i : Int)
      | none => -1 := by
  unfold Gen.PyFns_Accept.find Gen.PyFns_Accept.index Accept.find Pre.enumerate
  have := index_loop_eq N self key self 0
  simp only [Int.natCast_zero, Nat.zero_add] at this
  rw [this]
  cases List.findIdx? (fun it => N.matches key it.1) self <;> rfl

/-- **The selection loop of `Accept.best_match`**, as translated from the current source (the
`_best_single_match` lookup, `quality <= 0 or quality < best_quality: continue`, the
better-quality-or-more-specific update of `result` / `best_quality` / `best_specificity`), keeps
its three variables in the relation `Rel` with the model's fold state, for every class whose
quality order is a total preorder, every list of offers and every related start state. -/
theorem best_match_loop (hq : TotalPre N.qle) (qm1 : κ) (sm1 : σ) (self : List (List Char × κ))
    (dflt : Option (List Char)) (offers : List (List Char)) :
    ∀ (st : BestState σ κ) (r : Option (List Char)) (bq : κ) (bs : σ), Rel N dflt st r bq bs →
      ∃ r' bq' bs', Gen.PyFns_Accept.best_match.loop1 N qm1 sm1 self offers r bq bs = .fall (r', bq', bs') ∧
        Rel N dflt (offers.foldl (bestStep N self) st) r' bq' bs' := by
  induction offers with
  | nil => intro st r bq bs h; exact ⟨r, bq, bs, rfl, h⟩
  | cons o t ih =>
    intro st r bq bs h
    unfold Gen.PyFns_Accept.best_match.loop1
    simp only [best_single_match_eq, List.foldl_cons]
    cases hb : bestSingle N self o with
    | none =>
      simp only [bestStep, hb]
      exact ih st r bq bs h
    | some m =>
      obtain ⟨ci, q⟩ := m
      simp only [bestStep, hb]
      by_cases hz : N.qle q N.zero = true
      · simp only [hz, Bool.true_or, Bool.or_true, if_true]
        exact ih st r bq bs h
      · have hz' : N.qle q N.zero = false := by simpa using hz
        have hzq : N.qle N.zero q = true := by
          rcases hq.total q N.zero with h1 | h1
          · exact absurd h1 hz
          · exact h1
        simp only [hz', Bool.false_or, Bool.or_false, Bool.false_eq_true, if_false]
        cases st with
        | none =>
          obtain ⟨hr, hbq⟩ := h
          have h1 : N.qle bq q = true := hq.trans _ _ _ hbq hzq
          have h2 : N.qle q bq = false := by
            cases hh : N.qle q bq
            · rfl
            · exact absurd (hq.trans _ _ _ hh hbq) hz
          simp only [h1, Bool.not_true, Bool.false_eq_true, if_false, h2, Bool.not_false, Bool.true_or, Bool.or_true, if_true]
          exact ih (some (o, q, N.spec ci)) (some o) q (N.spec ci) ⟨rfl, rfl, rfl, hz'⟩
        | some s3 =>
          obtain ⟨o', q', s'⟩ := s3
          obtain ⟨hr, hbq, hbs, hq0⟩ := h
          subst hbq; subst hbs
          by_cases h1 : N.qle bq q = true
          · simp only [h1, Bool.not_true, Bool.false_eq_true, if_false]
            by_cases h2 : (!(N.qle q bq) || !(N.sle (N.spec ci) bs)) = true
            · simp only [h2, if_true]
              exact ih (some (o, q, N.spec ci)) (some o) q (N.spec ci) ⟨rfl, rfl, rfl, hz'⟩
            · simp only [h2, Bool.false_eq_true, if_false]
              exact ih (some (o', bq, bs)) r bq bs ⟨hr, rfl, rfl, hq0⟩
          · have h1' : N.qle bq q = false := by simpa using h1
            simp only [h1', Bool.not_false, if_true]
            exact ih (some (o', bq, bs)) r bq bs ⟨hr, rfl, rfl, hq0⟩

/-- **`Accept.best_match(matches, default)`**, as translated, returns the model's `bestMatch` (or the
default when that is `None`), for every class with a total preorder on qualities and every sentinel
`qm1 ≤ 0` (the code uses -1). -/
theorem best_match_eq (hq : TotalPre N.qle) (qm1 : κ) (sm1 : σ) (hm : N.qle qm1 N.zero = true)
    (self : List (List Char × κ)) (offers : List (List Char)) (dflt : Option (List Char)) :
    Gen.PyFns_Accept.best_match N qm1 sm1 self offers dflt =
      match bestMatch N self offers with
      | some r => some r
      | none => dflt := by
  unfold Gen.PyFns_Accept.best_match bestMatch
  obtain ⟨r', bq', bs', h1, h2⟩ := best_match_loop N hq qm1 sm1 self dflt offers none dflt qm1 sm1 ⟨rfl, hm⟩
  simp only [h1]
  cases hf : List.foldl (bestStep N self) none offers with
  | none => rw [hf] at h2; simpa [Rel] using h2.1
  | some s3 => obtain ⟨o, q, s⟩ := s3; rw [hf] at h2; simpa [Rel] using h2.1

/-- **`LanguageAccept.best_match`**, as translated from the current source (the exact stage, the
filter of explicitly refused offers (0816efc) with its assignment expression, the `fallback` Accept
of primary tags, the stage on the offers' primary tags and the `next(...)` lookup of the original
offer), never raises `StopIteration` and returns the model's `langBestMatch` (or the default), for
every list of `(tag, q)` pairs, every list of offers and every sentinel `qm1 ≤ 0`. -/
theorem lang_best_match_eq (qm1 : Q) (sm1 : List Bool) (hm : Q.le qm1 Q.zero = true)
    (self : List (List Char × Q)) (offers : List (List Char)) (dflt : Option (List Char)) :
    Gen.PyFns_Accept.lang_best_match langNeg acceptNeg qm1 sm1 self offers dflt =
      .ok (match langBestMatch self offers with
        | some r => some r
        | none => dflt) := by
  have bmL := fun (s : List (List Char × Q)) (o : List (List Char)) =>
    best_match_eq langNeg qle_totalPre qm1 sm1 hm s o none
  have bmA := fun (s : List (List Char × Q)) (o : List (List Char)) =>
    best_match_eq acceptNeg qle_totalPre qm1 sm1 hm s o none
  unfold Gen.PyFns_Accept.lang_best_match langBestMatch
  simp only [bmL, bmA]
  cases h1 : bestMatch langNeg self offers with
  | some r => rfl
  | none =>
    simp only []
    rw [lang_filter_eq self offers _ (fun o => by
      rw [best_single_match_eq]
      cases bestSingle langNeg self o with
      | none => rfl
      | some m => obtain ⟨c, q⟩ := m; rfl)]
    have hfs : mk acceptNeg (List.map (fun item => (primaryTag item.1, item.2)) self) = langFallbackSelf self := rfl
    rw [hfs]
    cases h2 : bestMatch acceptNeg (langFallbackSelf self) (langNotRefused self offers) with
    | some r => rfl
    | none =>
      simp only []
      have hpm : List.map (fun item => primaryTag item) (langNotRefused self offers) = (langNotRefused self offers).map primaryTag := rfl
      rw [hpm]
      cases h3 : bestMatch langNeg self ((langNotRefused self offers).map primaryTag) with
      | none => rfl
      | some r =>
        have hmem := bestMatch_mem langNeg self _ r h3
        simp only []
        rw [Pre.nextOf_filter_map]
        obtain ⟨o, ho, hor⟩ := List.mem_map.mp hmem
        cases hfind : ((langNotRefused self offers).zip ((langNotRefused self offers).map primaryTag)).find? (fun x => x.2 == r) with
        | none =>
          exfalso
          have := List.find?_eq_none.mp hfind (o, primaryTag o) (mem_zip_map primaryTag _ o ho)
          simp [hor] at this
        | some x => simp [hfind]

/-- C17 `bestMatch_optimal` on the translated loop: what the regenerated `best_match` returns (with
`default=None`) is an offer of positive, maximal quality, most specific among those, earliest on ties. -/
theorem best_match_optimal_translated (hs : TotalPre N.sle) (hq : TotalPre N.qle) (qm1 : κ) (sm1 : σ)
    (hm : N.qle qm1 N.zero = true) (self : List (List Char × κ)) (offers : List (List Char))
    (r : List Char) (h : Gen.PyFns_Accept.best_match N qm1 sm1 self offers none = some r) :
    ∃ pre post ci q, offers = pre ++ r :: post ∧ bestSingle N self r = some (ci, q) ∧
      N.qle q N.zero = false ∧
      (∀ o ∈ offers, ∀ ci' q', bestSingle N self o = some (ci', q') →
          N.qle q' q = true ∧ (N.qle q q' = true → N.sle (N.spec ci') (N.spec ci) = true)) ∧
      (∀ o ∈ pre, ∀ ci' q', bestSingle N self o = some (ci', q') →
          N.qle q q' = true → N.sle (N.spec ci) (N.spec ci') = false) := by
  rw [best_match_eq N hq qm1 sm1 hm] at h
  have h' : bestMatch N self offers = some r := by
    cases hb : bestMatch N self offers with
    | none => rw [hb] at h; cases h
    | some x => rw [hb] at h; exact h
  exact Wz.Props.C17.bestMatch_optimal N hs hq self offers r h'

/-- C17 `lang_zero_never_chosen` on the translated function: an offer the regenerated
`LanguageAccept.best_match` returns (with `default=None`) is never one whose best exact match has q=0. -/
theorem lang_zero_never_chosen_translated (qm1 : Q) (sm1 : List Bool) (hm : Q.le qm1 Q.zero = true)
    (self : List (List Char × Q)) (offers : List (List Char)) (r : List Char)
    (h : Gen.PyFns_Accept.lang_best_match langNeg acceptNeg qm1 sm1 self offers none = .ok (some r)) :
    ∀ ci q, bestSingle langNeg self r = some (ci, q) → Q.le q Q.zero = false := by
  rw [lang_best_match_eq qm1 sm1 hm] at h
  have h' : langBestMatch self offers = some r := by
    cases hb : langBestMatch self offers with
    | none => rw [hb] at h; simp at h
    | some x => rw [hb] at h; simpa using h
  exact Wz.Props.C17.lang_zero_never_chosen self offers r h'

example : Gen.PyFns_Accept.best_match acceptNeg Q.zero [] (mk acceptNeg [("b".toList, ⟨5, 1⟩), ("a".toList, Q.one)])
    ["b".toList, "a".toList] none = some "a".toList := by decide
example : (Gen.PyFns_Accept.lang_best_match langNeg acceptNeg Q.zero [] (mk langNeg [("en-US".toList, ⟨5, 1⟩)])
    ["en".toList] none).toOption = some (some "en".toList) := by decide

end Wz.Props.C17T
