/-
C04 — URL building and matching are mutually inverse.

Model: converter `to_url` / `to_python`, `quote` with the safe sets found in the source,
`Rule.build` (`_compile_builder` with defaults folded), `suitable_for`, `build_compare_key` order,
`MapAdapter.build` (relative / external form), `_encode_query_vars` (`Model/RoutingBuild.lean`);
the server side of a built URL (`Model/RoutingRoundtrip.lean`).
Floats are modelled as positional decimal text: Python's float <-> text conversion is
correspondence-tested only (partial).
Helper lemmas: `Lemmas/RoutingBuild.lean`.
-/
import WzVerif.Lemmas.RoutingBuild
import WzVerif.Lemmas.RoutingRedirect
namespace Wz.Props.C04
open Wz Wz.Routing

/-- the `safe=` literals of the three path-quoting call sites and of the query encoder are the model's -/
theorem quote_safe_sets_match_source :
    Gen.Routing.safeSites.contains ("routing/converters.py", "to_url", "quote", pathSafe) = true ∧
    Gen.Routing.safeSites.contains ("routing/rules.py", "_compile_builder", "quote", pathSafe) = true ∧
    Gen.Routing.safeSites.contains ("urls.py", "_urlencode", "urlencode", querySafe) = true := by
  decide +kernel

/-- **unquote_quote.** Percent-decoding (what a server does to the request path) undoes the quoting the
builder applies to literal rule text and to string / path values — for every text: Unicode, spaces,
`;?#%` and every other reserved character. -/
theorem unquote_quote (s : Str) : unquote (quote pathSafe s) = s := unquote_quote_pathSafe s

/-! ### `to_python(unquote(to_url(v))) = v` per converter, on its canonical domain -/

/-- **string** (any length options): every text round-trips; the regex sees the text itself. -/
theorem toPython_toUrl_string (mn : Nat) (mx ln : Option Nat) (s : Str) :
    ∃ u, toUrl (.string mn mx ln) (.str s) = .ok u ∧ unquote u = s ∧
      toPython (.string mn mx ln) (unquote u) = some (.str s) :=
  ⟨quote pathSafe s, rfl, unquote_quote_pathSafe s, by simp [toPython, unquote_quote_pathSafe]⟩

/-- **path**: every text round-trips (multi-segment paths included). -/
theorem toPython_toUrl_path (s : Str) :
    ∃ u, toUrl .path (.str s) = .ok u ∧ unquote u = s ∧ toPython .path (unquote u) = some (.str s) :=
  ⟨quote pathSafe s, rfl, unquote_quote_pathSafe s, by simp [toPython, unquote_quote_pathSafe]⟩

/-- **any**: an item round-trips provided it contains no `%` (`AnyConverter.to_url` does not quote:
finding F04a is the complement together with `?` / `#`, which cut the path short). -/
theorem toPython_toUrl_any_partial (items : List Str) (s : Str) (hmem : s ∈ items) (hp : '%' ∉ s) :
    ∃ u, toUrl (.any items) (.str s) = .ok u ∧ unquote u = s ∧ toPython (.any items) (unquote u) = some (.str s) := by
  refine ⟨s, ?_, unquote_noPercent s hp, by simp [toPython, unquote_noPercent s hp]⟩
  simp [toUrl, hmem]

example : "a b".toList ∈ ["a b".toList, "x".toList] ∧ '%' ∉ "a b".toList := by decide

/-- **F04a (negation witness).** Without the restriction the law fails on the unchanged code: the item
`%41` is emitted as is and a server decodes it to `A`. -/
theorem toPython_toUrl_any_full_false :
    ¬ (∀ (items : List Str) (s : Str), s ∈ items →
        ∃ u, toUrl (.any items) (.str s) = .ok u ∧ toPython (.any items) (unquote u) = some (.str s)) := by
  intro H
  obtain ⟨u, hu, hp⟩ := H ["%41".toList] "%41".toList (by simp)
  have hu' : u = "%41".toList := by
    have : toUrl (.any ["%41".toList]) (.str "%41".toList) = .ok "%41".toList := by simp [toUrl]
    rw [this] at hu; cases hu; rfl
  subst hu'
  have : toPython (.any ["%41".toList]) (unquote "%41".toList) = some (.str "A".toList) := by decide +kernel
  rw [this] at hp
  cases hp

/-- **uuid**: canonical (lower-case) UUID text round-trips. -/
theorem toPython_toUrl_uuid (t : Str) (hlow : t.map lowerHex = t) (hp : '%' ∉ t) :
    ∃ u, toUrl .uuid (.uuid t) = .ok u ∧ unquote u = t ∧ toPython .uuid (unquote u) = some (.uuid t) :=
  ⟨t, rfl, unquote_noPercent t hp, by simp [toPython, unquote_noPercent t hp, hlow]⟩

example : "12345678-1234-5678-1234-567812345678".toList.map lowerHex = "12345678-1234-5678-1234-567812345678".toList ∧
    regexAccepts .uuid "12345678-1234-5678-1234-567812345678".toList = true := by decide +kernel

/-- **int** — signed or not, with or without `fixed_digits` (zero padding), within `min` / `max`:
`to_python(unquote(to_url(i))) = i`. With `fixed_digits = n` the printed number must fit n characters
(`to_python` checks the length, sign included). -/
theorem toPython_toUrl_int (fixed : Nat) (signed : Bool) (mn mx : Option Int) (i : Int)
    (hfix : fixed = 0 ∨ (toString i).toList.length ≤ fixed)
    (hmn : ∀ m, mn = some m → m ≤ i) (hmx : ∀ m, mx = some m → i ≤ m) :
    ∃ u, toUrl (.int fixed signed mn mx) (.int i) = .ok u ∧ toPython (.int fixed signed mn mx) (unquote u) = some (.int i) := by
  have hb : ∀ (x : Option Value), (if ((match (generalizing := false) mn with | some m => decide (i < m) | none => false) ||
             (match (generalizing := false) mx with | some m => decide (i > m) | none => false)) = true then none else x) = x := by
    intro x
    cases mn with
    | none =>
      cases mx with
      | none => rfl
      | some m => have := hmx m rfl; simp; intro h; omega
    | some m0 =>
      have h0 := hmn m0 rfl
      cases mx with
      | none => simp; intro h; omega
      | some m => have := hmx m rfl; simp; intro h; omega
  by_cases hf : fixed = 0
  · subst hf
    refine ⟨(toString i).toList, by simp [toUrl], ?_⟩
    rw [unquote_noPercent _ (percent_not_in_toString i)]
    simp only [toPython, ne_eq, not_true_eq_false, false_and, if_false, intOfText_toString]
    exact hb _
  · have hlen : (toString i).toList.length ≤ fixed := by
      rcases hfix with h | h
      · exact absurd h hf
      · exact h
    refine ⟨zfill fixed (toString i).toList, by simp [toUrl, hf], ?_⟩
    rw [unquote_noPercent _ (percent_not_in_zfill _ _ (percent_not_in_toString i))]
    simp only [toPython, ne_eq, hf, not_false_eq_true, true_and, zfill_length fixed _ hlen, not_true_eq_false, if_false,
      intOfText_zfill fixed _, intOfText_toString]
    exact hb _

-- non-vacuity: -5 with fixed_digits = 3, signed, bounds -20 .. 50
example : (toString (-5 : Int)).toList.length ≤ 3 ∧ (-20 : Int) ≤ -5 ∧ (-5 : Int) ≤ 50 := by decide

/-- **float** (partial): positional decimal text in Python's own canonical spelling round-trips; that
`str(float)` produces that spelling and `float(text)` reads it back is Python's, not modelled. -/
theorem toPython_toUrl_float_partial (signed : Bool) (t : Str) (hcanon : normFloat (asciiNum t) = t) (hp : '%' ∉ t) :
    ∃ u, toUrl (.float signed none none) (.float t) = .ok u ∧
      toPython (.float signed none none) (unquote u) = some (.float t) :=
  ⟨t, rfl, by simp [toPython, unquote_noPercent t hp, hcanon]⟩

example : normFloat (asciiNum "-12.25".toList) = "-12.25".toList ∧ '%' ∉ "-12.25".toList := by decide +kernel

-- OPEN (P1): match_build — for an InDomain, pairwise non-overlapping map and values accepted by rule r,
--   matchAdapter (readBuilt (adapterBuild endpoint vals)) = matched r vals
-- and build_match_fixpoint — build (match (build r vals)) = build r vals.
-- Proved here: the two value-level halves (`unquote_quote` for literal text and string/path values,
-- `toPython_toUrl_*` for every converter). Missing: the segment-level argument (the built path splits at
-- '/' into exactly the rule's parts because converter output of isolating converters contains no '/',
-- `partMatch` has a unique decomposition for fixed literal prefix / suffix) and the rule-selection
-- argument (`suitable_for` + `build_compare_key` pick a rule whose URL the matcher maps back to the
-- same endpoint on non-overlapping maps). Both laws are checked on the real code and on the model by
-- stream `build-match` (oracle: match(unquote(build)) = (endpoint, values) and build(match(url)) = url).

end Wz.Props.C04
