/- C04 property theorems (in progress) -/
import WzVerif.Model.RoutingRoundtrip
namespace Wz.Props.C04
end Wz.Props.C04
