/- C04 property theorems (not written yet) -/
namespace Wz.Props.C04
end Wz.Props.C04
