/-
C04 — URL building and matching are mutually inverse.

Model: converter `to_url` / `to_python`, `quote` with the safe sets found in the source,
`Rule.build` (`_compile_builder` with defaults folded), `suitable_for`, `build_compare_key` order,
`MapAdapter.build` (relative / external form), `_encode_query_vars` (`Model/RoutingBuild.lean`);
the server side of a built URL (`Model/RoutingRoundtrip.lean`).
Floats are modelled as positional decimal text: Python's float <-> text conversion is
correspondence-tested only (partial).
Helper lemmas: `Lemmas/RoutingBuild.lean`.
-/
import WzVerif.Lemmas.RoutingBuild
import WzVerif.Lemmas.RoutingRedirect
import WzVerif.Lemmas.RoutingRender3
import WzVerif.Lemmas.RoutingMatchBuild
import WzVerif.Lemmas.RoutingPlumb
import WzVerif.Gen.RoutingGlue
import WzVerif.Lemmas.RoutingFactory
namespace Wz.Props.C04
open Wz Wz.Routing

/-- the `safe=` literals of the three path-quoting call sites and of the query encoder are the model's -/
theorem quote_safe_sets_match_source :
    Gen.Routing.safeSites.contains ("routing/converters.py", "to_url", "quote", pathSafe) = true ∧
    Gen.Routing.safeSites.contains ("routing/rules.py", "_compile_builder", "quote", pathSafe) = true ∧
    Gen.Routing.safeSites.contains ("urls.py", "_urlencode", "urlencode", querySafe) = true := by
  decide +kernel

/-- **rule_build_returns_builder_result.** In the current source `Rule.build` hands back exactly what the
compiled builder returned (`self._build_unknown(**values)` / `self._build(**values)`, or `None` after a
`ValidationError`): no statement rewrites the built URL afterwards — the model's `Rule.build` is the
compiled builder (`buildSide` + query), nothing else. -/
theorem rule_build_returns_builder_result :
    Gen.RoutingGlue.ruleBuildReturns = ["self._build_unknown(**values)", "self._build(**values)", "None"] ∧
    Gen.RoutingGlue.ruleBuildOther = [] := by
  decide

/-- **build_order_source_pinned.** The three small decision functions behind rule selection are, in the
current source, the expressions the model transcribes: `build_compare_key` = (alias last, more
arguments first, more defaults first) — `Rule.buildCompareKey`; `suitable_for` — `Rule.suitableFor`;
`provides_defaults_for` — `providesDefaultsFor`. -/
theorem build_order_source_pinned :
    Gen.RoutingGlue.buildCompareKey =
      ["return (1 if self.alias else 0, -len(self.arguments), -len(self.defaults or ()))"] ∧
    Gen.RoutingGlue.suitableFor =
      ["if method is not None and self.methods is not None and (method not in self.methods): return False",
       "defaults = self.defaults or ()",
       "for key in self.arguments: if key not in defaults and key not in values: return False",
       "if defaults: for key, value in defaults.items(): if key in values and value != values[key]: return False",
       "return True"] ∧
    Gen.RoutingGlue.providesDefaultsFor =
      ["return bool(not self.build_only and self.defaults and (self.endpoint == rule.endpoint) and (self != rule) and (self.arguments == rule.arguments))"] := by
  decide +kernel

/-- **converter_overrides_pinned.** Which converter class defines which conversion, in the current
source: `to_python` / `to_url` are defined by `BaseConverter`, `NumberConverter` (the pair proved equal to
the model in `C04T`) and `UUIDConverter`, `to_url` alone by `AnyConverter`; `IntegerConverter` and
`FloatConverter` only set `regex` / `num_convert` — no other override exists (a new `to_url` on one of
the subclasses would change what `Conv.float` / `Conv.int` have to model). -/
theorem converter_overrides_pinned :
    Gen.RoutingGlue.converterClasses =
      [("ValidationError", ["ValueError"], [], []),
       ("BaseConverter", [], ["__init__", "__init_subclass__", "to_python", "to_url"], ["part_isolating", "regex", "weight"]),
       ("UnicodeConverter", ["BaseConverter"], ["__init__"], []),
       ("AnyConverter", ["BaseConverter"], ["__init__", "to_url"], []),
       ("PathConverter", ["BaseConverter"], [], ["part_isolating", "regex", "weight"]),
       ("NumberConverter", ["BaseConverter"], ["__init__", "signed_regex", "to_python", "to_url"], ["weight"]),
       ("IntegerConverter", ["NumberConverter"], [], ["regex"]),
       ("FloatConverter", ["NumberConverter"], ["__init__"], ["num_convert", "regex"]),
       ("UUIDConverter", ["BaseConverter"], ["to_python", "to_url"], ["regex"])] := by
  decide +kernel

/-- **match_prelude_pinned.** What `MapAdapter.match` does to its arguments before the matcher runs, in the current
source: `update()`, defaults for path_info / query_args / websocket, `method.upper()`, the domain part (bound
subdomain unless host matching), and `path_part = "/" + path_info.lstrip("/")` — nothing else touches the path
(no case folding, no Unicode normalisation: the model's `matchAdapter` / `pathPart` work on the code points as given). -/
theorem match_prelude_pinned :
    Gen.RoutingGlue.matchPrelude =
      ["self.map.update()",
       "if path_info is None: path_info = self.path_info",
       "if query_args is None: query_args = self.query_args or {}",
       "method = (method or self.default_method).upper()",
       "if websocket is None: websocket = self.websocket",
       "domain_part = self.server_name",
       "if not self.map.host_matching and self.subdomain is not None: domain_part = self.subdomain",
       "path_part = f'/{path_info.lstrip('/')}' if path_info else ''"] := by
  decide +kernel

/-- **unquote_quote.** Percent-decoding (what a server does to the request path) undoes the quoting the
builder applies to literal rule text and to string / path values — for every text: Unicode, spaces,
`;?#%` and every other reserved character. -/
theorem unquote_quote (s : Str) : unquote (quote pathSafe s) = s := unquote_quote_pathSafe s

/-! ### `to_python(unquote(to_url(v))) = v` per converter, on its canonical domain -/

/-- **string** (any length options): every text round-trips; the regex sees the text itself. -/
theorem toPython_toUrl_string (mn : Nat) (mx ln : Option Nat) (s : Str) :
    ∃ u, toUrl (.string mn mx ln) (.str s) = .ok u ∧ unquote u = s ∧
      toPython (.string mn mx ln) (unquote u) = some (.str s) :=
  ⟨quote pathSafe s, rfl, unquote_quote_pathSafe s, by simp [toPython, unquote_quote_pathSafe]⟩

/-- **path**: every text round-trips (multi-segment paths included). -/
theorem toPython_toUrl_path (s : Str) :
    ∃ u, toUrl .path (.str s) = .ok u ∧ unquote u = s ∧ toPython .path (unquote u) = some (.str s) :=
  ⟨quote pathSafe s, rfl, unquote_quote_pathSafe s, by simp [toPython, unquote_quote_pathSafe]⟩

/-- **any**: every listed item round-trips — spaces, Unicode, `?`, `#`, `%41` included: since the
repair of F04a `AnyConverter.to_url` percent-quotes the item like every other text converter. -/
theorem toPython_toUrl_any (items : List Str) (s : Str) (hmem : s ∈ items) :
    ∃ u, toUrl (.any items) (.str s) = .ok u ∧ unquote u = s ∧ toPython (.any items) (unquote u) = some (.str s) := by
  refine ⟨quote pathSafe s, ?_, unquote_quote_pathSafe s, by simp [toPython, unquote_quote_pathSafe]⟩
  simp [toUrl, hmem]

-- non-vacuity, on the former failing inputs of F04a
example : "a?b".toList ∈ ["a?b".toList, "%41".toList, "x#y".toList] ∧
    toUrl (.any ["a?b".toList, "%41".toList]) (.str "%41".toList) = .ok "%2541".toList := by
  constructor
  · decide
  · simp [toUrl]; decide +kernel

/-- **uuid**: canonical (lower-case) UUID text round-trips. -/
theorem toPython_toUrl_uuid (t : Str) (hlow : t.map lowerHex = t) (hp : '%' ∉ t) :
    ∃ u, toUrl .uuid (.uuid t) = .ok u ∧ unquote u = t ∧ toPython .uuid (unquote u) = some (.uuid t) :=
  ⟨t, rfl, unquote_noPercent t hp, by simp [toPython, unquote_noPercent t hp, hlow]⟩

example : "12345678-1234-5678-1234-567812345678".toList.map lowerHex = "12345678-1234-5678-1234-567812345678".toList ∧
    regexAccepts .uuid "12345678-1234-5678-1234-567812345678".toList = true := by decide +kernel

/-- **int** — signed or not, with or without `fixed_digits` (zero padding), within `min` / `max`:
`to_python(unquote(to_url(i))) = i`. With `fixed_digits = n` the printed number must fit n characters
(`to_python` checks the length, sign included). -/
theorem toPython_toUrl_int (fixed : Nat) (signed : Bool) (mn mx : Option Int) (i : Int)
    (hfix : fixed = 0 ∨ (toString i).toList.length ≤ fixed)
    (hmn : ∀ m, mn = some m → m ≤ i) (hmx : ∀ m, mx = some m → i ≤ m) :
    ∃ u, toUrl (.int fixed signed mn mx) (.int i) = .ok u ∧ toPython (.int fixed signed mn mx) (unquote u) = some (.int i) := by
  have hb : ∀ (x : Option Value), (if ((match (generalizing := false) mn with | some m => decide (i < m) | none => false) ||
             (match (generalizing := false) mx with | some m => decide (i > m) | none => false)) = true then none else x) = x := by
    intro x
    cases mn with
    | none =>
      cases mx with
      | none => rfl
      | some m => have := hmx m rfl; simp; intro h; omega
    | some m0 =>
      have h0 := hmn m0 rfl
      cases mx with
      | none => simp; intro h; omega
      | some m => have := hmx m rfl; simp; intro h; omega
  by_cases hf : fixed = 0
  · subst hf
    refine ⟨(toString i).toList, by simp [toUrl], ?_⟩
    rw [unquote_noPercent _ (percent_not_in_toString i)]
    simp only [toPython, ne_eq, not_true_eq_false, false_and, if_false, intOfText_toString]
    exact hb _
  · have hlen : (toString i).toList.length ≤ fixed := by
      rcases hfix with h | h
      · exact absurd h hf
      · exact h
    refine ⟨zfill fixed (toString i).toList, by simp [toUrl, hf], ?_⟩
    rw [unquote_noPercent _ (percent_not_in_zfill _ _ (percent_not_in_toString i))]
    simp only [toPython, ne_eq, hf, not_false_eq_true, true_and, zfill_length fixed _ hlen, not_true_eq_false, if_false,
      intOfText_zfill fixed _, intOfText_toString]
    exact hb _

-- non-vacuity: -5 with fixed_digits = 3, signed, bounds -20 .. 50
example : (toString (-5 : Int)).toList.length ≤ 3 ∧ (-20 : Int) ≤ -5 ∧ (-5 : Int) ≤ 50 := by decide

/-- **float** (partial): positional decimal text in Python's own canonical spelling round-trips; that
`str(float)` produces that spelling and `float(text)` reads it back is Python's, not modelled. -/
theorem toPython_toUrl_float_partial (signed : Bool) (t : Str) (hcanon : normFloat (asciiNum t) = t) (hp : '%' ∉ t) :
    ∃ u, toUrl (.float signed none none) (.float t) = .ok u ∧
      toPython (.float signed none none) (unquote u) = some (.float t) :=
  ⟨t, rfl, by simp [toPython, unquote_noPercent t hp, hcanon]⟩

example : normFloat (asciiNum "-12.25".toList) = "-12.25".toList ∧ '%' ∉ "-12.25".toList := by decide +kernel

/-! ### rule level: what a rule builds, the rule itself matches back -/

/-- **rule_build_match_partial.** For a rule of the property's grammar without subdomain rule
(`GramToks`: isolating converters, literals without '/', optionally one path converter followed by
literal text and slashes only): whatever URL path text `Rule.build` assembles from `values` (defaults
folded in), a server's percent-decoding of it is admitted DIRECTLY by the rule's own compiled parts,
and the groups the parts extract are exactly the decoded converter outputs `unquote(to_url(value))`, in
order — the texts `to_python` is then applied to (`toPython_toUrl_*`).
Hypotheses = the canonical domain: every `to_url` output is percent-quoted or free of '%'
(`UrlsClosed`: holds for string, path and any values by construction, for numbers and UUIDs because they contain no '%'); every decoded text is accepted by its converter's regex; the
values of isolating converters contain no '/'; a path value does not leave a '/' in front of the
rule's final slash (`PathTailOK`: paths not ending with '/'). -/
theorem rule_build_match_partial (r : Rule) (values : List (Str × Value)) {pp : List Part} {pc : List (Str × Conv)} {u : Str}
    (hparts : r.parts = .static [] :: pp) (hparse : parseRule r.pathToks = some (pp, pc))
    (hgram : GramToks r.pathToks)
    (hbuild : buildSide r values (traceToks r.pathToks) = .ok u)
    (hclosed : UrlsClosed r values r.pathToks)
    (hdom : ∀ ts, valueTexts r values r.pathToks = some ts →
      IsoNoSlash r.pathToks ts ∧ PathTailOK r.pathToks ts ∧ AllAccept ((tokConvs r.pathToks).map Conv.kind) ts) :
    ∃ ts, valueTexts r values r.pathToks = some ts ∧
      walkVia .direct r.parts (segments [] (unquote u)) = some ts ∧
      admitsGroups r (segments [] (unquote u)) = some ts := by
  obtain ⟨ts, text, hts, hrender, hcl⟩ := buildSide_closed r values r.pathToks hbuild hclosed
  obtain ⟨hns, htail, hacc⟩ := hdom ts hts
  have hp0 : PendOK {} none := by
    refine ⟨rfl, rfl, ?_, ?_, ?_, ?_, ?_⟩
    · intro _ _ _ h; cases h
    · simp [noSlash]
    · simp [noSlash]
    · intro _ h; cases h
    · intro _; rfl
  have hw := parse_render_admits_gram r.pathToks {} none ts hp0 hgram htail hparse hrender hns hacc
  simp only [pendText, List.nil_append, Option.getD_none, List.append_nil, Option.toList_none] at hw
  rw [← hcl.unquote] at hw
  have hfull : walkVia .direct r.parts (segments [] (unquote u)) = some ts := by
    rw [hparts, segments]
    have := walkVia_cons_of_step (via := .direct) (p := .static []) (a := []) (rem := splitOn '/' (unquote u))
      (input := [] :: splitOn '/' (unquote u)) (by simp [step_static]) hw
    simpa using this
  exact ⟨ts, hts, hfull, admitsGroups_of_walkVia hfull rfl⟩

def exSpec : RuleSpec :=
  { toks := [.slash, .lit "r".toList, .slash, .lit "id-".toList, .var (.int 3 true none none) "n".toList, .lit ".html".toList,
             .slash, .var (.string 1 none none) "s".toList, .slash],
    endpoint := "e".toList }

def exValues : List (Str × Value) := [("n".toList, .int (-5)), ("s".toList, .str "a b;?#%é".toList)]

def exSpecPath : RuleSpec :=
  { toks := [.slash, .lit "w".toList, .slash, .var (.string 1 none (some 2)) "l".toList, .slash, .lit "p-".toList,
             .var .path "rest".toList, .lit ".txt".toList, .slash, .lit "edit".toList, .slash],
    endpoint := "w".toList }

def exValuesPath : List (Str × Value) := [("l".toList, .str "de".toList), ("rest".toList, .str "a b/ü/%2F".toList)]

-- non-vacuity: `/r/id-<int(fixed_digits=3, signed=True):n>.html/<string:s>/` with n = -5, s = 'a b;?#%é':
-- every hypothesis holds, the built text is '/r/id--05.html/a%20b;%3F%23%25%C3%A9/'
example : (match bindRule {} 0 exSpec with
    | some r =>
      (match r.parts, parseRule r.pathToks, buildSide r exValues (traceToks r.pathToks) with
       | .static [] :: pp, some (pp', _), .ok u =>
         pp == pp' && buildDomainGB r exValues && u == "/r/id--05.html/a%20b;%3F%23%25%C3%A9/".toList
       | _, _, _ => false)
    | none => false) = true := by decide +kernel

-- ... and with a path converter in the middle of a branch rule:
-- `/w/<string(length=2):l>/p-<path:rest>.txt/edit/` with rest = 'a b/ü/%2F'
example : (match bindRule {} 0 exSpecPath with
    | some r =>
      (match r.parts, parseRule r.pathToks, buildSide r exValuesPath (traceToks r.pathToks) with
       | .static [] :: pp, some (pp', _), .ok u =>
         pp == pp' && buildDomainGB r exValuesPath && u == "/w/de/p-a%20b/%C3%BC/%252F.txt/edit/".toList
       | _, _, _ => false)
    | none => false) = true := by decide +kernel

/-! ### map level -/

/-- **build_selects_suitable_rule.** Without host matching, the URL `MapAdapter.build` assembles is the
one `Rule.build` gives for a rule of the map that has the requested endpoint and is `suitable_for` the
values; its path text is what `buildSide` produces (plus the query string for unknown values). -/
theorem build_selects_suitable_rule {cfg : MapCfg} {a : Adapter} {rules : List Rule} {ep : Str} {values : List (Str × Value)}
    {method : Option Str} {au : Bool} (hhm : cfg.hostMatching = false) {d u : Str} {w : Bool}
    (h : partialBuild cfg a rules ep values method au = .ok (some (d, u, w))) :
    ∃ r ∈ rules, r.endpoint = ep ∧ (∃ mth, r.suitableFor values mth = true) ∧
      ∃ upath, buildSide r values (traceToks r.pathToks) = .ok upath ∧ (u = upath ∨ ∃ params, u = upath ++ '?' :: params) := by
  obtain ⟨r, hr, hep, hs, hb⟩ := partialBuild_some hhm h
  exact ⟨r, hr, hep, hs, rule_build_path hb⟩

/-- **match_build_partial.** On a map where no other rule admits the path in any way (non-overlapping
maps: e.g. pairwise distinct literal first segments, `walkVia_none_of_first_literal`), matching the
percent-decoded path a rule of the grammar built returns THAT rule, and the converted values are
exactly the values the path was built from, variable by variable (`builtPairs`), with the rule's
defaults added — `match(unquote(build(endpoint, values))) = (endpoint, values)`.
Hypotheses: the rule has no subdomain rule (`hbind`, `hnodom`); the canonical domain of
`rule_build_match_partial`; every variable round-trips through its converter (`VarsRoundTrip`, discharged
per converter by `toPython_toUrl_*`); the rule is fit for the request and is not an alias under
redirect_defaults. -/
theorem match_build_partial {cfg : MapCfg} {specs : List RuleSpec} {m : RMap} (hm : mkMap cfg specs = some m)
    {r : Rule} (hr : r ∈ m.rules) (hbo : r.spec.buildOnly = false) {i : Nat} {sp : RuleSpec}
    (hbind : bindRule cfg i sp = some r)
    (hnodom : (if cfg.hostMatching then sp.domain.getD [] else sp.domain.getD cfg.defaultSubdomain) = [])
    (values : List (Str × Value)) {u : Str}
    (hgram : GramToks r.pathToks)
    (hbuild : buildSide r values (traceToks r.pathToks) = .ok u)
    (hclosed : UrlsClosed r values r.pathToks)
    (hdom : ∀ ts, valueTexts r values r.pathToks = some ts →
      IsoNoSlash r.pathToks ts ∧ PathTailOK r.pathToks ts ∧ AllAccept ((tokConvs r.pathToks).map Conv.kind) ts)
    (hrt : VarsRoundTrip r values r.pathToks)
    {q : Req} (hok : ruleOK q r = true) (mg rd : Bool) (halias : (r.alias && rd) = false)
    (hothers : ∀ r' ∈ m.rules, r' ≠ r → ∀ via, walkVia via r'.parts (segments [] (unquote u)) = none) :
    matchSM m.root mg rd q [] (unquote u) = .ok r (dictUpdate (builtPairs r values r.pathToks) r.defaults) := by
  obtain ⟨pp, pc, hparts, hparse, hconvs⟩ := bindRule_nodomain hbind hnodom
  obtain ⟨ts, hts, hfull, _⟩ := rule_build_match_partial r values hparts hparse hgram hbuild hclosed hdom
  have hfound := search_unique hm hr hbo hok hfull hothers
  have hpc : pc = tokVars r.pathToks := by
    have := parseToks_convs r.pathToks {} hparse
    simpa [pendingConvs] using this
  have hconv : convertValues r.convs ts = some (builtPairs r values r.pathToks) := by
    rw [hconvs, hpc]; exact convert_built r values r.pathToks hts hrt
  simp only [segments] at hfound
  simp only [matchSM, hfound, finishMatch, hconv, halias, Bool.false_eq_true, if_false]

-- non-vacuity: the map of `exSpec` plus a rule with another first literal; all hypotheses hold for
-- the example values (round trip of each variable and "no other rule admits the path" included)
example : (match mkMap {} [exSpec, { toks := [.slash, .lit "other".toList, .slash, .var (.string 1 none none) "s".toList], endpoint := "o".toList }] with
    | some m =>
      (match m.rules with
       | [r, r'] =>
         (match buildSide r exValues (traceToks r.pathToks) with
          | .ok u =>
            buildDomainGB r exValues && ruleOK ⟨"GET".toList, false⟩ r && !r.alias &&
            [Via.direct, Via.trailing, Via.noslash].all (fun via => (walkVia via r'.parts (segments [] (unquote u))).isNone) &&
            (match matchSM m.root true true ⟨"GET".toList, false⟩ [] (unquote u) with
             | .ok r1 vals => r1.idx == 0 && vals == exValues
             | _ => false)
          | _ => false)
       | _ => false)
    | none => false) = true := by decide +kernel

/-- **match_build_url_partial.** `match_build_partial` on the full URL text `MapAdapter.build` returns.
Whatever form `build` chooses — relative (`script_root + path[?query]`) or external
(`[scheme:]//host + script_root + path[?query]`, forced or because the rule lives on another subdomain) —
a server reading that URL back (`readBuilt`: host -> subdomain of the adapter, script root stripped,
query / fragment cut, percent-decoding) and matching the resulting PATH_INFO gets the rule the URL was
built from, with exactly the built values plus the rule's defaults.
Additional hypotheses over `match_build_partial`: the adapter's script root is as `MapAdapter` stores it
(`ScriptOK`), host and server name are plain, the built text has no '?' / '#' (`UrlsNoCut`: true for
quoted text, numbers and UUIDs), the rule string starts with '/', and neither the built path nor its
decoding starts with '//'. -/
theorem match_build_url_partial {cfg : MapCfg} {specs : List RuleSpec} {m : RMap} (hm : mkMap cfg specs = some m)
    (hhm : m.cfg.hostMatching = false) {a : Adapter} (hs : ScriptOK a) (hserver : a.serverName ≠ [])
    {r : Rule} (hr : r ∈ m.rules) (hbo : r.spec.buildOnly = false) {i : Nat} {sp : RuleSpec}
    (hbind : bindRule cfg i sp = some r)
    (hnodom : (if cfg.hostMatching then sp.domain.getD [] else sp.domain.getD cfg.defaultSubdomain) = [])
    (values : List (Str × Value)) {ep : Str} {method : Option Str} {fe au : Bool} {dom u : Str} {w : Bool} {upath : Str}
    (hp : partialBuild m.cfg a m.rules ep values method au = .ok (some (dom, u, w)))
    (hb : r.build m.cfg values au = .ok (dom, u))
    (hgram : GramToks r.pathToks) (hslash : ∃ toks', r.pathToks = .slash :: toks')
    (hbuild : buildSide r values (traceToks r.pathToks) = .ok upath)
    (hclosed : UrlsClosed r values r.pathToks) (hnocut : UrlsNoCut r values r.pathToks)
    (hdom : ∀ ts, valueTexts r values r.pathToks = some ts →
      IsoNoSlash r.pathToks ts ∧ PathTailOK r.pathToks ts ∧ AllAccept ((tokConvs r.pathToks).map Conv.kind) ts)
    (hrt : VarsRoundTrip r values r.pathToks)
    (hsingle : ∀ t, upath = '/' :: t → t.head? ≠ some '/' ∧ (unquote t).head? ≠ some '/')
    (hhost : ∀ c ∈ getHost false a (some dom), c ≠ '/')
    {q : Req} (hok : ruleOK q r = true) (mg rd : Bool) (halias : (r.alias && rd) = false)
    (hothers : ∀ r' ∈ m.rules, r' ≠ r → ∀ via, walkVia via r'.parts (segments [] (unquote upath)) = none) :
    ∃ url pathInfo, adapterBuild m.cfg a m.rules ep values method fe au = .ok url ∧
      readBuilt m.cfg a url = some ({ a with subdomain := some dom }, pathInfo) ∧
      matchSM m.root mg rd q [] (pathPart pathInfo) = .ok r (dictUpdate (builtPairs r values r.pathToks) r.defaults) := by
  have hcfg : m.cfg = cfg := (mkMap_built hm).cfg_eq
  -- the path text inside u
  obtain ⟨upath', hup', hform⟩ := rule_build_path hb
  rw [hbuild] at hup'
  injection hup' with hup'
  subst hup'
  obtain ⟨toks', htoks⟩ := hslash
  obtain ⟨t, ht⟩ : ∃ t, upath = '/' :: t := by rw [htoks] at hbuild; exact buildSide_slash hbuild
  obtain ⟨hthead, hdechead⟩ := hsingle t ht
  have hnc : noCut t := by
    have := buildSide_noCut r values r.pathToks hbuild hnocut
    intro c hc; exact this c (by rw [ht]; exact List.mem_cons_of_mem _ hc)
  obtain ⟨qq, hu, hq⟩ : ∃ qq, u = '/' :: t ++ qq ∧ (qq = [] ∨ qq.head? = some '?') := by
    rcases hform with h | ⟨params, h⟩
    · exact ⟨[], by rw [h, ht]; simp, .inl rfl⟩
    · exact ⟨'?' :: params, by rw [h, ht], .inr rfl⟩
  rw [hu] at hp
  obtain ⟨url, hbuilt, hread⟩ := readBuilt_adapterBuild (fe := fe) hhm hs hserver hp hhost hnc hthead hq
  refine ⟨url, '/' :: unquote t, hbuilt, hread, ?_⟩
  -- decoding: unquote upath = '/' :: unquote t
  obtain ⟨ts, text, _, hrender, hcl⟩ := buildSide_closed r values r.pathToks hbuild hclosed
  rw [htoks] at hrender
  simp only [renderToks, Option.map_eq_some_iff] at hrender
  obtain ⟨text', _, htext⟩ := hrender
  subst htext
  rw [ht] at hcl
  have hcl' := hcl.tail_slash
  have hdec : unquote upath = '/' :: unquote t := by rw [ht, hcl.unquote, hcl'.unquote]
  have hpp : pathPart ('/' :: unquote t) = unquote upath := by
    rw [hdec]
    simp only [pathPart, List.isEmpty_cons, Bool.false_eq_true, if_false]
    have : lstripChar '/' ('/' :: unquote t) = lstripChar '/' (unquote t) := by simp [lstripChar]
    rw [this, lstripChar_of_head hdechead]
  rw [hpp]
  exact match_build_partial hm hr hbo hbind hnodom values hgram hbuild hclosed hdom hrt hok mg rd halias hothers

def adapterEx : Adapter :=
  { serverName := "example.org:8080".toList, scriptName := "/app/".toList, subdomain := some [], urlScheme := "https".toList,
    defaultMethod := "GET".toList, queryArgs := .none }

example : ScriptOK adapterEx :=
  ⟨by decide +kernel, by decide +kernel, by decide +kernel, by decide +kernel, by unfold noCut; decide +kernel⟩

-- non-vacuity of `match_build_url_partial`: on the map of `exSpec` + another rule, with an extra query value,
-- both the relative and the forced external URL read back and match to the rule with the built values
example : (match mkMap {} [exSpec, { toks := [.slash, .lit "other".toList, .slash, .var (.string 1 none none) "s".toList], endpoint := "o".toList }] with
    | some m =>
      let vals := exValues ++ [("q".toList, Value.str "x y".toList)]
      [false, true].all (fun fe =>
        match adapterBuild m.cfg adapterEx m.rules "e".toList vals none fe true with
        | .ok url =>
          (url == (if fe then "https://example.org:8080/app/r/id--05.html/a%20b;%3F%23%25%C3%A9/?q=x+y".toList
                   else "/app/r/id--05.html/a%20b;%3F%23%25%C3%A9/?q=x+y".toList)) &&
          (match readBuilt m.cfg adapterEx url with
           | some (a2, pathInfo) =>
             a2.subdomain == some [] &&
             (match matchSM m.root true true ⟨"GET".toList, false⟩ [] (pathPart pathInfo) with
              | .ok r1 vals' => r1.idx == 0 && vals' == exValues
              | _ => false)
           | none => false)
        | .error _ => false) &&
      (match m.rules with
       | [r, _] => (match buildSide r vals (traceToks r.pathToks) with
                    | .ok upath => upath.all (fun c => c != '?' && c != '#') && upath.take 2 != "//".toList
                    | _ => false)
       | _ => false)
    | none => false) = true := by decide +kernel

/-- `MapAdapter.match` returns the matcher's rule unless `get_default_redirect` finds a sibling -/
theorem matchAdapter_of_ok {m : RMap} {a : Adapter} {p : Str} {meth : Option Str} {qa : QueryArgs} {ws : Option Bool}
    {r : Rule} {vals : List (Str × Value)}
    (hsm : matchSM m.root m.cfg.mergeSlashes m.cfg.redirectDefaults (reqOf a meth ws) (domainPartOf m.cfg a) (pathPart p) = .ok r vals)
    (hnored : m.cfg.redirectDefaults = true →
      getDefaultRedirect m a r (reqOf a meth ws).method vals (effQa a qa) (rulesByEndpoint m.rules r.endpoint) = .ok none) :
    matchAdapter m a p meth qa ws = .matched r vals := by
  simp only [matchAdapter, hsm]
  cases hrd : m.cfg.redirectDefaults with
  | false => simp
  | true => simp [hnored hrd]

/-- **match_build_adapter_partial.** The law on whole URLs at the level of the public API:
`MapAdapter.match` (bound the way a server binds it for the URL `MapAdapter.build` returned: host ->
subdomain, script root stripped, path percent-decoded) returns `matched r values` for the rule the URL
was built from — under the hypotheses of `match_build_url_partial`, and provided no rule of the endpoint
that precedes `r` in build order provides defaults for `r` and is suitable for the matched values
(`hnored`, stated as "`get_default_redirect` finds nothing"; with `redirect_defaults` off there is nothing to
assume). That proviso is not an artefact: `match_build_crossed_defaults_false` (F04c) below. -/
theorem match_build_adapter_partial {cfg : MapCfg} {specs : List RuleSpec} {m : RMap} (hm : mkMap cfg specs = some m)
    (hhm : m.cfg.hostMatching = false) {a : Adapter} (hs : ScriptOK a) (hserver : a.serverName ≠ [])
    {r : Rule} (hr : r ∈ m.rules) (hbo : r.spec.buildOnly = false) {i : Nat} {sp : RuleSpec}
    (hbind : bindRule cfg i sp = some r)
    (hnodom : (if cfg.hostMatching then sp.domain.getD [] else sp.domain.getD cfg.defaultSubdomain) = [])
    (values : List (Str × Value)) {ep : Str} {method : Option Str} {fe au : Bool} {dom u : Str} {w : Bool} {upath : Str}
    (hp : partialBuild m.cfg a m.rules ep values method au = .ok (some (dom, u, w)))
    (hb : r.build m.cfg values au = .ok (dom, u))
    (hgram : GramToks r.pathToks) (hslash : ∃ toks', r.pathToks = .slash :: toks')
    (hbuild : buildSide r values (traceToks r.pathToks) = .ok upath)
    (hclosed : UrlsClosed r values r.pathToks) (hnocut : UrlsNoCut r values r.pathToks)
    (hdom : ∀ ts, valueTexts r values r.pathToks = some ts →
      IsoNoSlash r.pathToks ts ∧ PathTailOK r.pathToks ts ∧ AllAccept ((tokConvs r.pathToks).map Conv.kind) ts)
    (hrt : VarsRoundTrip r values r.pathToks)
    (hsingle : ∀ t, upath = '/' :: t → t.head? ≠ some '/' ∧ (unquote t).head? ≠ some '/')
    (hhost : ∀ c ∈ getHost false a (some dom), c ≠ '/')
    (meth : Option Str) (qa : QueryArgs) (ws : Option Bool)
    (hok : ruleOK (reqOf a meth ws) r = true) (halias : (r.alias && m.cfg.redirectDefaults) = false)
    (hothers : ∀ r' ∈ m.rules, r' ≠ r → ∀ via, walkVia via r'.parts (segments [] (unquote upath)) = none)
    (hnored : m.cfg.redirectDefaults = true →
      getDefaultRedirect m { a with subdomain := some dom } r (reqOf a meth ws).method
        (dictUpdate (builtPairs r values r.pathToks) r.defaults) (effQa a qa) (rulesByEndpoint m.rules r.endpoint) = .ok none) :
    ∃ url pathInfo, adapterBuild m.cfg a m.rules ep values method fe au = .ok url ∧
      readBuilt m.cfg a url = some ({ a with subdomain := some dom }, pathInfo) ∧
      matchAdapter m { a with subdomain := some dom } pathInfo meth qa ws =
        .matched r (dictUpdate (builtPairs r values r.pathToks) r.defaults) := by
  obtain ⟨url, pathInfo, h1, h2, h3⟩ := match_build_url_partial (fe := fe) hm hhm hs hserver hr hbo hbind hnodom values hp hb hgram hslash
    hbuild hclosed hnocut hdom hrt hsingle hhost hok m.cfg.mergeSlashes m.cfg.redirectDefaults halias hothers
  refine ⟨url, pathInfo, h1, h2, ?_⟩
  -- the rule has no domain rule: the built domain part is empty
  have hcfg : m.cfg = cfg := (mkMap_built hm).cfg_eq
  have hspec : r.spec = sp := by
    simp only [bindRule] at hbind
    split at hbind
    · cases hbind; rfl
    · cases hbind
  have hdomnil : dom = [] := by
    have hdt : r.domToks m.cfg = [] := by
      simp only [Rule.domToks, hspec, hcfg]; exact hnodom
    simp only [Rule.build, hdt, traceToks, buildSide, bind, Except.bind, pure, Except.pure] at hb
    split at hb
    · cases hb
    · simp only [Except.ok.injEq, Prod.mk.injEq] at hb
      exact hb.1.symm
  apply matchAdapter_of_ok
  · have hdp : domainPartOf m.cfg { a with subdomain := some dom } = [] := by
      simp [domainPartOf, hhm, hdomnil]
    rw [hdp]
    exact h3
  · exact hnored

def specsF04c : List RuleSpec :=
  [ { toks := [.slash, .lit "a".toList, .slash, .var (.int 0 false none none) "x".toList, .slash], endpoint := "e".toList,
      defaults := [("y".toList, .int 1)] },
    { toks := [.slash, .lit "b".toList, .slash, .var (.int 0 false none none) "y".toList], endpoint := "e".toList,
      defaults := [("x".toList, .int 2)] } ]

/-- **F04c (witness): `hnored` is needed on the unchanged code.** `Map([Rule('/a/<int:x>/', endpoint='e',
defaults={'y': 1}), Rule('/b/<int:y>', endpoint='e', defaults={'x': 2})])` — distinct literal first
segments, equal argument sets, crossed variable / default arguments: `build('e', {'y': 1})` is `/b/1`
(the only rule suitable for the given values); `match('/b/1')` converts to `{'y': 1, 'x': 2}`, for which
the first rule now "provides defaults", and answers with a redirect to `/a/2/` instead of the match.
The target denotes the same endpoint and arguments (C12), but build -> match is not the identity. -/
theorem match_build_crossed_defaults_false :
    (match mkMap {} specsF04c with
     | some m =>
       let a : Adapter := { serverName := "example.org".toList, scriptName := "/".toList, subdomain := some [],
                            urlScheme := "http".toList, defaultMethod := "GET".toList, queryArgs := .none }
       (match adapterBuild m.cfg a m.rules "e".toList [("y".toList, Value.int 1)] none false true with
        | .ok u =>
          u == "/b/1".toList &&
          (match matchAdapter m a u none .none none with
           | .redirect url => url == "http://example.org/a/2/".toList
           | _ => false) &&
          (match matchAdapter m a "/a/2/".toList none .none none with
           | .matched r vals => r.idx == 0 && vals == [("x".toList, Value.int 2), ("y".toList, Value.int 1)]
           | _ => false)
        | .error _ => false)
     | none => false) = true := by decide +kernel

-- non-vacuity of `match_build_adapter_partial`'s proviso: on the map of `exSpec` + another rule nothing provides defaults
example : (match mkMap {} [exSpec, { toks := [.slash, .lit "other".toList, .slash, .var (.string 1 none none) "s".toList], endpoint := "o".toList }] with
    | some m =>
      (match m.rules with
       | [r, _] =>
         (match getDefaultRedirect m adapterEx r "GET".toList (dictUpdate (builtPairs r exValues r.pathToks) r.defaults) .none
                  (rulesByEndpoint m.rules r.endpoint) with
          | .ok none => true
          | _ => false) &&
         (match matchAdapter m adapterEx "/r/id--05.html/a b;?#%é/".toList none .none none with
          | .matched r1 vals => r1.idx == 0 && vals == exValues
          | _ => false)
       | _ => false)
    | none => false) = true := by decide +kernel

/-- **build_match_fixpoint_partial (rule level).** Rebuilding a rule's path from what the match of its own
URL returns — the built values per variable plus the rule's defaults (`match_build_partial`) — gives the
same text: `build(match(build(values))) = build(values)` for the rule that was selected. -/
theorem build_match_fixpoint_partial (r : Rule) (values : List (Str × Value)) :
    buildSide r (dictUpdate (builtPairs r values r.pathToks) r.defaults) (traceToks r.pathToks) =
      buildSide r values (traceToks r.pathToks) :=
  buildSide_congr r _ values r.pathToks (fun n hn => buildValue_matched r values r.pathToks n hn)

def specsF04b : List RuleSpec :=
  [ { toks := [.slash, .lit "x".toList], endpoint := "e".toList, defaults := [("page".toList, .int 1)] },
    { toks := [.slash, .lit "y".toList, .slash, .var (.int 0 false none none) "page".toList], endpoint := "e".toList,
      defaults := [("lang".toList, .str "en".toList)] } ]

/-- **F04b (witness): the converse law fails at map level when an endpoint's rules have unequal argument
sets.** On the unchanged code, with `Map([Rule('/x', endpoint='e', defaults={'page': 1}),
Rule('/y/<int:page>', endpoint='e', defaults={'lang': 'en'})])` (distinct literal first segments):
`match('/x') = ('e', {'page': 1})`, and `build('e', {'page': 1}) = '/y/1'`, not `/x` — `build()` orders the
endpoint's rules by number of arguments first and `suitable_for` accepts the rule whose extra
argument is a default. `build_match_fixpoint_partial` is therefore about the rule that was selected;
re-selection needs the endpoint's rules to have equal argument sets. -/
theorem build_match_fixpoint_map_level_false :
    (match mkMap { redirectDefaults := false } specsF04b with
     | some m =>
       let a : Adapter := { serverName := "example.org".toList, scriptName := "/".toList, subdomain := some [],
                            urlScheme := "http".toList, defaultMethod := "GET".toList, queryArgs := .none }
       (match matchAdapter m a "/x".toList none .none none with
        | .matched r vals =>
          r.idx == 0 && vals == [("page".toList, Value.int 1)] &&
          (match adapterBuild m.cfg a m.rules r.endpoint vals none false true with
           | .ok u => u == "/y/1".toList
           | .error _ => false)
        | _ => false)
     | none => false) = true := by decide +kernel

/-! ### rule factories (`Submount`, `Subdomain`, `EndpointPrefix`, `RuleTemplate`)

`Model/RoutingFactory.lean` expands factories the way `get_rules` does (the `build-match` stream hands the
driver the inner rule + its factories and builds the nested factory objects on the real side). The
theorems say that the expansion commutes with compiling, matching and building. -/

/-- **submount_expansion.** `Submount(path, [rule])` yields a copy of the rule whose rule string is
`path.rstrip('/')` + the rule's; a trailing slash on the mount path makes no difference. The copy
(`Rule.empty()`) keeps defaults, subdomain / host, methods, build_only, endpoint, strict_slashes and alias —
and NOT `merge_slashes` / `websocket` (`get_empty_kwargs` does not hand them on: the copy takes the map's
merge setting and is never a websocket rule; `factory_copy_drops_merge_and_websocket`). -/
theorem submount_expansion (hm : Bool) (lits : List Str) (s : RuleSpec) :
    (Wrap.submount (mountToks lits)).apply hm s = .ok { s.emptyCopy with toks := mountToks lits ++ s.toks } ∧
    (Wrap.submount (mountToks lits ++ [.slash])).apply hm s = .ok { s.emptyCopy with toks := mountToks lits ++ s.toks } := by
  simp [Wrap.apply, rstripSlashToks_mount, rstripSlashToks_mount_slash]

/-- **submount_compile_commutes.** Compiling the mounted rule string (`_parse_rule`, with or without slash
merging) gives the inner rule's parts behind one static part per mount segment, and the same converters. -/
theorem submount_compile_commutes (lits : List Str) (toks' : List Tok) :
    parseRule (mountToks lits ++ .slash :: toks') =
      (parseToks toks' {}).map (fun pc => (.static [] :: (lits.map Part.static ++ pc.1), pc.2)) ∧
    parseRule (.slash :: toks') = (parseToks toks' {}).map (fun pc => (.static [] :: pc.1, pc.2)) ∧
    mergeSlashToks (mountToks lits ++ .slash :: toks') = mountToks lits ++ mergeSlashToks (.slash :: toks') := by
  refine ⟨?_, ?_, mergeSlashToks_mount lits _⟩
  · simp only [parseRule]; exact parseToks_mount lits toks'
  · have := parseToks_mount [] toks'
    simpa [parseRule, mountToks] using this

/-- **submount_match_commutes.** The mounted rule admits the path `mount + p` exactly when the inner rule
admits `p` — in each of the three ways (directly, with an extra final slash, lacking the final slash) —
and extracts the same converter groups; behind any one-segment domain part `d` (static subdomain /
host text or a converter segment). Mount segments contain no '/'. -/
theorem submount_match_commutes (via : Via) (d : Part) (lits : List Str) (hl : ∀ s ∈ lits, noSlash s)
    {toks' : List Tok} {ps : List Part} {cs : List (Str × Conv)} (hparse : parseToks toks' {} = some (ps, cs))
    (dom p : Str) (hd : ∀ xs, step d (dom :: xs) = (step d [dom]).map fun ar => (ar.1, xs)) :
    walkVia via (d :: .static [] :: (lits.map Part.static ++ ps)) (segments dom (mountText lits ++ '/' :: p)) =
      walkVia via (d :: .static [] :: ps) (segments dom ('/' :: p)) := by
  have hps := parseToks_ne_nil toks' {} hparse
  simp only [segments, splitOn_mount lits hl p]
  have h0 : splitOn '/' ('/' :: p) = [] :: splitOn '/' p := by simp [splitOn]
  rw [h0]
  exact walkVia_submount via d lits ps hps dom (splitOn '/' p) hd

/-- **submount_build_commutes.** The mounted rule builds the (quoted) mount path followed by exactly what
the inner rule builds from the same values. -/
theorem submount_build_commutes (r : Rule) (values : List (Str × Value)) (lits : List Str) (toks : List Tok) :
    buildSide r values (traceToks (mountToks lits ++ toks)) =
      (buildSide r values (traceToks toks)).map fun u => (lits.flatMap fun s => '/' :: quote pathSafe s) ++ u := by
  rw [traceToks_append]; exact buildSide_mount r values lits _

/-- **endpoint_prefix_and_subdomain_expansion.** `EndpointPrefix` changes nothing but the endpoint (the same
rule string, hence the same parts, matches and URLs); `Subdomain` nothing but the subdomain rule — and nothing
at all under host matching, where the `host` of the rule is compiled instead. -/
theorem endpoint_prefix_and_subdomain_expansion (hm : Bool) (p : Str) (d : List Tok) (s : RuleSpec) :
    (Wrap.endpointPrefix p).apply hm s = .ok { s.emptyCopy with endpoint := p ++ s.endpoint } ∧
    (Wrap.subdomain d).apply false s = .ok { s.emptyCopy with domain := some d } ∧
    (Wrap.subdomain d).apply true s = .ok s.emptyCopy := by
  simp [Wrap.apply]

def specWs : RuleSpec :=
  { toks := [.slash, .lit "echo".toList], endpoint := "e".toList, websocket := true, merge := some false, methods := some ["GET".toList] }

/-- **factory_copy_drops_merge_and_websocket (witness).** On the unchanged code `Submount('/x', [Rule('/echo',
websocket=True, merge_slashes=False)])` yields an ordinary HTTP rule with the map's merge setting: a plain
`GET /x/echo` is matched. (Observed defect of `Rule.get_empty_kwargs`, outside the three property texts; the
model follows the code, the `build-match` stream compares.) -/
theorem factory_copy_drops_merge_and_websocket :
    (match (Wrap.submount (mountToks ["x".toList])).apply false specWs with
     | .ok s' =>
       s'.websocket == false && s'.merge == none &&
       (match mkMap {} [s'] with
        | some m =>
          (matchAdapter m { serverName := "example.org".toList, scriptName := "/".toList, subdomain := some [],
                            urlScheme := "http".toList, defaultMethod := "GET".toList, queryArgs := .none }
             "/x/echo".toList none .none none).isMatched
        | none => false)
     | .error _ => false) = true := by decide +kernel

-- non-vacuity of the commutation theorems: `Submount('/blog/', [Rule('/entry/<slug>')])` on the path `/blog/entry/a b`
example : (match (Wrap.submount (mountToks ["blog".toList] ++ [.slash])).apply false
              { toks := [.slash, .lit "entry".toList, .slash, .var (.string 1 none none) "slug".toList], endpoint := "show".toList } with
    | .ok s' =>
      (match mkMap {} [s'] with
       | some m =>
         let a : Adapter := { serverName := "example.org".toList, scriptName := "/".toList, subdomain := some [],
                              urlScheme := "http".toList, defaultMethod := "GET".toList, queryArgs := .none }
         (match matchAdapter m a "/blog/entry/a b".toList none .none none with
          | .matched _ vals => vals == [("slug".toList, Value.str "a b".toList)]
          | _ => false) &&
         (match adapterBuild m.cfg a m.rules "show".toList [("slug".toList, Value.str "a b".toList)] none false true with
          | .ok u => u == "/blog/entry/a%20b".toList
          | .error _ => false)
       | none => false)
    | .error _ => false) = true := by decide +kernel

/-- **template_expansion (witness).** `RuleTemplate([Rule('/$name/<int:id>', endpoint='$name.show', alias=True)])(name='user')`
yields `Rule('/user/<int:id>', endpoint='user.show')` — `string.Template` substitution in rule string and endpoint —
and drops `alias` (also `merge_slashes`, `websocket`, `host`: `RuleTemplateFactory` passes seven arguments on). -/
theorem template_expansion :
    (match (Wrap.template [("name".toList, "user".toList)]).apply false
        { toks := [.slash, .lit "$name".toList, .slash, .var (.int 0 false none none) "id".toList],
          endpoint := "${name}.show$$".toList, alias := true } with
     | .ok s' => decide (s' = { toks := [.slash, .lit "user".toList, .slash, .var (.int 0 false none none) "id".toList],
                                endpoint := "user.show$".toList, alias := false })
     | .error _ => false) = true := by
  decide +kernel

-- Closed in round 3: match_build on whole URLs at the level of `MapAdapter.match` (`match_build_adapter_partial`), with the
-- one proviso that `get_default_redirect` finds nothing - necessary on the unchanged code (F04c,
-- `match_build_crossed_defaults_false`); rule factories (`submount_*_commutes`, `endpoint_prefix_and_subdomain_expansion`,
-- `template_expansion`).
-- OPEN: build_match_fixpoint at map level - that `MapAdapter.build` selects the same rule again for the matched values - is
-- false in general (F04b, `build_match_fixpoint_map_level_false`; F04c's second face); `build_match_fixpoint_partial`
-- is the law for the selected rule. A sufficient syntactic condition (all rules of the endpoint have equal
-- argument sets and no crossed defaults) is not carried as a theorem; the stream `build-match` checks both laws on
-- the real code and on the model (oracle: match(unquote(build)) = (endpoint, values) and build(match(url)) = url).
-- Host-matching maps are outside `match_build_url_partial` (`hhm`); floats: canonical decimal text only.

end Wz.Props.C04
