/-
C07T — "no client-controlled text makes request parsing raise", restated on the header parsers *as
regenerated from werkzeug's source* by `tools/py2lean.py` (`Gen/PyFns_Http.lean`,
`Gen/PyFns_HttpDict.lean`, `Gen/PyFns_HttpOptions.lean`, `Gen/PyFns_Etag.lean`): each translated
parser returns a value (`Safe` = no exception escapes) for every input text - the translation keeps
every `IndexError` / `ValueError` / `KeyError` / `TypeError` the Python code could raise as an explicit
error arm, so these theorems say that none of those arms is reachable. They follow from the equalities
with the hand model (Props/C06T, C06T2, C11T2) and C07's totality theorems about the model.
Property theorems only.
-/
import WzVerif.Props.C06T2
import WzVerif.Props.C11T2
import WzVerif.Lemmas.HttpSafe
import WzVerif.Lemmas.HttpSafeMisc
namespace Wz.Props.C07T
open Wz Wz.Http Wz.Pre

/-- `parse_list_header(s)`, as translated from the current source, returns a list for every `s`
(`item[0]` / `item[-1]` are only reached for an item of at least two characters). -/
theorem parse_list_header_total_safe (s : List Char) : Safe (Gen.PyFns_Http.parse_list_header s) :=
  ⟨_, C06T.parse_list_header_eq s⟩

/-- `parse_set_header(value)`, as translated, never raises - for every value including `None`. -/
theorem parse_set_header_total_safe (v : Option (List Char)) : Safe (Gen.PyFns_Http.parse_set_header v ()) :=
  ⟨_, C06T.parse_set_header_eq v⟩

/-- `parse_dict_header(s)`, as translated, returns a dict for every `s`: no IndexError from
`key[-1]` / `value[0]` / `value[-1]`, and `unquote()` is only reached with one of the four encodings. -/
theorem parse_dict_header_total_safe (s : List Char) : Safe (Gen.PyFns_HttpDict.parse_dict_header s) :=
  C06T2.parse_dict_header_total s

/-- `parse_cache_control_header(value)`, as translated, never raises. -/
theorem parse_cache_control_header_total_safe (v : Option (List Char)) :
    Safe (Gen.PyFns_HttpDict.parse_cache_control_header v () ()) := by
  rw [C06T2.parse_cache_control_header_eq]
  cases v with
  | none => exact ⟨_, rfl⟩
  | some s => exact parseCacheControl_safe s

/-- `parse_options_header(value)`, as translated (scanner loop, nested quoted-string loop, the
RFC 2231 pass), returns `(value, options)` for every text once the fuel covers the length of the
text: neither the marker error of the loops nor any IndexError / TypeError arm is reachable. -/
theorem parse_options_header_total_safe (fuel : Nat) (s : List Char) (hf : s.length ≤ fuel) :
    Safe (Gen.PyFns_HttpOptions.parse_options_header fuel (some s)) :=
  C06T2.parse_options_header_ok fuel s hf

example : "text/html; charset=utf-8".toList.length ≤ 30 := by decide

/-- `parse_content_range_header(value)`, as translated, never raises (the two-way unpackings of the
`split` calls are guarded, `_plain_int`'s ValueError is caught, the constructor's assertion holds). -/
theorem parse_content_range_header_total_safe (v : Option (List Char)) :
    Safe (Gen.PyFns_HttpDict.parse_content_range_header v ()) := by
  rw [C06T.parse_content_range_header_eq]
  cases v with
  | none => exact ⟨_, rfl⟩
  | some s =>
    obtain ⟨r, hr⟩ := parseContentRangeHeader_safe s
    exact ⟨_, by simp only [hr, Except.map]; rfl⟩

/-- `parse_age(value)`, as translated, never raises (ValueError of `int()` and OverflowError of
`timedelta` are caught). -/
theorem parse_age_total_safe (v : Option (List Char)) : Safe (Gen.PyFns_HttpDict.parse_age v) := by
  rw [C06T.parse_age_eq]
  cases v with
  | none => exact ⟨_, rfl⟩
  | some s =>
    obtain ⟨r, hr⟩ := parseAge_safe s
    exact ⟨_, by simp only [hr, Except.map]; rfl⟩

/-- `parse_csp_header(value)`, as translated, never raises (`split(" ", 1)` is only reached when a
space occurs). -/
theorem parse_csp_header_total_safe (v : Option (List Char)) :
    Safe (Gen.PyFns_HttpDict.parse_csp_header v () ()) := by
  cases v with
  | none => exact ⟨_, (C06T2.parse_csp_header_eq []).2⟩
  | some s =>
    have h := (C06T2.parse_csp_header_eq s).1
    cases hp : Gen.PyFns_HttpDict.parse_csp_header (some s) () () with
    | ok r => exact ⟨r, rfl⟩
    | error e => rw [hp] at h; simp [Except.map] at h

/-- `parse_etags(value)`, as translated, returns an `ETags` object for every header text without a
line feed (fuel ≥ length + 1) - the hypothesis is needed: `parse_etags_lf_spins` (Props/C06T2). -/
theorem parse_etags_total_safe (fuel : Nat) (s : List Char) (hlf : '\n' ∉ s) (hf : s.length + 1 ≤ fuel) :
    Safe (Gen.PyFns_Etag.parse_etags fuel (some s)) :=
  ⟨_, (C06T2.parse_etags_eq fuel s hlf hf).1⟩

example : '\n' ∉ "\"a\"".toList ∧ "\"a\"".toList.length + 1 ≤ 4 := by decide

/-- `is_resource_modified(...)`, as translated together with the parsers it calls, never raises on
header texts without line feeds: the TypeError arms for `unquote_etag(etag)[0]` being `None` are
unreachable. -/
theorem is_resource_modified_total_safe (pd : List Char → Option Int)
    (range ifRange ims inm im etag : Option (List Char)) (lm : Option PyFnsEq.Etag.Inst) (ign : Bool)
    (h1 : PyFnsEq.Etag.NoLF ifRange) (h2 : PyFnsEq.Etag.NoLF inm) (h3 : PyFnsEq.Etag.NoLF im) :
    Safe (Gen.PyFns_Etag.is_resource_modified PyFnsEq.Etag.dle PyFnsEq.Etag.dropMicro (PyFnsEq.Etag.parseDateOf pd)
      (PyFnsEq.Etag.parseIfRangeT pd) PyFnsEq.Etag.parseEtagsT range ifRange ims inm im etag () lm ign) :=
  ⟨_, C11T2.is_resource_modified_translated pd range ifRange ims inm im etag lm ign h1 h2 h3⟩

example : PyFnsEq.Etag.NoLF none := by intro s hs; cases hs

end Wz.Props.C07T
