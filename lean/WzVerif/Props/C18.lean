/-
C18 — context-local data never leaks between concurrent contexts  (*partial*).
Property theorems only (helper lemmas live in Lemmas/Local.lean).

The model (Model/Local.lean): a heap of dict / list objects, one `var ↦ object id` map per context,
`copyCtx` = child shares the parent's references, `freshCtx` = empty; method calls are the effect
lists translated from local.py on every run (Gen/LocalOps.lean). `obs w c v` is what context `c`
observes of the local bound to var `v` (the content of the dict / list it would get).
Out of the model: the guarantees of `contextvars`, GIL atomicity of one call, real preemption.
-/
import WzVerif.Lemmas.Local
namespace Wz.Props.C18
open Wz Wz.Local Wz.Gen.LocalOps

/-- Every method body translated from the current `local.py` obeys the copy-on-write discipline:
each in-place mutation (`values[name] = …`, `del values[name]`, `stack.append(…)`) targets an object
allocated earlier in the same call. This is the obligation a dropped `.copy()` breaks. -/
theorem generated_programs_cow : ∀ p ∈ Gen.LocalOps.programs, CopyBeforeWrite p.2 := by decide

/-- The discipline is not vacuous: the body of `__setattr__` without its `.copy()` is rejected. -/
theorem cow_rejects_missing_copy :
    ¬ CopyBeforeWrite [[.load 0 false, .setItem 0, .store 0, .retNone]] := by decide

/-- Every world reachable from the initial one by disciplined calls and context creations is
well-formed (`WF`: references point to allocated objects) - the standing hypothesis below. -/
theorem reachable_wf (es : List Event) (hc : ∀ e ∈ es, e.cbw) : WF (run World.init es) :=
  (run_inv wf_init es hc).1

/-- **Meta-theorem (isolation).** If every method body that runs satisfies `CopyBeforeWrite`, then
for EVERY interleaving `es` of calls from any number of contexts, mixed with `copyCtx` / `freshCtx`
at any point: whatever an existing context `c'` observes of a var `v'` is unchanged unless an event
of `es` is a call *in `c'` itself on that var* - even while parent and children hold references to
the very same dict / list object. -/
theorem cow_isolation (w : World) (hw : WF w) (es : List Event) (hc : ∀ e ∈ es, e.cbw)
    (c' v' : Nat) (hc' : c' < w.nctx) (hnt : ∀ e ∈ es, ¬ e.touches c' v') :
    obs (run w es) c' v' = obs w c' v' :=
  (run_inv hw es hc).2.2 c' v' hc' hnt

/-- hypotheses are satisfiable, and sharing really occurs in the model: after `copyCtx` the child
holds the parent's object id -/
example : WF World.init := wf_init
example : ∀ e ∈ [Event.call 0 0 localSetattr ⟨1, 5⟩, .copyCtx 0, .call 1 0 localSetattr ⟨2, 6⟩], e.cbw := by
  intro e he
  simp only [List.mem_cons, List.mem_nil_iff, or_false] at he
  rcases he with rfl | rfl | rfl
  · show CopyBeforeWrite _; decide
  · trivial
  · show CopyBeforeWrite _; decide
example : (run World.init [.call 0 0 localSetattr ⟨1, 5⟩, .copyCtx 0]).ctxs 1 0
    = (run World.init [.call 0 0 localSetattr ⟨1, 5⟩, .copyCtx 0]).ctxs 0 0 := by decide

/-- The discipline is necessary: with the copy dropped from `__setattr__`, a child's assignment
becomes visible in its parent (the exact interleaving the harness corpus starts with). -/
theorem missing_copy_leaks :
    let bad : Prog := [[.load 0 false, .setItem 0, .store 0, .retNone]]
    let w1 := run World.init [.call 0 0 localSetattr ⟨1, 5⟩, .copyCtx 0]
    obs (run w1 [.call 1 0 bad ⟨2, 6⟩]) 0 0 ≠ obs w1 0 0 := by decide

/-- Isolation for the code as it is: every interleaving of the translated method bodies. -/
theorem cow_isolation_generated (w : World) (hw : WF w) (es : List Event)
    (hg : ∀ e ∈ es, match e with
      | .call _ _ p _ => ∃ n, (n, p) ∈ Gen.LocalOps.programs
      | _ => True)
    (c' v' : Nat) (hc' : c' < w.nctx) (hnt : ∀ e ∈ es, ¬ e.touches c' v') :
    obs (run w es) c' v' = obs w c' v' := by
  apply cow_isolation w hw es _ c' v' hc' hnt
  intro e he
  have := hg e he
  cases e with
  | call c v p a =>
    obtain ⟨n, hn⟩ := this
    exact generated_programs_cow (n, p) hn
  | copyCtx _ => trivial
  | freshCtx => trivial

/-- **Snapshot.** A child created by `copyCtx parent` observes exactly what the parent observed at
that moment, and keeps observing exactly that under every later interleaving of operations by the
parent, its siblings and their descendants - until it performs an operation itself. -/
theorem child_snapshot (w : World) (hw : WF w) (parent : Nat) (hp : parent < w.nctx)
    (es : List Event) (hc : ∀ e ∈ es, e.cbw) (v : Nat)
    (hnt : ∀ e ∈ es, ¬ e.touches w.nctx v) :
    obs (run (stepEvent w (.copyCtx parent)) es) w.nctx v = obs w parent v := by
  obtain ⟨h1, _, _⟩ := stepEvent_inv hw (.copyCtx parent) trivial
  rw [(run_inv h1 es hc).2.2 w.nctx v (by simp [stepEvent]) hnt]
  simp [obs, stepEvent, hp]

example : (1 : Nat) < (run World.init [.freshCtx]).nctx := by decide

/-- A context that did not inherit (new thread, `contextvars.Context()`) observes nothing, whatever
the other contexts have stored or store later. -/
theorem fresh_context_unbound (w : World) (hw : WF w) (es : List Event) (hc : ∀ e ∈ es, e.cbw)
    (v : Nat) (hnt : ∀ e ∈ es, ¬ e.touches w.nctx v) :
    obs (run (stepEvent w .freshCtx) es) w.nctx v = none := by
  obtain ⟨h1, _, _⟩ := stepEvent_inv hw .freshCtx trivial
  rw [(run_inv h1 es hc).2.2 w.nctx v (by simp [stepEvent]) hnt]
  simp [obs, stepEvent]

/-- **Refinement of the per-context reference.** One call of a translated method body in context `c`
on var `v` acts on what `c` observes exactly like the pure reference function `refCall` on an
immutable mapping / stack (same new payload, same return value / `AttributeError`), and changes no
other observation of any existing context. This is the reference model the harness oracle runs. -/
theorem call_refines_reference (w : World) (hw : WF w) (c v : Nat) (hc : c < w.nctx) (a : Args)
    (m : Method) (ht : Typed m (obs w c v)) :
    let w' := stepEvent w (.call c v m.prog a)
    obs w' c v = (refCall m a (obs w c v)).1 ∧
    (runProg w c v a m.prog).2 = (refCall m a (obs w c v)).2 ∧
    ∀ c' v', c' < w.nctx → ¬(c' = c ∧ v' = v) → obs w' c' v' = obs w c' v' := by
  have hcbw : CopyBeforeWrite m.prog := by cases m <;> decide
  obtain ⟨h1, h2⟩ := refine_call w c v a m ht
  refine ⟨by simpa [stepEvent, hc] using h1, h2, ?_⟩
  intro c' v' hc' hne
  apply (stepEvent_inv hw (.call c v m.prog a) hcbw).2.2 c' v' hc'
  intro ht; exact hne ⟨ht.1.symm, ht.2.symm⟩

example : Typed .setattr (obs World.init 0 0) := Or.inl rfl
example : Typed .pop (obs (stepEvent World.init (.call 0 1 stackPush ⟨0, 7⟩)) 0 1) :=
  Or.inr ⟨[7], by decide⟩

/-- **Release is local.** `__release_local__` (hence `release_local` and `LocalManager.cleanup`)
leaves the releasing context with an empty mapping / stack and changes what no other context, and
no other local of the same context, observes. -/
theorem release_local_only (w : World) (hw : WF w) (c v : Nat) (hc : c < w.nctx) (stack : Bool) :
    let p := if stack then stackRelease else localRelease
    let w' := stepEvent w (.call c v p {})
    obs w' c v = some (Obj.empty stack) ∧
    ∀ c' v', c' < w.nctx → ¬(c' = c ∧ v' = v) → obs w' c' v' = obs w c' v' := by
  have hcbw : CopyBeforeWrite (if stack then stackRelease else localRelease) := by
    cases stack <;> decide
  refine ⟨?_, ?_⟩
  · cases stack <;>
    simp [stepEvent, hc, obs, localRelease, stackRelease, runProg, runPath, stepOp, alloc, bindVar,
      setReg, Obj.empty]
  · intro c' v' hc' hne
    apply (stepEvent_inv hw (.call c v _ {}) hcbw).2.2 c' v' hc'
    intro ht; exact hne ⟨ht.1.symm, ht.2.symm⟩

/-- **Proxies resolve in the accessing context.** What `proxy._get_current_object()` yields in
context `c` is a function of what `c` itself observes: no interleaving of operations by other
contexts (or on other locals) changes it. -/
theorem proxy_resolves_in_accessing_context (w : World) (hw : WF w) (es : List Event)
    (hc : ∀ e ∈ es, e.cbw) (c : Nat) (hcn : c < w.nctx) (p : Proxy)
    (hnt : ∀ e ∈ es, ¬ e.touches c p.var) :
    proxyView (run w es) c p = proxyView w c p := by
  have := resolve_congr (c := c) p (cow_isolation w hw es hc c p.var hcn hnt)
  simp [proxyView, this]

/-- ... it is the value bound there: the attribute of the accessing context's mapping, resp. the
top of its stack ... -/
theorem proxy_resolves_to_bound_object (w : World) (c v k : Nat) :
    resolve w c (.attr v k) = (match obs w c v with | some (.dict kv) => dictGet kv k | _ => none) ∧
    resolve w c (.top v) = (match obs w c v with | some (.list xs) => xs.getLast? | _ => none) :=
  ⟨resolve_attr_eq w c v k, resolve_top_eq w c v⟩

/-- ... and where nothing is bound the proxy reports itself unbound on all three faces:
`_get_current_object()` raises RuntimeError, `bool(proxy)` is False, `repr` is the fallback. -/
theorem proxy_unbound_reports (w : World) (c : Nat) (p : Proxy) (h : resolve w c p = none) :
    proxyView w c p = { obj := none, truthy := false, fallbackRepr := true } := by
  simp [proxyView, h]

/-- **Falsy bound objects are bound.** The unbound test of the `LocalStack` closure in
`LocalProxy.__init__` (taken from the AST on every run) is `obj is None`, so for every choice of
which values are falsy (empty dict / list, 0, "", an object whose `__len__()` is 0 or whose
`__bool__` is False, ...) the proxy resolves to exactly the object `top` returns in the accessing
context: `_get_current_object()` yields it, `repr` is not the fallback, and `bool(proxy)` is the
object's own truth value. -/
theorem proxy_bound_even_if_falsy :
    Gen.LocalOps.stackProxyTest = .isNone ∧
    ∀ (falsy : Nat → Bool) (w : World) (c : Nat) (p : Proxy),
      resolveSrc falsy w c p = resolve w c p ∧
      ∀ x, resolve w c p = some x →
        proxyViewSrc falsy w c p = { obj := some x, truthy := !falsy x, fallbackRepr := false } := by
  have ht : Gen.LocalOps.stackProxyTest = .isNone := by decide
  refine ⟨ht, ?_⟩
  intro falsy w c p
  have hr : resolveSrc falsy w c p = resolve w c p := by
    cases p with
    | attr v k => rfl
    | top v =>
      simp only [resolveSrc, ht]
      cases resolve w c (.top v) <;> rfl
  refine ⟨hr, ?_⟩
  intro x hx
  simp [proxyViewSrc, hr, hx]

/-- a bound falsy object on the stack (token 2, declared falsy) is still what the proxy yields -/
example : proxyViewSrc (fun x => x == 2) (run World.init [.call 0 1 stackPush ⟨0, 2⟩]) 0 (.top 1)
    = { obj := some 2, truthy := false, fallbackRepr := false } := by decide

example : resolve World.init 0 (.attr 0 1) = none := by decide
example : resolve (run World.init [.call 0 0 localSetattr ⟨1, 5⟩]) 0 (.attr 0 1) = some 5 := by decide
example : resolve (run World.init [.call 0 0 localSetattr ⟨1, 5⟩, .freshCtx]) 1 (.attr 0 1) = none := by
  decide

end Wz.Props.C18
