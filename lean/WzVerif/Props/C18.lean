/- C18 property theorems (not written yet) -/
namespace Wz.Props.C18
end Wz.Props.C18
