/-
C18 — context-local data never leaks between concurrent contexts  (*partial*).
Property theorems only (helper lemmas live in Lemmas/Local.lean).

The model (Model/Local.lean): a heap of dict / list objects, one `var ↦ object id` map per context,
`copyCtx` = child shares the parent's references, `freshCtx` = empty; method calls are the effect
lists translated from local.py on every run (Gen/LocalOps.lean). `obs w c v` is what context `c`
observes of the local bound to var `v` (the content of the dict / list it would get).
Out of the model: the guarantees of `contextvars`, GIL atomicity of one call, real preemption.
-/
import WzVerif.Lemmas.Local
import WzVerif.Lemmas.LocalLife
import WzVerif.Lemmas.LocalProxy
import WzVerif.Lemmas.LocalFine
namespace Wz.Props.C18
open Wz Wz.Local Wz.Gen.LocalOps

/-- Every method body translated from the current `local.py` obeys the copy-on-write discipline:
each in-place mutation (`values[name] = …`, `del values[name]`, `stack.append(…)`) targets an object
allocated earlier in the same call. This is the obligation a dropped `.copy()` breaks. -/
theorem generated_programs_cow : ∀ p ∈ Gen.LocalOps.programs, CopyBeforeWrite p.2 := by decide

/-- The discipline is not vacuous: the body of `__setattr__` without its `.copy()` is rejected. -/
theorem cow_rejects_missing_copy :
    ¬ CopyBeforeWrite [[.load 0 false, .setItem 0, .store 0, .retNone]] := by decide

/-- Every world reachable from the initial one by disciplined calls and context creations is
well-formed (`WF`: references point to allocated objects) - the standing hypothesis below. -/
theorem reachable_wf (es : List Event) (hc : ∀ e ∈ es, e.cbw) : WF (run World.init es) :=
  (run_inv wf_init es hc).1

/-- **Meta-theorem (isolation).** If every method body that runs satisfies `CopyBeforeWrite`, then
for EVERY interleaving `es` of calls from any number of contexts, mixed with `copyCtx` / `freshCtx`
at any point: whatever an existing context `c'` observes of a var `v'` is unchanged unless an event
of `es` is a call *in `c'` itself on that var* - even while parent and children hold references to
the very same dict / list object. -/
theorem cow_isolation (w : World) (hw : WF w) (es : List Event) (hc : ∀ e ∈ es, e.cbw)
    (c' v' : Nat) (hc' : c' < w.nctx) (hnt : ∀ e ∈ es, ¬ e.touches c' v') :
    obs (run w es) c' v' = obs w c' v' :=
  (run_inv hw es hc).2.2 c' v' hc' hnt

/-- hypotheses are satisfiable, and sharing really occurs in the model: after `copyCtx` the child
holds the parent's object id -/
example : WF World.init := wf_init
example : ∀ e ∈ [Event.call 0 0 localSetattr ⟨1, 5⟩, .copyCtx 0, .call 1 0 localSetattr ⟨2, 6⟩], e.cbw := by
  intro e he
  simp only [List.mem_cons, List.mem_nil_iff, or_false] at he
  rcases he with rfl | rfl | rfl
  · show CopyBeforeWrite _; decide
  · trivial
  · show CopyBeforeWrite _; decide
example : (run World.init [.call 0 0 localSetattr ⟨1, 5⟩, .copyCtx 0]).ctxs 1 0
    = (run World.init [.call 0 0 localSetattr ⟨1, 5⟩, .copyCtx 0]).ctxs 0 0 := by decide

/-- The discipline is necessary: with the copy dropped from `__setattr__`, a child's assignment
becomes visible in its parent (the exact interleaving the harness corpus starts with). -/
theorem missing_copy_leaks :
    let bad : Prog := [[.load 0 false, .setItem 0, .store 0, .retNone]]
    let w1 := run World.init [.call 0 0 localSetattr ⟨1, 5⟩, .copyCtx 0]
    obs (run w1 [.call 1 0 bad ⟨2, 6⟩]) 0 0 ≠ obs w1 0 0 := by decide

/-- Isolation for the code as it is: every interleaving of the translated method bodies. -/
theorem cow_isolation_generated (w : World) (hw : WF w) (es : List Event)
    (hg : ∀ e ∈ es, match e with
      | .call _ _ p _ => ∃ n, (n, p) ∈ Gen.LocalOps.programs
      | _ => True)
    (c' v' : Nat) (hc' : c' < w.nctx) (hnt : ∀ e ∈ es, ¬ e.touches c' v') :
    obs (run w es) c' v' = obs w c' v' := by
  apply cow_isolation w hw es _ c' v' hc' hnt
  intro e he
  have := hg e he
  cases e with
  | call c v p a =>
    obtain ⟨n, hn⟩ := this
    exact generated_programs_cow (n, p) hn
  | copyCtx _ => trivial
  | freshCtx => trivial

/-- **Snapshot.** A child created by `copyCtx parent` observes exactly what the parent observed at
that moment, and keeps observing exactly that under every later interleaving of operations by the
parent, its siblings and their descendants - until it performs an operation itself. -/
theorem child_snapshot (w : World) (hw : WF w) (parent : Nat) (hp : parent < w.nctx)
    (es : List Event) (hc : ∀ e ∈ es, e.cbw) (v : Nat)
    (hnt : ∀ e ∈ es, ¬ e.touches w.nctx v) :
    obs (run (stepEvent w (.copyCtx parent)) es) w.nctx v = obs w parent v := by
  obtain ⟨h1, _, _⟩ := stepEvent_inv hw (.copyCtx parent) trivial
  rw [(run_inv h1 es hc).2.2 w.nctx v (by simp [stepEvent]) hnt]
  simp [obs, stepEvent, hp]

example : (1 : Nat) < (run World.init [.freshCtx]).nctx := by decide

/-- A context that did not inherit (new thread, `contextvars.Context()`) observes nothing, whatever
the other contexts have stored or store later. -/
theorem fresh_context_unbound (w : World) (hw : WF w) (es : List Event) (hc : ∀ e ∈ es, e.cbw)
    (v : Nat) (hnt : ∀ e ∈ es, ¬ e.touches w.nctx v) :
    obs (run (stepEvent w .freshCtx) es) w.nctx v = none := by
  obtain ⟨h1, _, _⟩ := stepEvent_inv hw .freshCtx trivial
  rw [(run_inv h1 es hc).2.2 w.nctx v (by simp [stepEvent]) hnt]
  simp [obs, stepEvent]

/-- **Refinement of the per-context reference.** One call of a translated method body in context `c`
on var `v` acts on what `c` observes exactly like the pure reference function `refCall` on an
immutable mapping / stack (same new payload, same return value / `AttributeError`), and changes no
other observation of any existing context. This is the reference model the harness oracle runs. -/
theorem call_refines_reference (w : World) (hw : WF w) (c v : Nat) (hc : c < w.nctx) (a : Args)
    (m : Method) (ht : Typed m (obs w c v)) :
    let w' := stepEvent w (.call c v m.prog a)
    obs w' c v = (refCall m a (obs w c v)).1 ∧
    (runProg w c v a m.prog).2 = (refCall m a (obs w c v)).2 ∧
    ∀ c' v', c' < w.nctx → ¬(c' = c ∧ v' = v) → obs w' c' v' = obs w c' v' := by
  have hcbw : CopyBeforeWrite m.prog := by cases m <;> decide
  obtain ⟨h1, h2⟩ := refine_call w c v a m ht
  refine ⟨by simpa [stepEvent, hc] using h1, h2, ?_⟩
  intro c' v' hc' hne
  apply (stepEvent_inv hw (.call c v m.prog a) hcbw).2.2 c' v' hc'
  intro ht; exact hne ⟨ht.1.symm, ht.2.symm⟩

example : Typed .setattr (obs World.init 0 0) := Or.inl rfl
example : Typed .pop (obs (stepEvent World.init (.call 0 1 stackPush ⟨0, 7⟩)) 0 1) :=
  Or.inr ⟨[7], by decide⟩

/-- **Release is local.** `__release_local__` (hence `release_local` and `LocalManager.cleanup`)
leaves the releasing context with an empty mapping / stack and changes what no other context, and
no other local of the same context, observes. -/
theorem release_local_only (w : World) (hw : WF w) (c v : Nat) (hc : c < w.nctx) (stack : Bool) :
    let p := if stack then stackRelease else localRelease
    let w' := stepEvent w (.call c v p {})
    obs w' c v = some (Obj.empty stack) ∧
    ∀ c' v', c' < w.nctx → ¬(c' = c ∧ v' = v) → obs w' c' v' = obs w c' v' := by
  have hcbw : CopyBeforeWrite (if stack then stackRelease else localRelease) := by
    cases stack <;> decide
  refine ⟨?_, ?_⟩
  · cases stack <;>
    simp [stepEvent, hc, obs, localRelease, stackRelease, runProg, runPath, stepOp, alloc, bindVar,
      setReg, Obj.empty]
  · intro c' v' hc' hne
    apply (stepEvent_inv hw (.call c v _ {}) hcbw).2.2 c' v' hc'
    intro ht; exact hne ⟨ht.1.symm, ht.2.symm⟩

/-! ### object lifecycle: instances, their storage cells, creation and disposal

`cow_isolation` and everything above speak about *storage cells* (vars). The theorems below tie
cells to the `Local` / `LocalStack` *instances* of a program: which cell an instance gets is decided
in `__init__`, and that choice is read from the AST on every run (`Gen.LocalOps.constructors`). -/

/-- **Each instance owns its cell.** In the current `local.py` both `Local.__init__` and
`LocalStack.__init__`, when no `context_var` is passed, bind the storage attribute to the result of a
direct call `ContextVar(<name>)` of the class imported from `contextvars` (the only statement of the
module that binds the name `ContextVar` is that import), made in the constructor itself - not shared,
cached or looked up - and no other function re-binds a storage attribute afterwards. This is the
obligation a memoising / pooling constructor breaks. -/
theorem constructors_allocate_own_var :
    (∀ k ∈ Gen.LocalOps.constructors, k.2 = .direct) ∧
    Gen.LocalOps.contextVarBinders = ["from contextvars import ContextVar"] ∧
    Gen.LocalOps.storageRebinds = [] := by decide

/-- ... hence histories "as the extracted constructors produce them" are histories in which every
constructor call makes its own var. -/
theorem extracted_histories_own_var (es : List LEvent) (h : ∀ e ∈ es, e.asExtracted) :
    ∀ e ∈ es, e.ownVar := by
  have hl : Gen.LocalOps.localCtor = .direct :=
    constructors_allocate_own_var.1 ("Local.__init__", localCtor) (by simp [constructors])
  have hs : Gen.LocalOps.stackCtor = .direct :=
    constructors_allocate_own_var.1 ("LocalStack.__init__", stackCtor) (by simp [constructors])
  intro e he
  have := h e he
  cases e with
  | create pol addr st =>
    cases st <;> simpa [LEvent.asExtracted, LEvent.ownVar, hl, hs, CtorKind.policy] using this
  | _ => trivial

/-- **A fresh local is unbound in every context.** After EVERY history of creations (at any
addresses, re-used or not), calls from any contexts, context copies / new threads, disposals (with
or without `release_local` before) and collections: a `Local()` / `LocalStack()` that has just been
constructed is bound in no context at all - nothing is visible through it, and both kinds of proxy
on it report unbound on all three faces - whatever data discarded locals left behind in the
contexts that are still alive (or in their children). -/
theorem fresh_local_unbound (es : List LEvent) (hc : ∀ e ∈ es, e.cbw) (ho : ∀ e ∈ es, e.ownVar)
    (addr : Nat) (st : Bool) :
    let lw' := lstep (lrun LWorld.init es) (.create .ownFresh addr st)
    ∃ i, lw'.newest = some i ∧ i.addr = addr ∧ ∀ c,
      obs lw'.w c i.var = none ∧
      ∀ name, proxyView lw'.w c (.attr i.var name) = { obj := none, truthy := false, fallbackRepr := true } ∧
              proxyView lw'.w c (.top i.var) = { obj := none, truthy := false, fallbackRepr := true } := by
  obtain ⟨hinv, _, _, _⟩ := lrun_inv linv_init es hc ho
  refine ⟨{ var := (lrun LWorld.init es).nvar, addr, isStack := st, own := true }, ?_, rfl, ?_⟩
  · simp [lstep, LWorld.newest]
  · intro c
    have hn : obs (lstep (lrun LWorld.init es) (.create .ownFresh addr st)).w c (lrun LWorld.init es).nvar = none := by
      simp only [lstep, obs]
      cases h : (lrun LWorld.init es).w.ctxs c (lrun LWorld.init es).nvar with
      | none => rfl
      | some id => exact absurd (hinv.bound _ _ _ h) (Nat.lt_irrefl _)
    exact ⟨hn, fun name => proxyView_unbound hn name⟩

/-- the same for the code as it is: histories whose constructor calls follow the extracted
`__init__` bodies -/
theorem fresh_local_unbound_generated (es : List LEvent) (hc : ∀ e ∈ es, e.cbw)
    (hx : ∀ e ∈ es, e.asExtracted) (addr : Nat) (st : Bool) :
    let pol := (if st then Gen.LocalOps.stackCtor else Gen.LocalOps.localCtor).policy
    let lw' := lstep (lrun LWorld.init es) (.create pol addr st)
    ∃ i, lw'.newest = some i ∧ ∀ c, obs lw'.w c i.var = none := by
  have hp : (if st then Gen.LocalOps.stackCtor else Gen.LocalOps.localCtor).policy = .ownFresh := by
    exact extracted_histories_own_var
      [.create (if st then Gen.LocalOps.stackCtor else Gen.LocalOps.localCtor).policy 0 st]
      (by intro e he; simp at he; subst he; rfl) _ (List.mem_singleton.mpr rfl)
  simp only [hp]
  obtain ⟨i, h1, _, h3⟩ := fresh_local_unbound es hc (extracted_histories_own_var es hx) addr st
  exact ⟨i, h1, fun c => (h3 c).1⟩

/-- hypotheses are satisfiable by a history with address re-use: a local is created at address 7,
written in context 0, a child context is taken, the local is dropped without release, collected, and
the next local is allocated at address 7 again -/
example : ∀ e ∈ [LEvent.create .ownFresh 7 false, .call 0 0 localSetattr ⟨1, 5⟩, .copyCtx 0, .drop 0, .gc],
    e.cbw ∧ e.ownVar ∧ e.asExtracted := by
  intro e he
  simp only [List.mem_cons, List.mem_nil_iff, or_false] at he
  rcases he with rfl | rfl | rfl | rfl | rfl
  · exact ⟨trivial, rfl, by show VarPolicy.ownFresh = _; decide⟩
  · exact ⟨by show CopyBeforeWrite _; decide, trivial, trivial⟩
  · exact ⟨trivial, trivial, trivial⟩
  · exact ⟨trivial, trivial, trivial⟩
  · exact ⟨trivial, trivial, trivial⟩

/-- ... and it stays unbound in a context until that context itself stores through an instance
with this cell: no history of operations elsewhere (other contexts, other instances, further
creations and disposals) binds it. -/
theorem fresh_local_stays_unbound (es : List LEvent) (hc : ∀ e ∈ es, e.cbw) (ho : ∀ e ∈ es, e.ownVar)
    (addr : Nat) (st : Bool) (es2 : List LEvent) (hc2 : ∀ e ∈ es2, e.cbw) (ho2 : ∀ e ∈ es2, e.ownVar)
    (c : Nat) :
    let lw' := lstep (lrun LWorld.init es) (.create .ownFresh addr st)
    c < lw'.w.nctx → NoTouch c (lrun LWorld.init es).nvar lw' es2 →
    obs (lrun lw' es2).w c (lrun LWorld.init es).nvar = none := by
  intro lw' hcn hnt
  obtain ⟨hinv, _, _, _⟩ := lrun_inv linv_init es hc ho
  obtain ⟨hinv', _, _, _⟩ := lstep_inv hinv (.create .ownFresh addr st) trivial rfl
  obtain ⟨i, _, _, h3⟩ := fresh_local_unbound es hc ho addr st
  rw [(lrun_inv hinv' es2 hc2 ho2).2.2.2 c _ hcn hnt]
  have : obs lw'.w c (lrun LWorld.init es).nvar = none := by
    simp only [lw', lstep, obs]
    cases h : (lrun LWorld.init es).w.ctxs c (lrun LWorld.init es).nvar with
    | none => rfl
    | some id => exact absurd (hinv.bound _ _ _ h) (Nat.lt_irrefl _)
  exact this

/-- non-vacuity of `NoTouch`: after the new local (cell 1) is created, context 0 writes through the
OLD local and context 1 writes through the new one; context 0 never touches cell 1 -/
example :
    let lw' := lrun LWorld.init [.create .ownFresh 7 false, .copyCtx 0, .create .ownFresh 9 false]
    NoTouch 0 1 lw' [.call 0 0 localSetattr ⟨1, 5⟩, .call 1 1 localSetattr ⟨1, 6⟩] ∧
    obs (lrun lw' [.call 0 0 localSetattr ⟨1, 5⟩, .call 1 1 localSetattr ⟨1, 6⟩]).w 0 1 = none ∧
    obs (lrun lw' [.call 0 0 localSetattr ⟨1, 5⟩, .call 1 1 localSetattr ⟨1, 6⟩]).w 1 1 = some (.dict [(1, 6)]) := by
  refine ⟨⟨?_, ?_, trivial⟩, by decide, by decide⟩
  · rintro ⟨_, i, hi, hv⟩
    have : (lrun LWorld.init [.create .ownFresh 7 false, .copyCtx 0, .create .ownFresh 9 false]).inst? 0
        = some { var := 0, addr := 7, isStack := false, own := true } := by decide
    rw [this] at hi; cases hi; cases hv
  · rintro ⟨h, _⟩; cases h

/-- **Own cells are pairwise distinct.** In every history whose constructor calls make their own var,
two different instances created without `context_var` never have the same storage cell - also when
the second one lives at the address the first one had. -/
theorem own_cells_distinct (es : List LEvent) (hc : ∀ e ∈ es, e.cbw) (ho : ∀ e ∈ es, e.ownVar)
    (a b : Nat) (ia ib : Inst) (ha : (lrun LWorld.init es).insts[a]? = some ia)
    (hb : (lrun LWorld.init es).insts[b]? = some ib) (hab : a ≠ b)
    (hoa : ia.own = true) (hob : ib.own = true) : ia.var ≠ ib.var :=
  lrun_ownDistinct linv_init ownDistinct_init es hc ho a b ia ib ha hb hab hoa hob

/-- **Isolation between instances with distinct storage cells** (the hypothesis `hcell` is explicit;
`own_cells_distinct` discharges it for instances created without `context_var`). A call through
instance `hi`, in any context, changes what no context observes through an instance whose cell is
different. -/
theorem instance_isolation (es : List LEvent) (hc : ∀ e ∈ es, e.cbw) (ho : ∀ e ∈ es, e.ownVar)
    (hi hj : Nat) (ii ij : Inst)
    (h1 : (lrun LWorld.init es).inst? hi = some ii) (_h2 : (lrun LWorld.init es).insts[hj]? = some ij)
    (hcell : ii.var ≠ ij.var)
    (c : Nat) (p : Prog) (a : Args) (hp : CopyBeforeWrite p) (c' : Nat)
    (hc' : c' < (lrun LWorld.init es).w.nctx) :
    obs (lstep (lrun LWorld.init es) (.call c hi p a)).w c' ij.var = obs (lrun LWorld.init es).w c' ij.var := by
  obtain ⟨hinv, _, _, _⟩ := lrun_inv linv_init es hc ho
  apply (lstep_inv hinv (.call c hi p a) hp trivial).2.2.2 c' ij.var hc'
  rintro ⟨_, i, hi', hv⟩
  rw [h1] at hi'
  cases hi'
  exact hcell hv

/-- ... so two different instances created without `context_var` never see each other's data, under
the extracted constructors, for every history (creation order, addresses, disposals). -/
theorem own_instances_isolated (es : List LEvent) (hc : ∀ e ∈ es, e.cbw) (ho : ∀ e ∈ es, e.ownVar)
    (hi hj : Nat) (ii ij : Inst) (hne : hi ≠ hj)
    (h1 : (lrun LWorld.init es).inst? hi = some ii) (h2 : (lrun LWorld.init es).insts[hj]? = some ij)
    (hoi : ii.own = true) (hoj : ij.own = true)
    (c : Nat) (p : Prog) (a : Args) (hp : CopyBeforeWrite p) (c' : Nat)
    (hc' : c' < (lrun LWorld.init es).w.nctx) :
    obs (lstep (lrun LWorld.init es) (.call c hi p a)).w c' ij.var = obs (lrun LWorld.init es).w c' ij.var := by
  have h1' : (lrun LWorld.init es).insts[hi]? = some ii := by
    unfold LWorld.inst? at h1
    split at h1
    · cases h1
    · exact h1
  exact instance_isolation es hc ho hi hj ii ij h1 h2
    (own_cells_distinct es hc ho hi hj ii ij h1' h2 hne hoi hoj) c p a hp c' hc'

/-- non-vacuity: two locals created one after the other, the second at the address of the (dropped)
first, have the cells 0 and 1 -/
example :
    let lw := lrun LWorld.init [.create .ownFresh 7 false, .call 0 0 localSetattr ⟨1, 5⟩, .create .ownFresh 8 true,
      .drop 0, .create .ownFresh 7 false]
    lw.inst? 1 = some { var := 1, addr := 8, isStack := true, own := true } ∧
    lw.insts[2]? = some { var := 2, addr := 7, isStack := false, own := true } ∧ lw.inst? 0 = none := by
  decide

/-- The distinct-cell hypothesis is necessary, and it is exactly what a caller gives up by passing
the same `context_var` to two locals: the second instance then sees what is stored through the
first. -/
theorem shared_cell_shares :
    let lw := lrun LWorld.init [.create .ownFresh 1 false, .createSharing 0 2]
    (lw.insts.map (·.var)) = [0, 0] ∧
    obs (lstep lw (.call 0 0 localSetattr ⟨1, 5⟩)).w 0 0 ≠ obs lw.w 0 0 := by decide

/-- **Why the constructor fact is demanded** (the seeded change C18-c2 as a model): with a factory
that remembers vars by name - the name is built from `id(self)` - a brand-new local allocated at the
address of a discarded one is already bound to the discarded one's data, in the context that wrote
it and in a child copied from that context. -/
theorem memoised_ctor_leaks :
    let es : List LEvent := [.create .memoByName 7 false, .call 0 0 localSetattr ⟨1, 5⟩, .copyCtx 0,
      .drop 0, .gc, .create .memoByName 7 false]
    let lw := lrun LWorld.init es
    lw.newest.map (·.var) = some 0 ∧
    obs lw.w 0 0 = some (.dict [(1, 5)]) ∧ obs lw.w 1 0 = some (.dict [(1, 5)]) ∧
    resolve lw.w 1 (.attr 0 1) = some 5 := by decide

/-- the same history under the extracted constructors: the new local gets cell 1 and is unbound -/
example :
    let es : List LEvent := [.create .ownFresh 7 false, .call 0 0 localSetattr ⟨1, 5⟩, .copyCtx 0,
      .drop 0, .gc, .create .ownFresh 7 false]
    let lw := lrun LWorld.init es
    lw.newest.map (·.var) = some 1 ∧ obs lw.w 0 1 = none ∧ obs lw.w 1 1 = none := by decide

/-- **Disposal is invisible.** Dropping the last reference to a local (released before or not) and
`gc.collect()` change what no context observes through any cell; a dropped instance can no longer
be called. -/
theorem drop_gc_invisible (lw : LWorld) (h : Nat) :
    (lstep lw (.drop h)).w = lw.w ∧ (lstep lw .gc).w = lw.w ∧
    ∀ c p a, lstep (lstep lw (.drop h)) (.call c h p a) = lstep lw (.drop h) := by
  refine ⟨rfl, rfl, ?_⟩
  intro c p a
  simp [lstep, LWorld.inst?]

/-- **Proxies resolve in the accessing context.** What `proxy._get_current_object()` yields in
context `c` is a function of what `c` itself observes: no interleaving of operations by other
contexts (or on other locals) changes it. -/
theorem proxy_resolves_in_accessing_context (w : World) (hw : WF w) (es : List Event)
    (hc : ∀ e ∈ es, e.cbw) (c : Nat) (hcn : c < w.nctx) (p : Proxy)
    (hnt : ∀ e ∈ es, ¬ e.touches c p.var) :
    proxyView (run w es) c p = proxyView w c p := by
  have := resolve_congr (c := c) p (cow_isolation w hw es hc c p.var hcn hnt)
  simp [proxyView, this]

/-- ... it is the value bound there: the attribute of the accessing context's mapping, resp. the
top of its stack ... -/
theorem proxy_resolves_to_bound_object (w : World) (c v k : Nat) :
    resolve w c (.attr v k) = (match obs w c v with | some (.dict kv) => dictGet kv k | _ => none) ∧
    resolve w c (.top v) = (match obs w c v with | some (.list xs) => xs.getLast? | _ => none) :=
  ⟨resolve_attr_eq w c v k, resolve_top_eq w c v⟩

/-- ... and where nothing is bound the proxy reports itself unbound on all three faces:
`_get_current_object()` raises RuntimeError, `bool(proxy)` is False, `repr` is the fallback. -/
theorem proxy_unbound_reports (w : World) (c : Nat) (p : Proxy) (h : resolve w c p = none) :
    proxyView w c p = { obj := none, truthy := false, fallbackRepr := true } := by
  simp [proxyView, h]

/-- **Falsy bound objects are bound.** The unbound test of the `LocalStack` closure in
`LocalProxy.__init__` (taken from the AST on every run) is `obj is None`, so for every choice of
which values are falsy (empty dict / list, 0, "", an object whose `__len__()` is 0 or whose
`__bool__` is False, ...) the proxy resolves to exactly the object `top` returns in the accessing
context: `_get_current_object()` yields it, `repr` is not the fallback, and `bool(proxy)` is the
object's own truth value. -/
theorem proxy_bound_even_if_falsy :
    Gen.LocalOps.stackProxyTest = .isNone ∧
    ∀ (falsy : Nat → Bool) (w : World) (c : Nat) (p : Proxy),
      resolveSrc falsy w c p = resolve w c p ∧
      ∀ x, resolve w c p = some x →
        proxyViewSrc falsy w c p = { obj := some x, truthy := !falsy x, fallbackRepr := false } := by
  have ht : Gen.LocalOps.stackProxyTest = .isNone := by decide
  refine ⟨ht, ?_⟩
  intro falsy w c p
  have hr : resolveSrc falsy w c p = resolve w c p := by
    cases p with
    | attr v k => rfl
    | top v =>
      simp only [resolveSrc, ht]
      cases resolve w c (.top v) <;> rfl
  refine ⟨hr, ?_⟩
  intro x hx
  simp [proxyViewSrc, hr, hx]

/-! ### preemption between the primitive effects of a call

The theorems above treat one method call as atomic. `Model/LocalFine.lean` drops that: a call is a
frame that executes ONE primitive effect (`load`, `copy`, `setItem`, `store`, a branch test, ...) per
step and the scheduler interleaves the steps of different contexts arbitrarily. -/

/-- every control-flow path of every translated method body obeys the discipline (what
`generated_programs_cow` says, path by path) -/
theorem generated_paths_cow :
    ∀ p ∈ Gen.LocalOps.programs, ∀ path ∈ p.2, cbwPath [] path = true := by decide

/-- **Isolation under preemption.** For EVERY schedule of primitive steps of calls running
concurrently in any number of contexts (each context inside at most one call - a
`contextvars.Context` cannot be entered twice -, contexts copied by their idle owner, new threads at
any time), if every path that is started obeys the copy-on-write discipline: what context `c'`
observes of cell `v'` changes only by steps of `c'` itself inside a call on `v'`. In particular a
thread preempted between `values = storage.get({}).copy()` and `storage.set(values)` neither sees nor
disturbs what the other contexts do meanwhile. -/
theorem preemptive_isolation (es0 es : List FEvent) (h0 : ∀ e ∈ es0, e.cbw) (hc : ∀ e ∈ es, e.cbw)
    (c' v' : Nat) (hc' : c' < (frun FWorld.init es0).w.nctx)
    (hnt : NoTouchF c' v' (frun FWorld.init es0) es) :
    obs (frun (frun FWorld.init es0) es).w c' v' = obs (frun FWorld.init es0).w c' v' :=
  (frun_inv (frun_inv finv_init es0 h0).1 es hc).2.2 c' v' hc' hnt

/-- non-vacuity: parent and child both run `__setattr__`, their effects alternate one by one; the
parent ends with its own key only, the child with both, and the shared dict object is untouched -/
example :
    let setattr : Path := [.load 0 false, .copy 1 0, .setItem 1, .store 1, .retNone]
    let es0 : List FEvent := [.begin 0 0 setattr ⟨1, 5⟩, .step 0, .step 0, .step 0, .step 0, .step 0, .copyCtx 0]
    let es : List FEvent := [.begin 0 0 setattr ⟨2, 6⟩, .begin 1 0 setattr ⟨3, 7⟩,
      .step 0, .step 1, .step 0, .step 1, .step 0, .step 1, .step 0, .step 1, .step 0, .step 1]
    (∀ e ∈ es0 ++ es, e.cbw) ∧
    obs (frun (frun FWorld.init es0) es).w 0 0 = some (.dict [(1, 5), (2, 6)]) ∧
    obs (frun (frun FWorld.init es0) es).w 1 0 = some (.dict [(1, 5), (3, 7)]) := by
  refine ⟨?_, by decide, by decide⟩
  intro e he
  simp only [List.cons_append, List.nil_append, List.mem_cons, List.mem_nil_iff, or_false] at he
  rcases he with rfl | rfl | rfl | rfl | rfl | rfl | rfl | rfl | rfl | rfl | rfl | rfl | rfl | rfl | rfl | rfl | rfl | rfl | rfl <;>
    first | trivial | (show cbwPath [] _ = true; decide)

/-- **Snapshot under preemption.** A child copied from an idle parent observes exactly what the parent
observed at that moment and keeps observing it under every schedule of primitive steps of all other
contexts, until it steps itself. -/
theorem preemptive_child_snapshot (es0 es : List FEvent) (h0 : ∀ e ∈ es0, e.cbw) (hc : ∀ e ∈ es, e.cbw)
    (parent : Nat) (hp : parent < (frun FWorld.init es0).w.nctx)
    (hidle : (frun FWorld.init es0).run parent = none) (v : Nat)
    (hnt : NoTouchF (frun FWorld.init es0).w.nctx v (fstep (frun FWorld.init es0) (.copyCtx parent)) es) :
    obs (frun (fstep (frun FWorld.init es0) (.copyCtx parent)) es).w (frun FWorld.init es0).w.nctx v
      = obs (frun FWorld.init es0).w parent v := by
  have hinv := (frun_inv finv_init es0 h0).1
  obtain ⟨h1, _, _⟩ := fstep_inv hinv (.copyCtx parent) trivial
  have hw : (fstep (frun FWorld.init es0) (.copyCtx parent)).w
      = stepEvent (frun FWorld.init es0).w (.copyCtx parent) := by simp [fstep, hidle]
  rw [(frun_inv h1 es hc).2.2 _ v (by rw [hw]; simp [stepEvent]) hnt, hw]
  simp [obs, stepEvent, hp]

/-- **The atomic semantics is one of the schedules**: letting an idle context run a path to its end
without interruption produces exactly the world `runPath` (hence `runProg`, the driver, and every
theorem above) computes - so `preemptive_isolation` covers the atomic behaviours and all the
interleavings between them. -/
theorem atomic_call_is_a_schedule (fw : FWorld) (c v : Nat) (path : Path) (a : Args)
    (hc : c < fw.w.nctx) (hidle : fw.run c = none) (w' : World) (r : Res)
    (hrun : runPath c v a { w := fw.w, rg := fun _ => none } path = some (w', r)) :
    frun fw (.begin c v path a :: stepsOf c (path.length + 1)) = { w := w', run := fw.run } := by
  simp only [frun, List.foldl_cons]
  have hb : fstep fw (.begin c v path a) =
      { fw with run := setRun fw.run c (some { v, a, rest := path, rg := fun _ => none, acc := none, owned := [] }) } := by
    simp [fstep, hc, hidle]
  rw [hb]
  have := steps_eq_runPath c path
    { fw with run := setRun fw.run c (some { v, a, rest := path, rg := fun _ => none, acc := none, owned := [] }) }
    { v, a, rest := path, rg := fun _ => none, acc := none, owned := [] }
    (by show setRun fw.run c _ c = _; unfold setRun; simp) rfl w' r hrun
  simp only [frun] at this
  rw [this, setRun_setRun]
  congr 1
  funext c'
  simp only [setRun]
  split
  · rename_i h; rw [h, hidle]
  · rfl

/-- the hypothesis is satisfiable: the single path of `__setattr__` runs to its end from the initial
world -/
example : (runPath 0 0 ⟨1, 5⟩ { w := World.init, rg := fun _ => none }
    [.load 0 false, .copy 1 0, .setItem 1, .store 1, .retNone]).isSome = true := by decide

/-! ### `LocalManager`, every proxy source, every forwarded operation -/

/-- `release_local` is `local.__release_local__()`, `LocalManager.cleanup` is that call for every
managed local in turn, the three constructor forms (nothing / one `Local` / an iterable) only build
the list, and the middleware calls `cleanup` when the response iterable is closed - the source text
`cleanupRun` models. Any edit of these four functions breaks this obligation. -/
theorem manager_code_pinned :
    Gen.LocalProxyTbl.manager = [
      ("release_local", "local.__release_local__()"),
      ("LocalManager.__init__", "if locals is None:; self.locals = []; elif isinstance(locals, Local):; self.locals = [locals]; else:; self.locals = list(locals)"),
      ("LocalManager.cleanup", "for local in self.locals:; release_local(local)"),
      ("LocalManager.make_middleware", "; def application(environ, start_response):; return ClosingIterator(app(environ, start_response), self.cleanup); return application")] := rfl

/-- **What a `LocalManager` manages.** The live constructor, evaluated on every argument form on every
run: nothing / `None` / an empty list manage nothing; a single `Local` is managed itself - whether
or not it holds a value in the constructing context (a `Local` is iterable: a constructor that
iterates its argument would manage the *(name, value) pairs* of that context instead, or nothing);
a list, tuple or iterator manages exactly its elements, in order; later `.locals.append` adds to
them. (A lone `LocalStack` is rejected with TypeError by the current code; the property does not
speak about that form.) `cleanupRun lw c hs` models `cleanup()` of a manager whose `.locals` are the
instances `hs`. -/
theorem manager_constructor_forms :
    Gen.LocalProxyTbl.managerForms = [
      ("LocalManager()", "-"),
      ("LocalManager(None)", "-"),
      ("LocalManager(<Local, empty here>)", "L0"),
      ("LocalManager(<Local, bound here>)", "L1"),
      ("LocalManager(<LocalStack>)", "error:TypeError"),
      ("LocalManager([L0, S])", "L0,S"),
      ("LocalManager((L1, S, L0))", "L1,S,L0"),
      ("LocalManager(iter([S, L1]))", "S,L1"),
      ("LocalManager([])", "-"),
      ("LocalManager([L1]) then .locals.append(S)", "L1,S")] := rfl

/-- **`LocalManager.cleanup` is local.** For every list of managed locals (any number, repeated,
sharing a cell or not), `cleanup()` in context `c` leaves `c` with an empty mapping / stack in every
managed local and changes what no other context observes through any local, and what `c` observes
through any unmanaged local. -/
theorem manager_cleanup_local_only (es : List LEvent) (hc : ∀ e ∈ es, e.cbw) (ho : ∀ e ∈ es, e.ownVar)
    (c : Nat) (hcn : c < (lrun LWorld.init es).w.nctx) (hs : List Nat) :
    let lw := lrun LWorld.init es
    (∀ h ∈ hs, ∀ i, lw.inst? h = some i → ∃ st, obs (cleanupRun lw c hs).w c i.var = some (Obj.empty st)) ∧
    (∀ c' v', c' < lw.w.nctx → ¬(c' = c ∧ ∃ h ∈ hs, ∃ i, lw.inst? h = some i ∧ i.var = v') →
      obs (cleanupRun lw c hs).w c' v' = obs lw.w c' v') :=
  cleanup_inv (lrun_inv linv_init es hc ho).1 c hcn hs

/-- non-vacuity: a manager over a `Local` and a `LocalStack`, cleaned up in a child context; the
parent keeps its data -/
example :
    let lw := lrun LWorld.init [.create .ownFresh 0 false, .create .ownFresh 1 true,
      .call 0 0 localSetattr ⟨1, 5⟩, .call 0 1 stackPush ⟨0, 6⟩, .copyCtx 0]
    obs (cleanupRun lw 1 [0, 1]).w 1 0 = some (.dict []) ∧ obs (cleanupRun lw 1 [0, 1]).w 1 1 = some (.list []) ∧
    obs (cleanupRun lw 1 [0, 1]).w 0 0 = some (.dict [(1, 5)]) ∧ obs (cleanupRun lw 1 [0, 1]).w 0 1 = some (.list [6]) := by
  decide

/-- The code every proxy access goes through is the code `resolveP` / `lookupGet` model: the four
`_get_current_object` closures of `LocalProxy.__init__` (a `Local`: `get_name(local)` with
AttributeError → RuntimeError; a `LocalStack`: `top`, `None` → RuntimeError, then `get_name`; a
`ContextVar`: `get()`, LookupError → RuntimeError, then `get_name`; a callable: `get_name(local())`),
the choice of `get_name`, `_ProxyLookup.__get__` (unbound: the fallback if one is declared, else the
RuntimeError; bound: the call re-done on the object) and the in-place wrapper of `_ProxyIOp` (apply
to the object, return the proxy). Any edit of these breaks this obligation. -/
theorem proxy_code_pinned :
    Gen.LocalProxyTbl.closures = [
      ("isinstance(local, Local)", "try:; return get_name(local); except AttributeError:; raise RuntimeError(unbound_message) from None"),
      ("isinstance(local, LocalStack)", "obj = local.top; if obj is None:; raise RuntimeError(unbound_message); return get_name(obj)"),
      ("isinstance(local, ContextVar)", "try:; obj = local.get(); except LookupError:; raise RuntimeError(unbound_message) from None; return get_name(obj)"),
      ("callable(local)", "return get_name(local())"),
      ("else", "raise TypeError(f\"Don't know how to proxy '{type(local)}'.\")")] ∧
    Gen.LocalProxyTbl.initRest = [
      "if name is None:; get_name = _identity; else:; get_name = attrgetter(name)",
      "if unbound_message is None:; unbound_message = 'object is not bound'",
      "object.__setattr__(self, '_LocalProxy__wrapped', local)",
      "object.__setattr__(self, '_get_current_object', _get_current_object)"] ∧
    Gen.LocalProxyTbl.lookupGetSrc = "if instance is None:; if self.class_value is not None:; return self.class_value; return self; try:; obj = instance._get_current_object(); except RuntimeError:; if self.fallback is None:; raise; fallback = self.fallback.__get__(instance, owner); if self.is_attr:; return fallback(); return fallback; if self.bind_f is not None:; return self.bind_f(instance, obj); return getattr(obj, self.name)" ∧
    Gen.LocalProxyTbl.iopInitSrc = "super().__init__(f, fallback); ; def bind_f(instance, obj):; ; def i_op(self, other):; f(self, other); return instance; return i_op.__get__(obj, type(obj)); self.bind_f = bind_f" :=
  ⟨rfl, rfl, rfl, rfl⟩

/-- **The forwarding table** of the live `LocalProxy` class (every `_ProxyLookup` attribute, read on
every run): exactly six names declare a fallback for the unbound case - `bool(proxy)` is `False`,
`repr(proxy)` is `<LocalProxy unbound>`, `dir` is empty, `__class__` is `LocalProxy`, `__wrapped__`
the wrapped local, `__doc__` the class docstring - and exactly the thirteen in-place operators are
`_ProxyIOp`s. -/
theorem proxy_table_facts :
    Gen.LocalProxyTbl.table.length = 93 ∧
    ((Gen.LocalProxyTbl.table.filter (·.hasFallback)).map fun e => (e.name, e.isAttr, e.fallback)) =
      [("__doc__", true, "<the class docstring>"), ("__wrapped__", true, "<the wrapped local>"),
       ("__repr__", false, "'<LocalProxy unbound>'"), ("__bool__", false, "False"),
       ("__dir__", false, "[]"), ("__class__", true, "LocalProxy")] ∧
    ((Gen.LocalProxyTbl.table.filter (·.iop)).map (·.name)) =
      ["__iadd__", "__isub__", "__imul__", "__imatmul__", "__itruediv__", "__ifloordiv__", "__imod__",
       "__ipow__", "__ilshift__", "__irshift__", "__iand__", "__ixor__", "__ior__"] :=
  ⟨rfl, rfl, rfl⟩

/-- **Unbound is reported on every forwarded operation.** Where `_get_current_object()` raises
RuntimeError, each of the 93 forwarded names either raises that RuntimeError or - for the six names
with a declared fallback only - yields the fallback; in particular `bool(proxy)` is `False` and
`repr(proxy)` is the fallback repr. -/
theorem proxy_ops_unbound_report :
    (∀ e ∈ Gen.LocalProxyTbl.table, e.hasFallback = false → lookupGet e .unbound = .runtimeError) ∧
    ((Gen.LocalProxyTbl.table.filter (·.hasFallback)).map fun e => (e.name, lookupGet e .unbound)) =
      [("__doc__", .fallback "<the class docstring>"), ("__wrapped__", .fallback "<the wrapped local>"),
       ("__repr__", .fallback "'<LocalProxy unbound>'"), ("__bool__", .fallback "False"),
       ("__dir__", .fallback "[]"), ("__class__", .fallback "LocalProxy")] := by
  refine ⟨?_, rfl⟩
  intro e _ h
  simp [lookupGet, h]

/-- **Bound: every forwarded operation acts on the object bound in the accessing context.** For every
way of constructing the proxy and every table entry: if `_get_current_object()` in context `c` yields
`x`, the operation is re-done on `x`; the result is the operation's result, except for the in-place
operators, where the proxy itself is returned (`p += v` mutates the bound object and leaves `p` a
proxy; it never re-binds `p` to the object of one context). An AttributeError of `get_name`
propagates unchanged. -/
theorem proxy_ops_forward (attrOf : Nat → Option Nat) (falsy : Nat → Bool) (lw : LWorld) (c : Nat)
    (p : PSrc) (e : LookupEntry) :
    lookupGet e (resolveP attrOf falsy lw c p) =
      match resolveP attrOf falsy lw c p with
      | .obj x => if e.iop then .forwardKeepProxy x else .forward x
      | .attrError => .attrError
      | .unbound => if e.hasFallback then .fallback e.fallback else .runtimeError := by
  cases resolveP attrOf falsy lw c p <;> rfl

/-- **Every proxy source resolves in the accessing context.** For each of the ways a `LocalProxy` can
be constructed - `Local` + name, `LocalStack` with or without name, bare `ContextVar` with or without
name, a callable (returning an object, or asking another proxy) with or without name -
`_get_current_object()` evaluated in context `c` is unchanged by EVERY history of events that do
not execute in `c`: calls and `ContextVar.set` in other contexts, creations, disposals, collections,
context copies. -/
theorem proxy_source_resolves_in_accessing_context (attrOf : Nat → Option Nat) (falsy : Nat → Bool)
    (es0 es : List LEvent) (hc0 : ∀ e ∈ es0, e.cbw) (ho0 : ∀ e ∈ es0, e.ownVar)
    (hc : ∀ e ∈ es, e.cbw) (ho : ∀ e ∈ es, e.ownVar)
    (c : Nat) (hcn : c < (lrun LWorld.init es0).w.nctx) (hne : ∀ e ∈ es, ¬ e.inCtx c) (p : PSrc) :
    resolveP attrOf falsy (lrun (lrun LWorld.init es0) es) c p
      = resolveP attrOf falsy (lrun LWorld.init es0) c p := by
  obtain ⟨h1, h2⟩ := lrun_other_ctx (lrun_inv linv_init es0 hc0 ho0).1 es hc ho c hcn hne
  exact resolveP_congr attrOf falsy h1 h2 p

/-- non-vacuity: the parent binds a `ContextVar` and pushes on a stack, a child is copied and re-binds
both; proxies of all kinds, evaluated in the parent, still yield the parent's objects -/
example :
    let es0 : List LEvent := [.create .ownFresh 0 true, .cvSet 0 0 8, .call 0 0 stackPush ⟨0, 16⟩, .copyCtx 0]
    let es : List LEvent := [.cvSet 1 0 9, .call 1 0 stackPush ⟨0, 24⟩]
    let lw := lrun (lrun LWorld.init es0) es
    let attrOf : Nat → Option Nat := fun x => some (x + 64)
    resolveP attrOf (fun _ => false) lw 0 (.cvar 0 false) = .obj 8 ∧
    resolveP attrOf (fun _ => false) lw 1 (.cvar 0 false) = .obj 9 ∧
    resolveP attrOf (fun _ => false) lw 0 (.stackTop 0 true) = .obj 80 ∧
    resolveP attrOf (fun _ => false) lw 1 (.via (.stackTop 0 false) false) = .obj 24 ∧
    (∀ e ∈ es, ¬ e.inCtx 0) := by
  refine ⟨by decide, by decide, by decide, by decide, ?_⟩
  intro e he
  simp only [List.mem_cons, List.mem_nil_iff, or_false] at he
  rcases he with rfl | rfl <;> simp [LEvent.inCtx]

/-- **When is a proxy unbound?** Exactly where nothing is bound in the accessing context: the name is
missing from the context's mapping (`Local`), the context's stack is empty or was never pushed to
(`LocalStack` - a falsy top object is bound, see `proxy_bound_even_if_falsy`), the `ContextVar` has
no value there, the inner proxy is unbound (callable asking a proxy); a callable returning an object
is never unbound. -/
theorem proxy_source_unbound_iff (attrOf : Nat → Option Nat) (falsy : Nat → Bool) (lw : LWorld) (c : Nat) :
    (∀ v name, resolveP attrOf falsy lw c (.localAttr v name) = .unbound ↔ resolve lw.w c (.attr v name) = none) ∧
    (∀ v attr, resolveP attrOf falsy lw c (.stackTop v attr) = .unbound ↔ resolve lw.w c (.top v) = none) ∧
    (∀ j attr, resolveP attrOf falsy lw c (.cvar j attr) = .unbound ↔ lw.cv c j = none) ∧
    (∀ x attr, resolveP attrOf falsy lw c (.const x attr) ≠ .unbound) ∧
    (∀ inner attr, resolveP attrOf falsy lw c (.via inner attr) = .unbound ↔
      resolveP attrOf falsy lw c inner = .unbound) := by
  have hgn : ∀ attr x, getName attrOf attr x ≠ .unbound := by
    intro attr x
    unfold getName
    cases attr <;> simp
    cases attrOf x <;> simp
  have hsrc : ∀ p, resolveSrc falsy lw.w c p = resolve lw.w c p :=
    fun p => (proxy_bound_even_if_falsy.2 falsy lw.w c p).1
  refine ⟨?_, ?_, ?_, ?_, ?_⟩
  · intro v name
    simp only [resolveP, hsrc]
    cases resolve lw.w c (.attr v name) <;> simp
  · intro v attr
    simp only [resolveP, hsrc]
    cases h : resolve lw.w c (.top v) with
    | none => simp
    | some x => simpa using hgn attr x
  · intro j attr
    simp only [resolveP]
    cases h : lw.cv c j with
    | none => simp
    | some x => simpa using hgn attr x
  · intro x attr
    exact hgn attr x
  · intro inner attr
    simp only [resolveP]
    cases h : resolveP attrOf falsy lw c inner with
    | obj x => simpa using hgn attr x
    | unbound => simp
    | attrError => simp

/-- **Mutating through a proxy.** `proxy.attr = f` in context `c` writes the attribute of exactly the
object the proxy resolves to in `c` - no binding of any context changes (the world of cells is not
even an output of `mutateVia`), no other object's attribute changes - and writes nothing where the
proxy is unbound or `get_name` fails. -/
theorem mutation_through_proxy_targets_bound_object (attrOf : Nat → Option Nat) (falsy : Nat → Bool)
    (lw : LWorld) (fs : Fields) (c : Nat) (p : PSrc) (f : Nat) :
    match resolveP attrOf falsy lw c p with
    | .obj x =>
      (mutateVia attrOf falsy lw fs c p f).2 = .obj x ∧
      fieldOf (mutateVia attrOf falsy lw fs c p f).1 x = f ∧
      ∀ y, y ≠ x → fieldOf (mutateVia attrOf falsy lw fs c p f).1 y = fieldOf fs y
    | r => mutateVia attrOf falsy lw fs c p f = (fs, r) := by
  unfold mutateVia
  cases h : resolveP attrOf falsy lw c p with
  | obj x =>
    refine ⟨rfl, by simp [fieldOf], ?_⟩
    intro y hy
    have : (x == y) = false := by simpa using fun e => hy e.symm
    simp [fieldOf, this]
  | unbound => rfl
  | attrError => rfl

/-- ... so what any context `c'` reads through any proxy afterwards is the new value exactly when its
proxy resolves - in `c'` - to the same object, and the old value otherwise. -/
theorem read_after_mutation_through_proxy (attrOf : Nat → Option Nat) (falsy : Nat → Bool)
    (lw : LWorld) (fs : Fields) (c : Nat) (p : PSrc) (f : Nat) (c' : Nat) (p' : PSrc) :
    readVia attrOf falsy lw (mutateVia attrOf falsy lw fs c p f).1 c' p' =
      match resolveP attrOf falsy lw c p, resolveP attrOf falsy lw c' p' with
      | .obj x, .obj y => some (if y = x then f else fieldOf fs y)
      | _, .obj y => some (fieldOf fs y)
      | _, _ => none := by
  have hm := mutation_through_proxy_targets_bound_object attrOf falsy lw fs c p f
  unfold readVia
  cases h : resolveP attrOf falsy lw c p with
  | obj x =>
    rw [h] at hm
    cases h' : resolveP attrOf falsy lw c' p' with
    | obj y =>
      by_cases hyx : y = x
      · subst hyx; simp [hm.2.1]
      · simp [hyx, hm.2.2 y hyx]
    | unbound => rfl
    | attrError => rfl
  | unbound =>
    rw [h] at hm
    simp only at hm
    rw [hm]
    cases resolveP attrOf falsy lw c' p' <;> rfl
  | attrError =>
    rw [h] at hm
    simp only at hm
    rw [hm]
    cases resolveP attrOf falsy lw c' p' <;> rfl

/-- **Scope of the isolation: bindings, not the objects bound.** `Local` / `LocalStack` copy the
mapping / list, never the values: a child context inherits REFERENCES to the parent's payload
objects, so an attribute written through the parent's proxy is read by the child through the same
object (this is also what `contextvars` itself does). Once the child has bound its own object, the
parent's writes no longer reach what the child reads. -/
theorem payload_objects_shared_by_reference :
    let attrOf : Nat → Option Nat := fun _ => none
    let falsy : Nat → Bool := fun _ => false
    let lw := lrun LWorld.init [.create .ownFresh 0 true, .call 0 0 stackPush ⟨0, 8⟩, .copyCtx 0]
    let fs := (mutateVia attrOf falsy lw [] 0 (.stackTop 0 false) 5).1
    readVia attrOf falsy lw fs 1 (.stackTop 0 false) = some 5 ∧
    (let lw2 := lstep lw (.call 1 0 stackPush ⟨0, 16⟩)
     let fs2 := (mutateVia attrOf falsy lw2 [] 0 (.stackTop 0 false) 5).1
     readVia attrOf falsy lw2 fs2 1 (.stackTop 0 false) = some 0 ∧
     readVia attrOf falsy lw2 fs2 0 (.stackTop 0 false) = some 5) := by decide

/-- a bound falsy object on the stack (token 2, declared falsy) is still what the proxy yields -/
example : proxyViewSrc (fun x => x == 2) (run World.init [.call 0 1 stackPush ⟨0, 2⟩]) 0 (.top 1)
    = { obj := some 2, truthy := false, fallbackRepr := false } := by decide

example : resolve World.init 0 (.attr 0 1) = none := by decide
example : resolve (run World.init [.call 0 0 localSetattr ⟨1, 5⟩]) 0 (.attr 0 1) = some 5 := by decide
example : resolve (run World.init [.call 0 0 localSetattr ⟨1, 5⟩, .freshCtx]) 1 (.attr 0 1) = none := by
  decide

end Wz.Props.C18
