/-
C18 — context-local data never leaks between concurrent contexts (partial).
Property theorems only (helper lemmas live in Lemmas/Local.lean).
-/
import WzVerif.Model.Local
namespace Wz.Props.C18
open Wz Wz.Local

/-- Every method body translated from the current `local.py` obeys the copy-on-write discipline:
each in-place mutation (`values[name] = …`, `del values[name]`, `stack.append(…)`) targets an object
allocated earlier in the same call. This is the obligation a dropped `.copy()` breaks. -/
theorem generated_programs_cow : ∀ p ∈ Gen.LocalOps.programs, CopyBeforeWrite p.2 := by decide

end Wz.Props.C18
