/-
C03 / C04 / C12 — the lazy re-sort protocol of `werkzeug.routing.Map` (shared obligations).

The priority clause of C03 ("… independent of insertion order"), the rule selection of C04
(`build_compare_key` order of the per-endpoint lists) and the alias / defaults canonicalisation of C12
all rest on `Map.update()` having re-sorted the state machine and the per-endpoint rule lists before
`MapAdapter.match` / `build` read them. `update()` is lazy and runs under double-checked locking on
the `_remap` flag; maps are shared between request threads. The statement order of `Map.update` and
`Map.add` is regenerated from the source on every run (`Gen/RoutingLock.lean`); the theorems below
quantify over every number of threads and every interleaving of their atomic steps.
Model: `Model/RoutingLock.lean`; invariant proof: `Lemmas/RoutingLock.lean`.
-/
import WzVerif.Lemmas.RoutingLock
import WzVerif.Gen.RoutingLock
namespace Wz.Props.C03L
open Wz.RoutingLock

/-- **update_program_disciplined.** The generated programs satisfy the discipline the safety theorem
needs. `Map.update`: unlocked flag test(s), then the lock, then a block in which every sort happens
while the flag is known to be set, the flag is cleared only after both the state machine and the
endpoint lists have been sorted, and nothing but the release follows. `Map.add`: the loop inserts each
rule into both structures and the flag is set after the loop. `Map.__init__` creates the lock and sets
the flag; no other function of map.py writes the flag. -/
theorem update_program_disciplined :
    UpdateOK Gen.RoutingLock.updateProg = true ∧
    AddOK Gen.RoutingLock.addBody Gen.RoutingLock.addAfter = true ∧
    Gen.RoutingLock.initRemap = some true ∧ Gen.RoutingLock.initCreatesLock = true ∧
    Gen.RoutingLock.remapWriters = ["Map.__init__", "Map.add", "Map.update"] := by
  decide

/-- **readers_call_update_first.** Every function of map.py that reads the state machine or the
per-endpoint lists calls `update()` first — `MapAdapter.match`, `MapAdapter.build`, `Map.iter_rules`,
`Map.is_endpoint_expecting` — except the internal helpers `_partial_build`, `get_default_redirect`
and the `_rules` property, which are only reached from those entry points after their `update()` call. -/
theorem readers_call_update_first :
    (["MapAdapter.match", "MapAdapter.build", "Map.iter_rules", "Map.is_endpoint_expecting"].all
      (fun f => Gen.RoutingLock.guardedReaders.contains f)) = true ∧
    (Gen.RoutingLock.unguardedReaders.all
      (fun f => ["Map._rules", "MapAdapter._partial_build", "MapAdapter.get_default_redirect"].contains f)) = true := by
  decide

/-- **update_passes_sorted.** For every pair of programs satisfying the discipline, every initial state
in which no thread has started (any number of threads, each about to call `update()` or `add()` for any
rules), and every interleaving of their atomic steps in which `add()` threads do not move while the
lock is held: whenever a thread leaves `update()` — through the unlocked fast path, the second test
inside the lock, or after doing the sorts itself — the state machine and the per-endpoint lists are,
at that moment, sorted with respect to every rule whose `add()` had returned when the thread
entered. (`result = some b` records exactly that comparison at the moment of leaving.) -/
theorem update_passes_sorted {p body after : List Op} (hp : UpdateOK p = true) (ha : AddOK body after = true)
    {s0 : State} (h0 : Init p body after s0) (sched : List Nat) (hq : addsQuiet s0 sched) (i : Nat)
    (hi : ((run s0 sched).th i).rules = none) : ((run s0 sched).th i).result ≠ some false :=
  inv_result (run_inv sched (h0.inv hp ha) hq) i hi

/-- **map_update_protocol_safe.** … in particular for the programs read off the current source. -/
theorem map_update_protocol_safe {s0 : State}
    (h0 : Init Gen.RoutingLock.updateProg Gen.RoutingLock.addBody Gen.RoutingLock.addAfter s0)
    (sched : List Nat) (hq : addsQuiet s0 sched) (i : Nat)
    (hi : ((run s0 sched).th i).rules = none) : ((run s0 sched).th i).result ≠ some false :=
  update_passes_sorted update_program_disciplined.1 update_program_disciplined.2.1 h0 sched hq i hi

/-- two request threads on a map holding rules 0 and 1 (added by the constructor, nothing sorted yet) -/
def twoRequests (p : List Op) : State :=
  afterInit [0, 1] (fun _ => updateThread p)

-- non-vacuity: thread 0 runs the whole slow path, thread 1 then leaves through the fast path; both
-- record `some true`, the flag is clear and both structures are sorted w.r.t. both rules
example :
    let s := run (twoRequests Gen.RoutingLock.updateProg) [0, 0, 0, 0, 0, 0, 0, 0, 0, 1]
    (s.th 0).result = some true ∧ (s.th 1).result = some true ∧ s.sh.remap = false ∧
    s.sh.mOk = [0, 1] ∧ s.sh.eOk = [0, 1] ∧ s.sh.lock = none := by
  decide

-- non-vacuity: thread 1 arrives while thread 0 is in the middle of the sorts: it blocks on the lock
-- (its grants do nothing) and leaves through the second test once thread 0 is done
example :
    let s1 := run (twoRequests Gen.RoutingLock.updateProg) [0, 0, 0, 0, 1, 1, 1]
    let s := run s1 [0, 0, 0, 0, 0, 1, 1, 1]
    (s1.th 1).result = none ∧ (s1.th 1).pc.head? = some .acquire ∧
    (s.th 0).result = some true ∧ (s.th 1).result = some true := by
  decide

/-- `Map.update` with `self._remap = False` moved in front of the sorts (seeded changes C03-c1, C04-c2,
C12-c2) -/
def flagClearedFirst : List Op :=
  [.retIfClean, .acquire, .retIfClean, .setRemap false, .sortMatcher, .sortEndpoints, .release]

/-- **flag_cleared_before_sort_unsafe.** The discipline is not an artefact of the proof: with the flag
cleared before the sorts the program is rejected by `UpdateOK`, and there is an interleaving of two
request threads — thread 0 is pre-empted after clearing the flag, thread 1 then takes the unlocked
fast path — in which thread 1 leaves `update()` with neither structure sorted (and another in which
it reads the endpoint lists in the middle of the sort). -/
theorem flag_cleared_before_sort_unsafe :
    UpdateOK flagClearedFirst = false ∧
    ((run (twoRequests flagClearedFirst) [0, 0, 0, 0, 1]).th 1).result = some false ∧
    ((run (twoRequests flagClearedFirst) [0, 0, 0, 0, 0, 0, 0, 1]).th 1).result = some false := by
  decide

/-- a request thread and a thread that adds rule 2 to a map holding rules 0 and 1 -/
def requestAndAdd : State :=
  afterInit [0, 1] (fun i => if i = 1 then addThread Gen.RoutingLock.addBody Gen.RoutingLock.addAfter [2]
                             else updateThread Gen.RoutingLock.updateProg)

/-- **add_during_update_loses_flag.** The hypothesis on the schedule is needed on the unchanged code:
`add()` does not take the lock, so a rule added between the sorts and `self._remap = False` of a
concurrent `update()` has its flag overwritten — a request entering afterwards (thread 2) passes the
fast path although rule 2 was never sorted in. (`Map.add` concurrent with request handling is outside
the documented use; recorded here as the reason for `addsQuiet`.) -/
theorem add_during_update_loses_flag :
    let sched := [0, 0, 0, 0, 0, 0, 0, 1, 1, 1, 1, 0, 0, 2]
    ¬ addsQuiet requestAndAdd sched ∧
    ((run requestAndAdd sched).th 2).rules = none ∧
    ((run requestAndAdd sched).th 2).result = some false := by
  refine ⟨?_, by decide, by decide⟩
  intro h
  -- the first step of the add thread (position 7) happens while thread 0 holds the lock
  have := h.2.2.2.2.2.2.2.1
  revert this
  decide

end Wz.Props.C03L
