/-
C10T — `MultipartDecoder.receive_data` *as regenerated from the source* by `tools/py2lean.py`
(`Gen/PyFns_Multipart.lean`, rewritten on every check run) is equal, for every decoder state and every
argument (`None` or a chunk), to the hand-written `Multipart.receive` on which C10's memory bound rests
(`receive_respects_limit`, `receive_raises_iff`, `buffer_bounded`); the two C10 theorems about
`receive` are restated on the translated definition.
-/
import WzVerif.Gen.PyFns_Multipart
import WzVerif.Model.Multipart
namespace Wz.Props.C10T
open Wz Wz.Pre Wz.Multipart Wz.Gen.PyFns_Multipart

/-- how an outcome of the model's `receive` is read as an outcome of the translated method: the two
attributes it may assign (`complete`, `buffer`; unchanged when it raises) and `None` / the exception -/
def view (d : Decoder) : Except String Decoder → (Bool × Bytes) × Except String Unit
  | .ok d' => ((d'.complete, d'.buffer), .ok ())
  | .error e => ((d.complete, d.buffer), .error e)

/-- `receive_data(data)`, as translated from the current source (`None` sets `complete`; a chunk that
would take the buffer over `max_form_memory_size` raises RequestEntityTooLarge *before* the buffer is
touched; otherwise the chunk is appended), is the model's `receive` for every decoder and argument. -/
theorem receive_data_eq (d : Decoder) (c : Option Bytes) :
    receive_data d.complete d.buffer (d.maxMem.map Int.ofNat) c = view d (receive d c) := by
  cases c with
  | none => simp [receive_data, receive, view]
  | some c =>
    cases hm : d.maxMem with
    | none => simp [receive_data, receive, view, hm]
    | some m =>
      simp only [receive_data, receive, view, hm, Option.map]
      by_cases h : d.buffer.length + c.length > m
      · have h' : (m : Int) < (d.buffer.length : Int) + (c.length : Int) := by omega
        simp [h, h']
      · have h' : ¬ (m : Int) < (d.buffer.length : Int) + (c.length : Int) := by omega
        simp [h, h']

/-- the model's `receive` assigns nothing but `complete` and `buffer` (so `view` loses nothing) -/
theorem receive_frame (d d' : Decoder) (c : Option Bytes) (h : receive d c = .ok d') :
    d' = { d with complete := d'.complete, buffer := d'.buffer } := by
  cases c with
  | none => simp [receive] at h; subst h; rfl
  | some c =>
    cases hm : d.maxMem with
    | none => simp [receive, hm] at h; subst h; rfl
    | some m =>
      simp only [receive, hm] at h
      split at h
      · cases h
      · simp at h; subst h; rfl

/-- C10 `receive_respects_limit`, restated on the translated method: when a limit `m` is set and the
buffer holds at most `m` bytes, then after a `receive_data(chunk)` that does not raise it still holds
at most `m` bytes. -/
theorem receive_data_respects_limit (d : Decoder) (c : Bytes) (m : Nat) (hm : d.maxMem = some m)
    (hr : (receive_data d.complete d.buffer (some (Int.ofNat m)) (some c)).2 = .ok ()) :
    (receive_data d.complete d.buffer (some (Int.ofNat m)) (some c)).1.2.length ≤ m := by
  have e := receive_data_eq d (some c)
  simp only [hm, Option.map] at e
  rw [e] at hr ⊢
  simp only [receive, hm] at hr ⊢
  by_cases h : d.buffer.length + c.length > m
  · simp [h, view] at hr
  · simp [h, view]; simp at h; omega

/-- C10 `receive_raises_iff`, restated on the translated method: with a limit `m`, `receive_data(chunk)`
raises RequestEntityTooLarge exactly when buffer plus chunk exceed `m` bytes, and raises nothing else. -/
theorem receive_data_raises_iff (d : Decoder) (c : Bytes) (m : Nat) :
    (receive_data d.complete d.buffer (some (Int.ofNat m)) (some c)).2 =
      if d.buffer.length + c.length > m then .error "RequestEntityTooLarge" else .ok () := by
  simp only [receive_data]
  by_cases h : d.buffer.length + c.length > m
  · have h' : (m : Int) < (d.buffer.length : Int) + (c.length : Int) := by omega
    simp [h, h']
  · have h' : ¬ (m : Int) < (d.buffer.length : Int) + (c.length : Int) := by omega
    simp [h, h']

end Wz.Props.C10T
