/-
C12 — router redirects stay on the bound host and converge.

Model: `MapAdapter.match`'s three redirects (`Model/RoutingAdapter.lean`): slash / merged-slashes
(`RequestPath` → `make_redirect_url(quote(path))`), defaults (`get_default_redirect`), alias
(`make_alias_redirect_url` = external `build`); `make_redirect_url`, `get_host`, `encode_query_args`,
`urlunsplit` (`Model/RoutingUrl.lean`); the client side of a redirect (`Model/RoutingFollow.lean`).
`redirect_to` targets are supplied by the application and are not modelled.
Helper lemmas: `Lemmas/RoutingRedirect.lean`.
-/
import WzVerif.Lemmas.RoutingRedirect
import WzVerif.Lemmas.RoutingConverge
import WzVerif.Lemmas.RoutingDefaults
import WzVerif.Lemmas.RoutingAlias
import WzVerif.Lemmas.RoutingDefaults2
import WzVerif.Lemmas.RoutingAliasVals
import WzVerif.Gen.RoutingGlue
import WzVerif.Props.C04
namespace Wz.Props.C12
open Wz Wz.Routing

/-- the bound adapter is WSGI-shaped: `script_name` is `/` or `/x/…/` as stored by `MapAdapter`,
the server name is not empty, a scheme is bound, and host matching is off (subdomain maps) -/
structure BoundOK (m : RMap) (a : Adapter) : Prop where
  script : a.scriptName = scriptRoot a
  server : a.serverName ≠ []
  scheme : a.urlScheme ≠ []
  noHostMatching : m.cfg.hostMatching = false

/-- the `safe=` literals the model quotes with are the ones found in the routing sources -/
theorem quote_safe_sets_match_source :
    Gen.Routing.safeSites.contains ("routing/map.py", "match", "quote", pathSafe) = true ∧
    Gen.Routing.safeSites.contains ("routing/converters.py", "to_url", "quote", pathSafe) = true ∧
    Gen.Routing.safeSites.contains ("routing/rules.py", "_compile_builder", "quote", pathSafe) = true ∧
    Gen.Routing.safeSites.contains ("urls.py", "_urlencode", "urlencode", querySafe) = true ∧
    Gen.Routing.usesNetloc = ["http", "https", "ws", "wss"] := by
  decide +kernel

/-- **match_tail_order.** The tail of `StateMachineMatcher.match` in the current source, once `_match`
has found a rule, is in this order: unpack, `result = {}`, the `to_python` loop (a `ValidationError`
becomes `NoMatch`), `result.update(rule.defaults)`, the alias test raising
`RequestAliasRedirect(result, rule.endpoint)`, `return rule, result` — the order of the model's
`finishMatch` (in particular an alias redirect carries the rule's defaults). -/
theorem match_tail_order :
    Gen.RoutingGlue.matchTail = ["unpack", "init", "convert", "defaults", "alias", "return"] := by
  decide

/-- **redirect_url_assembly_pinned.** `MapAdapter.encode_query_args` and `make_redirect_url` in the current source
are the statements the model's `encodeQueryArgs` / `makeRedirectUrl` transcribe: a string query is kept as it
is, a mapping goes to `_urlencode` AS A MAPPING (so multi-valued entries are expanded by `iter_multi_items`);
the URL is `urlunsplit((bound scheme or 'http', get_host(domain_part), script_name.strip('/') + '/' +
path_info.lstrip('/'), query, None))`. -/
theorem redirect_url_assembly_pinned :
    Gen.RoutingGlue.encodeQueryArgs =
      ["if not isinstance(query_args, str): return _urlencode(query_args)", "return query_args"] ∧
    Gen.RoutingGlue.makeRedirectUrl =
      ["if query_args is None: query_args = self.query_args",
       "if query_args: query_str = self.encode_query_args(query_args) else: query_str = None",
       "scheme = self.url_scheme or 'http'",
       "host = self.get_host(domain_part)",
       "path = '/'.join((self.script_name.strip('/'), path_info.lstrip('/')))",
       "return urlunsplit((scheme, host, path, query_str, None))"] := by
  decide +kernel

/-- **alias_redirect_values_include_defaults.** The values an alias redirect is built from are the
converted URL values of the alias rule with the rule's own `defaults` merged in: every default of the
alias rule is among them with its default value (an alias that pins a variable of its canonical rule
through `defaults`, e.g. `Rule('/archive/millennium', defaults={'year': 2000}, alias=True)`, redirects to
the canonical URL for that value — not to itself), and every other value is the converted URL value. -/
theorem alias_redirect_values_include_defaults {root : State} {mg rd : Bool} {q : Req} {dom path : Str}
    {r : Rule} {vals : List (Str × Value)}
    (h : matchSM root mg rd q dom path = .aliasRedirect r vals) (hnd : (r.defaults.map (·.1)).Nodup) :
    r.alias = true ∧ (∀ k v, (k, v) ∈ r.defaults → lookupVal k vals = some v) ∧
    ∃ vs conv, convertValues r.convs vs = some conv ∧
      ∀ k, lookupVal k r.defaults = none → lookupVal k vals = lookupVal k conv := by
  have key : ∀ r0 vs ms wsm, finishMatch rd r0 vs ms wsm = .aliasRedirect r vals →
      r.alias = true ∧ (∀ k v, (k, v) ∈ r.defaults → lookupVal k vals = some v) ∧
      ∃ vs conv, convertValues r.convs vs = some conv ∧
        ∀ k, lookupVal k r.defaults = none → lookupVal k vals = lookupVal k conv := by
    intro r0 vs ms wsm hf
    obtain ⟨hr, ha, _, conv, hc, hv⟩ := finishMatch_values.1 r vals hf
    subst hr
    subst hv
    exact ⟨ha, fun k v hkv => lookupVal_dictUpdate_mem _ _ hnd k v hkv, vs, conv, hc,
      fun k hk => lookupVal_dictUpdate_notin k _ _ hk⟩
  simp only [matchSM] at h
  split at h
  · cases h
  · exact key _ _ _ _ h
  · split at h
    · split at h
      · cases h
      · cases h
      · split at h <;> cases h
    · cases h

def specsPinned : List RuleSpec :=
  [ { toks := [.slash, .lit "archive".toList, .slash, .var (.int 0 false none none) "year".toList], endpoint := "archive".toList },
    { toks := [.slash, .lit "archive".toList, .slash, .lit "millennium".toList], endpoint := "archive".toList, alias := true,
      defaults := [("year".toList, .int 2000)] } ]

-- non-vacuity: `/archive/millennium` raises the alias redirect with year = 2000, and `MapAdapter.match` redirects
-- to the canonical URL `/archive/2000` (seeded change C12-c1 made it redirect to itself)
example : (match mkMap {} specsPinned with
    | some m =>
      (match matchSM m.root true true ⟨"GET".toList, false⟩ [] "/archive/millennium".toList with
       | .aliasRedirect r vals => r.idx == 1 && vals == [("year".toList, Value.int 2000)] && decide ((r.defaults.map (·.1)).Nodup)
       | _ => false) &&
      (match matchAdapter m { serverName := "example.org".toList, scriptName := "/".toList, subdomain := some [],
                              urlScheme := "http".toList, defaultMethod := "GET".toList, queryArgs := .none }
               "/archive/millennium".toList none .none none with
       | .redirect u => u == "http://example.org/archive/2000".toList
       | _ => false)
    | none => false) = true := by decide +kernel

/-- **slash_redirect_on_bound_host.** The redirect issued for a missing final slash or for merged
slashes is, character for character: bound scheme, `://`, bound host (`get_host(None)`: nothing
from the request path), the script root, the percent-quoted path without its leading slashes, and
the query. The path part after the script root never starts with `/` (so never `//x`), and contains
neither `?`, `#`, `\`, control, space nor non-ASCII characters: a client reads the same host back. -/
theorem slash_redirect_on_bound_host {m : RMap} {a : Adapter} (hb : BoundOK m a) {p : Str} {meth : Option Str}
    {qa : QueryArgs} {ws : Option Bool} {p' : Str}
    (h : matchSM m.root m.cfg.mergeSlashes m.cfg.redirectDefaults (reqOf a meth ws) (domainPartOf m.cfg a) (pathPart p) = .requestPath p') :
    matchAdapter m a p meth qa ws =
      .redirect (boundPrefix false a none ++ scriptRoot a ++ lstripChar '/' (quote pathSafe p') ++ querySuffix a qa) ∧
    (lstripChar '/' (quote pathSafe p')).head? ≠ some '/' ∧
    ∀ c ∈ lstripChar '/' (quote pathSafe p'), pathChar c = true := by
  refine ⟨?_, lstripChar_head _ _, ?_⟩
  · simp only [matchAdapter, h]
    rw [makeRedirectUrl_shape _ _ _ _ _ (by rw [hb.noHostMatching]; exact getHost_ne_nil a none hb.server)]
    simp only [hb.noHostMatching, querySuffix, effQa_idem]
  · intro c hc
    have : c ∈ quote pathSafe p' := (List.dropWhile_suffix _).subset hc
    exact quote_pathSafe_chars p' c this

/-- the shape every router redirect has -/
def OnBoundRoot (a : Adapter) (qa : QueryArgs) (url : Str) : Prop :=
  ∃ scheme dp rest, url = scheme ++ "://".toList ++ getHost false a dp ++ scriptRoot a ++ rest ++ querySuffix a qa ∧
    rest.head? ≠ some '/' ∧
    (scheme = schemeOf a ∨ scheme ∈ ["http".toList, "https".toList, "ws".toList, "wss".toList])

/-- **redirect_on_bound_host / redirect_preserves_query.** Every redirect `MapAdapter.match` raises on
its own — slash, merged slashes, defaults, alias — consists of a scheme (the bound one; for an alias
the http/https/ws/wss scheme `build` derives from it), `://`, `get_host(domain_part)` where the domain
part is `None` or the canonical rule's own subdomain (never text from the request path), the script
root, a path that does not start with `/`, and exactly the query string of the request
(`encode_query_args(query_args)`), nothing else. -/
theorem redirect_on_bound_host {m : RMap} {a : Adapter} (hb : BoundOK m a) {p : Str} {meth : Option Str}
    {qa : QueryArgs} {ws : Option Bool} {url : Str}
    (h : matchAdapter m a p meth qa ws = .redirect url) : OnBoundRoot a qa url := by
  have hhm := hb.noHostMatching
  rcases matchAdapter_redirect_inv h with ⟨p', _, hu⟩ | ⟨r, vals, u, _, hbuild, hu⟩ | ⟨r, vals, path, dom, _, hu⟩
  · rw [hhm, makeRedirectUrl_shape _ _ _ _ _ (getHost_ne_nil a none hb.server)] at hu
    refine ⟨schemeOf a, none, lstripChar '/' (quote pathSafe p'), ?_, lstripChar_head _ _, .inl rfl⟩
    rw [hu]; simp [boundPrefix, schemeOf, querySuffix, effQa_idem]
  · obtain ⟨s, dom, path, hu', hmem⟩ := adapterBuild_external hb.scheme hbuild
    rw [hhm] at hu'
    have hscr : a.scriptName.dropLast ++ '/' :: lstripChar '/' path = scriptRoot a ++ lstripChar '/' path := by
      rw [hb.script, ← scriptRoot_dropLast a]; simp
    have hq : (if (effQa a qa).truthy = true then u ++ '?' :: encodeQueryArgs (effQa a qa) else u) = u ++ querySuffix a qa := by
      simp only [querySuffix]
      cases ht : (effQa a qa).truthy with
      | false => simp
      | true =>
        have := encodeQueryArgs_ne_nil ht
        cases he : encodeQueryArgs (effQa a qa) with
        | nil => exact absurd he this
        | cons x t => simp
    refine ⟨s, some dom, lstripChar '/' path, ?_, lstripChar_head _ _, .inr hmem⟩
    have hscr' : a.scriptName.dropLast ++ ('/' :: lstripChar '/' path ++ querySuffix a qa) =
        scriptRoot a ++ (lstripChar '/' path ++ querySuffix a qa) := by
      rw [← List.append_assoc, ← List.append_assoc, ← hscr]
    rw [hu, hq, hu']
    simp only [List.append_assoc]
    rw [hscr']
    simp
  · rw [hhm, makeRedirectUrl_shape _ _ _ _ _ (getHost_ne_nil a (some dom) hb.server)] at hu
    refine ⟨schemeOf a, some dom, lstripChar '/' path, ?_, lstripChar_head _ _, .inl rfl⟩
    rw [hu]; simp [boundPrefix, schemeOf, querySuffix, effQa_idem]


/-- adapter / map of the examples -/
def adapter0 : Adapter :=
  { serverName := "example.org".toList, scriptName := "/app/".toList, subdomain := some [], urlScheme := "https".toList,
    defaultMethod := "GET".toList, queryArgs := .text "a=1".toList }

def specs0 : List RuleSpec :=
  [ { toks := [.slash, .lit "a".toList, .slash], endpoint := "a".toList },
    { toks := [.slash, .lit "b".toList, .slash, .lit "c".toList], endpoint := "b".toList } ]

def redirectUrlOf (cfg : MapCfg) (specs : List RuleSpec) (a : Adapter) (path : String) : Option Str :=
  match mkMap cfg specs with
  | some m => (match matchAdapter m a path.toList none .none none with | .redirect u => some u | _ => none)
  | none => none

-- non-vacuity: `//evil.example/a` without the final slash redirects to the bound host, and so does the
-- merged-slashes redirect of `/b//c`
example : redirectUrlOf {} [{ toks := [.slash, .var .path "p".toList, .slash], endpoint := "p".toList }] adapter0 "//evil.example/a"
      = some "https://example.org/app/evil.example/a/?a=1".toList ∧
    redirectUrlOf {} specs0 adapter0 "/b//c" = some "https://example.org/app/b/c?a=1".toList ∧
    adapter0.scriptName = scriptRoot adapter0 := by
  decide +kernel

/-! ### convergence -/

/-- **slash_redirect_converges_partial.** When the search asks for the slash redirect on a path, the
redirect target (path + `/`) is admitted DIRECTLY, for the same request, by a strict branch rule of the
map — the one that asked for the slash — so re-matching the target finds a rule or, at worst, another
redirect; it is never `NotFound` / `MethodNotAllowed` for lack of an admitting rule.
(`FinalShape`: what `_parse_rule` guarantees about slash-consuming parts; proved for rules without
subdomain rule, `bindRule_finalShape`.) -/
theorem slash_redirect_converges_partial {cfg : MapCfg} {specs : List RuleSpec} {m : RMap} (hm : mkMap cfg specs = some m)
    (hshape : ∀ r ∈ m.rules, FinalShape r.parts) {q : Req} {dom path : Str}
    (h : (dfs q m.root (segments dom path) []).res = .slash) :
    (∃ r ∈ m.rules, r.spec.buildOnly = false ∧ r.strict = true ∧ ruleOK q r = true ∧
        ∃ vs, walkVia .direct r.parts (segments dom (path ++ ['/'])) = some vs) ∧
    (dfs q m.root (segments dom (path ++ ['/'])) []).res ≠ .none := by
  have hb := mkMap_built hm
  have hs := dfs_sound q m.root (segments dom path) []
  rw [h] at hs
  obtain ⟨r, ps, vs', hi, hok, hst, hw⟩ := hs
  have hi0 := hi
  rw [hb.root_eq, inTrie_buildRoot] at hi0
  obtain ⟨hmem, hbo, rfl⟩ := hi0
  have hdir := noslash_to_direct (hshape r hmem) hw
  rw [← segments_append_slash] at hdir
  refine ⟨⟨r, hmem, hbo, hst, hok, vs', hdir⟩, ?_⟩
  intro hn
  have hwf : WF m.root := by rw [hb.root_eq]; exact WF.buildRoot _
  have := dfs_complete q m.root hwf _ _ hn r.parts r .direct hi hok (by intro h; cases h)
  rw [hdir] at this; cases this

/-- **slash_redirect_converges (no second slash, `_partial`).** On a map none of whose rules keeps an
empty segment in the middle (`SlashDomainOK`: after the domain part and the leading slash, only the
last part of a rule admits the empty segment — no `//` left after merging, no converter accepting ""),
a path that ends in `/` never asks for the slash redirect. Together with the theorem above: the target
of a slash redirect re-matches to a rule — found, not redirected again, not `None`. F12b below shows
the hypothesis cannot be dropped. -/
theorem slash_redirect_converges_partial2 {cfg : MapCfg} {specs : List RuleSpec} {m : RMap} (hm : mkMap cfg specs = some m)
    (hshape : ∀ r ∈ m.rules, FinalShape r.parts) (hdom : ∀ r ∈ m.rules, r.SlashDomainOK)
    {q : Req} {dom path : Str} (h : (dfs q m.root (segments dom path) []).res = .slash) :
    ∃ r vs, (dfs q m.root (segments dom (path ++ ['/'])) []).res = .found r vs ∧ r ∈ m.rules ∧ ruleOK q r = true := by
  have hb := mkMap_built hm
  obtain ⟨_, hne⟩ := slash_redirect_converges_partial hm hshape h
  have hs := dfs_sound q m.root (segments dom (path ++ ['/'])) []
  cases hr : (dfs q m.root (segments dom (path ++ ['/'])) []).res with
  | none => exact absurd hr hne
  | slash =>
    exfalso
    rw [hr] at hs
    obtain ⟨r2, ps, vs', hi, _, _, hw⟩ := hs
    rw [hb.root_eq, inTrie_buildRoot] at hi
    obtain ⟨hmem, _, rfl⟩ := hi
    rw [no_noslash_trailing (hshape r2 hmem) (hdom r2 hmem)] at hw
    cases hw
  | found r vs =>
    rw [hr] at hs
    obtain ⟨hok, ps, _, _, hi, _⟩ := hs
    rw [hb.root_eq, inTrie_buildRoot] at hi
    exact ⟨r, vs, rfl, hi.1, hok⟩

-- non-vacuity: the example map satisfies both hypotheses and `/a` asks for the slash
example : (match mkMap {} specs0 with
    | some m => m.rules.all slashDomainOKB &&
        (dfs ⟨"GET".toList, false⟩ m.root (segments [] "/a".toList) []).res.isSlash
    | none => false) = true := by decide +kernel

/-- **slash_redirect_converges.** In one piece, for the matcher: when the search on `path` asks for the slash
redirect, re-matching the redirect target `path + '/'` (same request) ends the redirecting of that kind —
`StateMachineMatcher.match` returns a rule (or hands an alias rule to the alias canonicalisation), never
`RequestPath` again and never `NoMatch`; the rule is one of the map's, fit for the request, and it admits
the target with exactly the returned values (so, by `C03.match_priority`, it is the most specific rule
admitting the target: the request now denotes what the map says the slashed path denotes).
Hypotheses, each shown necessary: `ConvOK` (F12a / F03c: the redirect is decided before `to_python`),
`SlashDomainOK` (F12b: a rule keeping an empty middle segment), `FinalShape` (what `_parse_rule`
guarantees; proved for rules without subdomain rule). -/
theorem slash_redirect_converges {cfg : MapCfg} {specs : List RuleSpec} {m : RMap} (hm : mkMap cfg specs = some m)
    (hshape : ∀ r ∈ m.rules, FinalShape r.parts) (hdom : ∀ r ∈ m.rules, r.SlashDomainOK) (hconv : ConvOK m.rules)
    {q : Req} {dom path : Str} (mg rd : Bool) (h : (dfs q m.root (segments dom path) []).res = .slash) :
    ∃ r vals, r ∈ m.rules ∧ r.spec.buildOnly = false ∧ ruleOK q r = true ∧
      admits r q dom (path ++ ['/']) = some vals ∧
      (matchSM m.root mg rd q dom (path ++ ['/']) = .ok r vals ∨
       matchSM m.root mg rd q dom (path ++ ['/']) = .aliasRedirect r vals) := by
  have hb := mkMap_built hm
  obtain ⟨r, vs, hfound, _, _⟩ := slash_redirect_converges_partial2 hm hshape hdom h
  have hs := dfs_sound q m.root (segments dom (path ++ ['/'])) []
  rw [hfound] at hs
  obtain ⟨hok, ps, vs', via, hi, hv, hw, ha⟩ := hs
  rw [hb.root_eq, inTrie_buildRoot] at hi
  obtain ⟨hmem, hbo, rfl⟩ := hi
  simp only [List.nil_append] at hv
  subst hv
  have hacc := walkVia_accepts hw
  rw [hb.kinds r hmem] at hacc
  have hsome := convertValues_isSome hacc (hconv r hmem)
  obtain ⟨conv, hconvv⟩ := Option.isSome_iff_exists.1 hsome
  refine ⟨r, dictUpdate conv r.defaults, hmem, hbo, hok, ?_, ?_⟩
  · simp [admits, hok, admitsGroups_of_walkVia hw ha, hconvv]
  · have hfound' := hfound
    simp only [segments] at hfound'
    simp only [matchSM, hfound', finishMatch, hconvv]
    by_cases hal : (r.alias && rd) = true
    · right; simp [hal]
    · left; simp [hal]

-- non-vacuity: on `specs0` the path `/a` asks for the slash; the hypotheses hold; `/a/` is matched
example : (match mkMap {} specs0 with
    | some m =>
      (match (dfs ⟨"GET".toList, false⟩ m.root (segments [] "/a".toList) []).res with | .slash => true | _ => false) &&
      m.rules.all (fun r => r.convTotal) &&
      (match matchSM m.root true true ⟨"GET".toList, false⟩ [] "/a/".toList with | .ok r _ => r.idx == 0 | _ => false)
    | none => false) = true := by decide +kernel

def specsF12b : List RuleSpec :=
  [ { toks := [.slash, .var (.string 1 none none) "x".toList, .slash], endpoint := "x".toList },
    { toks := [.slash, .lit "a".toList, .slash, .slash, .slash], endpoint := "a".toList } ]

/-- **F12b (negation witness).** The full-strength convergence claim — the target of a slash redirect
never asks for another slash redirect — is false on the unchanged code, inside the property's domain:
`Map([Rule('/<x>/'), Rule('/a///')])` with merge_slashes on. `re.sub('/{2,}?', '/')` merges pairs
only, so the second rule keeps an empty segment (`/a//`): `/a` is redirected to `/a/` (on behalf of
`/<x>/`), and `/a/` is redirected again to `/a//` — `SlashRequired` raised below the static `a`
transition pre-empts the direct match of `/a/` by `/<x>/`. -/
theorem slash_redirect_converges_full_false :
    ¬ (∀ (cfg : MapCfg) (specs : List RuleSpec) (m : RMap) (q : Req) (dom path : Str),
        mkMap cfg specs = some m → (∀ r ∈ m.rules, FinalShape r.parts) →
        (dfs q m.root (segments dom path) []).res.isSlash = true →
        (dfs q m.root (segments dom (path ++ ['/'])) []).res.isSlash = false) := by
  intro H
  have hw : (match mkMap {} specsF12b with
      | some m => (dfs ⟨"GET".toList, false⟩ m.root (segments [] "/a".toList) []).res.isSlash &&
                  (dfs ⟨"GET".toList, false⟩ m.root (segments [] ("/a".toList ++ ['/'])) []).res.isSlash
      | none => false) = true := by decide +kernel
  cases hmk : mkMap {} specsF12b with
  | none => simp [hmk] at hw
  | some m =>
    simp only [hmk, Bool.and_eq_true] at hw
    have hshape := mkMap_finalShape hmk rfl (by intro s hs; simp [specsF12b] at hs; rcases hs with rfl | rfl <;> rfl)
    have := H {} specsF12b m ⟨"GET".toList, false⟩ [] "/a".toList hmk hshape hw.1
    rw [hw.2] at this; cases this

/-- **merge_redirect_converges.** The target of a merged-slashes redirect re-matches without another
redirect of that kind: the first search on the merged path IS the search that produced the redirect, so
`match` goes straight to the conversion of the rule found there (same rule, same groups). -/
theorem merge_redirect_converges {root : State} {mg rd : Bool} {q : Req} {dom path : Str} {r : Rule} {vs : List Str}
    (h2 : (dfs q root (segments dom (mergeSlashes path)) []).res = .found r vs) :
    matchSM root mg rd q dom (mergeSlashes path) =
      finishMatch rd r vs (dfs q root (segments dom (mergeSlashes path)) []).ms (dfs q root (segments dom (mergeSlashes path)) []).wsm := by
  simp only [segments] at h2
  simp only [matchSM, h2, segments]

-- non-vacuity of both: `/a` asks for the slash, `/b//c` is found on the second pass
example : (match mkMap {} specs0 with
    | some m =>
      (match (dfs ⟨"GET".toList, false⟩ m.root (segments [] "/a".toList) []).res with | .slash => true | _ => false) &&
      (match (dfs ⟨"GET".toList, false⟩ m.root (segments [] (mergeSlashes "/b//c".toList)) []).res with | .found _ _ => true | _ => false) &&
      decide (mergeSlashes "/b//c".toList = "/b/c".toList)
    | none => false) = true := by decide +kernel

/-- **defaults_redirect_converges_partial.** When `get_default_redirect` issues a redirect for the rule
`r` just matched with values `vals`, the target is the URL `Rule.build` gives for a rule `r0` of the
map with the SAME endpoint, not build_only, whose defaults agree (Python `==`) with `vals`
wherever `vals` carries them, built from `vals` updated with those defaults. And whenever that canonical
rule is one whose own URLs match back (`hback`: the conclusion of C04.match_build_partial for `r0`
— a rule of the grammar without subdomain rule on a map where no other rule admits the path), the
re-match of the target returns `r0` with `r0`'s defaults and, for every variable of `r0` without a
default, exactly the value of the original match: the redirect does not change endpoint or arguments. -/
theorem defaults_redirect_converges_partial {m : RMap} {a : Adapter} {r : Rule} {meth : Str}
    {vals : List (Str × Value)} {qa : QueryArgs} {url : Str}
    (h : getDefaultRedirect m a r meth vals qa (rulesByEndpoint m.rules r.endpoint) = .ok (some url)) :
    ∃ r0 ∈ m.rules, r0.endpoint = r.endpoint ∧ r0.spec.buildOnly = false ∧
      (∀ kd ∈ r0.defaults, ∀ v, lookupVal kd.1 vals = some v → kd.2.pyEq v = true) ∧
      ∃ dom u upath, url = makeRedirectUrl m.cfg.hostMatching a u qa (some dom) ∧
        buildSide r0 (dictUpdate vals r0.defaults) (traceToks r0.pathToks) = .ok upath ∧
        (u = upath ∨ ∃ params, u = upath ++ '?' :: params) ∧
        ∀ (mg rd : Bool) (q : Req),
          (matchSM m.root mg rd q [] (unquote upath) =
            .ok r0 (dictUpdate (builtPairs r0 (dictUpdate vals r0.defaults) r0.pathToks) r0.defaults)) →
          ∃ vals', matchSM m.root mg rd q [] (unquote upath) = .ok r0 vals' ∧
            ∀ n ∈ varNames r0.pathToks, lookupVal n r0.defaults = none → lookupVal n vals' = lookupVal n vals := by
  obtain ⟨r0, hr0, hprov, hsuit, dom, u, hb, hu⟩ := getDefaultRedirect_inv h
  obtain ⟨hbo, _, hep, _⟩ := providesDefaultsFor_facts hprov
  simp only [rulesByEndpoint, mem_sortRules, List.mem_filter, beq_iff_eq] at hr0
  obtain ⟨upath, hup, hform⟩ := rule_build_path hb
  refine ⟨r0, hr0.1, hep, hbo, suitableFor_defaults hsuit, dom, u, upath, hu, hup, hform, ?_⟩
  intro mg rd q hback
  exact ⟨_, hback, fun n hn hd => rematch_value_nodefault r0 vals n hn hd⟩

/-- the canonical rule `r0` is one whose own URLs match back (the hypotheses of `C04.match_build_partial` for
the values `vs`): a rule of the grammar without subdomain rule, values in the canonical domain of its
converters, fit for the request, not an alias, on a map where no other rule admits what it builds -/
structure MatchesBack (cfg : MapCfg) (m : RMap) (q : Req) (r0 : Rule) (vs : List (Str × Value)) : Prop where
  notBuildOnly : r0.spec.buildOnly = false
  bound : ∃ i sp, bindRule cfg i sp = some r0 ∧
    (if cfg.hostMatching then sp.domain.getD [] else sp.domain.getD cfg.defaultSubdomain) = []
  gram : GramToks r0.pathToks
  closed : UrlsClosed r0 vs r0.pathToks
  dom : ∀ ts, valueTexts r0 vs r0.pathToks = some ts →
    IsoNoSlash r0.pathToks ts ∧ PathTailOK r0.pathToks ts ∧ AllAccept ((tokConvs r0.pathToks).map Conv.kind) ts
  roundTrip : VarsRoundTrip r0 vs r0.pathToks
  fit : ruleOK q r0 = true
  notAlias : r0.alias = false
  alone : ∀ u, buildSide r0 vs (traceToks r0.pathToks) = .ok u →
    ∀ r' ∈ m.rules, r' ≠ r0 → ∀ via, walkVia via r'.parts (segments [] (unquote u)) = none

/-- **defaults_redirect_converges.** In one piece: when `get_default_redirect` redirects the match of rule `r`
with values `vals`, and the rules of that endpoint are rules whose own URLs match back (`MatchesBack`, the
domain of C04: grammar rules, canonical values, non-overlapping map), then the percent-decoded path of the
redirect target is matched by the matcher to the canonical rule `r0` — same endpoint — with `r0`'s defaults
and, for every variable of `r0` without a default, exactly the value of the original match; and no second
defaults redirect follows (`defaults_redirect_no_second_partial`). The redirect changes neither endpoint
nor arguments. -/
theorem defaults_redirect_converges {cfg : MapCfg} {specs : List RuleSpec} {m : RMap} (hm : mkMap cfg specs = some m)
    {a : Adapter} {r : Rule} {meth : Str} {vals : List (Str × Value)} {qa : QueryArgs} {url : Str} {q : Req}
    (hcanon : ∀ r0 ∈ m.rules, r0.endpoint = r.endpoint → MatchesBack cfg m q r0 (dictUpdate vals r0.defaults))
    (h : getDefaultRedirect m a r meth vals qa (rulesByEndpoint m.rules r.endpoint) = .ok (some url)) :
    ∃ r0 ∈ m.rules, r0.endpoint = r.endpoint ∧
      ∃ dom u upath, url = makeRedirectUrl m.cfg.hostMatching a u qa (some dom) ∧
        buildSide r0 (dictUpdate vals r0.defaults) (traceToks r0.pathToks) = .ok upath ∧
        (u = upath ∨ ∃ params, u = upath ++ '?' :: params) ∧
        ∀ (mg rd : Bool), ∃ vals', matchSM m.root mg rd q [] (unquote upath) = .ok r0 vals' ∧
          (∀ kd ∈ r0.defaults, ∀ v, lookupVal kd.1 vals = some v → kd.2.pyEq v = true) ∧
          ∀ n ∈ varNames r0.pathToks, lookupVal n r0.defaults = none → lookupVal n vals' = lookupVal n vals := by
  obtain ⟨r0, hr0, hep, _, hdef, dom, u, upath, hu, hup, hform, hre⟩ := defaults_redirect_converges_partial h
  have hc := hcanon r0 hr0 hep
  obtain ⟨i, sp, hbind, hnodom⟩ := hc.bound
  refine ⟨r0, hr0, hep, dom, u, upath, hu, hup, hform, ?_⟩
  intro mg rd
  have hback := Wz.Props.C04.match_build_partial hm hr0 hc.notBuildOnly hbind hnodom (dictUpdate vals r0.defaults)
    hc.gram hup hc.closed hc.dom hc.roundTrip hc.fit mg rd (by simp [hc.notAlias]) (hc.alone upath hup)
  obtain ⟨vals', h1, h2⟩ := hre mg rd q hback
  exact ⟨vals', h1, hdef, h2⟩

def specsDefaults : List RuleSpec :=
  [ { toks := [.slash, .lit "all".toList, .slash], endpoint := "all".toList, defaults := [("page".toList, .int 1)] },
    { toks := [.slash, .lit "all".toList, .slash, .lit "page".toList, .slash, .var (.int 0 false none none) "page".toList],
      endpoint := "all".toList } ]

-- non-vacuity (the documented example): `/all/page/1` is redirected to `/all/`, whose re-match returns the
-- defaults rule with page = 1 — `hback` holds, and `/all/` is not redirected again
example : (match mkMap {} specsDefaults with
    | some m =>
      (match m.rules, matchAdapter m { adapter0 with scriptName := "/".toList, queryArgs := .none } "/all/page/1".toList none .none none with
       | [r0, _r1], .redirect url =>
         url == "https://example.org/all/".toList &&
         (match buildSide r0 (dictUpdate [("page".toList, Value.int 1)] r0.defaults) (traceToks r0.pathToks) with
          | .ok upath =>
            (match matchSM m.root true true ⟨"GET".toList, false⟩ [] (unquote upath) with
             | .ok r vals' => r.idx == 0 &&
                 vals' == dictUpdate (builtPairs r0 (dictUpdate [("page".toList, Value.int 1)] r0.defaults) r0.pathToks) r0.defaults
             | _ => false) &&
            (matchAdapter m { adapter0 with scriptName := "/".toList, queryArgs := .none } (unquote upath) none .none none).isMatched
          | _ => false)
       | _, _ => false)
    | none => false) = true := by decide +kernel

/-- **defaults_redirect_no_second_partial.** After a defaults redirect no second defaults redirect
follows: `get_default_redirect` takes the FIRST rule `r0` of the endpoint (in `build_compare_key` order)
that provides defaults for the matched rule and is suitable for the matched values; when the target is
re-matched to `r0` with values that agree (Python `==`, key by key: `valsAgree`, which
`defaults_redirect_converges_partial` establishes) no rule in front of `r0` qualifies — it would
already have qualified for the original match (`==` is transitive on the model's values) — so the
loop reaches `r0` itself and returns `None`.
Hypotheses: rule objects of the endpoint are distinct (`idx`), no other rule of the endpoint repeats
the matched rule's pattern, and the matched values carry every argument of the matched rule. -/
theorem defaults_redirect_no_second_partial {m : RMap} {a : Adapter} {r : Rule} {meth : Str}
    {vals : List (Str × Value)} {qa : QueryArgs} {url : Str}
    (hidx : ((rulesByEndpoint m.rules r.endpoint).map (·.idx)).Nodup)
    (htrace : ∀ x ∈ rulesByEndpoint m.rules r.endpoint, x.idx ≠ r.idx → x.trace m.cfg ≠ r.trace m.cfg)
    (hkeys : ∀ k ∈ r.arguments, vals.any (·.1 == k) = true)
    (h : getDefaultRedirect m a r meth vals qa (rulesByEndpoint m.rules r.endpoint) = .ok (some url)) :
    ∃ r0 ∈ m.rules, r0.endpoint = r.endpoint ∧ providesDefaultsFor m.cfg r0 r = true ∧
      ∀ (vals0 : List (Str × Value)) (qa' : QueryArgs), valsAgree vals0 vals = true →
        getDefaultRedirect m a r0 meth vals0 qa' (rulesByEndpoint m.rules r0.endpoint) = .ok none := by
  obtain ⟨r0, hr0, hprov, _, hnone⟩ := no_second_defaults_redirect hidx htrace hkeys h
  obtain ⟨_, _, hep, _⟩ := providesDefaultsFor_facts hprov
  have hr0' := hr0
  simp only [rulesByEndpoint, mem_sortRules, List.mem_filter, beq_iff_eq] at hr0'
  refine ⟨r0, hr0'.1, hep, hprov, ?_⟩
  intro vals0 qa' hagree
  rw [hep]
  exact hnone vals0 qa' hagree

-- non-vacuity on the documented example: the hypotheses hold for the match of `/all/page/1`, the re-matched
-- values {'page': 1} agree with the original ones, and the second call returns None
example : (match mkMap {} specsDefaults with
    | some m =>
      (match m.rules with
       | [r0, r1] =>
         let l := rulesByEndpoint m.rules r1.endpoint
         let vals : List (Str × Value) := [("page".toList, Value.int 1)]
         decide ((l.map (·.idx)).Nodup) &&
         l.all (fun x => x.idx == r1.idx || decide (x.trace m.cfg ≠ r1.trace m.cfg)) &&
         r1.arguments.all (fun k => vals.any (·.1 == k)) &&
         valsAgree vals vals &&
         (match getDefaultRedirect m adapter0 r1 "GET".toList vals .none l,
                getDefaultRedirect m adapter0 r0 "GET".toList vals .none (rulesByEndpoint m.rules r0.endpoint) with
          | .ok (some _), .ok none => true
          | _, _ => false)
       | _ => false)
    | none => false) = true := by decide +kernel

def specsSuperset : List RuleSpec :=
  [ { toks := [.slash, .lit "articles".toList, .slash], endpoint := "art".toList,
      defaults := [("page".toList, .int 1), ("order".toList, .str "date".toList)] },
    { toks := [.slash, .lit "articles".toList, .slash, .lit "page".toList, .slash, .var (.int 0 false none none) "page".toList],
      endpoint := "art".toList } ]

-- `provides_defaults_for` demands EQUAL argument sets: a defaults rule with an extra default-only argument
-- (`order`) does not canonicalise `/articles/page/1` — it is matched as it stands, with {'page': 1}
example : (match mkMap {} specsSuperset with
    | some m =>
      (match matchAdapter m { adapter0 with scriptName := "/".toList, queryArgs := .none } "/articles/page/1".toList none .none none with
       | .matched r vals => r.idx == 1 && vals == [("page".toList, Value.int 1)]
       | _ => false) &&
      (match m.rules with
       | [r0, r1] => !providesDefaultsFor m.cfg r0 r1 && !sameSet r0.arguments r1.arguments
       | _ => false)
    | none => false) = true := by decide +kernel

/-- **alias_redirect_converges_partial.** When the matched rule is an alias and some NON-alias rule of the
same endpoint is suitable for the matched values (the documented meaning of `alias=True`: a canonical
counterpart exists), the alias redirect goes to the URL `Rule.build` gives for a non-alias rule `r0` of
that endpoint which is suitable for the values — `build()` tries rules in `build_compare_key` order,
alias rules last, and takes the first suitable one. Hence whenever the search on the target finds `r0`
(C04.match_build_partial), `match` returns normally: no second alias redirect. (The target stays on the
bound host by `redirect_on_bound_host`.) Both hypotheses are needed: without a canonical rule the alias
redirects to itself forever (`alias_without_canonical_loops`), and the rule found may carry extra
default-only arguments (`alias_redirect_same_arguments_false`, F12c). -/
theorem alias_redirect_converges_partial {m : RMap} {a : Adapter} {r : Rule} {vals : List (Str × Value)} {mth : Str} {u : Str}
    (hhm : m.cfg.hostMatching = false)
    (hbuild : adapterBuild m.cfg a m.rules r.endpoint vals (some mth) true false = .ok u)
    (hcanon : ∃ rc ∈ m.rules, rc.endpoint = r.endpoint ∧ rc.alias = false ∧ rc.suitableFor vals (some mth) = true) :
    ∃ r0 ∈ m.rules, r0.endpoint = r.endpoint ∧ r0.alias = false ∧ r0.suitableFor vals (some mth) = true ∧
      (∃ upath, buildSide r0 vals (traceToks r0.pathToks) = .ok upath) ∧
      ∀ (mg rd : Bool) (q : Req) (dom path : Str) (ts : List Str),
        (dfs q m.root (segments dom path) []).res = .found r0 ts →
        (matchSM m.root mg rd q dom path).isAlias = false := by
  obtain ⟨d, path, w, hp⟩ := adapterBuild_ok_inv hbuild
  obtain ⟨r0, hr0, hep, hal, hs, hb⟩ := build_prefers_canonical hhm hp hcanon
  obtain ⟨upath, hup, _⟩ := rule_build_path hb
  refine ⟨r0, hr0, hep, hal, hs, ⟨upath, hup⟩, ?_⟩
  intro mg rd q dom path' ts hfound
  simp only [segments] at hfound
  simp only [matchSM, hfound, finishMatch, hal, Bool.false_and]
  cases convertValues r0.convs ts <;> rfl

def specsAliasOnly : List RuleSpec :=
  [ { toks := [.slash, .lit "x".toList, .slash], endpoint := "e".toList, alias := true } ]

/-- **the canonical-rule hypothesis is necessary (negation witness).** An alias rule without a canonical
counterpart redirects to itself: `Map([Rule('/x/', endpoint='e', alias=True)])`, `/x/` is redirected to
`/x/`, whose match is the same alias redirect again (the `assert url != path` in
`make_alias_redirect_url` compares the URL with `'domain|path'` and can never fire). -/
theorem alias_without_canonical_loops :
    ¬ (∀ (cfg : MapCfg) (specs : List RuleSpec) (m : RMap) (a : Adapter) (p url p' q' : Str),
        mkMap cfg specs = some m → m.cfg.hostMatching = false →
        (matchSM m.root m.cfg.mergeSlashes m.cfg.redirectDefaults (reqOf a none none) (domainPartOf m.cfg a) (pathPart p)).isAlias = true →
        redirectUrlOf cfg specs a (String.ofList p) = some url →
        readRedirect false a url = some (p', q') →
        (matchSM m.root m.cfg.mergeSlashes m.cfg.redirectDefaults (reqOf a none none) (domainPartOf m.cfg a) (pathPart p')).isAlias = false) := by
  intro H
  let a : Adapter := { adapter0 with scriptName := "/".toList, queryArgs := QueryArgs.none }
  have hw : (match mkMap {} specsAliasOnly with
      | some m =>
        (matchSM m.root m.cfg.mergeSlashes m.cfg.redirectDefaults (reqOf a none none) (domainPartOf m.cfg a) (pathPart "/x/".toList)).isAlias &&
        !m.cfg.hostMatching &&
        redirectUrlOf {} specsAliasOnly a "/x/" == some "https://example.org/x/".toList &&
        readRedirect false a "https://example.org/x/".toList == some ("/x/".toList, [])
      | none => false) = true := by decide +kernel
  cases hmk : mkMap {} specsAliasOnly with
  | none => simp [hmk] at hw
  | some m =>
    simp only [hmk, Bool.and_eq_true, beq_iff_eq, Bool.not_eq_true'] at hw
    obtain ⟨⟨⟨h1, hhm⟩, h2⟩, h3⟩ := hw
    have := H {} specsAliasOnly m a "/x/".toList "https://example.org/x/".toList "/x/".toList [] hmk
      hhm h1 (by simpa using h2) h3
    rw [h1] at this; cases this

def specsF12c : List RuleSpec :=
  [ { toks := [.slash, .lit "a".toList, .slash, .var (.any ["a".toList, "b".toList]) "n".toList, .slash], endpoint := "e".toList },
    { toks := [.slash, .lit "idx".toList, .slash], endpoint := "e".toList,
      defaults := [("n".toList, .str "b".toList), ("fmt".toList, .int 0)] },
    { toks := [.slash, .lit "alt".toList, .slash, .lit "a".toList, .slash, .var (.any ["a".toList, "b".toList]) "n".toList, .slash],
      endpoint := "e".toList, alias := true } ]

/-- **F12c (witness).** The alias redirect does not have the equal-arguments guard of the defaults
redirect: `make_alias_redirect_url` canonicalises through `build()`, whose rule order prefers the rule
with more arguments and whose `suitable_for` accepts extra default-only arguments. On the unchanged
code `/alt/a/b/` (alias, denotes `{'n': 'b'}`) is redirected to `/idx/`, which denotes
`{'n': 'b', 'fmt': 0}`: same endpoint, one more argument. -/
theorem alias_redirect_adds_default_arguments :
    (match mkMap {} specsF12c with
     | some m =>
       let a := { adapter0 with scriptName := "/".toList, queryArgs := QueryArgs.none }
       (match matchSM m.root true true ⟨"GET".toList, false⟩ [] "/alt/a/b/".toList,
              follow m a none none 3 "/alt/a/b/".toList .none [] with
        | .aliasRedirect _ vals, ([.redirect url, .matched r' vals'], none) =>
          vals == [("n".toList, Value.str "b".toList)] && url == "https://example.org/idx/".toList &&
          r'.idx == 1 && vals' == [("n".toList, Value.str "b".toList), ("fmt".toList, Value.int 0)]
        | _, _ => false)
     | none => false) = true := by decide +kernel

def pathF12c : Str := "/alt/a/b/".toList

/-- **the equal-arguments hypothesis is necessary (negation witness, F12c).** Even with a canonical rule, the
alias redirect need not preserve the arguments: the rule `build()` finds first may carry extra default-only
arguments. -/
theorem alias_redirect_same_arguments_false :
    ¬ (∀ (cfg : MapCfg) (specs : List RuleSpec) (m : RMap) (a : Adapter) (p : Str) (r : Rule) (vals vals' : List (Str × Value)) (i : Nat),
        mkMap cfg specs = some m →
        matchSM m.root m.cfg.mergeSlashes m.cfg.redirectDefaults (reqOf a none none) (domainPartOf m.cfg a) (pathPart p) = .aliasRedirect r vals →
        (∃ rc ∈ m.rules, rc.endpoint = r.endpoint ∧ rc.alias = false ∧ sameSet rc.arguments r.arguments = true) →
        finalMatch (follow m a none none 3 p .none []).1 = some (i, vals') →
        vals'.length = vals.length) := by
  intro H
  let a : Adapter := { adapter0 with scriptName := "/".toList, queryArgs := QueryArgs.none }
  have hw : (match mkMap {} specsF12c with
      | some m =>
        (match matchSM m.root m.cfg.mergeSlashes m.cfg.redirectDefaults (reqOf a none none) (domainPartOf m.cfg a) (pathPart pathF12c) with
         | .aliasRedirect r vals => vals.length == 1 && r.idx == 2 &&
             m.rules.any (fun rc => rc.endpoint == r.endpoint && !rc.alias && sameSet rc.arguments r.arguments)
         | _ => false) &&
        finalMatch (follow m a none none 3 pathF12c .none []).1 ==
          some (1, [("n".toList, Value.str "b".toList), ("fmt".toList, Value.int 0)])
      | none => false) = true := by decide +kernel
  cases hmk : mkMap {} specsF12c with
  | none => simp [hmk] at hw
  | some m =>
    simp only [hmk, Bool.and_eq_true, beq_iff_eq] at hw
    obtain ⟨h1, h2⟩ := hw
    cases hsm : matchSM m.root m.cfg.mergeSlashes m.cfg.redirectDefaults (reqOf a none none) (domainPartOf m.cfg a) (pathPart pathF12c) with
    | aliasRedirect r vals =>
      simp only [hsm, Bool.and_eq_true, beq_iff_eq, List.any_eq_true, Bool.not_eq_true'] at h1
      obtain ⟨⟨hlen, _⟩, rc, hrc, hcond⟩ := h1
      have := H {} specsF12c m a pathF12c r vals _ 1 hmk hsm
        ⟨rc, hrc, hcond.1.1, hcond.1.2, hcond.2⟩ h2
      rw [hlen] at this
      simp at this
    | ok r v => simp [hsm] at h1
    | requestPath p => simp [hsm] at h1
    | noMatch ms w => simp [hsm] at h1

-- Closed in round 3: `slash_redirect_converges` (one piece: the re-match of the target returns / alias-canonicalises a
-- rule that admits the target with the returned values; hypotheses ConvOK = F12a, SlashDomainOK = F12b, FinalShape)
-- and `defaults_redirect_converges` (one piece on the domain of C04, `MatchesBack`; non-vacuity of `MatchesBack`'s
-- fields: the `buildDomainGB` examples of Props/C04 and the documented `/all/page/1` example above).
-- OPEN: the literal full-strength form of slash_redirect_converges without SlashDomainOK is FALSE (F12b,
-- `slash_redirect_converges_full_false`); `FinalShape` for rules WITH a subdomain rule (`bindRule_finalShape` covers
-- rules without); the alias redirect in one piece (`alias_redirect_converges_partial` + `MatchesBack` would
-- compose the same way; F12c shows the equal-arguments hypothesis is needed); `MatchesBack.roundTrip` for values
-- produced by `to_python` (idempotence of the float text normalisation) is assumed, validated by stream `redirects`.

end Wz.Props.C12
