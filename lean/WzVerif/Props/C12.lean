/- C12 property theorems (not written yet) -/
namespace Wz.Props.C12
end Wz.Props.C12
