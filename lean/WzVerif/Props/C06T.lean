/-
C06T — `quote_header_value`, `unquote_header_value` and `is_byte_range_valid` of `werkzeug.http`
*as regenerated from the source* by `tools/py2lean.py` (`Gen/PyFns_Http.lean`, rewritten on every
check run) are equal, for all inputs, to the hand-written model functions of `Model/Http.lean` that
the C06 round-trip theorems are about. `_token_chars` enters through its membership test
(`Http.isToken`, a table regenerated from the live frozenset).
Property theorems only (helper lemmas: Lemmas/PyFns_Http.lean, Lemmas/PyFns_Prelude.lean).
-/
import WzVerif.Gen.PyFns_Http
import WzVerif.Lemmas.PyFns_Http
import WzVerif.Lemmas.Http
namespace Wz.Props.C06T
open Wz Wz.Pre Wz.PyFnsHttp

/-- `quote_header_value(value, allow_token)` for a `str` value, as translated from the current
source (empty value, the `_token_chars.issuperset` shortcut, the two `replace` calls, the quotes),
returns exactly the model's `quoteHeaderValue`, for every text and both values of `allow_token`. -/
theorem quote_header_value_eq (v : List Char) (allow : Bool) :
    Gen.PyFns_Http.quote_header_value v allow = Http.quoteHeaderValue v allow := by
  unfold Gen.PyFns_Http.quote_header_value Http.quoteHeaderValue Http.escapeDq
  simp only [replace1_eq, Pre.issuperset]
  cases allow <;> by_cases h1 : v.isEmpty = true <;> by_cases h2 : v.all Http.isToken = true <;> simp [h1, h2]

/-- `unquote_header_value(value)`, as translated from the current source (`len(value) >= 2`,
`value[0] == value[-1] == '"'`, `value[1:-1]`, the two `replace` calls), never raises (the two
index operations are only reached for a text of at least two characters) and returns exactly the
model's `unquoteHeaderValue`, for every text. -/
theorem unquote_header_value_eq (v : List Char) :
    Gen.PyFns_Http.unquote_header_value v = .ok (Http.unquoteHeaderValue v) := by
  unfold Gen.PyFns_Http.unquote_header_value Http.unquoteHeaderValue Http.unescapeDq Http.stripDq?
  match v with
  | [] => simp
  | [x] => 
    by_cases hx : x = '"' <;> simp [hx]
  | x :: y :: t =>
    have hlen : decide (Int.ofNat (x :: y :: t).length ≥ 2) = true := by simp; omega
    simp only [hlen, if_true, Pre.getItemStr, getItem_zero_cons, getItem_neg_one_cons, slice_one_neg_one, replace2_eq]
    have hl : (x :: y :: t).getLast (by simp) = (y :: t).getLast (by simp) := by simp
    have hl2 : (y :: t).getLast? = some ((y :: t).getLast (by simp)) := List.getLast?_eq_some_getLast (by simp)
    rw [hl]
    generalize (y :: t).getLast (by simp) = z at hl2 ⊢
    by_cases hx : x = '"'
    · subst hx
      by_cases hz : z = '"'
      · subst hz; simp [hl2]
      · have : ('"' == z) = false := by simpa using fun h => hz h.symm
        simp [hl2, hz, this]
    · by_cases hz : z = '"'
      · subst hz; simp [hx]
      · simp [hx, hz]

/-- `is_byte_range_valid`, as translated from the current source, computes exactly the
`isByteRangeValid` of `Model/Http.lean` (the copy that `ContentRange` parsing and dumping use). -/
theorem is_byte_range_valid_eq (start stop length : Option Int) :
    Gen.PyFns_Http.is_byte_range_valid start stop length
      = Http.isByteRangeValid start stop length := by
  cases start <;> cases stop <;> cases length <;>
    simp only [Gen.PyFns_Http.is_byte_range_valid, Http.isByteRangeValid] <;> grind

/-- C06 `unquote_quote` on the translated definitions: un-quoting what the regenerated
`quote_header_value` produced gives the value back, for every text (quoted or left as a token). -/
theorem unquote_quote_translated (v : List Char) (allow : Bool) :
    Gen.PyFns_Http.unquote_header_value (Gen.PyFns_Http.quote_header_value v allow) = .ok v := by
  rw [quote_header_value_eq, unquote_header_value_eq, Http.unquote_quote_any]

/-- The `for begin, end in self.ranges` loop of `Range.to_header`, as translated from the current
source, appends to `ranges` the text of every pair (`begin-`, `-suffix`, `begin-last`), for every
list of pairs and every accumulator. -/
theorem range_to_header_loop_eq (rs : List (Int × Option Int)) : ∀ acc : List (List Char),
    Gen.PyFns_Http.range_to_header.loop1 rs acc = .fall (acc ++ rs.map item) := by
  induction rs with
  | nil => intro acc; simp [Gen.PyFns_Http.range_to_header.loop1]
  | cons p t ih =>
    intro acc
    obtain ⟨b, e⟩ := p
    unfold Gen.PyFns_Http.range_to_header.loop1
    cases e with
    | none => simp [ih, item, strOfInt_eq]
    | some e => simp [ih, item, strOfInt_eq]

/-- `Range.to_header()`, as translated from the current source of
`werkzeug/datastructures/range.py`, prints exactly what the model's `rangeToHeader` prints (the
dump side of C06's `range_roundtrip`), for every unit text and every list of pairs. -/
theorem range_to_header_eq (units : List Char) (rs : List (Int × Option Int)) :
    Gen.PyFns_Http.range_to_header units rs = Http.rangeToHeader ⟨units, rs⟩ := by
  unfold Gen.PyFns_Http.range_to_header Http.rangeToHeader
  have e : ([','] : Str) = ",".toList := by decide
  simp only [range_to_header_loop_eq, List.nil_append, e, join_intercalate]
  simp
  rfl

example : Gen.PyFns_Http.quote_header_value "a\"b".toList true = "\"a\\\"b\"".toList := by decide

end Wz.Props.C06T
