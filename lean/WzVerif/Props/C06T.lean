/-
C06T — `quote_header_value`, `unquote_header_value` and `is_byte_range_valid` of `werkzeug.http`
*as regenerated from the source* by `tools/py2lean.py` (`Gen/PyFns_Http.lean`, rewritten on every
check run) are equal, for all inputs, to the hand-written model functions of `Model/Http.lean` that
the C06 round-trip theorems are about. `_token_chars` enters through its membership test
(`Http.isToken`, a table regenerated from the live frozenset).
Property theorems only (helper lemmas: Lemmas/PyFns_Http.lean, Lemmas/PyFns_Prelude.lean).
-/
import WzVerif.Gen.PyFns_Http
import WzVerif.Gen.PyFns_HttpDict
import WzVerif.Gen.PyFns_Internal
import WzVerif.Lemmas.PyFns_HttpDict
import WzVerif.Lemmas.PyFns_Http
import WzVerif.Lemmas.PyFns_HttpList
import WzVerif.Lemmas.Http
import WzVerif.Lemmas.HttpEtag
import WzVerif.Lemmas.HttpAge
namespace Wz.Props.C06T
open Wz Wz.Pre Wz.PyFnsHttp

/-- `quote_header_value(value, allow_token)` for a `str` value, as translated from the current
source (empty value, the `_token_chars.issuperset` shortcut, the two `replace` calls, the quotes),
returns exactly the model's `quoteHeaderValue`, for every text and both values of `allow_token`. -/
theorem quote_header_value_eq (v : List Char) (allow : Bool) :
    Gen.PyFns_Http.quote_header_value v allow = Http.quoteHeaderValue v allow := by
  unfold Gen.PyFns_Http.quote_header_value Http.quoteHeaderValue Http.escapeDq
  simp only [replace1_eq, Pre.issuperset]
  cases allow <;> by_cases h1 : v.isEmpty = true <;> by_cases h2 : v.all Http.isToken = true <;> simp [h1, h2]

/-- `unquote_header_value(value)`, as translated from the current source (`len(value) >= 2`,
`value[0] == value[-1] == '"'`, `value[1:-1]`, the two `replace` calls), never raises (the two
index operations are only reached for a text of at least two characters) and returns exactly the
model's `unquoteHeaderValue`, for every text. -/
theorem unquote_header_value_eq (v : List Char) :
    Gen.PyFns_Http.unquote_header_value v = .ok (Http.unquoteHeaderValue v) := by
  unfold Gen.PyFns_Http.unquote_header_value Http.unquoteHeaderValue Http.unescapeDq Http.stripDq?
  match v with
  | [] => simp
  | [x] => 
    by_cases hx : x = '"' <;> simp [hx]
  | x :: y :: t =>
    have hlen : decide (Int.ofNat (x :: y :: t).length ≥ 2) = true := by simp; omega
    simp only [hlen, if_true, Pre.getItemStr, getItem_zero_cons, getItem_neg_one_cons, slice_one_neg_one, replace2_eq]
    have hl : (x :: y :: t).getLast (by simp) = (y :: t).getLast (by simp) := by simp
    have hl2 : (y :: t).getLast? = some ((y :: t).getLast (by simp)) := List.getLast?_eq_some_getLast (by simp)
    rw [hl]
    generalize (y :: t).getLast (by simp) = z at hl2 ⊢
    by_cases hx : x = '"'
    · subst hx
      by_cases hz : z = '"'
      · subst hz; simp [hl2]
      · have : ('"' == z) = false := by simpa using fun h => hz h.symm
        simp [hl2, hz, this]
    · by_cases hz : z = '"'
      · subst hz; simp [hx]
      · simp [hx, hz]

/-- `is_byte_range_valid`, as translated from the current source, computes exactly the
`isByteRangeValid` of `Model/Http.lean` (the copy that `ContentRange` parsing and dumping use). -/
theorem is_byte_range_valid_eq (start stop length : Option Int) :
    Gen.PyFns_Http.is_byte_range_valid start stop length
      = Http.isByteRangeValid start stop length := by
  cases start <;> cases stop <;> cases length <;>
    simp only [Gen.PyFns_Http.is_byte_range_valid, Http.isByteRangeValid] <;> grind

/-- C06 `unquote_quote` on the translated definitions: un-quoting what the regenerated
`quote_header_value` produced gives the value back, for every text (quoted or left as a token). -/
theorem unquote_quote_translated (v : List Char) (allow : Bool) :
    Gen.PyFns_Http.unquote_header_value (Gen.PyFns_Http.quote_header_value v allow) = .ok v := by
  rw [quote_header_value_eq, unquote_header_value_eq, Http.unquote_quote_any]

/-- The `for begin, end in self.ranges` loop of `Range.to_header`, as translated from the current
source, appends to `ranges` the text of every pair (`begin-`, `-suffix`, `begin-last`), for every
list of pairs and every accumulator. -/
theorem range_to_header_loop_eq (rs : List (Int × Option Int)) : ∀ acc : List (List Char),
    Gen.PyFns_Http.range_to_header.loop1 rs acc = .fall (acc ++ rs.map item) := by
  induction rs with
  | nil => intro acc; simp [Gen.PyFns_Http.range_to_header.loop1]
  | cons p t ih =>
    intro acc
    obtain ⟨b, e⟩ := p
    unfold Gen.PyFns_Http.range_to_header.loop1
    cases e with
    | none => simp [ih, item, strOfInt_eq]
    | some e => simp [ih, item, strOfInt_eq]

/-- `Range.to_header()`, as translated from the current source of
`werkzeug/datastructures/range.py`, prints exactly what the model's `rangeToHeader` prints (the
dump side of C06's `range_roundtrip`), for every unit text and every list of pairs. -/
theorem range_to_header_eq (units : List Char) (rs : List (Int × Option Int)) :
    Gen.PyFns_Http.range_to_header units rs = Http.rangeToHeader ⟨units, rs⟩ := by
  unfold Gen.PyFns_Http.range_to_header Http.rangeToHeader
  have e : ([','] : Str) = ",".toList := by decide
  simp only [range_to_header_loop_eq, List.nil_append, e, join_intercalate]
  simp
  rfl

/-! ### comma lists, `key=value` lists, option headers, entity tags (translated in round 3) -/

/-- The `for item in _parse_list_header(value)` loop of `parse_list_header`, as translated from the
current source (the guard `len(item) >= 2 and item[0] == item[-1] == '"'`, the slice `item[1:-1]`, the
append), never raises and appends to `result` every item with one pair of surrounding quotes removed
(`unq` = the model's `stripDq?` or the item itself), for every list of items and every accumulator. -/
theorem parse_list_header_loop_eq (items : List (List Char)) : ∀ acc : List (List Char),
    Gen.PyFns_Http.parse_list_header.loop1 items acc = .fall (acc ++ items.map unq) := by
  induction items with
  | nil => intro acc; simp [Gen.PyFns_Http.parse_list_header.loop1]
  | cons item rest ih =>
    intro acc
    unfold Gen.PyFns_Http.parse_list_header.loop1
    simp only [ih]
    have := dq_step item (fun v => (Pre.Loop.fall (acc ++ [v] ++ rest.map unq) : Pre.Loop (Except String (List Str)) (List Str))) (fun x => .ret (.error x))
    simp at this ⊢
    exact this

/-- `parse_list_header(value)`, as translated from the current source (urllib's `parse_http_list`
enters as C06's hand model `parseHttpList`), never raises (`item[0]` / `item[-1]` are only reached
for an item of at least two characters) and returns exactly the model's `parseListHeader`, for
every text. -/
theorem parse_list_header_eq (v : List Char) :
    Gen.PyFns_Http.parse_list_header v = .ok (Http.parseListHeader v) := by
  unfold Gen.PyFns_Http.parse_list_header Http.parseListHeader
  simp only [parse_list_header_loop_eq, List.nil_append]
  rfl

/-- `dump_header(iterable)` for a list of `str`, as translated from the current source (the
`isinstance(iterable, dict)` test decided by the type, the comprehension over `quote_header_value`
- itself translated, with `allow_token` taken from the default in the source -, the `", "` join),
prints exactly the model's `dumpHeaderList`, for every list of texts. -/
theorem dump_header_list_eq (items : List (List Char)) :
    Gen.PyFns_Http.dump_header_list items = .ok (Http.dumpHeaderList items) := by
  unfold Gen.PyFns_Http.dump_header_list Http.dumpHeaderList
  have e : ([',', ' '] : Str) = ", ".toList := by decide
  simp only [quote_header_value_eq, e, join_intercalate]

/-- C06 `parseList_dump` on the translated definitions: parsing what the regenerated `dump_header`
printed gives the items back, for every list of texts. -/
theorem parse_list_dump_translated (items : List (List Char)) :
    (Gen.PyFns_Http.dump_header_list items >>= Gen.PyFns_Http.parse_list_header) = .ok items := by
  rw [dump_header_list_eq]
  show Gen.PyFns_Http.parse_list_header _ = _
  rw [parse_list_header_eq, Http.parseList_dump_any]

/-- The `for key, value in iterable.items()` loop of `dump_header` (dict branch), as translated from
the current source (`value is None` gives the bare key, `key[-1] == "*"` keeps the value unquoted,
otherwise `quote_header_value`), appends the text of every item (`dictItemText`) or raises the
IndexError of the first empty key with a value, for every list of pairs and every accumulator. -/
theorem dump_header_dict_loop_eq (d : List (List Char × Option (List Char))) : ∀ acc : List (List Char),
    Gen.PyFns_Http.dump_header_dict.loop1 d acc =
      match d.mapM dictItemText with
      | .ok items => .fall (acc ++ items)
      | .error e => .ret (.error e) := by
  induction d with
  | nil => intro acc; simp [Gen.PyFns_Http.dump_header_dict.loop1]
  | cons kv rest ih =>
    intro acc
    obtain ⟨key, value⟩ := kv
    unfold Gen.PyFns_Http.dump_header_dict.loop1
    simp only [ih, List.mapM_cons, dictItemText, quote_header_value_eq]
    cases value with
    | none =>
      simp only []
      cases h : rest.mapM dictItemText <;> simp [bind, Except.bind, pure, Except.pure]
    | some v =>
      simp only [kvText]
      have := star_step key
        (match rest.mapM dictItemText with
          | .ok items => (Pre.Loop.fall (acc ++ [key ++ ['='] ++ v] ++ items) : Pre.Loop (Except String Str) (List Str))
          | .error e => .ret (.error e))
        (match rest.mapM dictItemText with
          | .ok items => (Pre.Loop.fall (acc ++ [key ++ ['='] ++ Http.quoteHeaderValue v] ++ items) : Pre.Loop (Except String Str) (List Str))
          | .error e => .ret (.error e))
        (fun x => .ret (.error x))
      refine Eq.trans this ?_
      cases key.getLast? with
      | none => simp [bind, Except.bind]
      | some l =>
        by_cases hl : l = '*' <;> cases h : rest.mapM dictItemText <;> simp [hl, bind, Except.bind, pure, Except.pure]

/-- `dump_header(iterable)` for a dict with `str | None` values, as translated from the current
source, prints - or raises IndexError for an empty key, exactly as - the model's `dumpHeaderDict`,
for every dict (given as its item list). -/
theorem dump_header_dict_eq (d : List (List Char × Option (List Char))) :
    Gen.PyFns_Http.dump_header_dict d = Http.dumpHeaderDict d := by
  rw [dumpHeaderDict_spec]
  unfold Gen.PyFns_Http.dump_header_dict
  simp only [Pre.dictItems, dump_header_dict_loop_eq, List.nil_append]
  have e : ([',', ' '] : Str) = ", ".toList := by decide
  cases h : d.mapM dictItemText with
  | error x => simp [bind, Except.bind]
  | ok items => simp only [bind, Except.bind, pure, Except.pure, e, join_intercalate]

/-- The `for key, value in options.items()` loop of `dump_options_header`, as translated from the
current source (`None` values skipped, `key[-1] == "*"`, `quote_header_value`), appends the model's
`optionSegment` of every pair, for every list of pairs and every accumulator. -/
theorem dump_options_header_loop_eq (d : List (List Char × Option (List Char))) : ∀ acc : List (List Char),
    Gen.PyFns_Http.dump_options_header.loop1 d acc =
      match d.mapM Http.optionSegment with
      | .ok segs => .fall (acc ++ segs.filterMap id)
      | .error e => .ret (.error e) := by
  induction d with
  | nil => intro acc; simp [Gen.PyFns_Http.dump_options_header.loop1]
  | cons kv rest ih =>
    intro acc
    obtain ⟨key, value⟩ := kv
    unfold Gen.PyFns_Http.dump_options_header.loop1
    simp only [ih, List.mapM_cons, optionSegment_eq (key, value), quote_header_value_eq]
    cases value with
    | none =>
      simp only []
      cases h : rest.mapM Http.optionSegment <;> simp [bind, Except.bind, pure, Except.pure]
    | some v =>
      simp only [kvText]
      have := star_step key
        (match rest.mapM Http.optionSegment with
          | .ok segs => (Pre.Loop.fall (acc ++ [key ++ ['='] ++ v] ++ segs.filterMap id) : Pre.Loop (Except String Str) (List Str))
          | .error e => .ret (.error e))
        (match rest.mapM Http.optionSegment with
          | .ok segs => (Pre.Loop.fall (acc ++ [key ++ ['='] ++ Http.quoteHeaderValue v] ++ segs.filterMap id) : Pre.Loop (Except String Str) (List Str))
          | .error e => .ret (.error e))
        (fun x => .ret (.error x))
      refine Eq.trans this ?_
      cases key.getLast? with
      | none => simp [bind, Except.bind, Except.map]
      | some l =>
        by_cases hl : l = '*' <;> cases h : rest.mapM Http.optionSegment <;> simp [hl, bind, Except.bind, pure, Except.pure, Except.map]

/-- `dump_options_header(header, options)`, as translated from the current source (the optional
leading header, the loop above, the `"; "` join), prints - or raises IndexError exactly as - the
model's `dumpOptionsHeader`, for every header (or None) and every options dict. -/
theorem dump_options_header_eq (header : Option (List Char)) (options : List (List Char × Option (List Char))) :
    Gen.PyFns_Http.dump_options_header header options = Http.dumpOptionsHeader header options := by
  unfold Gen.PyFns_Http.dump_options_header Http.dumpOptionsHeader
  have e : ([';', ' '] : Str) = "; ".toList := by decide
  cases header <;> simp only [Pre.dictItems, dump_options_header_loop_eq, List.nil_append] <;>
    cases h : options.mapM Http.optionSegment <;>
    simp only [bind, Except.bind, pure, Except.pure, e, join_intercalate, List.nil_append, List.cons_append]

/-- `quote_etag(etag, weak)`, as translated from the current source (the `'"' in etag` refusal, the
quotes, the `W/` prefix), equals the model's `quoteEtag` - value or ValueError - for every text and
both values of `weak`. -/
theorem quote_etag_eq (etag : List Char) (weak : Bool) :
    Gen.PyFns_Http.quote_etag etag weak = Http.quoteEtag etag weak := by
  unfold Gen.PyFns_Http.quote_etag Http.quoteEtag
  rw [contains_singleton]
  cases weak <;> by_cases h : etag.contains '"' = true <;> simp [h]

/-- C06 `etag_roundtrip` with the translated `quote_etag`: un-quoting what the regenerated function
printed gives `(etag, weak)` back for every tag without `"`. -/
theorem etag_roundtrip_translated (e : List Char) (weak : Bool) (hq : e.contains '"' = false) :
    (Gen.PyFns_Http.quote_etag e weak).map Http.unquoteEtag = .ok (some (e, weak)) := by
  rw [quote_etag_eq]; exact Http.unquote_quoteEtag e weak hq

example : ("a b".toList).contains '"' = false := by decide

/-- `parse_set_header(value)`, as translated from the current source (a missing or empty value
gives `HeaderSet(None)`, anything else `HeaderSet(parse_list_header(value))`; the result is the
`headers` argument handed to the constructor), never raises and hands over exactly the model's
`parseSetHeader` list, for every value including `None`. -/
theorem parse_set_header_eq (value : Option (List Char)) :
    Gen.PyFns_Http.parse_set_header value () =
      .ok (match value with
        | none => none
        | some v => if v.isEmpty then none else some (Http.parseSetHeader v)) := by
  unfold Gen.PyFns_Http.parse_set_header Http.parseSetHeader
  cases value with
  | none => rfl
  | some v => by_cases h : v.isEmpty = true <;> simp [h, parse_list_header_eq]

/-! ### Age, Content-Range (translated in round 3; `Gen/PyFns_HttpDict.lean`) -/

/-- `_plain_int`, as translated from the current source, is the prelude's `plainInt` (restated here
for the Content-Range proofs; see Props/C09T, C11T). -/
theorem plain_int_eq (v : List Char) : Gen.PyFns_Internal.plain_int v = Pre.plainInt v := by
  unfold Gen.PyFns_Internal.plain_int Pre.plainInt Pre.plainIntReFullmatch Pre.pyIntPlain Pre.strip
  cases h : isPlainIntText (Py.strip v) <;> simp [h]

/-- `parse_age(value)`, as translated from the current source (missing / empty value, `int(value)`
with `except ValueError`, the negative test, `timedelta(seconds=…)` with `except OverflowError`; the
timedelta is represented by its seconds), never raises and returns exactly the model's `parseAge`,
for every value including `None`. `int()` is C06's hand model `pyInt`. -/
theorem parse_age_eq (value : Option (List Char)) :
    Gen.PyFns_HttpDict.parse_age value =
      match value with
      | none => .ok none
      | some v => (Http.parseAge v).map (Option.map Int.ofNat) := by
  cases value with
  | none => rfl
  | some v =>
    unfold Gen.PyFns_HttpDict.parse_age Http.parseAge Gen.PyFns_HttpDict.timedeltaSeconds
    simp only []
    by_cases he : v.isEmpty = true
    · simp [he, Except.map, pure, Except.pure]
    · simp only [he, Bool.false_eq_true, if_false]
      cases hp : Http.pyInt v with
      | error e =>
        have := pyInt_error v e hp
        subst this
        simp [Http.catching, Except.map, bind, Except.bind, pure, Except.pure]
      | ok secs =>
        simp only [Http.catching, Except.map, bind, Except.bind, pure, Except.pure]
        by_cases hn : secs < 0
        · simp [hn]
        · by_cases hm : secs.toNat > Gen.Http.timedeltaMaxSeconds
          · have : secs > (Gen.Http.timedeltaMaxSeconds : Int) := by omega
            simp [hn, hm, this]
          · have : ¬ secs > (Gen.Http.timedeltaMaxSeconds : Int) := by omega
            have h3 : ¬ (secs < -86399999913600) := by omega
            have h4 : max secs 0 = secs := by omega
            simp [hn, hm, this, h3, h4]

/-- `dump_age(age)` for an `int` (or `None`), as translated from the current source: `None` stays
`None`, a negative age is the documented ValueError, anything else prints as the model's `dumpAge`. -/
theorem dump_age_eq (age : Option Int) :
    Gen.PyFns_HttpDict.dump_age age =
      match age with
      | none => .ok none
      | some n => if n < 0 then .error "ValueError" else .ok (some (Http.dumpAge n.toNat)) := by
  cases age with
  | none => rfl
  | some n =>
    unfold Gen.PyFns_HttpDict.dump_age Http.dumpAge
    by_cases h : n < 0
    · simp [h]
    · simp only [h, id, decide_false, Bool.false_eq_true, if_false, strOfInt_eq]
      obtain ⟨m, rfl⟩ := Int.eq_ofNat_of_zero_le (by omega : 0 ≤ n)
      rfl

/-- C06 `age_roundtrip` on the translated pair: parsing what the regenerated `dump_age` printed gives
the number of seconds back, for every age within timedelta's range. -/
theorem age_roundtrip_translated (n : Nat) (hn : n ≤ Gen.Http.timedeltaMaxSeconds) :
    (Gen.PyFns_HttpDict.dump_age (some (n : Int)) >>= Gen.PyFns_HttpDict.parse_age) = .ok (some (n : Int)) := by
  rw [dump_age_eq]
  have h : ¬ ((n : Int) < 0) := by omega
  simp only [h, if_false, bind, Except.bind, parse_age_eq, Int.toNat_natCast, Http.age_roundtrip_any n hn]
  rfl

example : (5 : Nat) ≤ Gen.Http.timedeltaMaxSeconds := by decide

/-- `ContentRange(units, start, stop, length)` (the constructor is pinned by the generator to
`self.on_update = on_update; self.set(start, stop, length, units)`; `set` is translated): the object
for a valid range, AssertionError otherwise. -/
theorem content_range_init_eq (u : Option (List Char)) (s e l : Option Int) :
    Gen.PyFns_HttpDict.content_range_init u s e l =
      if Http.isByteRangeValid s e l then .ok (u, s, e, l) else .error "AssertionError" := by
  unfold Gen.PyFns_HttpDict.content_range_init Gen.PyFns_HttpDict.content_range_set
  simp only [is_byte_range_valid_eq]
  by_cases h : Http.isByteRangeValid s e l = true <;> simp [h]

/-- `parse_content_range_header(value)`, as translated from the current source (`None`, the
`split(None, 1)` into units and range definition, `"/" in`, `split("/", 1)`, the `*` length or
`_plain_int`, the `*` range, `"-" in`, `split("-", 1)`, the two `_plain_int` calls in one `try`,
`is_byte_range_valid`, the `ContentRange` constructor with its assertion), never raises and returns
exactly the model's `parseContentRangeHeader` (`crTup` = the object's four attributes), for every
value including `None`. -/
theorem parse_content_range_header_eq (value : Option (List Char)) :
    Gen.PyFns_HttpDict.parse_content_range_header value () =
      match value with
      | none => .ok none
      | some v => (Http.parseContentRangeHeader v).map (Option.map crTup) := by
  cases value with
  | none => rfl
  | some v =>
    unfold Gen.PyFns_HttpDict.parse_content_range_header Http.parseContentRangeHeader
    have hv : (if (!v.isEmpty) = true then v else []) = v := by cases v <;> simp
    simp only [hv, splitWsOnce_eq, Pre.strip, Http.strip, plain_int_eq, is_byte_range_valid_eq, content_range_init_eq, contains_singleton]
    cases hs : Http.splitWs2 (Py.strip v) with
    | error e =>
      have := splitWs2_error _ _ hs
      subst this
      simp [Http.catching, Except.map, bind, Except.bind, pure, Except.pure]
    | ok p =>
      obtain ⟨units, rangedef⟩ := p
      simp only [Http.catching, Except.map, bind, Except.bind, pure, Except.pure]
      by_cases hm : '/' ∈ rangedef
      · have hc : rangedef.contains '/' = true := by simpa using hm
        simp only [hc, Bool.not_true, Bool.false_eq_true, if_false, PyFnsRange.splitOnce_singleton_mem rangedef '/' hm,
          partition_eq_of_mem '/' rangedef hm, parseLength_eq]
        generalize rangedef.takeWhile (· != '/') = rng
        generalize (rangedef.dropWhile (· != '/')).drop 1 = ls
        by_cases hl : ls = ['*']
        · subst hl
          simp only [beq_self_eq_true, if_true]
          have := cr_tail units rng none
          simp only [Http.catching, beq_iff_eq, Except.map, bind, Except.bind, pure, Except.pure] at this ⊢
          exact this
        · simp only [hl, beq_iff_eq, if_false]
          cases hp : plainInt ls with
          | error e => simp
          | ok l =>
            have := cr_tail units rng (some l)
            simp only [Http.catching, beq_iff_eq, Except.map, bind, Except.bind, pure, Except.pure] at this ⊢
            exact this
      · have hc : rangedef.contains '/' = false := by simpa using hm
        simp [hc, hm]

example : Gen.PyFns_Http.quote_header_value "a\"b".toList true = "\"a\\\"b\"".toList := by decide

end Wz.Props.C06T
