/-
C19T2 — C19T continued: `werkzeug.serving.WSGIRequestHandler.make_environ` (up to the TLS
client-certificate lookup) *as regenerated from the source* by `tools/py2lean.py`
(`Gen/PyFns_MakeEnviron.lean`, rewritten on every check run) equals the hand-written model the C19
theorems are about (`Model/DevServer.lean` `makeEnviron`, `Model/Chunked.lean` `foldHeaders`), with no
hypothesis on the inputs: the request target split (the `//host/path` repair, `unquote`, the WSGI
encoding dance), the twelve text-valued base entries, the header loop (names with `_` dropped,
`upper().replace("-", "_")`, CRLF removed, `HTTP_` prefix, comma-joining of repeated names,
CONTENT_TYPE / CONTENT_LENGTH without prefix), the `Transfer-Encoding: chunked` test that sets
`wsgi.input_terminated`, and `HTTP_HOST` from an absolute request target. `urlsplit` / `unquote`
(urllib), the TLS flag and the addresses are parameters; non-text entries of the environ are left out.
Two C19 theorems are restated on the translated function.
Property theorems only: the proofs live in Lemmas/PyFnsEq_MakeEnviron.lean.
-/
import WzVerif.Lemmas.PyFnsEq_MakeEnviron
namespace Wz.Props.C19T2
open Wz Wz.Pre Wz.Chunked Wz.DevServer Wz.Gen.PyFns_MakeEnviron Wz.PyFnsEq.MakeEnviron

/-- `key.upper().replace("-", "_")` as computed by the prelude (`upper` = ASCII upper-casing, `replace` =
the general substring replacement) is the model's `envName`, for every header name -/
theorem replace_upper_eq_envName (k : List Char) :
    Pre.replace (Pre.upper k) ['-'] ['_'] = envName k := by
  apply PyFnsEq.MakeEnviron.replace_upper_eq_envName <;> assumption

/-- `value.replace("\r\n", "")` as computed by the prelude's general left-to-right, non-overlapping
substring replacement is the model's `dropCrlf`, for every header value -/
theorem replace_crlf_eq_dropCrlf (v : List Char) :
    Pre.replace v ['\r', '\n'] [] = dropCrlf v := by
  apply PyFnsEq.MakeEnviron.replace_crlf_eq_dropCrlf <;> assumption

/-- **one iteration**: on an environ that consists of a header-free block `base` (no key starts with
`HTTP_`, none is `CONTENT_TYPE` / `CONTENT_LENGTH`; its keys need not even be distinct) followed by header
entries `e` with distinct keys, one iteration of the loop of the Python code leaves `base` untouched and
does to `e` exactly what the model's `foldHeader` does - skip on `_`, `CONTENT_*` overwritten, `HTTP_*`
comma-joined onto the previous value -/
theorem stepT_append (base e : Dict) (h : List Char × List Char) (hb : HeaderFree base) (hn : (keys e).Nodup) :
    stepT (base ++ e) h = base ++ foldHeader e h := by
  apply PyFnsEq.MakeEnviron.stepT_append <;> assumption

/-- none of the twelve base keys can be written by the header loop -/
theorem baseOf_headerFree (tls : Bool) (ra sn sp sv : List Char) (E : Environ) :
    HeaderFree (baseOf tls ra sn sp sv E) := by
  apply PyFnsEq.MakeEnviron.baseOf_headerFree <;> assumption

/-- **the header loop** `for key, value in self.headers.items():` of `make_environ`, as translated from
the current source, never returns from inside the loop and never raises - in particular the `KeyError`
arm of `environ[key]` is unreachable, the read being guarded by `key in environ` - and ends with the
environ folded by `stepT`; for every header list and every starting environ, whatever the other
parameters are -/
theorem loop1_eq_foldl urlsplit unquote tls ra sn sp sv headers (hs : List (List Char × List Char)) (environ : Dict) :
    make_environ.loop1 urlsplit unquote tls ra sn sp sv headers hs environ = .fall (hs.foldl stepT environ) := by
  apply PyFnsEq.MakeEnviron.loop1_eq_foldl <;> assumption

/-- **the header loop against the model's**: started on any dict `base` none of whose keys starts with
`HTTP_` or is `CONTENT_TYPE` / `CONTENT_LENGTH` (as the twelve base entries: `baseEntries_headerFree`), the
translated loop ends, without returning or raising, with `base` unchanged followed by exactly the entries
the model's `foldHeaders` computes from the empty env, in the same order -/
theorem loop1_from_base urlsplit unquote tls ra sn sp sv headers (hs : List (List Char × List Char)) (base : Dict)
    (hb : HeaderFree base) :
    make_environ.loop1 urlsplit unquote tls ra sn sp sv headers hs base = .fall (base ++ foldHeaders hs) := by
  apply PyFnsEq.MakeEnviron.loop1_from_base <;> assumption

/-- **`make_environ`, as translated from the current source, is the model's `makeEnviron`.** With
`urlsplit` / `unquote` instantiated by the model's (`urlsplitOf`, `unquoteOf`), for every TLS flag, peer
address, server name / port / version, header list, request target, method and protocol version:
when the model answers `none` (urlsplit refuses the target) the translated function raises `ValueError`
from its first statement; otherwise it does not raise and answers the dict that consists of the twelve
base entries - written with the model's `method`, `pathInfo`, `query`, `rawUri`, `protocol` - followed by
exactly the model's header env `E.headers` in the same order (`HTTP_HOST` overridden by the authority of
an absolute-form target), together with the model's `terminated` flag. No hypothesis on the inputs. -/
theorem make_environ_eq (tls : Bool) (ra sn sp sv : List Char) (headers : List (List Char × List Char))
    (path command version : List Char) :
    make_environ urlsplitOf unquoteOf tls ra sn sp sv headers path command version =
      match makeEnviron command path version headers with
      | none => .error "ValueError"
      | some E => .ok (baseOf tls ra sn sp sv E ++ E.headers, E.terminated) := by
  apply PyFnsEq.MakeEnviron.make_environ_eq <;> assumption

/-- **the only exception of the translated part of `make_environ` is the one `urlsplit` raises**, for
arbitrary `urlsplit` / `unquote` collaborators and all other inputs: the function raises `e` exactly when
`urlsplit(self.path)` raises `e`; neither `environ[key]` in the header loop nor anything else can raise -/
theorem make_environ_error_iff
    (us : List Char → Except String (List Char × List Char × List Char × List Char)) (uq : List Char → List Char)
    (tls : Bool) (ra sn sp sv : List Char) (headers : List (List Char × List Char))
    (path command version : List Char) (e : String) :
    make_environ us uq tls ra sn sp sv headers path command version = .error e ↔ us path = .error e := by
  apply PyFnsEq.MakeEnviron.make_environ_error_iff <;> assumption

/-- **what an application reads from the translated environ is what the model says**: when the model
answers `E`, the translated function answers a dict `d` (and the flag `E.terminated`) in which
`d.get("REQUEST_METHOD")`, `PATH_INFO`, `QUERY_STRING`, `SERVER_PROTOCOL`, `REQUEST_URI`, `RAW_URI` are the
model's `method`, `pathInfo`, `query`, `protocol`, `rawUri`, `rawUri`, and for every key that starts with
`HTTP_` or is `CONTENT_TYPE` / `CONTENT_LENGTH`, `d.get(key)` is the lookup in the model's header env -/
theorem make_environ_reads (tls : Bool) (ra sn sp sv : List Char) (headers : List (List Char × List Char))
    (path command version : List Char) (E : Environ)
    (h : makeEnviron command path version headers = some E) :
    ∃ d, make_environ urlsplitOf unquoteOf tls ra sn sp sv headers path command version = .ok (d, E.terminated) ∧
      Pre.dictGet? d "REQUEST_METHOD".toList = some E.method ∧
      Pre.dictGet? d "PATH_INFO".toList = some E.pathInfo ∧
      Pre.dictGet? d "QUERY_STRING".toList = some E.query ∧
      Pre.dictGet? d "SERVER_PROTOCOL".toList = some E.protocol ∧
      Pre.dictGet? d "REQUEST_URI".toList = some E.rawUri ∧
      Pre.dictGet? d "RAW_URI".toList = some E.rawUri ∧
      (∀ k, isHeaderKey k = true → Pre.dictGet? d k = Env.get E.headers k) := by
  apply PyFnsEq.MakeEnviron.make_environ_reads <;> assumption

/-- C19 **chunked_sets_terminated** on the translated function: whenever the regenerated
`make_environ` returns, `wsgi.input_terminated` is set exactly when the folded `Transfer-Encoding` value,
stripped and lower-cased, is `chunked`; a single dash-named `Transfer-Encoding: chunked` header (any
letter case) sets it, no such header leaves it unset -/
theorem chunked_sets_terminated_translated (tls : Bool) (ra sn sp sv : List Char)
    (headers : List (List Char × List Char)) (path command version : List Char) (d : Dict) (t : Bool)
    (h : make_environ urlsplitOf unquoteOf tls ra sn sp sv headers path command version = .ok (d, t)) :
    (t = isChunkedRequest (foldHeaders headers)) ∧
    (∀ v, valuesFor "TRANSFER_ENCODING".toList headers = [v] → lowerStr (Py.strip v) = "chunked".toList →
      t = true) ∧
    (valuesFor "TRANSFER_ENCODING".toList headers = [] → t = false) := by
  apply PyFnsEq.MakeEnviron.chunked_sets_terminated_translated <;> assumption

/-- C19 **header_folding** on the translated function: whenever the regenerated `make_environ` returns
the dict `d`, then for every environ name `k` other than `CONTENT_TYPE` / `CONTENT_LENGTH` / `HOST`
(`HTTP_HOST` may be overridden by an absolute-form target), `d.get("HTTP_" + k)` is absent when no
dash-named header maps to `k`, and otherwise the first such value followed by `"," + value` for each
later one (values with `\r\n` removed) -/
theorem header_folding_translated (tls : Bool) (ra sn sp sv : List Char)
    (headers : List (List Char × List Char)) (path command version : List Char) (d : Dict) (t : Bool)
    (h : make_environ urlsplitOf unquoteOf tls ra sn sp sv headers path command version = .ok (d, t))
    (k : List Char) (hk : isContentKey k = false) (hh : k ≠ "HOST".toList) :
    Pre.dictGet? d ("HTTP_".toList ++ k) =
      match valuesFor k headers with
      | [] => none
      | v :: vs => some (v ++ vs.flatMap (fun x => ',' :: x)) := by
  apply PyFnsEq.MakeEnviron.header_folding_translated <;> assumption


end Wz.Props.C19T2
