/-
C06T2 — C06T continued: `parse_dict_header`, `parse_cache_control_header`, `parse_csp_header`,
`dump_csp_header` of `werkzeug.http` *as regenerated from the source* by `tools/py2lean.py`
(`Gen/PyFns_HttpDict.lean`, rewritten on every check run) are equal, for all inputs, to the
hand-written model functions of `Model/Http.lean` that the C06 / C16 round-trip theorems are about;
and C06's dict / option / CSP round trips restated on the translated pairs.
Property theorems only: the proofs live in Lemmas/PyFnsEq_HttpDict.lean (which builds on Props/C06T).
-/
import WzVerif.Props.C06T
import WzVerif.Lemmas.PyFnsEq_HttpDict
import WzVerif.Lemmas.HttpCsp
import WzVerif.Lemmas.PyFnsEq_Etag
import WzVerif.Lemmas.PyFnsEq_HttpOptions
import WzVerif.Lemmas.HttpOpt3
namespace Wz.Props.C06T2
open Wz Wz.Pre Wz.PyFnsHttp Wz.PyFnsEq.HttpDict

/-- The `for item in parse_list_header(value)` loop of `parse_dict_header`, as translated from the
current source (`item.partition("=")`, the two `continue`s, `key[-1] == "*"`, `key[:-1]`,
`_charset_value_re.match`, `encoding.lower()`, the guarded `unquote(value, encoding=encoding)`, the
quote-stripping idiom, `result[key] = value`), against the model's own fold `Http.dictStep`: the
loop falls through with the model's dict (the re-assigned parameter `value` is dead afterwards),
for every list of items, every incoming `value` and every dict. -/
theorem parse_dict_header_loop_eq (items : List (List Char)) (value : List Char) (result : List (List Char × Option (List Char))) :
    ∃ value', Gen.PyFns_HttpDict.parse_dict_header.loop1 items value result =
      match items.foldlM Http.dictStep result with
      | .ok r => .fall (value', r)
      | .error e => .ret (.error e) :=
  PyFnsEq.HttpDict.parse_dict_header_loop_eq items value result

/-- `parse_dict_header(value)`, as translated from the current source (`parse_list_header` - itself
translated -, then the loop above; a Python dict is its item list in insertion order), equals the
model's `parseDictHeader` for every text. -/
theorem parse_dict_header_eq (v : List Char) :
    Gen.PyFns_HttpDict.parse_dict_header v = Http.parseDictHeader v :=
  PyFnsEq.HttpDict.parse_dict_header_eq v

/-- `parse_dict_header` never raises on a `str`: no IndexError from `key[-1]` / `value[0]` /
`value[-1]`, and `unquote()` is only reached with one of the four encodings behind the guard. -/
theorem parse_dict_header_total (v : List Char) :
    ∃ d, Gen.PyFns_HttpDict.parse_dict_header v = .ok d :=
  ⟨_, PyFnsEq.HttpDict.parse_dict_header_ok v⟩

/-- C06 `parseDict_dump` on the translated pair: parsing what the regenerated `dump_header` printed
for a dict gives the dict back, for every dict with distinct non-empty token keys without `*`. -/
theorem parse_dict_dump_translated (d : Http.Dict (Option (List Char)))
    (hk : ∀ x ∈ d, Http.KeyOk x.1 = true) (hnd : (d.map (·.1)).Nodup) :
    (Gen.PyFns_Http.dump_header_dict d >>= Gen.PyFns_HttpDict.parse_dict_header) = .ok d := by
  have h := Http.parseDict_dump_any d hk hnd
  rw [C06T.dump_header_dict_eq]
  have : Gen.PyFns_HttpDict.parse_dict_header = Http.parseDictHeader := funext parse_dict_header_eq
  rw [this]; exact h

/-- `parse_cache_control_header(value)`, as translated from the current source (a missing or empty
value gives the empty object, anything else `cls(parse_dict_header(value))`; the result is the dict
handed to the constructor), equals the model's `parseCacheControl` for every value including `None`. -/
theorem parse_cache_control_header_eq (value : Option (List Char)) :
    Gen.PyFns_HttpDict.parse_cache_control_header value () () =
      match value with
      | none => .ok []
      | some v => Http.parseCacheControl v :=
  PyFnsEq.HttpDict.parse_cache_control_header_eq value

/-- The `for policy in value.split(";")` loop of `parse_csp_header`, as translated from the current
source: never raises (`split(" ", 1)` is only reached when a space occurs), appends the stripped
`(directive, value)` pair of every policy that contains a space. -/
theorem parse_csp_header_loop_eq (ps : List (List Char)) : ∀ (items : List (List Char × List Char)) (value : List Char),
    Gen.PyFns_HttpDict.parse_csp_header.loop1 ps items value
      = .fall (items ++ ps.filterMap cspItem, ps.foldl cspValue value) :=
  PyFnsEq.HttpDict.parse_csp_header_loop_eq ps

/-- `parse_csp_header(value)`, as translated from the current source (the result is the item list
handed to the `ContentSecurityPolicy` constructor): never raises, and the dict built from the items
is exactly the model's `parseCsp`, for every text; `None` gives the empty policy. -/
theorem parse_csp_header_eq (v : List Char) :
    (Gen.PyFns_HttpDict.parse_csp_header (some v) () ()).map dictOf = .ok (Http.parseCsp v) ∧
    Gen.PyFns_HttpDict.parse_csp_header none () () = .ok [] :=
  ⟨PyFnsEq.HttpDict.parse_csp_header_eq v, PyFnsEq.HttpDict.parse_csp_header_none⟩

/-- `dump_csp_header(header)`, as translated from the current source, prints exactly the model's
`dumpCsp`, for every policy dict. -/
theorem dump_csp_header_eq (d : List (List Char × List Char)) :
    Gen.PyFns_HttpDict.dump_csp_header d = Http.dumpCsp d :=
  PyFnsEq.HttpDict.dump_csp_header_eq d

/-! ### entity tag lists (`Gen/PyFns_Etag.lean`) -/

/-- `ETags.to_header()`, as translated from the current source (`"*"` for the wildcard object, else
every strong tag as `"tag"`, then every weak tag as `W/"tag"`, joined with `", "`), prints exactly
what C06's model `etagsToHeader` prints for the same elements in the same iteration order. -/
theorem etags_to_header_eq (s w : List (List Char)) (star : Bool) :
    Gen.PyFns_Etag.etags_to_header s w star = Http.etagsToHeader ⟨s.map some, w.map some, star⟩ :=
  PyFnsEq.Etag.etags_to_header_eq s w star

/-- `parse_etags(value)`, as translated from the current source of `werkzeug/http.py` (a `while`
loop, translated with explicit fuel: one unit per iteration; `_etag_re.match(value, pos)` is C06's
regex model; the `ETags` constructor is translated too), for every header text without a line feed
and every amount of fuel `≥ len(value) + 1`: the function terminates normally and returns exactly
`ETags(strong, weak, star_tag)` for the lists and the flag that C06's model `Http.parseEtags`
computes (`objOfHttp`: the constructor's `frozenset` applied). `None` gives the empty object. -/
theorem parse_etags_eq (fuel : Nat) (v : List Char) (hlf : '\n' ∉ v) (hf : v.length + 1 ≤ fuel) :
    Gen.PyFns_Etag.parse_etags fuel (some v) = .ok (PyFnsEq.Etag.objOfHttp (Http.parseEtags v)) ∧
    Gen.PyFns_Etag.parse_etags fuel none = .ok ([], [], false) :=
  ⟨PyFnsEq.Etag.parse_etags_eq fuel v hlf hf, PyFnsEq.Etag.parse_etags_none fuel⟩

example : '\n' ∉ "\"a\", W/\"b\"".toList ∧ "\"a\", W/\"b\"".toList.length + 1 ≤ 20 := by decide

/-- Why `parse_etags_eq` excludes line feeds: on `"a\n"` the translated loop exhausts every amount
of fuel - and the real `werkzeug.http.parse_etags("a\n")` does not return either
(`_etag_re.match("a\n", 1)` matches the empty text before the final LF: `pos` never advances while
`strong` grows; replayed on CPython). A header value that reaches the function through WSGI cannot
contain a bare LF; a direct caller can pass one. -/
theorem parse_etags_lf_spins (fuel : Nat) :
    Gen.PyFns_Etag.parse_etags fuel (some ['a', '\n']) = .error "py2lean: out of fuel" :=
  PyFnsEq.Etag.parse_etags_lf_spins fuel

/-! ### option headers: `parse_options_header` (`Gen/PyFns_HttpOptions.lean`; proofs in Lemmas/PyFnsEq_HttpOptions.lean) -/
section options
open Wz.Gen.PyFns_HttpOptions Wz.PyFnsEq.HttpOptions

/-- The inner `while pos < length:` loop of `parse_options_header` (the search for the closing quote
of a quoted parameter value), as translated from the current source (`rest[pos : pos + 2] in
{"\\\\", '\\"'}` skips an escaped backslash or quote as a pair, `rest[pos] == '"'` appends
`(pk, rest[: pos + 1])`, cuts `rest = rest[pos + 1 :]` and `break`s, anything else advances by one),
started at the position of any split `rest = acc.reverse ++ suf` of the text, with more fuel than
`suf` has characters: it never leaves the function (no `IndexError` from `rest[pos]`, no
"out of fuel") and falls through with exactly what C06's model scanner `Http.scanQuoted suf acc`
finds - the quoted text including both quotes as a new part and the text after the closing quote as
the new `rest`, or `parts` and `rest` untouched when there is no closing quote. (The final value of
`pos` is not used by the function.) -/
theorem parse_options_header_loop2_eq (pk : Str) (parts : List (Str × Str)) (suf acc : Str) :
    ∀ (fuel : Nat) (rest : Str), suf.length < fuel → rest = acc.reverse ++ suf →
    ∃ p : Int, parse_options_header.loop2 pk (rest.length : Int) fuel (acc.length : Int) parts rest
      = .fall (p, quotedOut pk parts rest (Http.scanQuoted suf acc)) := by
  apply PyFnsEq.HttpOptions.loop2_eq <;> assumption

/-- The outer `while True:` scanner loop of `parse_options_header`, as translated from the current
source, started on any text `rest` with any list `parts` and more fuel than `rest` has characters:
it never returns from the function and never runs out of fuel - neither itself nor the nested
quoted-string loop, which gets the fuel the outer loop has left and needs fewer iterations than
`rest` has characters - and falls through with `parts` extended by exactly the raw `(key, value)`
parts the model scanner `Http.optScan` collects. Every turn consumes at least one character (the
`;`), which is why `len(rest) + 1` units of fuel suffice. -/
theorem parse_options_header_loop1_eq : ∀ (fuel : Nat) (rest : Str) (parts : List (Str × Str)), rest.length < fuel →
    ∃ rest', parse_options_header.loop1 fuel rest parts = .fall (rest', parts ++ Http.optScan fuel rest []) := by
  apply PyFnsEq.HttpOptions.loop1_eq <;> assumption

/-- The `for pk, pv in parts:` loop of `parse_options_header`, as translated from the current source,
for every list of parts and every state (`options`, `encoding`, `continued_encoding`): it ends with
exactly the state the model's fold `foldlM Http.optFold` reaches, or leaves the function with the
model's error (`IndexError` for an empty key or value - which the scanner never produces, see C07's
`parseOptions_total_safe`). -/
theorem parse_options_header_loop3_eq (parts : List (Str × Str)) : ∀ st : Http.OptState,
    parse_options_header.loop3 parts st.encoding st.continued st.options =
      match parts.foldlM Http.optFold st with
      | .ok st' => .fall (st'.encoding, st'.continued, st'.options)
      | .error e => .ret (.error e) := by
  apply PyFnsEq.HttpOptions.loop3_eq <;> assumption

/-- `parse_options_header(None)` is `("", {})`; no fuel is used. -/
theorem parse_options_header_none (fuel : Nat) :
    parse_options_header fuel none = .ok ([], []) := by
  apply PyFnsEq.HttpOptions.parse_options_header_none <;> assumption

/-- `parse_options_header(value)` equals the model with the sharp fuel bound: more fuel than the
stripped text after the first `;` (`optRest value`) has characters - and no fuel at all when that
text is empty (the function returns before its loops). -/
theorem parse_options_header_eq_of_rest (fuel : Nat) (v : List Char)
    (hf : optRest v ≠ [] → (optRest v).length < fuel) :
    parse_options_header fuel (some v) = Http.parseOptionsHeader v := by
  apply PyFnsEq.HttpOptions.parse_options_header_eq_of_rest <;> assumption

/-- **`parse_options_header(value)`**, as translated from the current source of `werkzeug/http.py`
(`value.partition(";")`, the two `strip`s, the early `return value, {}`, the `while True` scanner
with its nested quoted-string loop, the `for pk, pv in parts` pass with RFC 2231 charsets and
continuations, `return value, options`), for every header text `value` and every amount of fuel
`≥ len(value)`: the marker error "py2lean: out of fuel" does not occur - the real loops terminate -,
and the function returns exactly what C06's model `Http.parseOptionsHeader` returns: the same main
value, the same options in the same insertion order, and (in principle) the same errors. All C06 /
C07 theorems about `Http.parseOptionsHeader` (`options_roundtrip`, `parseOptions_total_safe`,
`parseOptions_scanner_terminates`, `parseOptions_keys_nonempty`) therefore speak about the current
source. -/
theorem parse_options_header_eq (fuel : Nat) (v : List Char) (hf : v.length ≤ fuel) :
    parse_options_header fuel (some v) = Http.parseOptionsHeader v := by
  apply PyFnsEq.HttpOptions.parse_options_header_eq <;> assumption

/-- `parse_options_header` never raises on a `str` (C07's totality theorem, transported to the
translated source). -/
theorem parse_options_header_ok (fuel : Nat) (v : List Char) (hf : v.length ≤ fuel) :
    ∃ r, parse_options_header fuel (some v) = .ok r := by
  apply PyFnsEq.HttpOptions.parse_options_header_ok <;> assumption


/-- C06 `parseOptions_dump` on the translated pair: parsing what the regenerated `dump_options_header`
printed gives header and options back (fuel = the length of the header text). -/
theorem parse_options_dump_translated (h : List Char) (opts : List (List Char × List Char)) (hh : Http.HdrOk h = true)
    (hk : ∀ x ∈ opts, Http.OptKeyOk x.1 = true) (hv : ∀ x ∈ opts, Http.hasPct22 x.2 = false)
    (hnd : (opts.map (·.1)).Nodup) :
    (Gen.PyFns_Http.dump_options_header (some h) (opts.map fun kv => (kv.1, some kv.2)) >>= fun t =>
      parse_options_header t.length (some t)) = .ok (h, opts) := by
  have key := Http.parseOptions_dump_any h opts hh hk hv hnd
  rw [C06T.dump_options_header_eq]
  cases hd : Http.dumpOptionsHeader (some h) (opts.map fun kv => (kv.1, some kv.2)) with
  | error e => rw [hd] at key; simp [bind, Except.bind] at key
  | ok t =>
    rw [hd] at key
    simp only [bind, Except.bind] at key ⊢
    rw [PyFnsEq.HttpOptions.parse_options_header_eq t.length t (Nat.le_refl _)]
    exact key

end options

example : Gen.PyFns_HttpDict.parse_dict_header "a=b, c=\"d, e\", f".toList
    = .ok [("a".toList, some "b".toList), ("c".toList, some "d, e".toList), ("f".toList, none)] := by decide

end Wz.Props.C06T2
