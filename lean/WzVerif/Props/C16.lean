/-
C16 — live views of response headers never drift from the header text.
Property theorems only (helper lemmas: Lemmas/Views.lean, Lemmas/ViewsCodec.lean; model:
Model/Views.lean on top of the C06 codecs of Model/Http.lean).

Every view family is an instance of `C16L.Family`: getter (`load`), `on_update` writer (`write`),
view mutators reporting whether they notified. The coherence statement has the two parts of the
property:
  (i)  along EVERY history of view mutators, re-fetches and arbitrary header edits (direct edits,
       whole-property assignments, deletions), whenever the held view is in sync with the headers
       (fetched, or just written back, and no header edit since) re-reading the property gives the
       held view;
  (ii) an effective view mutation rewrites the header from the new view: its text is the view's
       serialisation, or the header is absent when the view became empty.
The side conditions of a history (`okHistGood`) are explicit *domain* predicates on the views that
are written back (`setGood`, `dictGood`, `cspGood`, `crGood`, `authGood`, `mpGood`: token keys,
values without CR/LF, valid ranges, …); the codec round trip itself is no longer assumed — it is
the C06 theorem for that codec. Each restriction is shown necessary by a witness (`*_needs_*`).
-/
import WzVerif.Lemmas.ViewsCodec
namespace Wz.Props.C16
open Wz Hdr Views Wz.C16L

/-! ## the view families -/

def setFamily (name : Str) : Family HS.St HS.Op :=
  ⟨fun h => SetView.load h name, id, fun h c => SetView.write h name c,
   fun c op => ((HS.step c op).st, (HS.step c op).notified)⟩

def ccFamily : Family ODict CC.Op :=
  ⟨CC.load, id, fun h d => (CC.write h d).1, fun d op => ((CC.step d op).st, (CC.step d op).notified)⟩

def cspFamily (name writeName : Str) : Family CSP.St CSP.Op :=
  ⟨fun h => CSP.load h name, id, fun h d => CSP.write h name writeName d,
   fun d op => ((CSP.step d op).st, (CSP.step d op).notified)⟩

def crFamily : Family CR.St CR.Op :=
  ⟨CR.load, fun h => (CR.fetch h).2, fun h c => (CR.write h c).1,
   fun c op => ((CR.step c op).st, (CR.step c op).notified)⟩

def authFamily : Family Auth.St Auth.Op :=
  ⟨Auth.load, id, fun h c => (Auth.write h c).1, fun c op => ((Auth.step c op).st, (Auth.step c op).notified)⟩

def mpFamily : Family MP.St (DOp Str) :=
  ⟨MP.load, id, fun h d => (MP.write h d).1, fun d op => ((dstep d op).st, (dstep d op).notified)⟩

def anyView {σ : Type} : σ → Bool := fun _ => true
def anyOp {σ ο : Type} : σ → ο → Bool := fun _ _ => true

/-! ## (i) coherence along every history -/

/-- Vary / Allow / Content-Language, members of ANY text (Unicode, quotes, commas, …) without
CR/LF: for every history, under `HeaderSet.Inv` of the fetched views and non-colliding item
assignments (`hsOk`; F08b / F08c otherwise), the held view equals the re-read property whenever it
is in sync, and the invariant is kept. The codec round trip is `parseSet_dump` (C06). -/
theorem view_coherent_set (name : Str) (evs : List (Ev HS.Op)) (s : S HS.St)
    (hI : HS.Inv s.v) (hs : s.synced = true → hsEq (SetView.load s.h name) s.v = true)
    (hok : okHistGood (setFamily name) hsEq (fun c => decide (HS.Inv c)) C08L.hsOk (fun _ c => setGood c) s evs = true) :
    HS.Inv (run (setFamily name) s evs).v ∧
    ((run (setFamily name) s evs).synced = true →
      hsEq (SetView.load (run (setFamily name) s evs).h name) (run (setFamily name) s evs).v = true) := by
  have hstep : ∀ v op, decide (HS.Inv v) = true → C08L.hsOk v op = true →
      decide (HS.Inv ((setFamily name).vstep v op).1) = true := by
    intro v op hv ha
    simp only [decide_eq_true_eq] at hv ⊢
    exact C08L.hs_inv_preserved v hv op ha
  have hok' := okHist_of_good (setFamily name) hsEq (fun c => decide (HS.Inv c)) C08L.hsOk (fun _ c => setGood c)
    hstep (fun h v hv hg => set_roundtrip h name v (by simpa using hv) hg) evs s (by simpa using hI) hok
  have := coherent (setFamily name) hsEq (fun c => decide (HS.Inv c)) C08L.hsOk hstep
    (fun v op hv _ hq => by
      simp only [decide_eq_true_eq] at hv
      exact hs_quiet v hv op hq)
    evs s (by simpa using hI) hs hok'
  exact ⟨by simpa using this.1, this.2⟩

example : okHistGood (setFamily "Vary".toList) hsEq (fun c => decide (HS.Inv c)) C08L.hsOk (fun _ c => setGood c)
    ⟨[("Vary".toList, "Cookie".toList)], SetView.load [("Vary".toList, "Cookie".toList)] "Vary".toList, true⟩
    [.view (.remove "cookie".toList), .view (.add "Accept".toList), .edit (fun h => (Hdr.add h "X".toList "1".toList).1),
     .view (.update ["a, \"b\\".toList, "ACCEPT".toList, "é ü".toList]), .refetch, .view (.setitem 0 "Origin".toList),
     .view (.discard "x-foo".toList), .view .clear] = true := by
  decide +kernel

/-- the restriction is needed: a member with a line break is refused by `Headers.set`, the header
keeps its old text and the view drifts -/
theorem set_needs_no_newline :
    hsEq (SetView.load (SetView.write [] "Vary".toList (HS.construct ["a\nb".toList])) "Vary".toList)
      (HS.construct ["a\nb".toList]) = false := by
  decide +kernel

/-- cache_control: every typed directive assignment / deletion and every dict mutator; written
views have distinct non-empty token keys without `*` and values without CR/LF (`dictGood`).
Round trip: `parseDict_dump` (C06). -/
theorem view_coherent_cc (evs : List (Ev CC.Op)) (s : S ODict)
    (hs : s.synced = true → CC.load s.h = s.v)
    (hok : okHistGood ccFamily eqB anyView anyOp (fun _ d => dictGood d) s evs = true) :
    (run ccFamily s evs).synced = true → CC.load (run ccFamily s evs).h = (run ccFamily s evs).v := by
  have hok' := okHist_of_good ccFamily eqB anyView anyOp (fun _ d => dictGood d) (fun _ _ _ _ => rfl)
    (fun h v _ hg => (eqB_iff _ _).2 (cc_roundtrip h v hg)) evs s rfl hok
  exact fun hsy => (eqB_iff _ _).1 ((coherent ccFamily eqB anyView anyOp (fun _ _ _ _ => rfl)
    (fun v op _ _ hq => cc_quiet v op hq) evs s rfl (fun h => (eqB_iff _ _).2 (hs h)) hok').2 hsy)

example : okHistGood ccFamily eqB anyView anyOp (fun _ d => dictGood d) ⟨[], CC.load [], true⟩
    [.view (.attr "max-age".toList .int (.int 3600)), .view (.attr "no-store".toList .bool (.bool true)),
     .view (.attr "private".toList .str (.str "a, \"b\" é".toList)), .view (.delattr "no-store".toList),
     .edit (fun h => (Hdr.set h "Cache-Control".toList "public".toList).1), .refetch,
     .view (.dict (.pop "public".toList none))] = true := by
  decide +kernel

/-- each restriction of `dictGood` is needed: a key that is not a token, a key ending in `*`, an
empty key (`dump_header` raises IndexError), a value with a line break -/
theorem cc_needs_domain :
    CC.load (CC.write [] [("a,b".toList, none)]).1 ≠ [("a,b".toList, none)] ∧
    CC.load (CC.write [] [("k*".toList, some "v".toList)]).1 ≠ [("k*".toList, some "v".toList)] ∧
    (CC.write [] [([], some "v".toList)]).2 = .error "IndexError" ∧
    CC.load (CC.write [] [("k".toList, some "a\nb".toList)]).1 ≠ [("k".toList, some "a\nb".toList)] := by
  refine ⟨by decide +kernel, by decide +kernel, by rfl, by decide +kernel⟩

/-- content_security_policy / content_security_policy_report_only; written views are in the domain
of `csp_roundtrip` (C06): stripped directives without space / `;`, stripped non-empty values without
`;`, no CR/LF -/
theorem view_coherent_csp (name writeName : Str) (hk : lower name = lower writeName)
    (evs : List (Ev CSP.Op)) (s : S CSP.St) (hs : s.synced = true → CSP.load s.h name = s.v)
    (hok : okHistGood (cspFamily name writeName) eqB anyView anyOp (fun _ d => cspGood d) s evs = true) :
    (run (cspFamily name writeName) s evs).synced = true →
      CSP.load (run (cspFamily name writeName) s evs).h name = (run (cspFamily name writeName) s evs).v := by
  have hok' := okHist_of_good (cspFamily name writeName) eqB anyView anyOp (fun _ d => cspGood d) (fun _ _ _ _ => rfl)
    (fun h v _ hg => (eqB_iff _ _).2 (C16L.csp_roundtrip h name writeName hk v hg)) evs s rfl hok
  exact fun hsy => (eqB_iff _ _).1 ((coherent (cspFamily name writeName) eqB anyView anyOp (fun _ _ _ _ => rfl)
    (fun v op _ _ hq => csp_quiet v op hq) evs s rfl (fun h => (eqB_iff _ _).2 (hs h)) hok').2 hsy)

example : lower "content-security-policy-report-only".toList = lower "Content-Security-policy-report-only".toList := by
  decide

example : okHistGood (cspFamily "content-security-policy".toList "Content-Security-Policy".toList) eqB anyView anyOp
    (fun _ d => cspGood d) ⟨[], [], true⟩
    [.view (.attr "default-src".toList (some "'self'".toList)), .view (.attr "img-src".toList (some "* data:".toList)),
     .view (.delattr "default-src".toList), .refetch, .view (.dict .clear)] = true := by
  decide +kernel

/-- the restrictions of `cspGood` are needed: `;` in a value, a space in a directive, an empty value -/
theorem csp_needs_domain :
    CSP.load (CSP.write [] "csp".toList "csp".toList [("a".toList, "x; y".toList)]) "csp".toList ≠ [("a".toList, "x; y".toList)] ∧
    CSP.load (CSP.write [] "csp".toList "csp".toList [("a b".toList, "x".toList)]) "csp".toList ≠ [("a b".toList, "x".toList)] ∧
    CSP.load (CSP.write [] "csp".toList "csp".toList [("sandbox".toList, [])]) "csp".toList ≠ [("sandbox".toList, [])] := by
  decide +kernel

/-- content_range (reading the property rewrites the header: `refetchH`); written views are unset
or valid for `is_byte_range_valid` with units free of white space (`contentRange_roundtrip`, C06) -/
theorem view_coherent_cr (evs : List (Ev CR.Op)) (s : S CR.St)
    (hs : s.synced = true → CR.load s.h = s.v)
    (hok : okHistGood crFamily eqB anyView anyOp (fun _ c => crGood c) s evs = true) :
    (run crFamily s evs).synced = true → CR.load (run crFamily s evs).h = (run crFamily s evs).v := by
  have hok' := okHist_of_good crFamily eqB anyView anyOp (fun _ c => crGood c) (fun _ _ _ _ => rfl)
    (fun h v _ hg => (eqB_iff _ _).2 (cr_roundtrip h v hg)) evs s rfl hok
  exact fun hsy => (eqB_iff _ _).1 ((coherent crFamily eqB anyView anyOp (fun _ _ _ _ => rfl)
    (fun v op _ _ hq => cr_quiet v op hq) evs s rfl (fun h => (eqB_iff _ _).2 (hs h)) hok').2 hsy)

example : okHistGood crFamily eqB anyView anyOp (fun _ c => crGood c) ⟨[], CR.empty, true⟩
    [.view (.set (some 0) (some 10) (some 100) (some "bytes".toList)), .view (.setLength none), .refetch,
     .view (.set (some 5) (some 2) none (some "bytes".toList)), .view .unset,
     .view (.set none none (some 0) (some "bytes".toList)), .refetch, .view (.setLength (some 7)),
     .view (.setLength (some 0)), .edit (fun h => (Hdr.set h "Content-Range".toList "items */0".toList).1), .refetch,
     .view (.setUnits (some "bytes".toList))] = true := by
  decide +kernel

/-- boundary value length 0 (only valid in the unsatisfied form): it is serialised as `0`, not `*`,
read back as 0, and the written view re-reads equal — for `set(None, None, 0)`, `length = 0` and a
header `bytes */0` read through the property -/
theorem cr_length_zero :
    (CR.toHeader ⟨some "bytes".toList, none, none, some 0⟩).toOption = some "bytes */0".toList ∧
    CR.parse "bytes */0".toList = some ⟨some "bytes".toList, none, none, some 0⟩ ∧
    CR.parse "bytes */*".toList = some ⟨some "bytes".toList, none, none, none⟩ ∧
    CR.load (CR.write [] ⟨some "bytes".toList, none, none, some 0⟩).1 = ⟨some "bytes".toList, none, none, some 0⟩ ∧
    (CR.step ⟨some "bytes".toList, none, none, some 7⟩ (.setLength (some 0))).st = ⟨some "bytes".toList, none, none, some 0⟩ ∧
    (CR.step CR.empty (.set none none (some 0) (some "bytes".toList))).st = ⟨some "bytes".toList, none, none, some 0⟩ ∧
    CR.valid (some 0) (some 1) (some 0) = false ∧
    crGood ⟨some "bytes".toList, none, none, some 0⟩ = true := by
  decide +kernel

/-- the restrictions of `crGood` are needed: an invalid combination (F16d: `stop` without `start`),
units containing white space, an unset range that still carries a length -/
theorem cr_needs_domain :
    CR.load (CR.write [] ⟨some "bytes".toList, none, some 10, none⟩).1 ≠ ⟨some "bytes".toList, none, some 10, none⟩ ∧
    CR.load (CR.write [] ⟨some "my units".toList, none, none, none⟩).1 ≠ ⟨some "my units".toList, none, none, none⟩ ∧
    CR.load (CR.write [] ⟨none, none, none, some 5⟩).1 ≠ ⟨none, none, none, some 5⟩ := by
  decide +kernel

/-- www_authenticate (as repaired: `type`, `token`, `parameters` reach their setters, `type` is
lower-cased); written views are in `authGood`: a token challenge without parameters or a parameter
challenge without token, scheme other than `digest` for parameters (round trips: the C06 lemmas
`authRest_token` / `authRest_params` behind `token_auth_roundtrip` / `www_param_roundtrip`; unlike
C06's `SchemeOk` the scheme `basic` is allowed here — it is only special for `Authorization`) -/
theorem view_coherent_auth (evs : List (Ev Auth.Op)) (s : S Auth.St)
    (hs : s.synced = true → Auth.load s.h = s.v)
    (hok : okHistGood authFamily eqB anyView anyOp (fun _ c => authGood c) s evs = true) :
    (run authFamily s evs).synced = true → Auth.load (run authFamily s evs).h = (run authFamily s evs).v := by
  have hok' := okHist_of_good authFamily eqB anyView anyOp (fun _ c => authGood c) (fun _ _ _ _ => rfl)
    (fun h v _ hg => (eqB_iff _ _).2 (auth_roundtrip h v hg)) evs s rfl hok
  exact fun hsy => (eqB_iff _ _).1 ((coherent authFamily eqB anyView anyOp (fun _ _ _ _ => rfl)
    (fun v op _ _ hq => auth_quiet v op hq) evs s rfl (fun h => (eqB_iff _ _).2 (hs h)) hok').2 hsy)

example : okHistGood authFamily eqB anyView anyOp (fun _ c => authGood c) ⟨[], Auth.default, true⟩
    [.view (.setitem "realm".toList (some "login area".toList)), .view (.setType "Negotiate".toList),
     .view (.setitem "charset".toList (some "UTF-8".toList)), .view (.delitem "charset".toList), .refetch,
     .edit (fun h => (Hdr.set h "WWW-Authenticate".toList "Bearer t0k".toList).1), .refetch,
     .view (.setToken (some "other==".toList)), .view (.setType "token68".toList)] = true := by
  decide +kernel

/-- the restrictions of `authGood` are needed: F16b (neither token nor parameters), F16c (token and
parameters), a token with an inner `=`, a scheme containing a space -/
theorem auth_needs_domain :
    Auth.load (Auth.write [] Auth.default).1 ≠ Auth.default ∧
    Auth.load (Auth.write [] ⟨"basic".toList, [("realm".toList, some "x".toList)], some "xyz".toList⟩).1
      ≠ ⟨"basic".toList, [("realm".toList, some "x".toList)], some "xyz".toList⟩ ∧
    Auth.load (Auth.write [] ⟨"bearer".toList, [], some "a=b".toList⟩).1 ≠ ⟨"bearer".toList, [], some "a=b".toList⟩ ∧
    Auth.load (Auth.write [] ⟨"my scheme".toList, [], some "t".toList⟩).1 ≠ ⟨"my scheme".toList, [], some "t".toList⟩ := by
  decide +kernel

/-- F16b: the full statement "every written view re-reads equal" is false for the WWW-Authenticate
view with neither token nor parameters: it is written as `Basic ` and re-read with token `""`. -/
theorem auth_roundtrip_full_false : ¬ (∀ (h : HList) (c : Auth.St), Auth.load (Auth.write h c).1 = c) := by
  intro h
  exact absurd (h [] Auth.default) auth_needs_domain.1

/-- ... concretely `Response().www_authenticate.x = None` creates the header for an empty view -/
theorem auth_empty_view_header :
    (next authFamily ⟨[], Auth.default, true⟩ (.view (.setitem "x".toList none))).h
      = [("WWW-Authenticate".toList, "Basic ".toList)] := by
  decide +kernel

/-- mimetype_params; the Content-Type has a primary value and the written parameters are in the
domain of `parseOptions_dump` (C06): distinct lower-case token names without `*`, values without the
literal `%22` and without CR/LF (`mpGood`, which also looks at the current headers) -/
theorem view_coherent_mp (evs : List (Ev (DOp Str))) (s : S MP.St)
    (hs : s.synced = true → MP.load s.h = s.v)
    (hok : okHistGood mpFamily eqB anyView anyOp mpGood s evs = true) :
    (run mpFamily s evs).synced = true → MP.load (run mpFamily s evs).h = (run mpFamily s evs).v := by
  have hok' := okHist_of_good mpFamily eqB anyView anyOp mpGood (fun _ _ _ _ => rfl)
    (fun h v _ hg => (eqB_iff _ _).2 (mp_roundtrip h v hg)) evs s rfl hok
  exact fun hsy => (eqB_iff _ _).1 ((coherent mpFamily eqB anyView anyOp (fun _ _ _ _ => rfl)
    (fun v op _ _ hq => dstep_quiet v op hq) evs s rfl (fun h => (eqB_iff _ _).2 (hs h)) hok').2 hsy)

example : okHistGood mpFamily eqB anyView anyOp mpGood
    ⟨[("Content-Type".toList, "text/html; charset=utf-8".toList)],
     MP.load [("Content-Type".toList, "text/html; charset=utf-8".toList)], true⟩
    [.view (.setitem "charset".toList "latin-1".toList), .view (.setitem "boundary".toList "a \"b\"; c".toList),
     .view (.pop "charset".toList none), .refetch, .view .clear] = true := by
  decide +kernel

/-- the restrictions of `mpGood` are needed: F16f (no Content-Type to carry the parameters), an
upper-case parameter name (the parser lower-cases), a value containing the literal `%22` -/
theorem mp_needs_domain :
    MP.load (MP.write [] [("charset".toList, "utf-8".toList)]).1 ≠ [("charset".toList, "utf-8".toList)] ∧
    MP.load (MP.write [("Content-Type".toList, "a/b".toList)] [("Name".toList, "v".toList)]).1 ≠ [("Name".toList, "v".toList)] ∧
    MP.load (MP.write [("Content-Type".toList, "a/b".toList)] [("n".toList, "x %22y".toList)]).1 ≠ [("n".toList, "x %22y".toList)] := by
  decide +kernel

/-! ## (ii) an effective mutation rewrites the header from the view -/

/-- In every family a mutator that changes the view calls `on_update` (notification completeness:
`add` of a present member, `discard` of an absent one, deleting a missing parameter, a failing
`set` are exactly the calls that do not notify, and they leave the view unchanged). -/
theorem effective_mutation_notifies :
    (∀ (c : HS.St) (op : HS.Op), HS.Inv c → (HS.step c op).st ≠ c → (HS.step c op).notified = true) ∧
    (∀ (d : ODict) (op : CC.Op), (CC.step d op).st ≠ d → (CC.step d op).notified = true) ∧
    (∀ (d : CSP.St) (op : CSP.Op), (CSP.step d op).st ≠ d → (CSP.step d op).notified = true) ∧
    (∀ (c : CR.St) (op : CR.Op), (CR.step c op).st ≠ c → (CR.step c op).notified = true) ∧
    (∀ (c : Auth.St) (op : Auth.Op), (Auth.step c op).st ≠ c → (Auth.step c op).notified = true) ∧
    (∀ (d : MP.St) (op : DOp Str), (dstep d op).st ≠ d → (dstep d op).notified = true) := by
  refine ⟨?_, ?_, ?_, ?_, ?_, ?_⟩
  · intro c op hI hne
    cases h : (HS.step c op).notified with
    | true => rfl
    | false => exact absurd (hs_quiet c hI op h) hne
  · intro d op hne
    cases h : (CC.step d op).notified with
    | true => rfl
    | false => exact absurd (cc_quiet d op h) hne
  · intro d op hne
    cases h : (CSP.step d op).notified with
    | true => rfl
    | false => exact absurd (csp_quiet d op h) hne
  · intro c op hne
    cases h : (CR.step c op).notified with
    | true => rfl
    | false => exact absurd (cr_quiet c op h) hne
  · intro c op hne
    cases h : (Auth.step c op).notified with
    | true => rfl
    | false => exact absurd (auth_quiet c op h) hne
  · intro d op hne
    cases h : (dstep d op).notified with
    | true => rfl
    | false => exact absurd (dstep_quiet d op h) hne

/-- HeaderSet views: after `on_update` the header is absent when the view is empty, else it is the
single line `to_header()` -/
theorem view_text_set (h : HList) (name : Str) (c : HS.St) :
    (c.set.isEmpty = true → getlist (SetView.write h name c) name = []) ∧
    (c.set.isEmpty = false → setGood c = true →
      getlist (SetView.write h name c) name = [SetView.dump c]) := by
  constructor
  · intro he; simp only [SetView.write, he, if_true]; exact absent_pattern h name
  · intro he hv
    simp only [SetView.write, he, Bool.false_eq_true, if_false]
    exact set_getlist h name _ (setDump_noNL c hv)

example : setGood (HS.construct ["Cookie".toList, "Accept Encoding".toList]) = true := by decide

/-- cache_control -/
theorem view_text_cc (h : HList) (d : ODict) :
    (d.isEmpty = true → getlist (CC.write h d).1 "cache-control".toList = []) ∧
    (d.isEmpty = false → dictGood d = true → ∃ t, CC.dump d = .ok t ∧
      getlist (CC.write h d).1 "cache-control".toList = [t]) := by
  constructor
  · intro he; simp only [CC.write, he, if_true]; exact absent_pattern h _
  · intro he hg
    refine ⟨_, Http.dumpHeaderDict_ok d (dictGood_keys hg), ?_⟩
    have hd : CC.dump d = .ok (Http.join ", " (d.map Http.dictItemText)) := Http.dumpHeaderDict_ok d (dictGood_keys hg)
    simp only [CC.write, he, Bool.false_eq_true, if_false, hd, writeText_ok]
    exact set_getlist' h _ _ _ (by decide) (dictText_noNL d hg)

/-- content_security_policy (`name` is the lower-case header name used for deleting, `writeName`
the spelling used for setting) -/
theorem view_text_csp (h : HList) (name writeName : Str) (hk : lower name = lower writeName) (d : CSP.St) :
    (d.isEmpty = true → getlist (CSP.write h name writeName d) name = []) ∧
    (d.isEmpty = false → cspGood d = true →
      getlist (CSP.write h name writeName d) name = [CSP.dump d]) := by
  constructor
  · intro he; simp only [CSP.write, he, if_true]; exact delKey_getlist h name
  · intro he hv
    simp only [CSP.write, he, Bool.false_eq_true, if_false]
    exact set_getlist' h _ _ _ hk (cspText_noNL d hv)

/-- content_range: absent when unset, else the serialisation -/
theorem view_text_cr (h : HList) (c : CR.St) :
    (c.units = none → getlist (CR.write h c).1 "content-range".toList = []) ∧
    (Http.CRangeOk c = true →
      getlist (CR.write h c).1 "content-range".toList = [Http.contentRangeToHeader c]) := by
  constructor
  · intro he; simp only [CR.write, he]; exact delKey_getlist h _
  · intro hok
    have hrt := cr_roundtrip h c (by simp [crGood, hok])
    obtain ⟨units, start, stop, length⟩ := c
    cases units with
    | none => simp [Http.CRangeOk] at hok
    | some u =>
      have hth : CR.toHeader ⟨some u, start, stop, length⟩ = .ok (Http.contentRangeToHeader ⟨some u, start, stop, length⟩) := by
        simp only [Http.CRangeOk, Bool.and_eq_true] at hok
        unfold CR.toHeader
        cases start <;> cases stop <;> simp only []
        have := hok.2
        simp [Http.isByteRangeValid] at this
      simp only [CR.write, hth, writeText_ok]
      exact set_getlist' h _ _ _ (by decide) (crText_noNL _ hok)

/-- www_authenticate: the header is always the serialisation of the view -/
theorem view_text_auth (h : HList) (c : Auth.St) (t : Str) (ht : Auth.toHeader c = .ok t) (hv : hasNL t = false) :
    getlist (Auth.write h c).1 "WWW-Authenticate".toList = [t] := by
  simp only [Auth.write, ht, writeText_ok]
  exact set_getlist h _ _ hv

/-- the regressions repaired by bc9f56a / 8064f72 / 78ff821 hold in the model: removing a Vary
entry with another letter case deletes the header; assigning `token` reaches the setter; `type` is
stored lower-cased and re-reads equal -/
theorem repaired_regressions :
    (next (setFamily "Vary".toList) ⟨[("Vary".toList, "Cookie".toList)],
        SetView.load [("Vary".toList, "Cookie".toList)] "Vary".toList, true⟩ (.view (.remove "cookie".toList))).h = [] ∧
    (next authFamily ⟨[], Auth.default, true⟩ (.view (.setToken (some "xyz".toList)))).h
      = [("WWW-Authenticate".toList, "Basic xyz".toList)] ∧
    (next authFamily ⟨[], ⟨"bearer".toList, [], some "abc".toList⟩, true⟩ (.view (.setType "Basic".toList))).v.type
      = "basic".toList ∧
    Auth.load (next authFamily ⟨[], ⟨"bearer".toList, [], some "abc".toList⟩, true⟩ (.view (.setType "Basic".toList))).h
      = (next authFamily ⟨[], ⟨"bearer".toList, [], some "abc".toList⟩, true⟩ (.view (.setType "Basic".toList))).v := by
  decide +kernel

/-! ## typed get / set of the scalar properties -/

/-- `_DictAccessorProperty`: after `response.<prop> = v` (stored text `dump v`, newline-free) the
getter returns `load (dump v)`, or the default when loading fails -/
theorem typed_get_set {τ : Type} (load : Str → Option τ) (dflt : Option τ) (h : HList) (name text : Str)
    (hv : hasNL text = false) :
    Scalar.get load dflt (Scalar.set h name text).1 name = (match load text with | some x => some x | none => dflt) := by
  have hg : getlist (Hdr.set h name text).1 name = [text] := set_getlist h name text hv
  have : getKey (Hdr.set h name text).1 name = .ok text := by
    simp only [getlist] at hg
    simp only [getKey]
    cases hf : (Hdr.set h name text).1.find? (keyEq name) with
    | none =>
      rw [List.find?_eq_none] at hf
      have : (Hdr.set h name text).1.filter (keyEq name) = [] := by
        rw [List.filter_eq_nil_iff]; intro a ha; exact hf a ha
      simp [this] at hg
    | some p =>
      have hp := List.find?_eq_some_iff_append.1 hf
      obtain ⟨hk, as, bs, hl, hnot⟩ := hp
      have hfa : as.filter (keyEq name) = [] := by
        rw [List.filter_eq_nil_iff]; intro a ha; simpa using hnot a ha
      rw [hl, List.filter_append, hfa, List.filter_cons] at hg
      simp only [hk, if_true, List.nil_append, List.map_cons] at hg
      have := (List.cons.inj hg).1
      simp [this]
  unfold Scalar.get Scalar.set
  rw [this]
  cases hl : load text <;> simp [hl]

/-- int-typed properties (content_length, access_control_max_age): the value read back is the int
that was assigned -/
theorem typed_get_set_int (h : HList) (name : Str) (i : Int) :
    Scalar.get CC.pyInt none (Scalar.set h name (CC.intText i)).1 name = some i := by
  rw [typed_get_set CC.pyInt none h name _ (intText_noNL i), pyInt_intText]

/-- str-typed properties (location, content_type, …): the text read back is the text assigned -/
theorem typed_get_set_str (h : HList) (name text : Str) (hv : hasNL text = false) :
    Scalar.get (fun s => some s) none (Scalar.set h name text).1 name = some text := by
  rw [typed_get_set _ none h name text hv]

/-- age: a non-negative count of seconds reads back as assigned (negative ones are refused by
`dump_age`, and a negative header text reads as None) -/
theorem typed_get_set_age (h : HList) (n : Nat) :
    Scalar.get Scalar.parseAge none (Scalar.set h "Age".toList (CC.natText n)).1 "Age".toList = some (n : Int) := by
  rw [typed_get_set Scalar.parseAge none h _ _ (natText_noNL n)]
  have hne : (CC.natText n).isEmpty = false := by
    obtain ⟨c, t, he, _⟩ := natText_head_digit n; rw [he]; rfl
  have hnn : ¬ ((n : Int) < 0) := by omega
  simp [Scalar.parseAge, hne, pyInt_natText, hnn]

/-- deleting a typed property makes the getter return the default -/
theorem typed_delete {τ : Type} (load : Str → Option τ) (dflt : Option τ) (h : HList) (name : Str) :
    Scalar.get load dflt (Scalar.delete h name) name = dflt := by
  simp only [Scalar.get, Scalar.delete, popKey]
  cases hg : getKey h name with
  | error e => simp [hg]
  | ok v =>
    simp only []
    have : getlist (delKey h name) name = [] := delKey_getlist h name
    have hk : getKey (delKey h name) name = .error "BadRequestKeyError" := by
      simp only [getKey]
      cases hf : (delKey h name).find? (keyEq name) with
      | none => rfl
      | some p =>
        have hm := List.mem_of_find?_eq_some hf
        have hkp := List.find?_some hf
        simp only [getlist] at this
        have : p ∈ (delKey h name).filter (keyEq name) := List.mem_filter.2 ⟨hm, hkp⟩
        simp_all
    simp [hk]

end Wz.Props.C16
