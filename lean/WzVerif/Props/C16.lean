/-
C16 — live views of response headers never drift from the header text.
Property theorems only (helper lemmas: Lemmas/Views.lean, Lemmas/ViewsCodec.lean; model:
Model/Views.lean on top of the C06 codecs of Model/Http.lean).

Every view family is an instance of `C16L.Family`: getter (`load`), `on_update` writer (`write`),
view mutators reporting whether they notified. The coherence statement has the two parts of the
property:
  (i)  along EVERY history of view mutators, re-fetches and arbitrary header edits (direct edits,
       whole-property assignments, deletions), whenever the held view is in sync with the headers
       (fetched, or just written back, and no header edit since) re-reading the property gives the
       held view;
  (ii) an effective view mutation rewrites the header from the new view: its text is the view's
       serialisation, or the header is absent when the view became empty.
The side conditions of a history (`okHistGood`) are explicit *domain* predicates on the views that
are written back (`setGood`, `dictGood`, `cspGood`, `crGood`, `authGood`, `mpGood`: token keys,
values without CR/LF, valid ranges, …); the codec round trip itself is no longer assumed — it is
the C06 theorem for that codec. Each restriction is shown necessary by a witness (`*_needs_*`).
-/
import WzVerif.Lemmas.ViewsCodec
import WzVerif.Lemmas.ViewsShared
import WzVerif.Lemmas.ViewsTyped
namespace Wz.Props.C16
open Wz Hdr Views Wz.C16L

/-! ## the view families -/

def setFamily (name : Str) : Family HS.St HS.Op :=
  ⟨fun h => SetView.load h name, id, fun h c => SetView.write h name c,
   fun c op => ((HS.step c op).st, (HS.step c op).notified)⟩

def ccFamily : Family ODict CC.Op :=
  ⟨CC.load, id, fun h d => (CC.write h d).1, fun d op => ((CC.step d op).st, (CC.step d op).notified)⟩

def cspFamily (name writeName : Str) : Family CSP.St CSP.Op :=
  ⟨fun h => CSP.load h name, id, fun h d => CSP.write h name writeName d,
   fun d op => ((CSP.step d op).st, (CSP.step d op).notified)⟩

def crFamily : Family CR.St CR.Op :=
  ⟨CR.load, fun h => (CR.fetch h).2, fun h c => (CR.write h c).1,
   fun c op => ((CR.step c op).st, (CR.step c op).notified)⟩

def authFamily : Family Auth.St Auth.Op :=
  ⟨Auth.load, id, fun h c => (Auth.write h c).1, fun c op => ((Auth.step c op).st, (Auth.step c op).notified)⟩

def mpFamily : Family MP.St (DOp Str) :=
  ⟨MP.load, id, fun h d => (MP.write h d).1, fun d op => ((dstep d op).st, (dstep d op).notified)⟩

def anyView {σ : Type} : σ → Bool := fun _ => true
def anyOp {σ ο : Type} : σ → ο → Bool := fun _ _ => true

/-! ## (i) coherence along every history -/

/-- Vary / Allow / Content-Language, members of ANY text (Unicode, quotes, commas, …) without
CR/LF: for every history, under `HeaderSet.Inv` of the fetched views and non-colliding item
assignments (`hsOk`; F08b otherwise; since repair 1a2e0e6 every fetched view satisfies the invariant), the held view equals the re-read property whenever it
is in sync, and the invariant is kept. The codec round trip is `parseSet_dump` (C06). -/
theorem view_coherent_set (name : Str) (evs : List (Ev HS.Op)) (s : S HS.St)
    (hI : HS.Inv s.v) (hs : s.synced = true → hsEq (SetView.load s.h name) s.v = true)
    (hok : okHistGood (setFamily name) hsEq (fun c => decide (HS.Inv c)) C08L.hsOk (fun _ c => setGood c) s evs = true) :
    HS.Inv (run (setFamily name) s evs).v ∧
    ((run (setFamily name) s evs).synced = true →
      hsEq (SetView.load (run (setFamily name) s evs).h name) (run (setFamily name) s evs).v = true) := by
  have hstep : ∀ v op, decide (HS.Inv v) = true → C08L.hsOk v op = true →
      decide (HS.Inv ((setFamily name).vstep v op).1) = true := by
    intro v op hv ha
    simp only [decide_eq_true_eq] at hv ⊢
    exact C08L.hs_inv_preserved v hv op ha
  have hok' := okHist_of_good (setFamily name) hsEq (fun c => decide (HS.Inv c)) C08L.hsOk (fun _ c => setGood c)
    hstep (fun h v hv hg => set_roundtrip h name v (by simpa using hv) hg) evs s (by simpa using hI) hok
  have := coherent (setFamily name) hsEq (fun c => decide (HS.Inv c)) C08L.hsOk hstep
    (fun v op hv _ hq => by
      simp only [decide_eq_true_eq] at hv
      exact hs_quiet v hv op hq)
    evs s (by simpa using hI) hs hok'
  exact ⟨by simpa using this.1, this.2⟩

example : okHistGood (setFamily "Vary".toList) hsEq (fun c => decide (HS.Inv c)) C08L.hsOk (fun _ c => setGood c)
    ⟨[("Vary".toList, "Cookie".toList)], SetView.load [("Vary".toList, "Cookie".toList)] "Vary".toList, true⟩
    [.view (.remove "cookie".toList), .view (.add "Accept".toList), .edit (fun h => (Hdr.add h "X".toList "1".toList).1),
     .view (.update ["a, \"b\\".toList, "ACCEPT".toList, "é ü".toList]), .refetch, .view (.setitem 0 "Origin".toList),
     .view (.discard "x-foo".toList), .view .clear] = true := by
  decide +kernel

/-- the restriction is needed: a member with a line break is refused by `Headers.set`, the header
keeps its old text and the view drifts -/
theorem set_needs_no_newline :
    hsEq (SetView.load (SetView.write [] "Vary".toList (HS.construct ["a\nb".toList])) "Vary".toList)
      (HS.construct ["a\nb".toList]) = false := by
  decide +kernel

/-- cache_control: every typed directive assignment / deletion and every dict mutator; written
views have distinct non-empty token keys without `*` and values without CR/LF (`dictGood`).
Round trip: `parseDict_dump` (C06). -/
theorem view_coherent_cc (evs : List (Ev CC.Op)) (s : S ODict)
    (hs : s.synced = true → CC.load s.h = s.v)
    (hok : okHistGood ccFamily eqB anyView anyOp (fun _ d => dictGood d) s evs = true) :
    (run ccFamily s evs).synced = true → CC.load (run ccFamily s evs).h = (run ccFamily s evs).v := by
  have hok' := okHist_of_good ccFamily eqB anyView anyOp (fun _ d => dictGood d) (fun _ _ _ _ => rfl)
    (fun h v _ hg => (eqB_iff _ _).2 (cc_roundtrip h v hg)) evs s rfl hok
  exact fun hsy => (eqB_iff _ _).1 ((coherent ccFamily eqB anyView anyOp (fun _ _ _ _ => rfl)
    (fun v op _ _ hq => cc_quiet v op hq) evs s rfl (fun h => (eqB_iff _ _).2 (hs h)) hok').2 hsy)

example : okHistGood ccFamily eqB anyView anyOp (fun _ d => dictGood d) ⟨[], CC.load [], true⟩
    [.view (.attr "max-age".toList .int (.int 3600)), .view (.attr "no-store".toList .bool (.bool true)),
     .view (.attr "private".toList .str (.str "a, \"b\" é".toList)), .view (.delattr "no-store".toList),
     .edit (fun h => (Hdr.set h "Cache-Control".toList "public".toList).1), .refetch,
     .view (.dict (.pop "public".toList none))] = true := by
  decide +kernel

/-- each restriction of `dictGood` is needed: a key that is not a token, a key ending in `*`, an
empty key (`dump_header` raises IndexError), a value with a line break -/
theorem cc_needs_domain :
    CC.load (CC.write [] [("a,b".toList, none)]).1 ≠ [("a,b".toList, none)] ∧
    CC.load (CC.write [] [("k*".toList, some "v".toList)]).1 ≠ [("k*".toList, some "v".toList)] ∧
    (CC.write [] [([], some "v".toList)]).2 = .error "IndexError" ∧
    CC.load (CC.write [] [("k".toList, some "a\nb".toList)]).1 ≠ [("k".toList, some "a\nb".toList)] := by
  refine ⟨by decide +kernel, by decide +kernel, by rfl, by decide +kernel⟩

/-- content_security_policy / content_security_policy_report_only; written views are in the domain
of `csp_roundtrip` (C06): stripped directives without space / `;`, stripped non-empty values without
`;`, no CR/LF -/
theorem view_coherent_csp (name writeName : Str) (hk : lower name = lower writeName)
    (evs : List (Ev CSP.Op)) (s : S CSP.St) (hs : s.synced = true → CSP.load s.h name = s.v)
    (hok : okHistGood (cspFamily name writeName) eqB anyView anyOp (fun _ d => cspGood d) s evs = true) :
    (run (cspFamily name writeName) s evs).synced = true →
      CSP.load (run (cspFamily name writeName) s evs).h name = (run (cspFamily name writeName) s evs).v := by
  have hok' := okHist_of_good (cspFamily name writeName) eqB anyView anyOp (fun _ d => cspGood d) (fun _ _ _ _ => rfl)
    (fun h v _ hg => (eqB_iff _ _).2 (C16L.csp_roundtrip h name writeName hk v hg)) evs s rfl hok
  exact fun hsy => (eqB_iff _ _).1 ((coherent (cspFamily name writeName) eqB anyView anyOp (fun _ _ _ _ => rfl)
    (fun v op _ _ hq => csp_quiet v op hq) evs s rfl (fun h => (eqB_iff _ _).2 (hs h)) hok').2 hsy)

example : lower "content-security-policy-report-only".toList = lower "Content-Security-policy-report-only".toList := by
  decide

example : okHistGood (cspFamily "content-security-policy".toList "Content-Security-Policy".toList) eqB anyView anyOp
    (fun _ d => cspGood d) ⟨[], [], true⟩
    [.view (.attr "default-src".toList (some "'self'".toList)), .view (.attr "img-src".toList (some "* data:".toList)),
     .view (.delattr "default-src".toList), .refetch, .view (.dict .clear)] = true := by
  decide +kernel

/-- the restrictions of `cspGood` are needed: `;` in a value, a space in a directive, an empty value -/
theorem csp_needs_domain :
    CSP.load (CSP.write [] "csp".toList "csp".toList [("a".toList, "x; y".toList)]) "csp".toList ≠ [("a".toList, "x; y".toList)] ∧
    CSP.load (CSP.write [] "csp".toList "csp".toList [("a b".toList, "x".toList)]) "csp".toList ≠ [("a b".toList, "x".toList)] ∧
    CSP.load (CSP.write [] "csp".toList "csp".toList [("sandbox".toList, [])]) "csp".toList ≠ [("sandbox".toList, [])] := by
  decide +kernel

/-- content_range (reading the property rewrites the header: `refetchH`); written views are unset
or valid for `is_byte_range_valid` with units free of white space (`contentRange_roundtrip`, C06) -/
theorem view_coherent_cr (evs : List (Ev CR.Op)) (s : S CR.St)
    (hs : s.synced = true → CR.load s.h = s.v)
    (hok : okHistGood crFamily eqB anyView anyOp (fun _ c => crGood c) s evs = true) :
    (run crFamily s evs).synced = true → CR.load (run crFamily s evs).h = (run crFamily s evs).v := by
  have hok' := okHist_of_good crFamily eqB anyView anyOp (fun _ c => crGood c) (fun _ _ _ _ => rfl)
    (fun h v _ hg => (eqB_iff _ _).2 (cr_roundtrip h v hg)) evs s rfl hok
  exact fun hsy => (eqB_iff _ _).1 ((coherent crFamily eqB anyView anyOp (fun _ _ _ _ => rfl)
    (fun v op _ _ hq => cr_quiet v op hq) evs s rfl (fun h => (eqB_iff _ _).2 (hs h)) hok').2 hsy)

example : okHistGood crFamily eqB anyView anyOp (fun _ c => crGood c) ⟨[], CR.empty, true⟩
    [.view (.set (some 0) (some 10) (some 100) (some "bytes".toList)), .view (.setLength none), .refetch,
     .view (.set (some 5) (some 2) none (some "bytes".toList)), .view .unset,
     .view (.set none none (some 0) (some "bytes".toList)), .refetch, .view (.setLength (some 7)),
     .view (.setLength (some 0)), .edit (fun h => (Hdr.set h "Content-Range".toList "items */0".toList).1), .refetch,
     .view (.setUnits (some "bytes".toList))] = true := by
  decide +kernel

/-- boundary value length 0 (only valid in the unsatisfied form): it is serialised as `0`, not `*`,
read back as 0, and the written view re-reads equal — for `set(None, None, 0)`, `length = 0` and a
header `bytes */0` read through the property -/
theorem cr_length_zero :
    (CR.toHeader ⟨some "bytes".toList, none, none, some 0⟩).toOption = some "bytes */0".toList ∧
    CR.parse "bytes */0".toList = some ⟨some "bytes".toList, none, none, some 0⟩ ∧
    CR.parse "bytes */*".toList = some ⟨some "bytes".toList, none, none, none⟩ ∧
    CR.load (CR.write [] ⟨some "bytes".toList, none, none, some 0⟩).1 = ⟨some "bytes".toList, none, none, some 0⟩ ∧
    (CR.step ⟨some "bytes".toList, none, none, some 7⟩ (.setLength (some 0))).st = ⟨some "bytes".toList, none, none, some 0⟩ ∧
    (CR.step CR.empty (.set none none (some 0) (some "bytes".toList))).st = ⟨some "bytes".toList, none, none, some 0⟩ ∧
    CR.valid (some 0) (some 1) (some 0) = false ∧
    crGood ⟨some "bytes".toList, none, none, some 0⟩ = true := by
  decide +kernel

/-- the restrictions of `crGood` are needed: an invalid combination (F16d: `stop` without `start`),
units containing white space, an unset range that still carries a length -/
theorem cr_needs_domain :
    CR.load (CR.write [] ⟨some "bytes".toList, none, some 10, none⟩).1 ≠ ⟨some "bytes".toList, none, some 10, none⟩ ∧
    CR.load (CR.write [] ⟨some "my units".toList, none, none, none⟩).1 ≠ ⟨some "my units".toList, none, none, none⟩ ∧
    CR.load (CR.write [] ⟨none, none, none, some 5⟩).1 ≠ ⟨none, none, none, some 5⟩ := by
  decide +kernel

/-- www_authenticate (as repaired: `type`, `token`, `parameters` reach their setters, `type` is
lower-cased); written views are in `authGood`: a token challenge without parameters or a parameter
challenge without token - for the scheme `digest` with every value a text (`digestOk`; the digest
dumper writes `None` as the text `None`) - (round trips: C06's `www_digest_roundtrip` and the lemmas
`authRest_token` / `authRest_params` behind `token_auth_roundtrip` / `www_param_roundtrip`; unlike
C06's `SchemeOk` the scheme `basic` is allowed here — it is only special for `Authorization`) -/
theorem view_coherent_auth (evs : List (Ev Auth.Op)) (s : S Auth.St)
    (hs : s.synced = true → Auth.load s.h = s.v)
    (hok : okHistGood authFamily eqB anyView anyOp (fun _ c => authGood c) s evs = true) :
    (run authFamily s evs).synced = true → Auth.load (run authFamily s evs).h = (run authFamily s evs).v := by
  have hok' := okHist_of_good authFamily eqB anyView anyOp (fun _ c => authGood c) (fun _ _ _ _ => rfl)
    (fun h v _ hg => (eqB_iff _ _).2 (auth_roundtrip h v hg)) evs s rfl hok
  exact fun hsy => (eqB_iff _ _).1 ((coherent authFamily eqB anyView anyOp (fun _ _ _ _ => rfl)
    (fun v op _ _ hq => auth_quiet v op hq) evs s rfl (fun h => (eqB_iff _ _).2 (hs h)) hok').2 hsy)

example : okHistGood authFamily eqB anyView anyOp (fun _ c => authGood c) ⟨[], Auth.default, true⟩
    [.view (.setitem "realm".toList (some "login area".toList)), .view (.setType "Negotiate".toList),
     .view (.setitem "charset".toList (some "UTF-8".toList)), .view (.delitem "charset".toList), .refetch,
     .edit (fun h => (Hdr.set h "WWW-Authenticate".toList "Bearer t0k".toList).1), .refetch,
     .view (.setToken (some "other==".toList)), .view (.setType "token68".toList)] = true := by
  decide +kernel

/-- a `Digest` challenge through the view (always-quoted `realm` / `nonce` / `qop`, quoted-on-demand
others; round trip: C06's `www_digest_roundtrip`): parameters set one by one, re-read, changed,
removed -/
example : okHistGood authFamily eqB anyView anyOp (fun _ c => authGood c)
    ⟨[("WWW-Authenticate".toList, "Digest realm=\"r\", nonce=\"n\"".toList)],
     Auth.load [("WWW-Authenticate".toList, "Digest realm=\"r\", nonce=\"n\"".toList)], true⟩
    [.view (.setitem "qop".toList (some "auth".toList)), .view (.setitem "algorithm".toList (some "MD5".toList)),
     .refetch, .view (.setitem "realm".toList (some "a \"b\" c".toList)), .view (.delitem "algorithm".toList),
     .view (.pdict (.pop "qop".toList none)), .refetch] = true := by
  decide +kernel

/-- the restrictions of `authGood` are needed: F16b (neither token nor parameters), F16c (token and
parameters), a token with an inner `=`, a scheme containing a space -/
theorem auth_needs_domain :
    Auth.load (Auth.write [] Auth.default).1 ≠ Auth.default ∧
    Auth.load (Auth.write [] ⟨"basic".toList, [("realm".toList, some "x".toList)], some "xyz".toList⟩).1
      ≠ ⟨"basic".toList, [("realm".toList, some "x".toList)], some "xyz".toList⟩ ∧
    Auth.load (Auth.write [] ⟨"bearer".toList, [], some "a=b".toList⟩).1 ≠ ⟨"bearer".toList, [], some "a=b".toList⟩ ∧
    Auth.load (Auth.write [] ⟨"my scheme".toList, [], some "t".toList⟩).1 ≠ ⟨"my scheme".toList, [], some "t".toList⟩ := by
  decide +kernel

/-- F16b: the full statement "every written view re-reads equal" is false for the WWW-Authenticate
view with neither token nor parameters: it is written as `Basic ` and re-read with token `""`. -/
theorem auth_roundtrip_full_false : ¬ (∀ (h : HList) (c : Auth.St), Auth.load (Auth.write h c).1 = c) := by
  intro h
  exact absurd (h [] Auth.default) auth_needs_domain.1

/-- ... concretely `Response().www_authenticate.x = None` creates the header for an empty view -/
theorem auth_empty_view_header :
    (next authFamily ⟨[], Auth.default, true⟩ (.view (.setitem "x".toList none))).h
      = [("WWW-Authenticate".toList, "Basic ".toList)] := by
  decide +kernel

/-- mimetype_params; the Content-Type has a primary value and the written parameters are in the
domain of `parseOptions_dump` (C06): distinct lower-case token names without `*`, values without the
literal `%22` and without CR/LF (`mpGood`, which also looks at the current headers) -/
theorem view_coherent_mp (evs : List (Ev (DOp Str))) (s : S MP.St)
    (hs : s.synced = true → MP.load s.h = s.v)
    (hok : okHistGood mpFamily eqB anyView anyOp mpGood s evs = true) :
    (run mpFamily s evs).synced = true → MP.load (run mpFamily s evs).h = (run mpFamily s evs).v := by
  have hok' := okHist_of_good mpFamily eqB anyView anyOp mpGood (fun _ _ _ _ => rfl)
    (fun h v _ hg => (eqB_iff _ _).2 (mp_roundtrip h v hg)) evs s rfl hok
  exact fun hsy => (eqB_iff _ _).1 ((coherent mpFamily eqB anyView anyOp (fun _ _ _ _ => rfl)
    (fun v op _ _ hq => dstep_quiet v op hq) evs s rfl (fun h => (eqB_iff _ _).2 (hs h)) hok').2 hsy)

example : okHistGood mpFamily eqB anyView anyOp mpGood
    ⟨[("Content-Type".toList, "text/html; charset=utf-8".toList)],
     MP.load [("Content-Type".toList, "text/html; charset=utf-8".toList)], true⟩
    [.view (.setitem "charset".toList "latin-1".toList), .view (.setitem "boundary".toList "a \"b\"; c".toList),
     .view (.pop "charset".toList none), .refetch, .view .clear] = true := by
  decide +kernel

/-- the restrictions of `mpGood` are needed: F16f (no Content-Type to carry the parameters), an
upper-case parameter name (the parser lower-cases), a value containing the literal `%22` -/
theorem mp_needs_domain :
    MP.load (MP.write [] [("charset".toList, "utf-8".toList)]).1 ≠ [("charset".toList, "utf-8".toList)] ∧
    MP.load (MP.write [("Content-Type".toList, "a/b".toList)] [("Name".toList, "v".toList)]).1 ≠ [("Name".toList, "v".toList)] ∧
    MP.load (MP.write [("Content-Type".toList, "a/b".toList)] [("n".toList, "x %22y".toList)]).1 ≠ [("n".toList, "x %22y".toList)] := by
  decide +kernel

/-! ## view objects shared between responses, several live views of one response

`W` = any number of responses and any number of held view objects; every object remembers the
response its `on_update` closure writes to: the response whose property getter made it, or - for
`www_authenticate`, whose setter installs a new closure - the response it was last assigned to
(`Ev2.assign`; for the other properties the setter stores the text and does not re-bind, the object
stays a view of the response it was read from). Events: a mutator on any held object, reading any
response's property into any slot, assigning any held object to any response's property, any edit
of any response's headers (including replacing `response.headers` altogether). -/

/-- **www_authenticate across responses**: for every history over any number of responses and held
`WWWAuthenticate` objects (objects read from one response and assigned to another, one object
assigned to several responses in turn, several objects live for one response, stale objects whose
header was edited, replaced or deleted), every held object that is in sync re-reads equal from the
response its callback targets - where the setter re-targets the callback to the assigned-to
response. -/
theorem view_coherent_shared_auth (evs : List (Ev2 Auth.Op)) (w : W Auth.St)
    (hinv : ∀ x ∈ w.held, x.synced = true → Auth.load (w.hs x.tgt) = x.v)
    (hok : okHist2 (sharedOf authFamily true) eqB anyView anyOp (fun _ c => authGood c) w evs = true) :
    ∀ x ∈ (run2 (sharedOf authFamily true) w evs).held, x.synced = true →
      Auth.load ((run2 (sharedOf authFamily true) w evs).hs x.tgt) = x.v :=
  coherent2_eq (sharedOf authFamily true) anyView anyOp _ (fun _ => rfl) (fun v op h => auth_quiet v op h)
    (fun h v hg => auth_roundtrip h v hg) (fun _ h v hg => auth_roundtrip h v hg) evs w hinv hok

/-- two responses, none has the header; slot 0 holds `r0.www_authenticate`:
`v.realm = "one"; r1.www_authenticate = v; v.realm = "two"; r0.headers[...] edited; w = r0.www_authenticate;
w.token = …` -/
example : okHist2 (sharedOf authFamily true) eqB anyView anyOp (fun _ c => authGood c)
    ⟨fun _ => [], [⟨Auth.default, 0, true⟩, ⟨Auth.default, 1, true⟩]⟩
    [.view 0 (.setitem "realm".toList (some "one".toList)), .assign 0 1,
     .view 0 (.setitem "realm".toList (some "two".toList)),
     .edit 0 (fun _ => [("WWW-Authenticate".toList, "Bearer abc".toList)]), .fetch 1 0,
     .view 1 (.setToken (some "t0k".toList)), .assign 1 2] = true := by
  decide +kernel

/-- **the setter re-binds**: after `response_i.www_authenticate = v` the object `v` is a view of
response `i` (its callback targets `i`, the header of `i` is `v`'s serialisation), and a later
mutation of `v` rewrites the header of response `i` from the new view and leaves the headers of every
other response - in particular the one `v` was read from - untouched. -/
theorem www_authenticate_setter_rebinds (w : W Auth.St) (j i : Nat) (x : Held Auth.St) (op : Auth.Op)
    (hj : w.held[j]? = some x) :
    let w1 := next2 (sharedOf authFamily true) w (.assign j i)
    let w2 := next2 (sharedOf authFamily true) w1 (.view j op)
    w1.held[j]? = some ⟨x.v, i, true⟩ ∧ w1.hs i = (Auth.write (w.hs i) x.v).1 ∧
    (∀ k, k ≠ i → w2.hs k = w.hs k) ∧
    ((Auth.step x.v op).notified = true → w2.hs i = (Auth.write (w1.hs i) (Auth.step x.v op).st).1) := by
  intro w1 w2
  have h1 := assign_retargets (sharedOf authFamily true) rfl w j i x hj
  have h2 := view_frame (sharedOf authFamily true) w1 j op ⟨x.v, i, true⟩ h1.1
  refine ⟨h1.1, h1.2, fun k hk => ?_, h2.2⟩
  rw [h2.1 k hk]
  simp only [w1, next2, hj, sharedOf, if_true]
  exact upd_ne _ _ _ _ hk

/-- the C16-c2 scenario in the model: `r0.www_authenticate = WWWAuthenticate("basic", {"realm": "one"});
v = r0.www_authenticate; r1.www_authenticate = v; v.realm = "two"` leaves `r0` with realm one and
writes realm two into `r1` -/
theorem www_authenticate_shared_regression :
    let w := run2 (sharedOf authFamily true)
      ⟨fun k => if k = 0 then [("WWW-Authenticate".toList, "Basic realm=one".toList)] else [], [⟨Auth.default, 5, false⟩]⟩
      [.fetch 0 0, .assign 0 1, .view 0 (.setitem "realm".toList (some "two".toList))]
    w.hs 0 = [("WWW-Authenticate".toList, "Basic realm=one".toList)] ∧
    w.hs 1 = [("WWW-Authenticate".toList, "Basic realm=two".toList)] := by
  decide +kernel

/-- **Vary / Allow / Content-Language across responses** (the setter stores the text; the object
stays a view of the response it was read from): every held object in sync re-reads equal from its own
response, under `HeaderSet.Inv` and the restrictions of `view_coherent_set`. -/
theorem view_coherent_shared_set (name : Str) (evs : List (Ev2 HS.Op)) (w : W HS.St)
    (hinv : ∀ x ∈ w.held, HS.Inv x.v ∧ (x.synced = true → hsEq (SetView.load (w.hs x.tgt) name) x.v = true))
    (hok : okHist2 (sharedOf (setFamily name) false) hsEq (fun c => decide (HS.Inv c)) C08L.hsOk
      (fun _ c => setGood c) w evs = true) :
    ∀ x ∈ (run2 (sharedOf (setFamily name) false) w evs).held, HS.Inv x.v ∧ (x.synced = true →
      hsEq (SetView.load ((run2 (sharedOf (setFamily name) false) w evs).hs x.tgt) name) x.v = true) := by
  have := coherent2 (sharedOf (setFamily name) false) hsEq (fun c => decide (HS.Inv c)) C08L.hsOk (fun _ c => setGood c)
    (fun v op hv ha => by
      simp only [decide_eq_true_eq] at hv ⊢
      exact C08L.hs_inv_preserved v hv op ha)
    (fun v op hv _ hq => by
      simp only [decide_eq_true_eq] at hv
      exact hs_quiet v hv op hq)
    (fun h v hv hg => set_roundtrip h name v (by simpa using hv) hg)
    (fun hb => by cases hb) evs w
    (fun x hx => ⟨by simpa using (hinv x hx).1, (hinv x hx).2⟩) hok
  exact fun x hx => ⟨by simpa using (this x hx).1, (this x hx).2⟩

example : okHist2 (sharedOf (setFamily "Vary".toList) false) hsEq (fun c => decide (HS.Inv c)) C08L.hsOk (fun _ c => setGood c)
    ⟨fun k => if k = 0 then [("Vary".toList, "Cookie".toList)] else [],
     [⟨SetView.load [("Vary".toList, "Cookie".toList)] "Vary".toList, 0, true⟩, ⟨HS.construct [], 1, true⟩]⟩
    [.view 0 (.add "Accept".toList), .assign 0 1, .view 1 (.add "x".toList), .view 0 (.remove "cookie".toList),
     .fetch 1 0, .view 0 (.add "late".toList), .view 1 (.discard "accept".toList), .edit 1 (fun _ => [])] = true := by
  decide +kernel

/-- **cache_control, content_security_policy(_report_only), content_range, mimetype_params across
responses and with several live view objects per response** (no setter re-binds). -/
theorem view_coherent_shared_plain :
    (∀ (evs : List (Ev2 CC.Op)) (w : W ODict), (∀ x ∈ w.held, x.synced = true → CC.load (w.hs x.tgt) = x.v) →
      okHist2 (sharedOf ccFamily false) eqB anyView anyOp (fun _ d => dictGood d) w evs = true →
      ∀ x ∈ (run2 (sharedOf ccFamily false) w evs).held, x.synced = true →
        CC.load ((run2 (sharedOf ccFamily false) w evs).hs x.tgt) = x.v) ∧
    (∀ (name writeName : Str), lower name = lower writeName → ∀ (evs : List (Ev2 CSP.Op)) (w : W CSP.St),
      (∀ x ∈ w.held, x.synced = true → CSP.load (w.hs x.tgt) name = x.v) →
      okHist2 (sharedOf (cspFamily name writeName) false) eqB anyView anyOp (fun _ d => cspGood d) w evs = true →
      ∀ x ∈ (run2 (sharedOf (cspFamily name writeName) false) w evs).held, x.synced = true →
        CSP.load ((run2 (sharedOf (cspFamily name writeName) false) w evs).hs x.tgt) name = x.v) ∧
    (∀ (evs : List (Ev2 CR.Op)) (w : W CR.St), (∀ x ∈ w.held, x.synced = true → CR.load (w.hs x.tgt) = x.v) →
      okHist2 (sharedOf crFamily false) eqB anyView anyOp (fun _ c => crGood c) w evs = true →
      ∀ x ∈ (run2 (sharedOf crFamily false) w evs).held, x.synced = true →
        CR.load ((run2 (sharedOf crFamily false) w evs).hs x.tgt) = x.v) ∧
    (∀ (evs : List (Ev2 (DOp Str))) (w : W MP.St), (∀ x ∈ w.held, x.synced = true → MP.load (w.hs x.tgt) = x.v) →
      okHist2 (sharedOf mpFamily false) eqB anyView anyOp mpGood w evs = true →
      ∀ x ∈ (run2 (sharedOf mpFamily false) w evs).held, x.synced = true →
        MP.load ((run2 (sharedOf mpFamily false) w evs).hs x.tgt) = x.v) := by
  refine ⟨fun evs w hinv hok => ?_, fun name writeName hk evs w hinv hok => ?_, fun evs w hinv hok => ?_,
    fun evs w hinv hok => ?_⟩
  · exact coherent2_eq (sharedOf ccFamily false) anyView anyOp _ (fun _ => rfl) (fun v op h => cc_quiet v op h)
      (fun h v hg => cc_roundtrip h v hg) (fun hb => by cases hb) evs w hinv hok
  · exact coherent2_eq (sharedOf (cspFamily name writeName) false) anyView anyOp _ (fun _ => rfl)
      (fun v op h => csp_quiet v op h) (fun h v hg => C16L.csp_roundtrip h name writeName hk v hg)
      (fun hb => by cases hb) evs w hinv hok
  · exact coherent2_eq (sharedOf crFamily false) anyView anyOp _ (fun _ => rfl) (fun v op h => cr_quiet v op h)
      (fun h v hg => cr_roundtrip h v hg) (fun hb => by cases hb) evs w hinv hok
  · exact coherent2_eq (sharedOf mpFamily false) anyView anyOp _ (fun _ => rfl) (fun v op h => dstep_quiet v op h)
      (fun h v hg => mp_roundtrip h v hg) (fun hb => by cases hb) evs w hinv hok

/-- two live cache_control objects of one response: the second is stale after the first wrote, and
in sync again after it wrote itself (no claim is made about it in between) -/
example : okHist2 (sharedOf ccFamily false) eqB anyView anyOp (fun _ d => dictGood d)
    ⟨fun _ => [], [⟨[], 0, true⟩, ⟨[], 0, true⟩]⟩
    [.view 0 (.attr "max-age".toList .int (.int 5)), .view 1 (.attr "no-store".toList .bool (.bool true)),
     .edit 0 (fun _ => []), .view 0 (.delattr "max-age".toList), .fetch 1 0] = true := by
  decide +kernel

/-! ## (ii) an effective mutation rewrites the header from the view -/

/-- In every family a mutator that changes the view calls `on_update` (notification completeness:
`add` of a present member, `discard` of an absent one, deleting a missing parameter, a failing
`set` are exactly the calls that do not notify, and they leave the view unchanged). -/
theorem effective_mutation_notifies :
    (∀ (c : HS.St) (op : HS.Op), HS.Inv c → (HS.step c op).st ≠ c → (HS.step c op).notified = true) ∧
    (∀ (d : ODict) (op : CC.Op), (CC.step d op).st ≠ d → (CC.step d op).notified = true) ∧
    (∀ (d : CSP.St) (op : CSP.Op), (CSP.step d op).st ≠ d → (CSP.step d op).notified = true) ∧
    (∀ (c : CR.St) (op : CR.Op), (CR.step c op).st ≠ c → (CR.step c op).notified = true) ∧
    (∀ (c : Auth.St) (op : Auth.Op), (Auth.step c op).st ≠ c → (Auth.step c op).notified = true) ∧
    (∀ (d : MP.St) (op : DOp Str), (dstep d op).st ≠ d → (dstep d op).notified = true) := by
  refine ⟨?_, ?_, ?_, ?_, ?_, ?_⟩
  · intro c op hI hne
    cases h : (HS.step c op).notified with
    | true => rfl
    | false => exact absurd (hs_quiet c hI op h) hne
  · intro d op hne
    cases h : (CC.step d op).notified with
    | true => rfl
    | false => exact absurd (cc_quiet d op h) hne
  · intro d op hne
    cases h : (CSP.step d op).notified with
    | true => rfl
    | false => exact absurd (csp_quiet d op h) hne
  · intro c op hne
    cases h : (CR.step c op).notified with
    | true => rfl
    | false => exact absurd (cr_quiet c op h) hne
  · intro c op hne
    cases h : (Auth.step c op).notified with
    | true => rfl
    | false => exact absurd (auth_quiet c op h) hne
  · intro d op hne
    cases h : (dstep d op).notified with
    | true => rfl
    | false => exact absurd (dstep_quiet d op h) hne

/-- HeaderSet views: after `on_update` the header is absent when the view is empty, else it is the
single line `to_header()` -/
theorem view_text_set (h : HList) (name : Str) (c : HS.St) :
    (c.set.isEmpty = true → getlist (SetView.write h name c) name = []) ∧
    (c.set.isEmpty = false → setGood c = true →
      getlist (SetView.write h name c) name = [SetView.dump c]) := by
  constructor
  · intro he; simp only [SetView.write, he, if_true]; exact absent_pattern h name
  · intro he hv
    simp only [SetView.write, he, Bool.false_eq_true, if_false]
    exact set_getlist h name _ (setDump_noNL c hv)

example : setGood (HS.construct ["Cookie".toList, "Accept Encoding".toList]) = true := by decide

/-- cache_control -/
theorem view_text_cc (h : HList) (d : ODict) :
    (d.isEmpty = true → getlist (CC.write h d).1 "cache-control".toList = []) ∧
    (d.isEmpty = false → dictGood d = true → ∃ t, CC.dump d = .ok t ∧
      getlist (CC.write h d).1 "cache-control".toList = [t]) := by
  constructor
  · intro he; simp only [CC.write, he, if_true]; exact absent_pattern h _
  · intro he hg
    refine ⟨_, Http.dumpHeaderDict_ok d (dictGood_keys hg), ?_⟩
    have hd : CC.dump d = .ok (Http.join ", " (d.map Http.dictItemText)) := Http.dumpHeaderDict_ok d (dictGood_keys hg)
    simp only [CC.write, he, Bool.false_eq_true, if_false, hd, writeText_ok]
    exact set_getlist' h _ _ _ (by decide) (dictText_noNL d hg)

/-- content_security_policy (`name` is the lower-case header name used for deleting, `writeName`
the spelling used for setting) -/
theorem view_text_csp (h : HList) (name writeName : Str) (hk : lower name = lower writeName) (d : CSP.St) :
    (d.isEmpty = true → getlist (CSP.write h name writeName d) name = []) ∧
    (d.isEmpty = false → cspGood d = true →
      getlist (CSP.write h name writeName d) name = [CSP.dump d]) := by
  constructor
  · intro he; simp only [CSP.write, he, if_true]; exact delKey_getlist h name
  · intro he hv
    simp only [CSP.write, he, Bool.false_eq_true, if_false]
    exact set_getlist' h _ _ _ hk (cspText_noNL d hv)

/-- content_range: absent when unset, else the serialisation -/
theorem view_text_cr (h : HList) (c : CR.St) :
    (c.units = none → getlist (CR.write h c).1 "content-range".toList = []) ∧
    (Http.CRangeOk c = true →
      getlist (CR.write h c).1 "content-range".toList = [Http.contentRangeToHeader c]) := by
  constructor
  · intro he; simp only [CR.write, he]; exact delKey_getlist h _
  · intro hok
    have hrt := cr_roundtrip h c (by simp [crGood, hok])
    obtain ⟨units, start, stop, length⟩ := c
    cases units with
    | none => simp [Http.CRangeOk] at hok
    | some u =>
      have hth : CR.toHeader ⟨some u, start, stop, length⟩ = .ok (Http.contentRangeToHeader ⟨some u, start, stop, length⟩) := by
        simp only [Http.CRangeOk, Bool.and_eq_true] at hok
        unfold CR.toHeader
        cases start <;> cases stop <;> simp only []
        have := hok.2
        simp [Http.isByteRangeValid] at this
      simp only [CR.write, hth, writeText_ok]
      exact set_getlist' h _ _ _ (by decide) (crText_noNL _ hok)

/-- www_authenticate: the header is always the serialisation of the view -/
theorem view_text_auth (h : HList) (c : Auth.St) (t : Str) (ht : Auth.toHeader c = .ok t) (hv : hasNL t = false) :
    getlist (Auth.write h c).1 "WWW-Authenticate".toList = [t] := by
  simp only [Auth.write, ht, writeText_ok]
  exact set_getlist h _ _ hv

/-- the regressions repaired by bc9f56a / 8064f72 / 78ff821 hold in the model: removing a Vary
entry with another letter case deletes the header; assigning `token` reaches the setter; `type` is
stored lower-cased and re-reads equal -/
theorem repaired_regressions :
    (next (setFamily "Vary".toList) ⟨[("Vary".toList, "Cookie".toList)],
        SetView.load [("Vary".toList, "Cookie".toList)] "Vary".toList, true⟩ (.view (.remove "cookie".toList))).h = [] ∧
    (next authFamily ⟨[], Auth.default, true⟩ (.view (.setToken (some "xyz".toList)))).h
      = [("WWW-Authenticate".toList, "Basic xyz".toList)] ∧
    (next authFamily ⟨[], ⟨"bearer".toList, [], some "abc".toList⟩, true⟩ (.view (.setType "Basic".toList))).v.type
      = "basic".toList ∧
    Auth.load (next authFamily ⟨[], ⟨"bearer".toList, [], some "abc".toList⟩, true⟩ (.view (.setType "Basic".toList))).h
      = (next authFamily ⟨[], ⟨"bearer".toList, [], some "abc".toList⟩, true⟩ (.view (.setType "Basic".toList))).v := by
  decide +kernel

/-- the C16 face of F08c (repaired by 1a2e0e6): a view over `Vary: Cookie, cookie` has ONE member;
`del view[0]` empties it and removes the header, and the re-read view equals the held one (it used
to delete the header while an item remained) -/
theorem set_view_case_duplicates_regression :
    SetView.load [("Vary".toList, "Cookie, cookie".toList)] "Vary".toList = ⟨["Cookie".toList], ["cookie".toList]⟩ ∧
    (let s := next (setFamily "Vary".toList) ⟨[("Vary".toList, "Cookie, cookie".toList)],
        SetView.load [("Vary".toList, "Cookie, cookie".toList)] "Vary".toList, true⟩ (.view (.delitem 0))
     s.h = [] ∧ s.v = ⟨[], []⟩ ∧ SetView.load s.h "Vary".toList = s.v) := by
  decide +kernel

/-! ## typed get / set of the scalar properties -/

/-- `_DictAccessorProperty`: after `response.<prop> = v` (stored text `dump v`, newline-free) the
getter returns `load (dump v)`, or the default when loading fails -/
theorem typed_get_set {τ : Type} (load : Str → Option τ) (dflt : Option τ) (h : HList) (name text : Str)
    (hv : hasNL text = false) :
    Scalar.get load dflt (Scalar.set h name text).1 name = (match load text with | some x => some x | none => dflt) := by
  have hg : getlist (Hdr.set h name text).1 name = [text] := set_getlist h name text hv
  have : getKey (Hdr.set h name text).1 name = .ok text := by
    simp only [getlist] at hg
    simp only [getKey]
    cases hf : (Hdr.set h name text).1.find? (keyEq name) with
    | none =>
      rw [List.find?_eq_none] at hf
      have : (Hdr.set h name text).1.filter (keyEq name) = [] := by
        rw [List.filter_eq_nil_iff]; intro a ha; exact hf a ha
      simp [this] at hg
    | some p =>
      have hp := List.find?_eq_some_iff_append.1 hf
      obtain ⟨hk, as, bs, hl, hnot⟩ := hp
      have hfa : as.filter (keyEq name) = [] := by
        rw [List.filter_eq_nil_iff]; intro a ha; simpa using hnot a ha
      rw [hl, List.filter_append, hfa, List.filter_cons] at hg
      simp only [hk, if_true, List.nil_append, List.map_cons] at hg
      have := (List.cons.inj hg).1
      simp [this]
  unfold Scalar.get Scalar.set
  rw [this]
  cases hl : load text <;> simp [hl]

/-- int-typed properties (content_length, access_control_max_age): the value read back is the int
that was assigned -/
theorem typed_get_set_int (h : HList) (name : Str) (i : Int) :
    Scalar.get CC.pyInt none (Scalar.set h name (CC.intText i)).1 name = some i := by
  rw [typed_get_set CC.pyInt none h name _ (intText_noNL i), pyInt_intText]

/-- str-typed properties (location, content_type, …): the text read back is the text assigned -/
theorem typed_get_set_str (h : HList) (name text : Str) (hv : hasNL text = false) :
    Scalar.get (fun s => some s) none (Scalar.set h name text).1 name = some text := by
  rw [typed_get_set _ none h name text hv]

/-- age: a non-negative count of seconds reads back as assigned (negative ones are refused by
`dump_age`, and a negative header text reads as None) -/
theorem typed_get_set_age (h : HList) (n : Nat) :
    Scalar.get Scalar.parseAge none (Scalar.set h "Age".toList (CC.natText n)).1 "Age".toList = some (n : Int) := by
  rw [typed_get_set Scalar.parseAge none h _ _ (natText_noNL n)]
  have hne : (CC.natText n).isEmpty = false := by
    obtain ⟨c, t, he, _⟩ := natText_head_digit n; rw [he]; rfl
  have hnn : ¬ ((n : Int) < 0) := by omega
  simp [Scalar.parseAge, hne, pyInt_natText, hnn]

/-- deleting a typed property makes the getter return the default -/
theorem typed_delete {τ : Type} (load : Str → Option τ) (dflt : Option τ) (h : HList) (name : Str) :
    Scalar.get load dflt (Scalar.delete h name) name = dflt := by
  simp only [Scalar.get, Scalar.delete, popKey]
  cases hg : getKey h name with
  | error e => simp [hg]
  | ok v =>
    simp only []
    have : getlist (delKey h name) name = [] := delKey_getlist h name
    have hk : getKey (delKey h name) name = .error "BadRequestKeyError" := by
      simp only [getKey]
      cases hf : (delKey h name).find? (keyEq name) with
      | none => rfl
      | some p =>
        have hm := List.mem_of_find?_eq_some hf
        have hkp := List.find?_some hf
        simp only [getlist] at this
        have : p ∈ (delKey h name).filter (keyEq name) := List.mem_filter.2 ⟨hm, hkp⟩
        simp_all
    simp [hk]


/-- date-typed properties (`date`, `expires`, `last_modified`): a datetime assigned - any instant
from year 100 to year 9999, given in whole seconds `t` since the proleptic-Gregorian epoch after
`http_date` normalised it to UTC at one-second resolution - is stored as its IMF-fixdate text and
read back as the same instant (C06's `date_roundtrip`). -/
theorem typed_get_set_date (h : HList) (name : Str) (t : Nat) (h1 : Date.tMin ≤ t) (h2 : t ≤ Date.tMax) :
    Scalar.get Date.parseDate none (Scalar.set h name (Date.httpDate t)).1 name = some t := by
  rw [typed_get_set Date.parseDate none h name _ (httpDate_noNL t), Date.date_roundtrip_any t h1 h2]

example : Date.tMin ≤ 63839700306 ∧ 63839700306 ≤ Date.tMax := by decide

/-- set-valued properties (`access_control_allow_headers` / `_methods` / `_expose_headers`):
`dump_header(items)` is stored and `parse_set_header` reads back a `HeaderSet` with the same item
list, for every list of strings without CR/LF (C06's `parseSet_dump`). -/
theorem typed_get_set_set (h : HList) (name : Str) (items : List Str) (hv : ∀ w ∈ items, hasNL w = false) :
    Scalar.get (fun s => some (Http.parseSetHeader s)) none (Scalar.set h name (Http.dumpHeaderList items)).1 name
      = some items := by
  have hnl : hasNL (Http.dumpHeaderList items) = false :=
    setDump_noNL ⟨items, []⟩ (by simpa [setGood] using hv)
  rw [typed_get_set _ none h name _ hnl]
  exact congrArg some (parseSet_dumpList items)

example : ∀ w ∈ ["X-A".toList, "x b".toList], hasNL w = false := by decide

/-- enum-typed properties (`cross_origin_opener_policy`, `cross_origin_embedder_policy`): a member's
value is stored and the member is read back; any other header text reads as the default -/
theorem typed_get_set_enum (h : HList) (name : Str) (members : List String) (v : String)
    (hm : members.contains v = true) (hv : hasNL v.toList = false) (dflt : String) :
    Scalar.get (fun s => if members.contains (String.ofList s) then some (String.ofList s) else none) (some dflt)
      (Scalar.set h name v.toList).1 name = some v := by
  rw [typed_get_set _ _ h name _ hv]
  have hm' : v ∈ members := by simpa using hm
  simp [hm']

example : Gen.Views.coopValues.contains "same-origin" = true ∧ Gen.Views.coepValues.contains "require-corp" = true := by
  decide

/-- `mimetype`: after `response.mimetype = m` (a stripped, non-empty type without `;` and CR/LF) the
getter returns `m` - whether or not `get_content_type` appended `; charset=utf-8` -/
theorem typed_get_set_mimetype (h : HList) (m : Str) (hne : m ≠ []) (hsc : ∀ x ∈ m, (x == ';') = false)
    (hstrip : Views.strip m = m) (hnl : hasNL m = false) :
    MP.mimetype (Scalar.mimetypeSet h m).1 = some m :=
  mimetype_get_set h m hne hsc hstrip hnl

example : Scalar.getContentType "text/html".toList = "text/html; charset=utf-8".toList ∧
    Scalar.getContentType "application/json".toList = "application/json".toList ∧
    Scalar.getContentType "image/svg+xml".toList = "image/svg+xml; charset=utf-8".toList ∧
    Views.strip "text/html".toList = "text/html".toList := by decide +kernel

/-- `retry_after`: an int is stored as its decimal text and found again as that number of seconds
(the getter adds it to the clock); a datetime is stored as IMF-fixdate text which is handed to
`parse_date` (→ `typed_get_set_date`); assigning `None` removes the header -/
theorem typed_get_set_retry_after (h : HList) (i : Int) (t : Nat) :
    Scalar.retryAfterGet (Scalar.retryAfterSet h (some (CC.intText i))).1 = .seconds i ∧
    Scalar.retryAfterGet (Scalar.retryAfterSet h (some (Date.httpDate t))).1 = .date (Date.httpDate t) ∧
    Scalar.retryAfterGet (Scalar.retryAfterSet h none).1 = .none := by
  have key : ∀ v, hasNL v = false → getKey (Hdr.set h "Retry-After".toList v).1 "retry-after".toList = .ok v := by
    intro v hv
    have := set_getKey h "Retry-After".toList v hv
    simp only [getKey] at this ⊢
    rw [keyEq_congr (k := "retry-after".toList) (k' := "Retry-After".toList) (by decide)]
    exact this
  refine ⟨?_, ?_, ?_⟩
  · simp only [Scalar.retryAfterGet, Scalar.retryAfterSet, key _ (intText_noNL i), pyInt_intText]
  · have hd : CC.pyInt (Date.httpDate t) = none := httpDate_not_int t
    simp only [Scalar.retryAfterGet, Scalar.retryAfterSet, key _ (httpDate_noNL t), hd]
  · simp only [Scalar.retryAfterGet, Scalar.retryAfterSet, absent_getKey]

/-- `access_control_allow_credentials`: `True` stores `true` and reads back `True`; anything else
removes the header and reads back `False` -/
theorem typed_get_set_credentials (h : HList) :
    Scalar.credentialsGet (Scalar.credentialsSet h true).1 = true ∧
    Scalar.credentialsGet (Scalar.credentialsSet h false).1 = false := by
  constructor
  · have := set_getKey h Scalar.credentialsName "true".toList (by decide)
    simp only [Scalar.credentialsGet, Scalar.credentialsSet, if_true, Hdr.contains]
    simp only [getKey] at this
    cases hf : (Hdr.set h Scalar.credentialsName "true".toList).1.find? (keyEq Scalar.credentialsName) with
    | some _ => rfl
    | none => rw [hf] at this; cases this
  · have hd := typed_delete (fun s => some s) none h Scalar.credentialsName
    simp only [Scalar.get, Scalar.delete] at hd
    simp only [Scalar.credentialsGet, Scalar.credentialsSet, Bool.false_eq_true, if_false, Hdr.contains]
    simp only [getKey] at hd
    cases hf : (popKey h Scalar.credentialsName (some [])).1.find? (keyEq Scalar.credentialsName) with
    | none => rfl
    | some p => rw [hf] at hd; simp at hd

/-- `set_etag` / `get_etag`: for every tag without `"` and CR/LF, weak or strong, `get_etag()` after
`set_etag(e, weak)` is `(e, weak)` (C06's `etag_roundtrip`); a tag containing `"` is refused and the
headers are unchanged -/
theorem typed_get_set_etag (h : HList) (e : Str) (weak : Bool) (hq : e.contains '"' = false) (hnl : hasNL e = false) :
    Scalar.getEtag (Scalar.setEtag h e weak).1 = some (e, weak) := by
  have hr := Http.unquote_quoteEtag e weak hq
  unfold Scalar.getEtag Scalar.setEtag
  cases hqe : Http.quoteEtag e weak with
  | error x => rw [hqe] at hr; cases hr
  | ok t =>
    rw [hqe] at hr
    simp only [Except.map, Except.ok.injEq] at hr
    have ht : hasNL t = false := by
      unfold Http.quoteEtag at hqe
      rw [hq] at hqe
      simp only [Bool.false_eq_true, if_false, Except.ok.injEq] at hqe
      subst hqe
      cases weak <;> simp [hasNL_append, hasNL_cons, hnl, isNL] <;> rfl
    simp only [set_getKey h _ t ht, hr]

example : Scalar.setEtag [] "a\"b".toList false = ([], .error "ValueError") := by decide

/-- **every typed Cache-Control accessor x every kind of value**: `_set_cache_value` followed by
`_get_cache_value`, evaluated on the live class for directive type bool / int / str x value None /
True / False / zero, positive, negative ints / empty, numeric, other strings x directive absent or
present - the model's `CC.setValue` / `CC.getValue` predict every row (what is stored: removed, present
without value, the text; ValueError; and the typed read-back). A bool directive is removed by every
falsy value and set by every truthy one. -/
theorem cache_set_table_matches_model :
    Gen.CacheSetTable.rows.all (fun (ty, code, present, stored, got) =>
      CC.tableRow ty.toList code.toList present == (stored.toList, got.toList)) = true ∧
    Gen.CacheSetTable.rows.length = 66 := by
  decide +kernel

/-! ## every header-backed attribute of `sansio.Response` is covered

`Gen.ResponseProps.attrs` is regenerated from the live class and the AST of the module: every
descriptor of the class and every method that touches `self.headers`. -/

/-- attribute → the theorems that speak about it -/
def covered : List (String × String) := [
  ("accept_ranges", "typed_get_set_str"), ("access_control_allow_credentials", "typed_get_set_credentials"),
  ("access_control_allow_headers", "typed_get_set_set"), ("access_control_allow_methods", "typed_get_set_set"),
  ("access_control_allow_origin", "typed_get_set_str"), ("access_control_expose_headers", "typed_get_set_set"),
  ("access_control_max_age", "typed_get_set_int"), ("age", "typed_get_set_age"),
  ("allow", "view_coherent_set"), ("cache_control", "view_coherent_cc"),
  ("content_encoding", "typed_get_set_str"), ("content_language", "view_coherent_set"),
  ("content_length", "typed_get_set_int"), ("content_location", "typed_get_set_str"),
  ("content_md5", "typed_get_set_str"), ("content_range", "view_coherent_cr"),
  ("content_security_policy", "view_coherent_csp"), ("content_security_policy_report_only", "view_coherent_csp"),
  ("content_type", "typed_get_set_str"), ("cross_origin_embedder_policy", "typed_get_set_enum"),
  ("cross_origin_opener_policy", "typed_get_set_enum"), ("date", "typed_get_set_date"),
  ("expires", "typed_get_set_date"), ("get_etag", "typed_get_set_etag"),
  ("last_modified", "typed_get_set_date"), ("location", "typed_get_set_str"),
  ("mimetype", "typed_get_set_mimetype"), ("mimetype_params", "view_coherent_mp"),
  ("retry_after", "typed_get_set_retry_after"), ("set_etag", "typed_get_set_etag"),
  ("vary", "view_coherent_set"), ("www_authenticate", "view_coherent_auth")]

/-- attribute → why it is not a C16 obligation -/
def excluded : List (String × String) := [
  ("set_cookie", "Set-Cookie is write-only here; dump_cookie / parse_cookie are property C13"),
  ("status", "not header-backed (status line; _clean_status is modelled in C05)"),
  ("status_code", "not header-backed"),
  ("is_json", "read-only predicate on mimetype")]

/-- the (load, dump) pairs of `header_property` descriptors the typed theorems cover -/
def codecPairs : List (String × String × String) := [
  ("none", "none", "typed_get_set_str"), ("int", "str", "typed_get_set_int"),
  ("parse_age", "dump_age", "typed_get_set_age"), ("parse_date", "http_date", "typed_get_set_date"),
  ("parse_set_header", "dump_header", "typed_get_set_set"), ("<lambda>", "<lambda>", "typed_get_set_enum")]

/-- **Coverage**: every descriptor of `sansio.Response` and every method using `self.headers` is
mapped to its theorem or explicitly excluded; nothing listed is stale; every `header_property` is in
the generated descriptor table with a (load, dump) pair that has a typed theorem and is mapped to
that theorem; every `_set_property` is in the generated set-view table; the view-kind attributes are
exactly the six view families. A new or renamed property, or a new codec pair, breaks this. -/
theorem response_attrs_covered :
    Gen.ResponseProps.attrs.all (fun (a, _, _, _, _) =>
      (covered.map (·.1)).contains a != (excluded.map (·.1)).contains a) = true ∧
    (covered ++ excluded).all (fun (a, _) => (Gen.ResponseProps.attrs.map (·.1)).contains a) = true ∧
    Gen.ResponseProps.attrs.all (fun (a, k, _, _, _) => k != "header_property" ||
      Gen.Views.headerProps.any (fun (a', _, lf, df, _, _) => a' == a &&
        codecPairs.any (fun (l, d, thm) => l == lf && d == df && covered.contains (a, thm)))) = true ∧
    Gen.ResponseProps.attrs.all (fun (a, k, hn, _, _) => k != "set_view" ||
      Gen.Views.setProps.any (fun (a', n) => a' == a && hn == [n])) = true ∧
    (Gen.ResponseProps.attrs.filter (fun (_, k, _, _, _) => k == "view")).map (·.1) =
      ["cache_control", "content_range", "content_security_policy", "content_security_policy_report_only",
       "mimetype_params", "www_authenticate"] := by
  decide

/-- the `on_update` (re)binding of `www_authenticate` is unconditional in the source: the getter and
the setter each assign `value._on_update` exactly once, not under a test of that attribute (the
model's `rebinds := true`; the C16-c2 regression) -/
theorem www_authenticate_rebinds_in_source : Gen.ResponseProps.wwwAuthRebind = ((1, 0), (1, 0)) := by decide

end Wz.Props.C16
