/-
C16 — live views of response headers never drift from the header text.
Property theorems only (helper lemmas: Lemmas/Views.lean; model: Model/Views.lean).

Every view family is an instance of `C16L.Family`: getter (`load`), `on_update` writer (`write`),
view mutators reporting whether they notified. The coherence statement has the two parts of the
property:
  (i)  along EVERY history of view mutators, re-fetches and arbitrary header edits (direct edits,
       whole-property assignments, deletions), whenever the held view is in sync with the headers
       (fetched, or just written back, and no header edit since) re-reading the property gives the
       held view;
  (ii) an effective view mutation rewrites the header from the new view: its text is the view's
       serialisation, or the header is absent when the view became empty.
The side conditions of a history (`okHist`) are decidable and explicit: the views that are written
back round-trip through the header codec (the C06 property), fetched HeaderSet views satisfy
`HeaderSet.Inv` and item assignments do not create case-duplicates (F08b, F08c).
-/
import WzVerif.Lemmas.Views
namespace Wz.Props.C16
open Wz Hdr Views Wz.C16L

/-! ## the view families -/

def setFamily (name : Str) : Family HS.St HS.Op :=
  ⟨fun h => SetView.load h name, id, fun h c => SetView.write h name c,
   fun c op => ((HS.step c op).st, (HS.step c op).notified)⟩

def ccFamily : Family ODict CC.Op :=
  ⟨CC.load, id, CC.write, fun d op => ((CC.step d op).st, (CC.step d op).notified)⟩

def cspFamily (name writeName : Str) : Family CSP.St CSP.Op :=
  ⟨fun h => CSP.load h name, id, fun h d => CSP.write h name writeName d,
   fun d op => ((CSP.step d op).st, (CSP.step d op).notified)⟩

def crFamily : Family CR.St CR.Op :=
  ⟨CR.load, fun h => (CR.fetch h).2, fun h c => (CR.write h c).1,
   fun c op => ((CR.step c op).st, (CR.step c op).notified)⟩

def authFamily : Family Auth.St Auth.Op :=
  ⟨Auth.load, id, Auth.write, fun c op => ((Auth.step c op).st, (Auth.step c op).notified)⟩

def mpFamily : Family MP.St (DOp Str) :=
  ⟨MP.load, id, fun h d => (MP.write h d).1, fun d op => ((dstep d op).st, (dstep d op).notified)⟩

/-- equality of HeaderSet views: same member list, same lookup set (a Python set: order-free) -/
def hsEq (a b : HS.St) : Bool :=
  decide (a.headers = b.headers) && a.set.all (b.set.contains ·) && b.set.all (a.set.contains ·)

def anyView {σ : Type} : σ → Bool := fun _ => true
def anyOp {σ ο : Type} : σ → ο → Bool := fun _ _ => true

/-! ## (i) coherence along every history -/

/-- Vary / Allow / Content-Language: for every history, under `HeaderSet.Inv` of the fetched views
and `hsOk` item assignments, the held HeaderSet view stays equal to the re-read property whenever it
is in sync; and the invariant is kept. -/
theorem view_coherent_set (name : Str) (evs : List (Ev HS.Op)) (s : S HS.St)
    (hI : HS.Inv s.v) (hs : s.synced = true → hsEq (SetView.load s.h name) s.v = true)
    (hok : okHist (setFamily name) hsEq (fun c => decide (HS.Inv c)) C08L.hsOk s evs = true) :
    HS.Inv (run (setFamily name) s evs).v ∧
    ((run (setFamily name) s evs).synced = true →
      hsEq (SetView.load (run (setFamily name) s evs).h name) (run (setFamily name) s evs).v = true) := by
  have := coherent (setFamily name) hsEq (fun c => decide (HS.Inv c)) C08L.hsOk
    (fun v op hv ha => by
      simp only [decide_eq_true_eq] at hv ⊢
      exact C08L.hs_inv_preserved v hv op ha)
    (fun v op hv _ hq => by
      simp only [decide_eq_true_eq] at hv
      exact hs_quiet v hv op hq)
    evs s (by simpa using hI) hs hok
  exact ⟨by simpa using this.1, this.2⟩

example : okHist (setFamily "Vary".toList) hsEq (fun c => decide (HS.Inv c)) C08L.hsOk
    ⟨[("Vary".toList, "Cookie".toList)], SetView.load [("Vary".toList, "Cookie".toList)] "Vary".toList, true⟩
    [.view (.remove "cookie".toList), .view (.add "Accept".toList), .edit (fun h => (Hdr.add h "X".toList "1".toList).1),
     .view (.update ["a b".toList, "ACCEPT".toList]), .refetch, .view (.setitem 0 "Origin".toList), .view .clear] = true := by
  decide +kernel

/-- every member of the view is a non-empty word of token characters -/
def tokenView (c : HS.St) : Bool := c.headers.all tokenWord

/-- a HeaderSet view whose members are token words re-reads equal after it wrote itself back -/
theorem set_view_roundtrip_tokens (h : HList) (name : Str) (c : HS.St) (hI : HS.Inv c)
    (ht : tokenView c = true) : hsEq (SetView.load (SetView.write h name c) name) c = true := by
  have hl : ∀ w ∈ c.headers, tokenWord w = true := List.all_eq_true.1 ht
  have hall : ∀ x ∈ c.headers, x.all tokCh = true := by
    intro x hx; have := hl x hx; simp only [tokenWord, Bool.and_eq_true] at this; exact this.2
  have hsets : ∀ (s : List Str), (∀ x, x ∈ s ↔ x ∈ c.set) →
      (s.all (c.set.contains ·) && c.set.all (s.contains ·)) = true := by
    intro s hs
    simp only [Bool.and_eq_true, List.all_eq_true, List.contains_iff_mem]
    exact ⟨fun x hx => (hs x).1 hx, fun x hx => (hs x).2 hx⟩
  cases he : c.set.isEmpty with
  | true =>
    have hset : c.set = [] := by simpa using he
    have hh : c.headers = [] := by
      cases hc : c.headers with
      | nil => rfl
      | cons w r =>
        have := (hI.2.2 (lower w)).2 (by rw [hc]; simp)
        rw [hset] at this; cases this
    have : SetView.load (SetView.write h name c) name = HS.construct [] := by
      simp only [SetView.write, he, if_true, SetView.load, absent_getKey]
    rw [this]
    simp [hsEq, HS.construct, hh, hset]
  | false =>
    have hne : c.headers ≠ [] := by
      intro e
      have : c.set = [] := by
        cases hs : c.set with
        | nil => rfl
        | cons x t =>
          have := (hI.2.2 x).1 (by rw [hs]; exact List.mem_cons_self)
          rw [e] at this; cases this
      simp [this] at he
    have hd := dump_tokens c.headers hl
    have hnl : hasNL (SetView.dump c) = false := by
      unfold SetView.dump; rw [hd]; exact intercalate_noNL _ hall
    have hnonempty : (SetView.dump c).isEmpty = false := by
      unfold SetView.dump; rw [hd]
      cases hc : c.headers with
      | nil => exact absurd hc hne
      | cons w r =>
        have hw : w ≠ [] := by
          intro e; have := hl w (by rw [hc]; exact List.mem_cons_self); subst e; simp [tokenWord] at this
        cases w with
        | nil => exact absurd rfl hw
        | cons ch t => cases r <;> simp [List.intercalate, List.intersperse]
    have : SetView.load (SetView.write h name c) name = HS.construct c.headers := by
      simp only [SetView.write, he, Bool.false_eq_true, if_false, SetView.load, set_getKey h name _ hnl, hnonempty]
      unfold SetView.dump
      rw [parseList_dumpList c.headers hl hne]
    rw [this]
    have hmem := (C08L.foldl_setAdd c.headers [] (by simp)).2
    simp only [hsEq, HS.construct, decide_true, Bool.true_and]
    apply hsets
    intro x
    rw [hmem x, hI.2.2 x]
    simp

/-- Vary / Allow / Content-Language with token-valued members (field names, methods, language
tags): coherence along EVERY history with no codec hypothesis — the round trip is proved
(`parseList_dumpList`). Side conditions left: fetched views satisfy `HeaderSet.Inv`, item
assignments do not collide (F08b/F08c), written views have token members. -/
theorem view_coherent_set_tokens (name : Str) (evs : List (Ev HS.Op)) (s : S HS.St)
    (hI : HS.Inv s.v) (hs : s.synced = true → hsEq (SetView.load s.h name) s.v = true)
    (hok : okHistGood (setFamily name) hsEq (fun c => decide (HS.Inv c)) C08L.hsOk tokenView s evs = true) :
    HS.Inv (run (setFamily name) s evs).v ∧
    ((run (setFamily name) s evs).synced = true →
      hsEq (SetView.load (run (setFamily name) s evs).h name) (run (setFamily name) s evs).v = true) := by
  apply view_coherent_set name evs s hI hs
  apply okHist_of_good (setFamily name) hsEq (fun c => decide (HS.Inv c)) C08L.hsOk tokenView _ _ evs s
    (by simpa using hI) hok
  · intro v op hv ha
    simp only [decide_eq_true_eq] at hv ⊢
    exact C08L.hs_inv_preserved v hv op ha
  · intro h v hv hg
    simp only [decide_eq_true_eq] at hv
    exact set_view_roundtrip_tokens h name v hv hg

example : okHistGood (setFamily "Vary".toList) hsEq (fun c => decide (HS.Inv c)) C08L.hsOk tokenView
    ⟨[], HS.construct [], true⟩
    [.view (.add "Cookie".toList), .view (.add "Accept-Encoding".toList), .view (.remove "cookie".toList),
     .edit (fun h => (Hdr.set h "Vary".toList "Origin, X-Foo".toList).1), .refetch,
     .view (.setitem 0 "User-Agent".toList), .view (.discard "x-foo".toList), .view .clear] = true := by
  decide +kernel

/-- cache_control: every typed directive assignment / deletion and every dict mutator -/
theorem view_coherent_cc (evs : List (Ev CC.Op)) (s : S ODict)
    (hs : s.synced = true → CC.load s.h = s.v) (hok : okHist ccFamily eqB anyView anyOp s evs = true) :
    (run ccFamily s evs).synced = true → CC.load (run ccFamily s evs).h = (run ccFamily s evs).v :=
  fun hsy => (eqB_iff _ _).1 ((coherent ccFamily eqB anyView anyOp (fun _ _ _ _ => rfl) (fun v op _ _ hq => cc_quiet v op hq) evs s rfl (fun h => (eqB_iff _ _).2 (hs h)) hok).2 hsy)

example : okHist ccFamily eqB anyView anyOp ⟨[], CC.load [], true⟩
    [.view (.attr "max-age".toList .int (.int 3600)), .view (.attr "no-store".toList .bool (.bool true)),
     .view (.attr "private".toList .str (.str "a b".toList)), .view (.delattr "no-store".toList),
     .edit (fun h => (Hdr.set h "Cache-Control".toList "public".toList).1), .refetch,
     .view (.dict (.pop "public".toList none))] = true := by
  decide +kernel

/-- content_security_policy / content_security_policy_report_only -/
theorem view_coherent_csp (name writeName : Str) (evs : List (Ev CSP.Op)) (s : S CSP.St)
    (hs : s.synced = true → CSP.load s.h name = s.v)
    (hok : okHist (cspFamily name writeName) eqB anyView anyOp s evs = true) :
    (run (cspFamily name writeName) s evs).synced = true →
      CSP.load (run (cspFamily name writeName) s evs).h name = (run (cspFamily name writeName) s evs).v :=
  fun hsy => (eqB_iff _ _).1 ((coherent (cspFamily name writeName) eqB anyView anyOp (fun _ _ _ _ => rfl)
    (fun v op _ _ hq => csp_quiet v op hq) evs s rfl (fun h => (eqB_iff _ _).2 (hs h)) hok).2 hsy)

example : okHist (cspFamily "content-security-policy".toList "Content-Security-Policy".toList) eqB anyView anyOp
    ⟨[], [], true⟩
    [.view (.attr "default-src".toList (some "'self'".toList)), .view (.attr "img-src".toList (some "* data:".toList)),
     .view (.delattr "default-src".toList), .refetch, .view (.dict .clear)] = true := by
  decide +kernel

/-- content_range (reading the property rewrites the header: `refetchH`) -/
theorem view_coherent_cr (evs : List (Ev CR.Op)) (s : S CR.St)
    (hs : s.synced = true → CR.load s.h = s.v) (hok : okHist crFamily eqB anyView anyOp s evs = true) :
    (run crFamily s evs).synced = true → CR.load (run crFamily s evs).h = (run crFamily s evs).v :=
  fun hsy => (eqB_iff _ _).1 ((coherent crFamily eqB anyView anyOp (fun _ _ _ _ => rfl) (fun v op _ _ hq => cr_quiet v op hq) evs s rfl (fun h => (eqB_iff _ _).2 (hs h)) hok).2 hsy)

example : okHist crFamily eqB anyView anyOp ⟨[], CR.empty, true⟩
    [.view (.set (some 0) (some 10) (some 100) (some "bytes".toList)), .view (.setLength none), .refetch,
     .view (.set (some 5) (some 2) none (some "bytes".toList)), .view .unset,
     .view (.set none none (some 0) (some "bytes".toList)), .refetch, .view (.setLength (some 7)),
     .view (.setLength (some 0)), .edit (fun h => (Hdr.set h "Content-Range".toList "items */0".toList).1), .refetch,
     .view (.setUnits (some "bytes".toList))] = true := by
  decide +kernel

/-- boundary value length 0 (only valid in the unsatisfied form): it is serialised as `0`, not `*`,
read back as 0, and the written view re-reads equal — for `set(None, None, 0)`, `length = 0` and a
header `bytes */0` read through the property -/
theorem cr_length_zero :
    (CR.toHeader ⟨some "bytes".toList, none, none, some 0⟩).toOption = some "bytes */0".toList ∧
    CR.parse "bytes */0".toList = some ⟨some "bytes".toList, none, none, some 0⟩ ∧
    CR.parse "bytes */*".toList = some ⟨some "bytes".toList, none, none, none⟩ ∧
    CR.load (CR.write [] ⟨some "bytes".toList, none, none, some 0⟩).1 = ⟨some "bytes".toList, none, none, some 0⟩ ∧
    (CR.step ⟨some "bytes".toList, none, none, some 7⟩ (.setLength (some 0))).st = ⟨some "bytes".toList, none, none, some 0⟩ ∧
    (CR.step CR.empty (.set none none (some 0) (some "bytes".toList))).st = ⟨some "bytes".toList, none, none, some 0⟩ ∧
    CR.valid (some 0) (some 1) (some 0) = false := by
  decide +kernel

/-- www_authenticate (as repaired: `type`, `token`, `parameters` reach their setters) -/
theorem view_coherent_auth (evs : List (Ev Auth.Op)) (s : S Auth.St)
    (hs : s.synced = true → Auth.load s.h = s.v) (hok : okHist authFamily eqB anyView anyOp s evs = true) :
    (run authFamily s evs).synced = true → Auth.load (run authFamily s evs).h = (run authFamily s evs).v :=
  fun hsy => (eqB_iff _ _).1 ((coherent authFamily eqB anyView anyOp (fun _ _ _ _ => rfl) (fun v op _ _ hq => auth_quiet v op hq) evs s rfl (fun h => (eqB_iff _ _).2 (hs h)) hok).2 hsy)

example : okHist authFamily eqB anyView anyOp ⟨[], Auth.default, true⟩
    [.view (.setitem "realm".toList (some "login area".toList)), .view (.setType "digest".toList),
     .view (.setitem "nonce".toList (some "abc".toList)), .view (.delitem "nonce".toList), .refetch,
     .edit (fun h => (Hdr.set h "WWW-Authenticate".toList "Bearer t0k".toList).1), .refetch,
     .view (.setToken (some "other".toList)), .view (.setType "token68".toList)] = true := by
  decide +kernel

/-- mimetype_params -/
theorem view_coherent_mp (evs : List (Ev (DOp Str))) (s : S MP.St)
    (hs : s.synced = true → MP.load s.h = s.v) (hok : okHist mpFamily eqB anyView anyOp s evs = true) :
    (run mpFamily s evs).synced = true → MP.load (run mpFamily s evs).h = (run mpFamily s evs).v :=
  fun hsy => (eqB_iff _ _).1 ((coherent mpFamily eqB anyView anyOp (fun _ _ _ _ => rfl) (fun v op _ _ hq => dstep_quiet v op hq) evs s rfl (fun h => (eqB_iff _ _).2 (hs h)) hok).2 hsy)

example : okHist mpFamily eqB anyView anyOp
    ⟨[("Content-Type".toList, "text/html; charset=utf-8".toList)],
     MP.load [("Content-Type".toList, "text/html; charset=utf-8".toList)], true⟩
    [.view (.setitem "charset".toList "latin-1".toList), .view (.setitem "boundary".toList "a b".toList),
     .view (.pop "charset".toList none), .refetch, .view .clear] = true := by
  decide +kernel

/-! ## (ii) an effective mutation rewrites the header from the view -/

/-- In every family a mutator that changes the view calls `on_update` (notification completeness:
`add` of a present member, `discard` of an absent one, deleting a missing parameter, a failing
`set` are exactly the calls that do not notify, and they leave the view unchanged). -/
theorem effective_mutation_notifies :
    (∀ (c : HS.St) (op : HS.Op), HS.Inv c → (HS.step c op).st ≠ c → (HS.step c op).notified = true) ∧
    (∀ (d : ODict) (op : CC.Op), (CC.step d op).st ≠ d → (CC.step d op).notified = true) ∧
    (∀ (d : CSP.St) (op : CSP.Op), (CSP.step d op).st ≠ d → (CSP.step d op).notified = true) ∧
    (∀ (c : CR.St) (op : CR.Op), (CR.step c op).st ≠ c → (CR.step c op).notified = true) ∧
    (∀ (c : Auth.St) (op : Auth.Op), (Auth.step c op).st ≠ c → (Auth.step c op).notified = true) ∧
    (∀ (d : MP.St) (op : DOp Str), (dstep d op).st ≠ d → (dstep d op).notified = true) := by
  refine ⟨?_, ?_, ?_, ?_, ?_, ?_⟩
  · intro c op hI hne
    cases h : (HS.step c op).notified with
    | true => rfl
    | false => exact absurd (hs_quiet c hI op h) hne
  · intro d op hne
    cases h : (CC.step d op).notified with
    | true => rfl
    | false => exact absurd (cc_quiet d op h) hne
  · intro d op hne
    cases h : (CSP.step d op).notified with
    | true => rfl
    | false => exact absurd (csp_quiet d op h) hne
  · intro c op hne
    cases h : (CR.step c op).notified with
    | true => rfl
    | false => exact absurd (cr_quiet c op h) hne
  · intro c op hne
    cases h : (Auth.step c op).notified with
    | true => rfl
    | false => exact absurd (auth_quiet c op h) hne
  · intro d op hne
    cases h : (dstep d op).notified with
    | true => rfl
    | false => exact absurd (dstep_quiet d op h) hne

/-- HeaderSet views: after `on_update` the header is absent when the view is empty, else it is the
single line `to_header()` -/
theorem view_text_set (h : HList) (name : Str) (c : HS.St) :
    (c.set.isEmpty = true → getlist (SetView.write h name c) name = []) ∧
    (c.set.isEmpty = false → hasNL (SetView.dump c) = false →
      getlist (SetView.write h name c) name = [SetView.dump c]) := by
  constructor
  · intro he; simp only [SetView.write, he, if_true]; exact absent_pattern h name
  · intro he hv
    simp only [SetView.write, he, Bool.false_eq_true, if_false]
    exact set_getlist h name _ hv

example : hasNL (SetView.dump (HS.construct ["Cookie".toList, "Accept Encoding".toList])) = false := by decide

/-- cache_control -/
theorem view_text_cc (h : HList) (d : ODict) :
    (d.isEmpty = true → getlist (CC.write h d) "cache-control".toList = []) ∧
    (d.isEmpty = false → hasNL (CC.dump d) = false →
      getlist (CC.write h d) "cache-control".toList = [CC.dump d]) := by
  constructor
  · intro he; simp only [CC.write, he, if_true]; exact absent_pattern h _
  · intro he hv
    simp only [CC.write, he, Bool.false_eq_true, if_false]
    exact set_getlist' h _ _ _ (by decide) hv

/-- content_security_policy (`name` is the lower-case header name used for deleting, `writeName`
the spelling used for setting) -/
theorem view_text_csp (h : HList) (name writeName : Str) (hk : lower name = lower writeName) (d : CSP.St) :
    (d.isEmpty = true → getlist (CSP.write h name writeName d) name = []) ∧
    (d.isEmpty = false → hasNL (CSP.dump d) = false →
      getlist (CSP.write h name writeName d) name = [CSP.dump d]) := by
  constructor
  · intro he; simp only [CSP.write, he, if_true]; exact delKey_getlist h name
  · intro he hv
    simp only [CSP.write, he, Bool.false_eq_true, if_false]
    exact set_getlist' h _ _ _ hk hv

example : lower "content-security-policy-report-only".toList = lower "Content-Security-policy-report-only".toList := by
  decide

/-- content_range: absent when unset, else the serialisation (when `to_header` succeeds) -/
theorem view_text_cr (h : HList) (c : CR.St) :
    (c.units = none → getlist (CR.write h c).1 "content-range".toList = []) ∧
    (∀ t, c.units ≠ none → CR.toHeader c = .ok t → hasNL t = false →
      getlist (CR.write h c).1 "content-range".toList = [t]) := by
  constructor
  · intro he; simp only [CR.write, he]; exact delKey_getlist h _
  · intro t hu ht hv
    cases hu' : c.units with
    | none => exact absurd hu' hu
    | some u =>
      simp only [CR.write, hu', ht]
      exact set_getlist' h _ _ _ (by decide) hv

/-- www_authenticate: the header is always the serialisation of the view -/
theorem view_text_auth (h : HList) (c : Auth.St) (hv : hasNL (Auth.toHeader c) = false) :
    getlist (Auth.write h c) "WWW-Authenticate".toList = [Auth.toHeader c] :=
  set_getlist h _ _ hv

/-! ## known findings: views for which the round trip (hence coherence) fails -/

/-- F16b: the full statement "every written view re-reads equal" is false for the WWW-Authenticate
view with neither token nor parameters: it is written as `Basic ` and re-read with token `""`. -/
theorem auth_roundtrip_full_false : ¬ (∀ (h : HList) (c : Auth.St), Auth.load (Auth.write h c) = c) := by
  intro h
  exact absurd (h [] Auth.default) (by decide +kernel)

/-- ... concretely `Response().www_authenticate.x = None` creates the header for an empty view -/
theorem auth_empty_view_header :
    (next authFamily ⟨[], Auth.default, true⟩ (.view (.setitem "x".toList none))).h
      = [("WWW-Authenticate".toList, "Basic ".toList)] := by
  decide +kernel

/-- F16c: a view holding a token *and* parameters: the header keeps only the token -/
theorem auth_token_with_params_drifts :
    Auth.load (Auth.write [] ⟨"basic".toList, [("realm".toList, some "x".toList)], some "xyz".toList⟩)
      ≠ ⟨"basic".toList, [("realm".toList, some "x".toList)], some "xyz".toList⟩ := by
  decide +kernel

/-- F16d: a ContentRange holding `stop` without `start` serialises as `bytes */*` -/
theorem cr_invalid_state_drifts :
    CR.load (CR.write [] ⟨some "bytes".toList, none, some 10, none⟩).1 ≠ ⟨some "bytes".toList, none, some 10, none⟩ := by
  decide +kernel

/-- F16f: parameters written without a mimetype become the whole Content-Type -/
theorem mp_without_mimetype_drifts :
    MP.load (MP.write [] [("charset".toList, "utf-8".toList)]).1 ≠ [("charset".toList, "utf-8".toList)] := by
  decide +kernel

/-- the regressions repaired by bc9f56a / 8064f72 / 78ff821 hold in the model: removing a Vary entry with
another letter case deletes the header; assigning `token` reaches the setter -/
theorem repaired_regressions :
    (next (setFamily "Vary".toList) ⟨[("Vary".toList, "Cookie".toList)],
        SetView.load [("Vary".toList, "Cookie".toList)] "Vary".toList, true⟩ (.view (.remove "cookie".toList))).h = [] ∧
    (next authFamily ⟨[], Auth.default, true⟩ (.view (.setToken (some "xyz".toList)))).h
      = [("WWW-Authenticate".toList, "Basic xyz".toList)] ∧
    -- F16e (repaired by 78ff821): `w.type = "Basic"` is stored lower-cased and re-reads equal
    (next authFamily ⟨[], ⟨"bearer".toList, [], some "abc".toList⟩, true⟩ (.view (.setType "Basic".toList))).v.type
      = "basic".toList ∧
    Auth.load (next authFamily ⟨[], ⟨"bearer".toList, [], some "abc".toList⟩, true⟩ (.view (.setType "Basic".toList))).h
      = (next authFamily ⟨[], ⟨"bearer".toList, [], some "abc".toList⟩, true⟩ (.view (.setType "Basic".toList))).v := by
  decide +kernel

/-! ## typed get / set of the scalar properties -/

/-- `_DictAccessorProperty`: after `response.<prop> = v` (stored text `dump v`, newline-free) the
getter returns `load (dump v)`, or the default when loading fails -/
theorem typed_get_set {τ : Type} (load : Str → Option τ) (dflt : Option τ) (h : HList) (name text : Str)
    (hv : hasNL text = false) :
    Scalar.get load dflt (Scalar.set h name text).1 name = (match load text with | some x => some x | none => dflt) := by
  have hg : getlist (Hdr.set h name text).1 name = [text] := set_getlist h name text hv
  have : getKey (Hdr.set h name text).1 name = .ok text := by
    simp only [getlist] at hg
    simp only [getKey]
    cases hf : (Hdr.set h name text).1.find? (keyEq name) with
    | none =>
      rw [List.find?_eq_none] at hf
      have : (Hdr.set h name text).1.filter (keyEq name) = [] := by
        rw [List.filter_eq_nil_iff]; intro a ha; exact hf a ha
      simp [this] at hg
    | some p =>
      have hp := List.find?_eq_some_iff_append.1 hf
      obtain ⟨hk, as, bs, hl, hnot⟩ := hp
      have hfa : as.filter (keyEq name) = [] := by
        rw [List.filter_eq_nil_iff]; intro a ha; simpa using hnot a ha
      rw [hl, List.filter_append, hfa, List.filter_cons] at hg
      simp only [hk, if_true, List.nil_append, List.map_cons] at hg
      have := (List.cons.inj hg).1
      simp [this]
  unfold Scalar.get Scalar.set
  rw [this]
  cases hl : load text <;> simp [hl]

/-- int-typed properties (content_length, access_control_max_age): the value read back is the int
that was assigned -/
theorem typed_get_set_int (h : HList) (name : Str) (i : Int) :
    Scalar.get CC.pyInt none (Scalar.set h name (CC.intText i)).1 name = some i := by
  rw [typed_get_set CC.pyInt none h name _ (intText_noNL i), pyInt_intText]

/-- str-typed properties (location, content_type, …): the text read back is the text assigned -/
theorem typed_get_set_str (h : HList) (name text : Str) (hv : hasNL text = false) :
    Scalar.get (fun s => some s) none (Scalar.set h name text).1 name = some text := by
  rw [typed_get_set _ none h name text hv]

/-- age: a non-negative count of seconds reads back as assigned (negative ones are refused by
`dump_age`, and a negative header text reads as None) -/
theorem typed_get_set_age (h : HList) (n : Nat) :
    Scalar.get Scalar.parseAge none (Scalar.set h "Age".toList (CC.natText n)).1 "Age".toList = some (n : Int) := by
  rw [typed_get_set Scalar.parseAge none h _ _ (natText_noNL n)]
  have hne : (CC.natText n).isEmpty = false := by
    obtain ⟨c, t, he, _⟩ := natText_head_digit n; rw [he]; rfl
  have hnn : ¬ ((n : Int) < 0) := by omega
  simp [Scalar.parseAge, hne, pyInt_natText, hnn]

/-- deleting a typed property makes the getter return the default -/
theorem typed_delete {τ : Type} (load : Str → Option τ) (dflt : Option τ) (h : HList) (name : Str) :
    Scalar.get load dflt (Scalar.delete h name) name = dflt := by
  simp only [Scalar.get, Scalar.delete, popKey]
  cases hg : getKey h name with
  | error e => simp [hg]
  | ok v =>
    simp only []
    have : getlist (delKey h name) name = [] := delKey_getlist h name
    have hk : getKey (delKey h name) name = .error "BadRequestKeyError" := by
      simp only [getKey]
      cases hf : (delKey h name).find? (keyEq name) with
      | none => rfl
      | some p =>
        have hm := List.mem_of_find?_eq_some hf
        have hkp := List.find?_some hf
        simp only [getlist] at this
        have : p ∈ (delKey h name).filter (keyEq name) := List.mem_filter.2 ⟨hm, hkp⟩
        simp_all
    simp [hk]

end Wz.Props.C16
