/- C16 property theorems (not written yet) -/
namespace Wz.Props.C16
end Wz.Props.C16
